#!/usr/bin/env python3
"""styled_translator_demo.py — re-runs the demonstration of the SOURCE TRANSLATOR tie for `PrimitiveStyle` and the styled
rectangle (tools/tr_styled.py; C06, C01, C02).

    python3 tools/tests/styled_translator_demo.py            # all cases, exit 0 iff every case behaves as recorded
    python3 tools/tests/styled_translator_demo.py --seeds    # instead: every seeded change under seeded/ whose patch touches
                                                             # one of the two translated files, expected to break a theorem

For each case a small edit is applied to the Rust text of a SCRATCH COPY of /repo's `src` and `core/src` trees
(/tmp/vw/styledgen-repo, removed at the end; /repo itself is never touched), the translator regenerates `StyledSrc.lean`
from it, and the theorems of lean/EG/Props/{C06,C01,C02}/Generated.lean and C01/GeneratedNext.lean are re-checked against the regenerated file.
Nothing inside the verif tree is written: the regenerated file and the recompiled .olean files live in a temp directory put
in front of LEAN_PATH (requires an up-to-date `lake build` of the three modules, which the script runs first).

  kind `mutation`  a semantic change: the listed theorem(s) must STOP building
  kind `harmless`  a rewrite that keeps the meaning: every theorem must still build
  kind `unknown`   a construct outside the translator's subset (or a target call whose `Result` is not propagated with `?`):
                   `translationFailed`, all theorems stop building
"""
import os
import re
import shutil
import subprocess
import sys
import tempfile

V = os.path.dirname(os.path.dirname(os.path.dirname(os.path.abspath(__file__))))
sys.path.insert(0, os.path.join(V, "tools"))
import tr_styled  # noqa: E402

REPO = os.environ.get("EG_REPO", "/repo")
LEAN = os.path.join(V, "lean")
P06 = os.path.join(LEAN, "EG", "Props", "C06", "Generated.lean")
P01 = os.path.join(LEAN, "EG", "Props", "C01", "Generated.lean")
P02 = os.path.join(LEAN, "EG", "Props", "C02", "Generated.lean")
P01N = os.path.join(LEAN, "EG", "Props", "C01", "GeneratedNext.lean")
SCRATCH = os.environ.get("STYLED_DEMO_SCRATCH", "/tmp/vw/styledgen-repo")
PS = "src/primitives/primitive_style.rs"
SR = "src/primitives/rectangle/styled.rs"

# seeded changes that only edit the UNTRANSLATED dotted-border code of rectangle/styled.rs (the `StrokeStyle::Dotted` block of
# `draw_styled` and the four free functions it calls: `StyledSrc.untranslated`): not seen by this tie, by construction
SEEDS_OUT_OF_SCOPE = {"C02-r3-3", "C04-r2-3", "C07-r4-1", "C08-2"}

# (name, kind, file, old text (or ("re", pattern)), new text, theorems expected to break (subset check))
CASES = [
    ("outside_stroke_width: Center takes the larger half", "mutation", PS,
     "StrokeAlignment::Center => self.stroke_width / 2,", "StrokeAlignment::Center => (self.stroke_width + 1) / 2,",
     ["outside_stroke_width_src_eq_model"]),
    ("inside_stroke_width: Center without the `+ 1`", "mutation", PS,
     "StrokeAlignment::Center => self.stroke_width.saturating_add(1) / 2,", "StrokeAlignment::Center => self.stroke_width / 2,",
     ["inside_stroke_width_src_eq_model"]),
    ("inside_stroke_width: Inside => 0", "mutation", PS,
     "StrokeAlignment::Inside => self.stroke_width,\n            StrokeAlignment::Center => self.stroke_width.saturating_add(1)",
     "StrokeAlignment::Inside => 0,\n            StrokeAlignment::Center => self.stroke_width.saturating_add(1)",
     ["inside_stroke_width_src_eq_model"]),
    ("is_transparent: `||` -> `&&`", "mutation", PS,
     "(self.stroke_color.is_none() || self.stroke_width == 0)", "(self.stroke_color.is_none() && self.stroke_width == 0)",
     ["is_transparent_src_eq_model"]),
    ("effective_stroke_color: `> 0` -> `> 1`", "mutation", PS,
     "self.stroke_color.filter(|_| self.stroke_width > 0)", "self.stroke_color.filter(|_| self.stroke_width > 1)",
     ["effective_stroke_color_src_eq_model"]),
    ("stroke_area: grown by the INSIDE part", "mutation", PS,
     "let offset = self.outside_stroke_width().saturating_as();\n\n        primitive.offset(offset)",
     "let offset = self.inside_stroke_width().saturating_as();\n\n        primitive.offset(offset)",
     ["stroke_area_src_eq_model"]),
    ("fill_area: the `-` dropped (grows instead of shrinking)", "mutation", PS,
     "-self.inside_stroke_width().saturating_as::<i32>()", "self.inside_stroke_width().saturating_as::<i32>()",
     ["fill_area_src_eq_model"]),
    ("fill_area: `== Solid` -> `!= Solid`", "mutation", PS,
     "let offset = if self.stroke_style == StrokeStyle::Solid {", "let offset = if self.stroke_style != StrokeStyle::Solid {",
     ["fill_area_src_eq_model", "fill_area_dotted_src"]),
    ("const_default: alignment Inside", "mutation", PS,
     "stroke_width: 0,\n            stroke_alignment: StrokeAlignment::Center,", "stroke_width: 0,\n            stroke_alignment: StrokeAlignment::Inside,",
     ["const_default_src_eq_model", "with_stroke_src_eq_model"]),
    ("builder: reset_fill_color resets the stroke colour", "mutation", PS,
     "self.style.fill_color = None;", "self.style.stroke_color = None;",
     ["builder_reset_fill_color_src_eq_model"]),
    ("builder: stroke_width setter adds one", "mutation", PS,
     "self.style.stroke_width = stroke_width;", "self.style.stroke_width = stroke_width + 1;",
     ["builder_stroke_width_src_eq_model", "builder_chain_src_eq_model"]),
    ("draw_styled: top border `height / 3`", "mutation", SR,
     "stroke_width.min(stroke_area.size.height / 2),", "stroke_width.min(stroke_area.size.height / 3),",
     ["draw_styled_src_eq_model"]),
    ("draw_styled: left border without the `+ 1`", "mutation", SR,
     "(stroke_width * 2).min(stroke_area.size.width + 1) / 2,", "(stroke_width * 2).min(stroke_area.size.width) / 2,",
     ["draw_styled_src_eq_model"]),
    ("draw_styled: bottom border drawn before the top border", "mutation", SR,
     "target.fill_solid(&top_border, stroke_color)?;\n            target.fill_solid(&bottom_border, stroke_color)?;",
     "target.fill_solid(&bottom_border, stroke_color)?;\n            target.fill_solid(&top_border, stroke_color)?;",
     ["draw_styled_src_eq_model"]),
    ("draw_styled: the fill covers the whole shape", "mutation", SR,
     "target.fill_solid(&fill_area, fill_color)?;", "target.fill_solid(self, fill_color)?;",
     ["draw_styled_src_eq_model", "src_styled_rect_exact"]),
    ("draw_styled: side borders when the STROKE area has rows", "mutation", SR,
     "if fill_area.size.height > 0 {", "if stroke_area.size.height > 0 {",
     ["draw_styled_src_eq_model"]),
    ("styled_bounding_box: grown by the whole width", "mutation", SR,
     "let offset = style.outside_stroke_width().saturating_as();", "let offset = style.stroke_width.saturating_as();",
     ["styled_bounding_box_src_eq_model"]),
    ("StyledPixelsIterator::new: transparency test negated", "mutation", SR,
     "let iter = if !style.is_transparent() {", "let iter = if style.is_transparent() {",
     ["StyledPixelsIterator_new_src_eq_model"]),
    ("StyledPixelsIterator::new: stores the effective stroke colour", "mutation", SR,
     "stroke_color: style.stroke_color,", "stroke_color: style.effective_stroke_color(),",
     ["StyledPixelsIterator_new_src_eq_model"]),
    ("StyledPixelsIterator: an override of `size_hint` added", "mutation", SR,
     "        None\n    }\n}\n\nimpl<C: PixelColor> StyledPixels",
     "        None\n    }\n\n    fn size_hint(&self) -> (usize, Option<usize>) {\n        (0, None)\n    }\n}\n\nimpl<C: PixelColor> StyledPixels",
     ["styled_untranslated_pinned"]),
    ("draw_styled: one more target call", "mutation", SR,
     "        Ok(())\n    }\n}\n\nimpl<C: PixelColor> StyledDimensions",
     "        target.fill_solid(&fill_area, stroke_color)?;\n        Ok(())\n    }\n}\n\nimpl<C: PixelColor> StyledDimensions",
     ["draw_styled_src_eq_model", "draw_styled_target_calls_pinned"]),
    ("StyledPixelsIterator::next: fill and stroke colour exchanged", "mutation", SR,
     "                self.fill_color\n            } else {\n                self.stroke_color\n",
     "                self.stroke_color\n            } else {\n                self.fill_color\n",
     ["StyledPixelsIterator_next_src_shape"]),
    ("StyledPixelsIterator::next: stops at the first colourless point", "mutation", SR,
     "                return Some(Pixel(point, color));\n            }\n",
     "                return Some(Pixel(point, color));\n            } else {\n                return None;\n            }\n",
     ["StyledPixelsIterator_next_src_shape"]),
    # harmless
    ("stroke_area: local renamed", "harmless", PS,
     "let offset = self.outside_stroke_width().saturating_as();\n\n        primitive.offset(offset)",
     "let grow = self.outside_stroke_width().saturating_as();\n\n        primitive.offset(grow)", []),
    ("effective_stroke_color: closure parameter named", "harmless", PS,
     "self.stroke_color.filter(|_| self.stroke_width > 0)", "self.stroke_color.filter(|_c| (self.stroke_width > 0))", []),
    ("with_fill: `..Self::const_default()`", "harmless", PS,
     "fill_color: Some(fill_color),\n            ..PrimitiveStyle::const_default()", "fill_color: Some(fill_color),\n            ..Self::const_default()", []),
    ("draw_styled: `top_border` renamed everywhere", "harmless", SR, ("re", r"\btop_border\b"), "top", []),
    ("draw_styled: two independent lets reordered", "harmless", SR,
     "        let stroke_width = style.stroke_width;\n        let stroke_area = style.stroke_area(self);\n",
     "        let stroke_area = style.stroke_area(self);\n        let stroke_width = style.stroke_width;\n", []),
    ("draw_styled: `if let` written as `match`", "harmless", SR,
     "        if let Some(fill_color) = style.fill_color {\n            target.fill_solid(&fill_area, fill_color)?;\n        }\n",
     "        match style.fill_color {\n            Some(fill_color) => {\n                target.fill_solid(&fill_area, fill_color)?;\n            }\n            None => {}\n        }\n", []),
    ("styled_bounding_box: local inlined away? no: block around the value", "harmless", SR,
     "let offset = style.outside_stroke_width().saturating_as();\n\n        self.bounding_box().offset(offset)",
     "let offset = { style.outside_stroke_width().saturating_as() };\n\n        self.bounding_box().offset(offset)", []),
    ("StyledPixelsIterator::new: struct fields reordered", "harmless", SR,
     "            fill_area: style.fill_area(primitive),\n            stroke_color: style.stroke_color,\n",
     "            stroke_color: style.stroke_color,\n            fill_area: style.fill_area(primitive),\n", []),
    # unknown constructs / shape
    ("inside_stroke_width: wrapping_add", "unknown", PS,
     "self.stroke_width.saturating_add(1) / 2", "self.stroke_width.wrapping_add(1) / 2", []),
    ("draw_styled: the Result of a target call is dropped (`let _ = ..;`)", "unknown", SR,
     "target.fill_solid(&top_border, stroke_color)?;", "let _ = target.fill_solid(&top_border, stroke_color);", []),
    ("draw_styled: a target call as the tail expression (no `?`)", "unknown", SR,
     "                target.fill_solid(&right_border, stroke_color)?;\n            }\n        }\n\n        Ok(())",
     "                target.fill_solid(&right_border, stroke_color)?;\n            }\n        }\n\n        target.fill_solid(&fill_area, stroke_color)", []),
    ("stroke_area: a `while` loop", "unknown", PS,
     "let offset = self.outside_stroke_width().saturating_as();\n\n        primitive.offset(offset)",
     "let offset = self.outside_stroke_width().saturating_as();\n        while false {}\n        primitive.offset(offset)", []),
]


def run(cmd, **kw):
    p = subprocess.run(cmd, stdout=subprocess.PIPE, stderr=subprocess.STDOUT, text=True, **kw)
    return p.returncode, p.stdout


def list_theorems(path):
    out = []
    for i, line in enumerate(open(path).read().splitlines(), 1):
        m = re.match(r"\s*theorem\s+(\S+)", line)
        if m:
            out.append((m.group(1), i))
    return out


def seed_cases():
    out = []
    sd = os.path.join(V, "seeded")
    for d in sorted(os.listdir(sd)):
        pf = os.path.join(sd, d, "patch.diff")
        if not os.path.exists(pf):
            continue
        txt = open(pf).read()
        if any(("+++ b/" + rel) in txt for rel in tr_styled.FILES.values()):
            out.append((f"seeded change {d}", "seed", pf, None, None, []))
    return out


def fresh_scratch():
    shutil.rmtree(SCRATCH, ignore_errors=True)
    os.makedirs(os.path.join(SCRATCH, "core"))
    shutil.copytree(os.path.join(REPO, "src"), os.path.join(SCRATCH, "src"))
    shutil.copytree(os.path.join(REPO, "core", "src"), os.path.join(SCRATCH, "core", "src"))


def broken_in(path, theorems, env, out_olean=None):
    cmd = ["lean", path]
    if out_olean:
        cmd += ["-o", out_olean]
    rc, out = run(cmd, env=env, cwd=LEAN)
    broken = set()
    for m in re.finditer(r":(\d+):\d+: error", out):
        ln = int(m.group(1))
        nm = None
        for (n, l) in theorems:
            if l <= ln:
                nm = n
        broken.add(nm or f"{os.path.basename(os.path.dirname(path))}/{os.path.basename(path)} line {ln}")
    if rc != 0 and not broken:
        broken.add(f"({os.path.basename(os.path.dirname(path))}/{os.path.basename(path)} does not build: {out.strip().splitlines()[0][:140] if out.strip() else rc})")
    return broken


def main():
    only = sys.argv[1:]
    cases = CASES
    if only and only[0] == "--seeds":
        only = only[1:]
        cases = seed_cases()
    rc, out = run(["lake", "build", "EG.Props.C06.Generated", "EG.Props.C01.Generated", "EG.Props.C02.Generated",
                   "EG.Props.C01.GeneratedNext"], cwd=LEAN)
    if rc != 0:
        print("the unchanged tree does not build the Generated modules:\n" + out[-2000:])
        return 2
    rc, lean_path = run(["lake", "env", "printenv", "LEAN_PATH"], cwd=LEAN)
    lean_path = lean_path.strip().splitlines()[-1]
    real = [d for d in lean_path.split(":") if os.path.isdir(os.path.join(d, "EG"))][0]
    tmp = tempfile.mkdtemp(prefix="styleddemo-")
    th6, th1, th2, th1n = list_theorems(P06), list_theorems(P01), list_theorems(P02), list_theorems(P01N)
    bad = 0
    counts = {}
    try:
        fresh_scratch()
        files, info = tr_styled.generate(SCRATCH)
        cur = open(os.path.join(LEAN, "EG", "Generated", "StyledSrc.lean")).read()
        print(f"baseline: {info.get('functions')} functions translated; identical to lean/EG/Generated/StyledSrc.lean: "
              f"{files['StyledSrc.lean'] == cur}")
        for idx, (name, kind, rel, old, new, expect) in enumerate(cases):
            if only and not any(o in name for o in only):
                continue
            fresh_scratch()
            if kind == "seed":
                rca, outa = run(["git", "apply", "--include=src/*", "--include=core/src/*", rel], cwd=SCRATCH)
                if rca != 0:
                    print(f"[{kind}] {name}: CANNOT APPLY the patch to /repo's sources ({outa.strip()[:160]})")
                    bad += 1
                    continue
            else:
                path = os.path.join(SCRATCH, rel)
                src = open(path).read()
                if isinstance(old, tuple):
                    new_src, n = re.subn(old[1], new, src)
                    if n == 0:
                        print(f"[{kind}] {name}: CANNOT APPLY (pattern not found): demo out of date")
                        bad += 1
                        continue
                    open(path, "w").write(new_src)
                else:
                    if src.count(old) != 1:
                        print(f"[{kind}] {name}: CANNOT APPLY (the text to replace occurs {src.count(old)} times): demo out of date")
                        bad += 1
                        continue
                    open(path, "w").write(src.replace(old, new))
            files, info = tr_styled.generate(SCRATCH)
            gen_dir = os.path.join(tmp, f"case{idx}")
            lib = os.path.join(gen_dir, "lib")
            os.makedirs(os.path.join(gen_dir, "src", "EG", "Generated"))
            os.makedirs(os.path.join(lib, "EG", "Generated"))
            os.makedirs(os.path.join(lib, "EG", "Props", "C06"))
            for e in os.listdir(os.path.join(real, "EG")):
                if e not in ("Generated", "Props"):
                    os.symlink(os.path.join(real, "EG", e), os.path.join(lib, "EG", e))
            for e in os.listdir(os.path.join(real, "EG", "Generated")):
                if not e.startswith("StyledSrc."):
                    os.symlink(os.path.join(real, "EG", "Generated", e), os.path.join(lib, "EG", "Generated", e))
            for e in os.listdir(os.path.join(real, "EG", "Props")):
                if e != "C06":
                    os.symlink(os.path.join(real, "EG", "Props", e), os.path.join(lib, "EG", "Props", e))
            for e in os.listdir(os.path.join(real, "EG", "Props", "C06")):
                if not e.startswith("Generated."):
                    os.symlink(os.path.join(real, "EG", "Props", "C06", e), os.path.join(lib, "EG", "Props", "C06", e))
            gsrc = os.path.join(gen_dir, "src", "EG", "Generated", "StyledSrc.lean")
            open(gsrc, "w").write(files["StyledSrc.lean"])
            env = dict(os.environ, LEAN_PATH=lean_path)
            rc1, out1 = run(["lean", "EG/Generated/StyledSrc.lean", "-o", os.path.join(lib, "EG", "Generated", "StyledSrc.olean")],
                            env=env, cwd=os.path.join(gen_dir, "src"))
            failed = "failed" in info
            broken = set()
            if rc1 != 0:
                broken.add("(generated file does not compile: " + out1.strip().splitlines()[0][:160] + ")")
            else:
                env2 = dict(os.environ, LEAN_PATH=lib + ":" + lean_path)
                o = os.path.join(lib, "EG", "Props", "C06", "Generated.olean")
                bb = broken_in(P06, th6, env2, o)
                broken |= bb
                if bb:
                    # in a real check C01 / C02's Generated.lean then do not build at all; to show what THEIR OWN theorems make
                    # of the change they are re-checked with the last good build of C06/Generated standing in for the import
                    if os.path.lexists(o):
                        os.remove(o)
                    os.symlink(os.path.join(real, "EG", "Props", "C06", "Generated.olean"), o)
                broken |= broken_in(P01, th1, env2)
                broken |= broken_in(P02, th2, env2)
                broken |= broken_in(P01N, th1n, env2)
            if kind == "mutation":
                ok = (not failed) and all(e in broken for e in expect)
            elif kind == "seed" and name.split()[-1] in SEEDS_OUT_OF_SCOPE:
                ok = not broken
                counts["out of scope (dotted code, untranslated)"] = counts.get("out of scope (dotted code, untranslated)", 0) + 1
            elif kind == "seed":
                ok = len(broken) > 0
                counts["refused" if failed else ("caught" if ok else "missed")] = counts.get("refused" if failed else ("caught" if ok else "missed"), 0) + 1
            elif kind == "harmless":
                ok = (not failed) and not broken
            else:
                ok = failed and len(broken) > 0
            bad += 0 if ok else 1
            print(f"[{kind}] {name}")
            if failed:
                print(f"      translator: translationFailed = {info['failed']}")
            print(f"      theorems that no longer build: {len(broken)}" + (": " + ", ".join(sorted(broken)[:8]) + (" ..." if len(broken) > 8 else "") if broken else " (all proofs survive)"))
            print(f"      {'as recorded' if ok else 'NOT AS RECORDED (expected ' + (', '.join(expect) if expect else kind) + ')'}")
    finally:
        shutil.rmtree(SCRATCH, ignore_errors=True)
        shutil.rmtree(tmp, ignore_errors=True)
    if counts:
        print("seeds:", counts)
    print("demo:", "all cases as recorded" if bad == 0 else f"{bad} case(s) differ")
    return 0 if bad == 0 else 1


if __name__ == "__main__":
    sys.exit(main())
