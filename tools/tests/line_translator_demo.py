#!/usr/bin/env python3
"""line_translator_demo.py — re-runs the demonstration of the SOURCE TRANSLATOR tie for the line code (tools/tr_linesrc.py).

    python3 tools/tests/line_translator_demo.py            # all cases, exit 0 iff every case behaves as recorded
    python3 tools/tests/line_translator_demo.py --seeds    # instead: every seeded change under seeded/ whose patch touches a
                                                           # translated file, expected to break a theorem

For each case a small edit is applied to the Rust text of a SCRATCH COPY of /repo's `src` and `core/src`
(/tmp/vw/linegen-repo, removed at the end; /repo itself is never touched, not even its .git), the translator
regenerates `LineSrc.lean` from it, and the theorems of lean/EG/Props/C17/GeneratedLine.lean are re-checked against the
regenerated file. Nothing inside the verif tree is written: the regenerated file and its .olean live in a temp directory
that is put in front of LEAN_PATH (requires an up-to-date `lake build EG.Props.C17.GeneratedLine`, which the script runs
first).

  kind `mutation`  a semantic change: the listed theorem(s) must STOP building
  kind `harmless`  a rewrite that keeps the meaning (renamed local, reordered independent lets, ...): every
                   theorem must still build
  kind `unknown`   a construct outside the translator's Rust subset: the translator must say so
                   (`translationFailed`), and the theorems must stop building (no silent skipping)
"""
import os
import re
import shutil
import subprocess
import sys
import tempfile

V = os.path.dirname(os.path.dirname(os.path.dirname(os.path.abspath(__file__))))
sys.path.insert(0, os.path.join(V, "tools"))
import tr_linesrc  # noqa: E402

REPO = os.environ.get("EG_REPO", "/repo")
LEAN = os.path.join(V, "lean")
PROPS = os.path.join(LEAN, "EG", "Props", "C17", "GeneratedLine.lean")
PROPS_THICK = os.path.join(LEAN, "EG", "Props", "C17", "GeneratedThick.lean")
TP = "src/primitives/line/thick_points.rs"
CM = "src/primitives/common/mod.rs"
GX = "src/geometry/mod.rs"
SCRATCH = "/tmp/vw/linegen-repo"
BR = "src/primitives/line/bresenham.rs"
PTS = "src/primitives/line/points.rs"
LM = "src/primitives/line/mod.rs"
PT = "core/src/geometry/point.rs"

NEXT_OLD = """        if self.error > parameters.error_threshold {
            self.point += parameters.position_step.minor;
            self.error -= parameters.error_step.minor;
        }

        let ret = self.point;
"""

# (name, kind, file, old text, new text, theorems expected to break (subset check))
CASES = [
    ("BresenhamParameters::new: ties count as x-major (`>=` -> `>`)", "mutation", BR,
     "let (delta, position_step) = if delta.y >= delta.x {", "let (delta, position_step) = if delta.y > delta.x {",
     ["BresenhamParameters_new_src_eq_model"]),
    ("BresenhamParameters::new: error threshold `delta.minor`", "mutation", BR,
     "error_threshold: delta.major,", "error_threshold: delta.minor,",
     ["BresenhamParameters_new_src_eq_model"]),
    ("BresenhamParameters::new: error steps swapped", "mutation", BR,
     "MajorMinor::new(2 * delta.minor, 2 * delta.major)", "MajorMinor::new(2 * delta.major, 2 * delta.minor)",
     ["BresenhamParameters_new_src_eq_model"]),
    ("BresenhamParameters::new: a zero delta counts as direction -1 (`>= 0` -> `> 0`)", "mutation", BR,
     "if delta.x >= 0 { 1 } else { -1 },", "if delta.x > 0 { 1 } else { -1 },",
     ["BresenhamParameters_new_src_eq_model"]),
    ("BresenhamParameters::new: y-major lines step along x (`y_axis` / `x_axis` exchanged in the first arm)", "mutation", BR,
     "MajorMinor::new(direction.y_axis(), direction.x_axis()),", "MajorMinor::new(direction.x_axis(), direction.y_axis()),",
     ["BresenhamParameters_new_src_eq_model"]),
    ("MajorMinor::new: fields exchanged", "mutation", BR,
     "Self { major, minor }", "Self { major: minor, minor: major }",
     ["MajorMinor_i32_new_src_eq_model", "MajorMinor_Point_new_src_eq_model"]),
    ("Bresenham::next: minor step taken at `>=`", "mutation", BR,
     "    pub fn next(&mut self, parameters: &BresenhamParameters) -> Point {\n        if self.error > parameters.error_threshold {",
     "    pub fn next(&mut self, parameters: &BresenhamParameters) -> Point {\n        if self.error >= parameters.error_threshold {",
     ["Bresenham_next_src_eq_model"]),
    ("Bresenham::next: the point is returned before the minor step", "mutation", BR,
     NEXT_OLD, "        let ret = self.point;\n\n" + NEXT_OLD.replace("\n        let ret = self.point;\n", ""),
     ["Bresenham_next_src_eq_model"]),
    ("Bresenham::next: the error is not reduced after a minor step", "mutation", BR,
     "            self.point += parameters.position_step.minor;\n            self.error -= parameters.error_step.minor;\n        }\n\n        let ret = self.point;",
     "            self.point += parameters.position_step.minor;\n        }\n\n        let ret = self.point;",
     ["Bresenham_next_src_eq_model"]),
    ("Bresenham::new: initial error 1", "mutation", BR,
     "Self::with_initial_error(start_point, 0)", "Self::with_initial_error(start_point, 1)",
     ["Bresenham_new_src_eq_model"]),
    ("Bresenham::next_all: extra points mirrored when `!mirror_extra_points()`", "mutation", BR,
     "            if parameters.mirror_extra_points() {\n                point += parameters.position_step.minor;",
     "            if !parameters.mirror_extra_points() {\n                point += parameters.position_step.minor;",
     ["Bresenham_next_all_src_eq_model"]),
    ("mirror_extra_points: `==` -> `!=` in the x-major arm", "mutation", BR,
     "self.position_step.major.x == self.position_step.minor.y", "self.position_step.major.x != self.position_step.minor.y",
     ["mirror_extra_points_src_eq_model"]),
    ("increase_error: threshold test `>=`", "mutation", BR,
     "        *error += self.error_step.major;\n        if *error > self.error_threshold {", "        *error += self.error_step.major;\n        if *error >= self.error_threshold {",
     ["increase_error_src_eq_model"]),
    ("decrease_error: the minor step is subtracted", "mutation", BR,
     "            *error += self.error_step.minor;", "            *error -= self.error_step.minor;",
     ["decrease_error_src_eq_model"]),
    ("major_length: `+ 1` dropped", "mutation", BR,
     "delta.x.max(delta.y) as u32 + 1", "delta.x.max(delta.y) as u32",
     ["major_length_src_eq_model"]),
    ("major_length: `min` for `max`", "mutation", BR,
     "delta.x.max(delta.y) as u32 + 1", "delta.x.min(delta.y) as u32 + 1",
     ["major_length_src_eq_model"]),
    ("Points::new: starts at `line.end`", "mutation", PTS,
     "let bresenham = Bresenham::new(line.start);", "let bresenham = Bresenham::new(line.end);",
     ["Points_new_src_eq_model"]),
    ("Points::next: `points_remaining` not decremented", "mutation", PTS,
     "            self.points_remaining -= 1;\n\n", "",
     ["Points_next_src_eq_model"]),
    ("Points::next: stops one point early (`> 1`)", "mutation", PTS,
     "if self.points_remaining > 0 {", "if self.points_remaining > 1 {",
     ["Points_next_src_eq_model"]),
    ("Points::empty: one point remaining", "mutation", PTS,
     "self_.points_remaining = 0;", "self_.points_remaining = 1;",
     ["Points_empty_src_eq_model"]),
    ("Points: an override of `Iterator::size_hint` added (no translated body changes)", "mutation", PTS,
     "            None\n        }\n    }\n}\n", "            None\n        }\n    }\n\n    fn size_hint(&self) -> (usize, Option<usize>) {\n        (0, None)\n    }\n}\n",
     ["line_untranslated_pinned"]),
    ("Line::perpendicular: rotated clockwise", "mutation", LM,
     "let delta = Point::new(delta.y, -delta.x);", "let delta = Point::new(-delta.y, delta.x);",
     ["Line_perpendicular_src_eq_model"]),
    ("Line::midpoint: rounds from the end point", "mutation", LM,
     "self.start + (self.end - self.start) / 2", "self.end + (self.start - self.end) / 2",
     ["Line_midpoint_src_eq_model"]),
    ("Line::delta: `start - end`", "mutation", LM,
     "    pub fn delta(&self) -> Point {\n        self.end - self.start", "    pub fn delta(&self) -> Point {\n        self.start - self.end",
     ["Line_delta_src_eq_model"]),
    ("Transform::translate: the end point is not moved", "mutation", LM,
     "            end: self.end + by,", "            end: self.end,",
     ["Line_translate_src_eq_model"]),
    ("Point `+=`: y is assigned the x sum (point.rs)", "mutation", PT,
     "    fn add_assign(&mut self, other: Point) {\n        self.x += other.x;\n        self.y += other.y;", "    fn add_assign(&mut self, other: Point) {\n        self.x += other.x;\n        self.y += other.x;",
     ["Point_add_assign_src_eq_model"]),
    ("Point::abs: y not made absolute (point.rs)", "mutation", PT,
     "Point::new(self.x.abs(), self.y.abs())", "Point::new(self.x.abs(), self.y)",
     ["Point_abs_src_eq_model"]),
    # harmless rewrites
    ("BresenhamParameters::new: locals renamed (`direction` -> `dir`, tuple names)", "harmless", BR,
     None, None, []),
    ("Bresenham::next: local `ret` renamed", "harmless", BR,
     "        let ret = self.point;\n\n        self.point += parameters.position_step.major;\n        self.error += parameters.error_step.major;\n\n        ret",
     "        let current = self.point;\n\n        self.point += parameters.position_step.major;\n        self.error += parameters.error_step.major;\n\n        current",
     []),
    ("Bresenham::next: the two independent updates reordered", "harmless", BR,
     "        self.point += parameters.position_step.major;\n        self.error += parameters.error_step.major;\n\n        ret",
     "        self.error += parameters.error_step.major;\n        self.point += parameters.position_step.major;\n\n        ret",
     []),
    ("Points::new: two independent `let`s reordered", "harmless", PTS,
     "        let length = bresenham::major_length(line);\n        let parameters = BresenhamParameters::new(line);",
     "        let parameters = BresenhamParameters::new(line);\n        let length = bresenham::major_length(line);",
     []),
    ("Points::next: condition negated and the arms exchanged", "harmless", PTS,
     "        if self.points_remaining > 0 {\n            self.points_remaining -= 1;\n\n            Some(self.bresenham.next(&self.parameters))\n        } else {\n            None\n        }",
     "        if !(self.points_remaining > 0) {\n            None\n        } else {\n            self.points_remaining -= 1;\n\n            Some(self.bresenham.next(&self.parameters))\n        }",
     []),
    ("Points::next: the point through a local; early `return None`", "harmless", PTS,
     "        if self.points_remaining > 0 {\n            self.points_remaining -= 1;\n\n            Some(self.bresenham.next(&self.parameters))\n        } else {\n            None\n        }",
     "        if self.points_remaining == 0 {\n            return None;\n        }\n        self.points_remaining -= 1;\n        let p = self.bresenham.next(&self.parameters);\n        Some(p)",
     []),
    ("increase_error: `+=` written out", "harmless", BR,
     "        *error += self.error_step.major;\n        if *error > self.error_threshold {", "        *error = *error + self.error_step.major;\n        if *error > self.error_threshold {",
     []),
    ("Line::perpendicular: `Line::new` written as a struct literal", "harmless", LM,
     "Line::new(self.start, self.start + delta)", "Line { start: self.start, end: self.start + delta }",
     []),
    ("major_length: extra parentheses and a block", "harmless", BR,
     "    delta.x.max(delta.y) as u32 + 1", "    { ((delta.x.max(delta.y)) as u32) + 1 }",
     []),
    # constructs outside the subset
    ("Bresenham::next: a `loop`", "unknown", BR,
     "        let ret = self.point;\n\n        self.point += parameters.position_step.major;", "        let ret = self.point;\n        loop { break; }\n\n        self.point += parameters.position_step.major;",
     []),
    ("major_length: a method the prelude does not know (`wrapping_add`)", "unknown", BR,
     "delta.x.max(delta.y) as u32 + 1", "(delta.x.max(delta.y) as u32).wrapping_add(1)",
     []),
    ("Points::next: `checked_sub` + `?`", "unknown", PTS,
     "            self.points_remaining -= 1;\n", "            self.points_remaining = self.points_remaining.checked_sub(1)?;\n",
     []),
]

RENAME_OLD = """        let direction = Point::new(
            if delta.x >= 0 { 1 } else { -1 },
            if delta.y >= 0 { 1 } else { -1 },
        );

        let delta = delta.abs();

        // Determine major and minor directions.
        let (delta, position_step) = if delta.y >= delta.x {
            (
                MajorMinor::new(delta.y, delta.x),
                MajorMinor::new(direction.y_axis(), direction.x_axis()),
            )
        } else {
            (
                MajorMinor::new(delta.x, delta.y),
                MajorMinor::new(direction.x_axis(), direction.y_axis()),
            )
        };

        Self {
            error_threshold: delta.major,
            error_step: MajorMinor::new(2 * delta.minor, 2 * delta.major),
            position_step,
        }"""
RENAME_NEW = """        let dir = Point::new(
            if delta.x >= 0 { 1 } else { -1 },
            if delta.y >= 0 { 1 } else { -1 },
        );

        let a = delta.abs();

        let (d, steps) = if a.y >= a.x {
            (
                MajorMinor::new(a.y, a.x),
                MajorMinor::new(dir.y_axis(), dir.x_axis()),
            )
        } else {
            (
                MajorMinor::new(a.x, a.y),
                MajorMinor::new(dir.x_axis(), dir.y_axis()),
            )
        };

        Self {
            error_threshold: d.major,
            error_step: MajorMinor::new(2 * d.minor, 2 * d.major),
            position_step: steps,
        }"""
CASES = [(n, k, f, RENAME_OLD if (o is None and k == "harmless") else o, RENAME_NEW if (o is None and k == "harmless") else w, e)
         for (n, k, f, o, w, e) in CASES]

# src/primitives/line/thick_points.rs (+ common/mod.rs, geometry/mod.rs) -> EG/Generated/ThickSrc.lean, theorems of GeneratedThick.lean
THICK_CASES = [
    ("next_parallel: the two sides' error variables exchanged", "mutation", TP,
     "            LineSide::Left => (&mut self.left_error, self.flip),\n            LineSide::Right => (&mut self.right_error, !self.flip),",
     "            LineSide::Left => (&mut self.right_error, self.flip),\n            LineSide::Right => (&mut self.left_error, !self.flip),",
     ["next_parallel_src_eq_model"]),
    ("next_parallel: `!self.flip` on the left side instead of the right", "mutation", TP,
     "            LineSide::Left => (&mut self.left_error, self.flip),\n            LineSide::Right => (&mut self.right_error, !self.flip),",
     "            LineSide::Left => (&mut self.left_error, !self.flip),\n            LineSide::Right => (&mut self.right_error, self.flip),",
     ["next_parallel_src_eq_model"]),
    ("next_parallel: the right side walks with `next_all`", "mutation", TP,
     "LineSide::Right => self.right.previous_all(&self.perpendicular_parameters),", "LineSide::Right => self.right.next_all(&self.perpendicular_parameters),",
     ["next_parallel_src_eq_model"]),
    ("next_parallel: the error AFTER the decrease is returned", "mutation", TP,
     "                            return (point, error_before_decrease);", "                            return (point, *error);",
     ["next_parallel_src_eq_model"]),
    ("next_parallel: the error is decreased when `!decrease_error`", "mutation", TP,
     "                    if decrease_error {", "                    if !decrease_error {",
     ["next_parallel_src_eq_model"]),
    ("ParallelsIterator::new: threshold without the factor 2 (`i64::from(thickness).pow(2)`)", "mutation", TP,
     "(i64::from(thickness) * 2).pow(2) * i64::from(line.delta().length_squared());", "i64::from(thickness).pow(2) * i64::from(line.delta().length_squared());",
     ["ParallelsIterator_new_src_eq_model"]),
    ("ParallelsIterator::new: accumulator starts at the full sum (no `/ 2`)", "mutation", TP,
     "(parallel_parameters.error_step.minor + parallel_parameters.error_step.major) / 2;", "parallel_parameters.error_step.minor + parallel_parameters.error_step.major;",
     ["ParallelsIterator_new_src_eq_model"]),
    ("ParallelsIterator::new: `flip` compares with `+major`", "mutation", TP,
     "            == -parallel_parameters.position_step.major;", "            == parallel_parameters.position_step.major;",
     ["ParallelsIterator_new_src_eq_model"]),
    ("ParallelsIterator::new: a centred stroke starts on the left", "mutation", TP,
     "            StrokeOffset::None => LineSide::Right,", "            StrokeOffset::None => LineSide::Left,",
     ["ParallelsIterator_new_src_eq_model"]),
    ("ParallelsIterator::new: the centre line is not skipped", "mutation", TP,
     "        self_.next_parallel(next_side.swap());\n", "",
     ["ParallelsIterator_new_src_eq_model"]),
    ("HORIZONTAL_LINE is two pixels long", "mutation", TP,
     "Line::new(Point::zero(), Point::new(1, 0));", "Line::new(Point::zero(), Point::new(2, 0));",
     ["HORIZONTAL_LINE_src_eq_model"]),
    ("ParallelsIterator::next: stops at `>=`", "mutation", TP,
     "if i64::from(self.thickness_accumulator).pow(2) > self.thickness_threshold {", "if i64::from(self.thickness_accumulator).pow(2) >= self.thickness_threshold {",
     ["ParallelsIterator_next_src_eq_model"]),
    ("ParallelsIterator::next: a Normal parallel adds the MAJOR error step", "mutation", TP,
     "                self.thickness_accumulator += self.perpendicular_parameters.error_step.minor;", "                self.thickness_accumulator += self.perpendicular_parameters.error_step.major;",
     ["ParallelsIterator_next_src_eq_model"]),
    ("ParallelsIterator::next: the side is swapped for offset strokes too", "mutation", TP,
     "        if self.stroke_offset == StrokeOffset::None {\n            self.next_side = self.next_side.swap();\n        }", "        self.next_side = self.next_side.swap();",
     ["ParallelsIterator_next_src_eq_model"]),
    ("ThickPoints::next: Extra parallels keep their full length", "mutation", TP,
     "                if line_type == ParallelLineType::Extra {\n                    self.parallel_points_remaining -= 1;\n                }\n", "",
     ["ThickPoints_next_src_eq_model"]),
    ("ThickPoints::next: Normal parallels are shortened instead", "mutation", TP,
     "                if line_type == ParallelLineType::Extra {\n                    self.parallel_points_remaining -= 1;", "                if line_type == ParallelLineType::Normal {\n                    self.parallel_points_remaining -= 1;",
     ["ThickPoints_next_src_eq_model"]),
    ("ThickPoints::new: starts with one point remaining", "mutation", TP,
     "            parallel_points_remaining: 0,", "            parallel_points_remaining: 1,",
     ["ThickPoints_new_src_eq_model"]),
    ("LineSide::swap is the identity (common/mod.rs)", "mutation", CM,
     "            Self::Left => Self::Right,\n            Self::Right => Self::Left,", "            Self::Left => Self::Left,\n            Self::Right => Self::Right,",
     ["LineSide_swap_src_eq_model"]),
    ("length_squared: `x^2 + y` (geometry/mod.rs)", "mutation", GX,
     "self.x.pow(2) + self.y.pow(2)", "self.x.pow(2) + self.y",
     ["length_squared_src_eq_model"]),
    ("ParallelsIterator: an override of `Iterator::last` added (no translated body changes)", "mutation", TP,
     "        Some(ret)\n    }\n}\n", "        Some(ret)\n    }\n\n    fn last(self) -> Option<Self::Item> {\n        None\n    }\n}\n",
     ["thick_untranslated_pinned"]),
    ("next_parallel: locals renamed (`error` -> `err`, `point` -> `pt`)", "harmless", TP, None, None, []),
    ("ParallelsIterator::next: `return None` written as `if .. else`-free early return with a local", "harmless", TP,
     "        if i64::from(self.thickness_accumulator).pow(2) > self.thickness_threshold {\n            return None;\n        }",
     "        let acc = i64::from(self.thickness_accumulator);\n        if acc.pow(2) > self.thickness_threshold {\n            return None;\n        }",
     []),
    ("ParallelsIterator::new: two independent `let`s reordered", "harmless", TP,
     "        let parallel_parameters = BresenhamParameters::new(line);\n        let perpendicular_parameters = BresenhamParameters::new(&line.perpendicular());",
     "        let perpendicular_parameters = BresenhamParameters::new(&line.perpendicular());\n        let parallel_parameters = BresenhamParameters::new(line);",
     []),
    ("ThickPoints::next: the length through a local", "harmless", TP,
     "                self.parallel_points_remaining = self.parallel_length;", "                let len = self.parallel_length;\n                self.parallel_points_remaining = len;",
     []),
    ("ParallelsIterator::new: `next_side` by `if` on equality instead of `match`", "harmless", TP,
     "        let next_side = match stroke_offset {\n            StrokeOffset::None => LineSide::Right,\n            StrokeOffset::Left => LineSide::Left,\n            StrokeOffset::Right => LineSide::Right,\n        };",
     "        let next_side = if stroke_offset == StrokeOffset::Left {\n            LineSide::Left\n        } else {\n            LineSide::Right\n        };",
     []),
    ("next_parallel: a `while let` loop", "unknown", TP,
     "        loop {\n            let point = match side {", "        while let Some(_x) = Some(1) {\n            let point = match side {",
     []),
    ("ThickPoints::next: `break` out of the loop", "unknown", TP,
     "                self.parallel_points_remaining = self.parallel_length;", "                self.parallel_points_remaining = self.parallel_length;\n                if self.parallel_length == 0 { break; }",
     []),
    ("ParallelsIterator::new: a method the prelude does not know (`saturating_pow`)", "unknown", TP,
     "(i64::from(thickness) * 2).pow(2)", "(i64::from(thickness) * 2).saturating_pow(2)",
     []),
]
NP_OLD = """        let (error, decrease_error) = match side {
            LineSide::Left => (&mut self.left_error, self.flip),
            LineSide::Right => (&mut self.right_error, !self.flip),
        };

        loop {
            let point = match side {
                LineSide::Left => self.left.next_all(&self.perpendicular_parameters),
                LineSide::Right => self.right.previous_all(&self.perpendicular_parameters),
            };

            match point {
                BresenhamPoint::Normal(_) => {
                    return (point, *error);
                }
                BresenhamPoint::Extra(_) => {
                    if decrease_error {
                        let error_before_decrease = *error;

                        if self.parallel_parameters.decrease_error(error) {
                            return (point, error_before_decrease);
                        }
                    } else if self.parallel_parameters.increase_error(error) {
                        return (point, *error);
                    };
                }
            }
        }"""
NP_NEW = NP_OLD.replace("error_before_decrease", "before").replace("decrease_error {", "dec {").replace("(error, decrease_error)", "(err, dec)") \
    .replace("*error", "*err").replace("decrease_error(error)", "decrease_error(err)").replace("increase_error(error)", "increase_error(err)") \
    .replace("let point =", "let pt =").replace("match point {", "match pt {").replace("(point,", "(pt,")
THICK_CASES = [(n, k, f, NP_OLD if o is None else o, NP_NEW if o is None else w, e) for (n, k, f, o, w, e) in THICK_CASES]
CASES = CASES + THICK_CASES


def run(cmd, **kw):
    p = subprocess.run(cmd, stdout=subprocess.PIPE, stderr=subprocess.STDOUT, text=True, **kw)
    return p.returncode, p.stdout


def list_theorems(path):
    """(name, first line): the first line is that of the doc comment in front of the declaration, if any (Lean reports some
    errors at the start of the whole declaration)"""
    out = []
    doc = None
    for i, line in enumerate(open(path).read().splitlines(), 1):
        if line.startswith("/--"):
            doc = i
        m = re.match(r"(?:theorem|example)\s*(\S*)", line)
        if m:
            out.append((m.group(1) if line.startswith("theorem") else f"example@{i}", doc or i))
        if re.match(r"(theorem|example|def|macro|abbrev|instance)\b", line):
            doc = None
    return out


def fresh_scratch():
    shutil.rmtree(SCRATCH, ignore_errors=True)
    os.makedirs(os.path.join(SCRATCH, "core"))
    shutil.copytree(os.path.join(REPO, "src"), os.path.join(SCRATCH, "src"))
    shutil.copytree(os.path.join(REPO, "core", "src"), os.path.join(SCRATCH, "core", "src"))


# seeded changes that touch a translated file but change only WHERE an `i32` computation overflows: the prelude's `+ - * pow`
# are the mathematical operations (as in every model; overflow is C08's topic), so the regenerated definition is provably
# the same function and the proof tie cannot see them
SEEDS_OUT_OF_SCOPE = {
    "C08-r2-2": "squares the accumulator in `i32` before widening (`i64::from(acc.pow(2))`): differs from the original only by an i32 overflow",
    "C17-r2-2": "the same patch as C08-r2-2",
}


def seed_cases():
    out = []
    sd = os.path.join(V, "seeded")
    for d in sorted(os.listdir(sd)):
        pf = os.path.join(sd, d, "patch.diff")
        if not os.path.exists(pf):
            continue
        txt = open(pf).read()
        if any(("+++ b/" + rel) in txt for rel in list(tr_linesrc.FILES.values()) + list(tr_linesrc.THICK_FILES.values())):
            out.append((f"seeded change {d}", "seed", pf, None, None, []))
    return out


def main():
    only = sys.argv[1:]
    cases = CASES
    if only and only[0] == "--seeds":
        only = only[1:]
        cases = seed_cases()
    rc, out = run(["lake", "build", "EG.Props.C17.GeneratedLine", "EG.Props.C17.GeneratedThick"], cwd=LEAN)
    if rc != 0:
        print("the unchanged tree does not build EG.Props.C17.GeneratedLine / GeneratedThick:\n" + out[-2000:])
        return 2
    rc, lean_path = run(["lake", "env", "printenv", "LEAN_PATH"], cwd=LEAN)
    lean_path = lean_path.strip().splitlines()[-1]
    real = [d for d in lean_path.split(":") if os.path.isdir(os.path.join(d, "EG"))][0]
    tmp = tempfile.mkdtemp(prefix="linedemo-")
    os.makedirs("/tmp/vw", exist_ok=True)
    theorems = list_theorems(PROPS)
    theorems_thick = list_theorems(PROPS_THICK)
    bad = 0
    counts = {}
    try:
        fresh_scratch()
        files, info = tr_linesrc.generate(SCRATCH)
        baseline = files
        cur = open(os.path.join(LEAN, "EG", "Generated", "LineSrc.lean")).read()
        cur_t = open(os.path.join(LEAN, "EG", "Generated", "ThickSrc.lean")).read()
        same0 = files["LineSrc.lean"] == cur and files["ThickSrc.lean"] == cur_t
        print(f"baseline: {info.get('functions')} + {info.get('thick', {}).get('functions')} functions translated; identical to lean/EG/Generated/LineSrc.lean / ThickSrc.lean: {same0}")
        if not same0:
            bad += 1
        for idx, (name, kind, rel, old, new, expect) in enumerate(cases):
            if only and not any(o in name for o in only):
                continue
            fresh_scratch()
            if kind == "seed":
                rca, outa = run(["git", "apply", "--include=src/*", "--include=core/src/*", rel], cwd=SCRATCH)
                if rca != 0:
                    print(f"[{kind}] {name}: CANNOT APPLY the patch ({outa.strip()[:160]})")
                    bad += 1
                    continue
            else:
                path = os.path.join(SCRATCH, rel)
                src = open(path).read()
                if src.count(old) != 1:
                    print(f"[{kind}] {name}: CANNOT APPLY (the text to replace occurs {src.count(old)} times): demo out of date")
                    bad += 1
                    continue
                open(path, "w").write(src.replace(old, new))
            files, info = tr_linesrc.generate(SCRATCH)
            failed = "failed" in info or "thick_failed" in info
            line_same = files["LineSrc.lean"] == baseline["LineSrc.lean"]
            thick_same = files["ThickSrc.lean"] == baseline["ThickSrc.lean"]
            gen_dir = os.path.join(tmp, f"case{idx}")
            os.makedirs(os.path.join(gen_dir, "src", "EG", "Generated"))
            os.makedirs(os.path.join(gen_dir, "lib", "EG", "Generated"))
            for e in os.listdir(os.path.join(real, "EG")):
                if e != "Generated":
                    os.symlink(os.path.join(real, "EG", e), os.path.join(gen_dir, "lib", "EG", e))
            for e in os.listdir(os.path.join(real, "EG", "Generated")):
                if not ((e.startswith("LineSrc.") and not line_same) or (e.startswith("ThickSrc.") and not (line_same and thick_same))):
                    os.symlink(os.path.join(real, "EG", "Generated", e), os.path.join(gen_dir, "lib", "EG", "Generated", e))
            broken = set()
            env = dict(os.environ, LEAN_PATH=os.path.join(gen_dir, "lib") + ":" + lean_path)

            def compile_gen(gname):
                open(os.path.join(gen_dir, "src", "EG", "Generated", gname + ".lean"), "w").write(files[gname + ".lean"])
                rc1, out1 = run(["lean", f"EG/Generated/{gname}.lean", "-o", os.path.join(gen_dir, "lib", "EG", "Generated", gname + ".olean"),
                                 "-i", os.path.join(gen_dir, "lib", "EG", "Generated", gname + ".ilean")], env=env, cwd=os.path.join(gen_dir, "src"))
                if rc1 != 0:
                    broken.add(f"({gname}.lean does not compile: " + out1.strip().splitlines()[0][:160] + ")")
                return rc1 == 0

            def check_props(pf, ths):
                rc2, out2 = run(["lean", pf], env=env, cwd=LEAN)
                for m in re.finditer(r":(\d+):\d+: error", out2):
                    ln = int(m.group(1))
                    nm = None
                    for (n, l) in ths:
                        if l <= ln:
                            nm = n
                    broken.add(nm or f"{os.path.basename(pf)} line {ln}")

            # the thin-line theorems against a regenerated LineSrc; the thick-line theorems against a regenerated ThickSrc when
            # LineSrc is unchanged (GeneratedThick.lean imports the compiled thin-line theorems, which are about the unchanged LineSrc)
            if not line_same:
                if compile_gen("LineSrc"):
                    check_props(PROPS, theorems)
            elif not thick_same:
                if compile_gen("ThickSrc"):
                    check_props(PROPS_THICK, theorems_thick)
            if kind == "mutation":
                ok = (not failed) and all(e in broken for e in expect) and len(broken) > 0
            elif kind == "seed":
                ok = len(broken) > 0        # caught: a theorem broke (or the translator refused, which breaks all)
                oos = [r for k, r in SEEDS_OUT_OF_SCOPE.items() if name.endswith(" " + k)]
                if oos:
                    ok = not broken
                    name += f"\n      (out of scope, expected to survive: {oos[0]})"
                counts["refused" if failed else ("theorem" if broken else "missed")] = counts.get("refused" if failed else ("theorem" if broken else "missed"), 0) + 1
            elif kind == "harmless":
                ok = (not failed) and not broken
            else:
                ok = failed and len(broken) > 0
            bad += 0 if ok else 1
            print(f"[{kind}] {name}")
            if failed:
                print(f"      translator: translationFailed = {info.get('failed') or info.get('thick_failed')}")
            print(f"      theorems that no longer build: {len(broken)}" + (": " + ", ".join(sorted(broken)[:8]) + (" ..." if len(broken) > 8 else "") if broken else " (all proofs survive)"))
            print(f"      {'as recorded' if ok else 'NOT AS RECORDED (expected ' + (', '.join(expect) if expect else kind) + ')'}")
    finally:
        shutil.rmtree(SCRATCH, ignore_errors=True)
        shutil.rmtree(tmp, ignore_errors=True)
    if counts:
        print("seeds:", counts)
    print("demo:", "all cases as recorded" if bad == 0 else f"{bad} case(s) differ")
    return 0 if bad == 0 else 1


if __name__ == "__main__":
    sys.exit(main())
