#!/usr/bin/env python3
"""line_translator_demo.py — re-runs the demonstration of the SOURCE TRANSLATOR tie for the line code (tools/tr_linesrc.py).

    python3 tools/tests/line_translator_demo.py            # all cases, exit 0 iff every case behaves as recorded
    python3 tools/tests/line_translator_demo.py --seeds    # instead: every seeded change under seeded/ whose patch touches a
                                                           # translated file, expected to break a theorem

For each case a small edit is applied to the Rust text of a SCRATCH COPY of /repo's `src` and `core/src`
(/tmp/vw/linegen-repo, removed at the end; /repo itself is never touched, not even its .git), the translator
regenerates `LineSrc.lean` from it, and the theorems of lean/EG/Props/C17/GeneratedLine.lean are re-checked against the
regenerated file. Nothing inside the verif tree is written: the regenerated file and its .olean live in a temp directory
that is put in front of LEAN_PATH (requires an up-to-date `lake build EG.Props.C17.GeneratedLine`, which the script runs
first).

  kind `mutation`  a semantic change: the listed theorem(s) must STOP building
  kind `harmless`  a rewrite that keeps the meaning (renamed local, reordered independent lets, ...): every
                   theorem must still build
  kind `unknown`   a construct outside the translator's Rust subset: the translator must say so
                   (`translationFailed`), and the theorems must stop building (no silent skipping)
"""
import os
import re
import shutil
import subprocess
import sys
import tempfile

V = os.path.dirname(os.path.dirname(os.path.dirname(os.path.abspath(__file__))))
sys.path.insert(0, os.path.join(V, "tools"))
import tr_linesrc  # noqa: E402

REPO = os.environ.get("EG_REPO", "/repo")
LEAN = os.path.join(V, "lean")
PROPS = os.path.join(LEAN, "EG", "Props", "C17", "GeneratedLine.lean")
SCRATCH = "/tmp/vw/linegen-repo"
BR = "src/primitives/line/bresenham.rs"
PTS = "src/primitives/line/points.rs"
LM = "src/primitives/line/mod.rs"
PT = "core/src/geometry/point.rs"

NEXT_OLD = """        if self.error > parameters.error_threshold {
            self.point += parameters.position_step.minor;
            self.error -= parameters.error_step.minor;
        }

        let ret = self.point;
"""

# (name, kind, file, old text, new text, theorems expected to break (subset check))
CASES = [
    ("BresenhamParameters::new: ties count as x-major (`>=` -> `>`)", "mutation", BR,
     "let (delta, position_step) = if delta.y >= delta.x {", "let (delta, position_step) = if delta.y > delta.x {",
     ["BresenhamParameters_new_src_eq_model"]),
    ("BresenhamParameters::new: error threshold `delta.minor`", "mutation", BR,
     "error_threshold: delta.major,", "error_threshold: delta.minor,",
     ["BresenhamParameters_new_src_eq_model"]),
    ("BresenhamParameters::new: error steps swapped", "mutation", BR,
     "MajorMinor::new(2 * delta.minor, 2 * delta.major)", "MajorMinor::new(2 * delta.major, 2 * delta.minor)",
     ["BresenhamParameters_new_src_eq_model"]),
    ("BresenhamParameters::new: a zero delta counts as direction -1 (`>= 0` -> `> 0`)", "mutation", BR,
     "if delta.x >= 0 { 1 } else { -1 },", "if delta.x > 0 { 1 } else { -1 },",
     ["BresenhamParameters_new_src_eq_model"]),
    ("BresenhamParameters::new: y-major lines step along x (`y_axis` / `x_axis` exchanged in the first arm)", "mutation", BR,
     "MajorMinor::new(direction.y_axis(), direction.x_axis()),", "MajorMinor::new(direction.x_axis(), direction.y_axis()),",
     ["BresenhamParameters_new_src_eq_model"]),
    ("MajorMinor::new: fields exchanged", "mutation", BR,
     "Self { major, minor }", "Self { major: minor, minor: major }",
     ["MajorMinor_i32_new_src_eq_model", "MajorMinor_Point_new_src_eq_model"]),
    ("Bresenham::next: minor step taken at `>=`", "mutation", BR,
     "    pub fn next(&mut self, parameters: &BresenhamParameters) -> Point {\n        if self.error > parameters.error_threshold {",
     "    pub fn next(&mut self, parameters: &BresenhamParameters) -> Point {\n        if self.error >= parameters.error_threshold {",
     ["Bresenham_next_src_eq_model"]),
    ("Bresenham::next: the point is returned before the minor step", "mutation", BR,
     NEXT_OLD, "        let ret = self.point;\n\n" + NEXT_OLD.replace("\n        let ret = self.point;\n", ""),
     ["Bresenham_next_src_eq_model"]),
    ("Bresenham::next: the error is not reduced after a minor step", "mutation", BR,
     "            self.point += parameters.position_step.minor;\n            self.error -= parameters.error_step.minor;\n        }\n\n        let ret = self.point;",
     "            self.point += parameters.position_step.minor;\n        }\n\n        let ret = self.point;",
     ["Bresenham_next_src_eq_model"]),
    ("Bresenham::new: initial error 1", "mutation", BR,
     "Self::with_initial_error(start_point, 0)", "Self::with_initial_error(start_point, 1)",
     ["Bresenham_new_src_eq_model"]),
    ("Bresenham::next_all: extra points mirrored when `!mirror_extra_points()`", "mutation", BR,
     "            if parameters.mirror_extra_points() {\n                point += parameters.position_step.minor;",
     "            if !parameters.mirror_extra_points() {\n                point += parameters.position_step.minor;",
     ["Bresenham_next_all_src_eq_model"]),
    ("mirror_extra_points: `==` -> `!=` in the x-major arm", "mutation", BR,
     "self.position_step.major.x == self.position_step.minor.y", "self.position_step.major.x != self.position_step.minor.y",
     ["mirror_extra_points_src_eq_model"]),
    ("increase_error: threshold test `>=`", "mutation", BR,
     "        *error += self.error_step.major;\n        if *error > self.error_threshold {", "        *error += self.error_step.major;\n        if *error >= self.error_threshold {",
     ["increase_error_src_eq_model"]),
    ("decrease_error: the minor step is subtracted", "mutation", BR,
     "            *error += self.error_step.minor;", "            *error -= self.error_step.minor;",
     ["decrease_error_src_eq_model"]),
    ("major_length: `+ 1` dropped", "mutation", BR,
     "delta.x.max(delta.y) as u32 + 1", "delta.x.max(delta.y) as u32",
     ["major_length_src_eq_model"]),
    ("major_length: `min` for `max`", "mutation", BR,
     "delta.x.max(delta.y) as u32 + 1", "delta.x.min(delta.y) as u32 + 1",
     ["major_length_src_eq_model"]),
    ("Points::new: starts at `line.end`", "mutation", PTS,
     "let bresenham = Bresenham::new(line.start);", "let bresenham = Bresenham::new(line.end);",
     ["Points_new_src_eq_model"]),
    ("Points::next: `points_remaining` not decremented", "mutation", PTS,
     "            self.points_remaining -= 1;\n\n", "",
     ["Points_next_src_eq_model"]),
    ("Points::next: stops one point early (`> 1`)", "mutation", PTS,
     "if self.points_remaining > 0 {", "if self.points_remaining > 1 {",
     ["Points_next_src_eq_model"]),
    ("Points::empty: one point remaining", "mutation", PTS,
     "self_.points_remaining = 0;", "self_.points_remaining = 1;",
     ["Points_empty_src_eq_model"]),
    ("Points: an override of `Iterator::size_hint` added (no translated body changes)", "mutation", PTS,
     "            None\n        }\n    }\n}\n", "            None\n        }\n    }\n\n    fn size_hint(&self) -> (usize, Option<usize>) {\n        (0, None)\n    }\n}\n",
     ["line_untranslated_pinned"]),
    ("Line::perpendicular: rotated clockwise", "mutation", LM,
     "let delta = Point::new(delta.y, -delta.x);", "let delta = Point::new(-delta.y, delta.x);",
     ["Line_perpendicular_src_eq_model"]),
    ("Line::midpoint: rounds from the end point", "mutation", LM,
     "self.start + (self.end - self.start) / 2", "self.end + (self.start - self.end) / 2",
     ["Line_midpoint_src_eq_model"]),
    ("Line::delta: `start - end`", "mutation", LM,
     "    pub fn delta(&self) -> Point {\n        self.end - self.start", "    pub fn delta(&self) -> Point {\n        self.start - self.end",
     ["Line_delta_src_eq_model"]),
    ("Transform::translate: the end point is not moved", "mutation", LM,
     "            end: self.end + by,", "            end: self.end,",
     ["Line_translate_src_eq_model"]),
    ("Point `+=`: y is assigned the x sum (point.rs)", "mutation", PT,
     "    fn add_assign(&mut self, other: Point) {\n        self.x += other.x;\n        self.y += other.y;", "    fn add_assign(&mut self, other: Point) {\n        self.x += other.x;\n        self.y += other.x;",
     ["Point_add_assign_src_eq_model"]),
    ("Point::abs: y not made absolute (point.rs)", "mutation", PT,
     "Point::new(self.x.abs(), self.y.abs())", "Point::new(self.x.abs(), self.y)",
     ["Point_abs_src_eq_model"]),
    # harmless rewrites
    ("BresenhamParameters::new: locals renamed (`direction` -> `dir`, tuple names)", "harmless", BR,
     None, None, []),
    ("Bresenham::next: local `ret` renamed", "harmless", BR,
     "        let ret = self.point;\n\n        self.point += parameters.position_step.major;\n        self.error += parameters.error_step.major;\n\n        ret",
     "        let current = self.point;\n\n        self.point += parameters.position_step.major;\n        self.error += parameters.error_step.major;\n\n        current",
     []),
    ("Bresenham::next: the two independent updates reordered", "harmless", BR,
     "        self.point += parameters.position_step.major;\n        self.error += parameters.error_step.major;\n\n        ret",
     "        self.error += parameters.error_step.major;\n        self.point += parameters.position_step.major;\n\n        ret",
     []),
    ("Points::new: two independent `let`s reordered", "harmless", PTS,
     "        let length = bresenham::major_length(line);\n        let parameters = BresenhamParameters::new(line);",
     "        let parameters = BresenhamParameters::new(line);\n        let length = bresenham::major_length(line);",
     []),
    ("Points::next: condition negated and the arms exchanged", "harmless", PTS,
     "        if self.points_remaining > 0 {\n            self.points_remaining -= 1;\n\n            Some(self.bresenham.next(&self.parameters))\n        } else {\n            None\n        }",
     "        if !(self.points_remaining > 0) {\n            None\n        } else {\n            self.points_remaining -= 1;\n\n            Some(self.bresenham.next(&self.parameters))\n        }",
     []),
    ("Points::next: the point through a local; early `return None`", "harmless", PTS,
     "        if self.points_remaining > 0 {\n            self.points_remaining -= 1;\n\n            Some(self.bresenham.next(&self.parameters))\n        } else {\n            None\n        }",
     "        if self.points_remaining == 0 {\n            return None;\n        }\n        self.points_remaining -= 1;\n        let p = self.bresenham.next(&self.parameters);\n        Some(p)",
     []),
    ("increase_error: `+=` written out", "harmless", BR,
     "        *error += self.error_step.major;\n        if *error > self.error_threshold {", "        *error = *error + self.error_step.major;\n        if *error > self.error_threshold {",
     []),
    ("Line::perpendicular: `Line::new` written as a struct literal", "harmless", LM,
     "Line::new(self.start, self.start + delta)", "Line { start: self.start, end: self.start + delta }",
     []),
    ("major_length: extra parentheses and a block", "harmless", BR,
     "    delta.x.max(delta.y) as u32 + 1", "    { ((delta.x.max(delta.y)) as u32) + 1 }",
     []),
    # constructs outside the subset
    ("Bresenham::next: a `loop`", "unknown", BR,
     "        let ret = self.point;\n\n        self.point += parameters.position_step.major;", "        let ret = self.point;\n        loop { break; }\n\n        self.point += parameters.position_step.major;",
     []),
    ("major_length: a method the prelude does not know (`wrapping_add`)", "unknown", BR,
     "delta.x.max(delta.y) as u32 + 1", "(delta.x.max(delta.y) as u32).wrapping_add(1)",
     []),
    ("Points::next: `checked_sub` + `?`", "unknown", PTS,
     "            self.points_remaining -= 1;\n", "            self.points_remaining = self.points_remaining.checked_sub(1)?;\n",
     []),
]

RENAME_OLD = """        let direction = Point::new(
            if delta.x >= 0 { 1 } else { -1 },
            if delta.y >= 0 { 1 } else { -1 },
        );

        let delta = delta.abs();

        // Determine major and minor directions.
        let (delta, position_step) = if delta.y >= delta.x {
            (
                MajorMinor::new(delta.y, delta.x),
                MajorMinor::new(direction.y_axis(), direction.x_axis()),
            )
        } else {
            (
                MajorMinor::new(delta.x, delta.y),
                MajorMinor::new(direction.x_axis(), direction.y_axis()),
            )
        };

        Self {
            error_threshold: delta.major,
            error_step: MajorMinor::new(2 * delta.minor, 2 * delta.major),
            position_step,
        }"""
RENAME_NEW = """        let dir = Point::new(
            if delta.x >= 0 { 1 } else { -1 },
            if delta.y >= 0 { 1 } else { -1 },
        );

        let a = delta.abs();

        let (d, steps) = if a.y >= a.x {
            (
                MajorMinor::new(a.y, a.x),
                MajorMinor::new(dir.y_axis(), dir.x_axis()),
            )
        } else {
            (
                MajorMinor::new(a.x, a.y),
                MajorMinor::new(dir.x_axis(), dir.y_axis()),
            )
        };

        Self {
            error_threshold: d.major,
            error_step: MajorMinor::new(2 * d.minor, 2 * d.major),
            position_step: steps,
        }"""
CASES = [(n, k, f, RENAME_OLD if (o is None and k == "harmless") else o, RENAME_NEW if (o is None and k == "harmless") else w, e)
         for (n, k, f, o, w, e) in CASES]


def run(cmd, **kw):
    p = subprocess.run(cmd, stdout=subprocess.PIPE, stderr=subprocess.STDOUT, text=True, **kw)
    return p.returncode, p.stdout


def list_theorems(path):
    """(name, first line): the first line is that of the doc comment in front of the declaration, if any (Lean reports some
    errors at the start of the whole declaration)"""
    out = []
    doc = None
    for i, line in enumerate(open(path).read().splitlines(), 1):
        if line.startswith("/--"):
            doc = i
        m = re.match(r"(?:theorem|example)\s*(\S*)", line)
        if m:
            out.append((m.group(1) if line.startswith("theorem") else f"example@{i}", doc or i))
        if re.match(r"(theorem|example|def|macro|abbrev|instance)\b", line):
            doc = None
    return out


def fresh_scratch():
    shutil.rmtree(SCRATCH, ignore_errors=True)
    os.makedirs(os.path.join(SCRATCH, "core"))
    shutil.copytree(os.path.join(REPO, "src"), os.path.join(SCRATCH, "src"))
    shutil.copytree(os.path.join(REPO, "core", "src"), os.path.join(SCRATCH, "core", "src"))


def seed_cases():
    out = []
    sd = os.path.join(V, "seeded")
    for d in sorted(os.listdir(sd)):
        pf = os.path.join(sd, d, "patch.diff")
        if not os.path.exists(pf):
            continue
        txt = open(pf).read()
        if any(("+++ b/" + rel) in txt for rel in tr_linesrc.FILES.values()):
            out.append((f"seeded change {d}", "seed", pf, None, None, []))
    return out


def main():
    only = sys.argv[1:]
    cases = CASES
    if only and only[0] == "--seeds":
        only = only[1:]
        cases = seed_cases()
    rc, out = run(["lake", "build", "EG.Props.C17.GeneratedLine"], cwd=LEAN)
    if rc != 0:
        print("the unchanged tree does not build EG.Props.C17.GeneratedLine:\n" + out[-2000:])
        return 2
    rc, lean_path = run(["lake", "env", "printenv", "LEAN_PATH"], cwd=LEAN)
    lean_path = lean_path.strip().splitlines()[-1]
    real = [d for d in lean_path.split(":") if os.path.isdir(os.path.join(d, "EG"))][0]
    tmp = tempfile.mkdtemp(prefix="linedemo-")
    os.makedirs("/tmp/vw", exist_ok=True)
    theorems = list_theorems(PROPS)
    bad = 0
    counts = {}
    try:
        fresh_scratch()
        files, info = tr_linesrc.generate(SCRATCH)
        baseline = files["LineSrc.lean"]
        cur = open(os.path.join(LEAN, "EG", "Generated", "LineSrc.lean")).read()
        print(f"baseline: {info.get('functions')} functions translated; identical to lean/EG/Generated/LineSrc.lean: {baseline == cur}")
        if baseline != cur:
            bad += 1
        for idx, (name, kind, rel, old, new, expect) in enumerate(cases):
            if only and not any(o in name for o in only):
                continue
            fresh_scratch()
            if kind == "seed":
                rca, outa = run(["git", "apply", "--include=src/*", "--include=core/src/*", rel], cwd=SCRATCH)
                if rca != 0:
                    print(f"[{kind}] {name}: CANNOT APPLY the patch ({outa.strip()[:160]})")
                    bad += 1
                    continue
            else:
                path = os.path.join(SCRATCH, rel)
                src = open(path).read()
                if src.count(old) != 1:
                    print(f"[{kind}] {name}: CANNOT APPLY (the text to replace occurs {src.count(old)} times): demo out of date")
                    bad += 1
                    continue
                open(path, "w").write(src.replace(old, new))
            files, info = tr_linesrc.generate(SCRATCH)
            failed = "failed" in info
            same = files["LineSrc.lean"] == baseline
            gen_dir = os.path.join(tmp, f"case{idx}")
            os.makedirs(os.path.join(gen_dir, "src", "EG", "Generated"))
            os.makedirs(os.path.join(gen_dir, "lib", "EG", "Generated"))
            for e in os.listdir(os.path.join(real, "EG")):
                if e != "Generated":
                    os.symlink(os.path.join(real, "EG", e), os.path.join(gen_dir, "lib", "EG", e))
            for e in os.listdir(os.path.join(real, "EG", "Generated")):
                if not e.startswith("LineSrc."):
                    os.symlink(os.path.join(real, "EG", "Generated", e), os.path.join(gen_dir, "lib", "EG", "Generated", e))
            broken = set()
            env = dict(os.environ, LEAN_PATH=os.path.join(gen_dir, "lib") + ":" + lean_path)
            if not same:
                open(os.path.join(gen_dir, "src", "EG", "Generated", "LineSrc.lean"), "w").write(files["LineSrc.lean"])
                rc1, out1 = run(["lean", "EG/Generated/LineSrc.lean", "-o", os.path.join(gen_dir, "lib", "EG", "Generated", "LineSrc.olean"),
                                 "-i", os.path.join(gen_dir, "lib", "EG", "Generated", "LineSrc.ilean")], env=env, cwd=os.path.join(gen_dir, "src"))
                if rc1 != 0:
                    broken.add("(LineSrc.lean does not compile: " + out1.strip().splitlines()[0][:160] + ")")
                else:
                    rc2, out2 = run(["lean", PROPS], env=env, cwd=LEAN)
                    for m in re.finditer(r":(\d+):\d+: error", out2):
                        ln = int(m.group(1))
                        nm = None
                        for (n, l) in theorems:
                            if l <= ln:
                                nm = n
                        broken.add(nm or f"line {ln}")
            if kind == "mutation":
                ok = (not failed) and all(e in broken for e in expect) and len(broken) > 0
            elif kind == "seed":
                ok = len(broken) > 0        # caught: a theorem broke (or the translator refused, which breaks all)
                counts["refused" if failed else ("theorem" if broken else "missed")] = counts.get("refused" if failed else ("theorem" if broken else "missed"), 0) + 1
            elif kind == "harmless":
                ok = (not failed) and not broken
            else:
                ok = failed and len(broken) > 0
            bad += 0 if ok else 1
            print(f"[{kind}] {name}")
            if failed:
                print(f"      translator: translationFailed = {info.get('failed')}")
            print(f"      theorems that no longer build: {len(broken)}" + (": " + ", ".join(sorted(broken)[:8]) + (" ..." if len(broken) > 8 else "") if broken else " (all proofs survive)"))
            print(f"      {'as recorded' if ok else 'NOT AS RECORDED (expected ' + (', '.join(expect) if expect else kind) + ')'}")
    finally:
        shutil.rmtree(SCRATCH, ignore_errors=True)
        shutil.rmtree(tmp, ignore_errors=True)
    if counts:
        print("seeds:", counts)
    print("demo:", "all cases as recorded" if bad == 0 else f"{bad} case(s) differ")
    return 0 if bad == 0 else 1


if __name__ == "__main__":
    sys.exit(main())
