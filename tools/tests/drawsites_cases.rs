// Regression inputs for tools/tr_drawsites.py (run by its selftest(), i.e. on every ./check, and by
// `python3 tools/tr_drawsites.py --selftest`). Not part of any crate; it does compile on its own
// (`rustc --crate-type lib --edition 2021`), and the expectations were validated once against a
// fault-injecting target: every function whose sites are all expected to propagate obeys the
// prefix law for every k, every function marked `violates` breaks it for some k.
//
// `// expect:` lists the expected kind of every call site of the following function, in source
// order. Kinds q, tail, ret, bound_q, match_ret, tryclosure propagate; discarded / unknown do not.
//
// expect-textual-count: 61
#![allow(dead_code, unused_variables, unused_must_use, unreachable_patterns, clippy::all)]

pub trait DrawTarget {
    type Error;
    fn fill_solid(&mut self, a: u32) -> Result<(), Self::Error>;
}

pub struct OtherError;

// ---- forms that propagate ---------------------------------------------------------------------

// expect: q tail
pub fn ok_q_tail<D: DrawTarget>(t: &mut D) -> Result<(), D::Error> {
    t.fill_solid(1)?;
    t.fill_solid(2)
}

// expect: q ret tail
pub fn ok_ret<D: DrawTarget>(t: &mut D, c: bool) -> Result<(), D::Error> {
    t.fill_solid(1)?;
    if c {
        return t.fill_solid(2);
    }
    t.fill_solid(3)
}

// expect: tail tail tail tail
pub fn ok_tail_arms<D: DrawTarget>(t: &mut D, c: u32) -> Result<(), D::Error> {
    if c == 0 {
        t.fill_solid(1)
    } else if c == 1 {
        t.fill_solid(2)
    } else {
        match c {
            2 => t.fill_solid(3),
            _ => {
                t.fill_solid(4)
            }
        }
    }
}

// expect: bound_q bound_q
pub fn ok_bound<D: DrawTarget>(t: &mut D) -> Result<(), D::Error> {
    let r = t.fill_solid(1);
    let unrelated = 3 + 4;
    r?;
    let last = t.fill_solid(unrelated);
    last
}

// expect: bound_q bound_q
pub fn ok_bound_if<D: DrawTarget>(t: &mut D, c: bool) -> Result<(), D::Error> {
    let r = if c { t.fill_solid(1) } else { t.fill_solid(2) };
    r?;
    Ok(())
}

// the reviewer's false alarm: this form propagates
// expect: match_ret match_ret match_ret tail
pub fn ok_match_ret<D: DrawTarget>(t: &mut D) -> Result<(), D::Error> {
    match t.fill_solid(1) {
        Err(e) => return Err(e),
        Ok(v) => v,
    }
    let v = match t.fill_solid(2) {
        Ok(v) => v,
        Err(e) => {
            return Err(e);
        }
    };
    if let Err(e) = t.fill_solid(3) {
        return Err(e);
    }
    t.fill_solid(4)
}

// expect: tryclosure tryclosure tryclosure q
pub fn ok_try_closures<D: DrawTarget>(t: &mut D) -> Result<(), D::Error> {
    (0..3u32).try_for_each(|i| t.fill_solid(i))?;
    (0..3u32).try_for_each(|i| {
        t.fill_solid(i)?;
        t.fill_solid(i + 10)
    })?;
    t.fill_solid(9).map(|_| ())?;
    Ok(())
}

// ---- the statement audit's snippets (review 1, C04) -------------------------------------------------

// (a) deferred error: a call follows the failing one
// violates
// expect: discarded q
pub fn bad_deferred<D: DrawTarget>(t: &mut D) -> Result<(), D::Error> {
    let r = t.fill_solid(1);
    t.fill_solid(2)?;
    r
}

// (b) swallowed error
// violates
// expect: discarded tail
pub fn bad_or_else<D: DrawTarget>(t: &mut D) -> Result<(), D::Error> {
    t.fill_solid(1).or_else(|_| Ok(()))?;
    t.fill_solid(2)
}

// (c) error value replaced
// violates
// expect: discarded
pub fn bad_map_err<D: DrawTarget>(t: &mut D, other: D::Error) -> Result<(), D::Error> {
    t.fill_solid(1).map_err(|_| other)?;
    Ok(())
}

// (d) error checked on one branch only
// violates
// expect: discarded tail
pub fn bad_conditional<D: DrawTarget>(t: &mut D, c: bool) -> Result<(), D::Error> {
    let r = t.fill_solid(1);
    if c {
        r?;
    }
    t.fill_solid(2)
}

// (e) eager `.and`: the second call is evaluated although the first failed (seeded change C04-1)
// violates
// expect: discarded discarded
pub fn bad_and<D: DrawTarget>(t: &mut D) -> Result<(), D::Error> {
    t.fill_solid(1).and(t.fill_solid(2))
}

// (f) errors matched away
// violates
// expect: discarded discarded
pub fn bad_matched_away<D: DrawTarget>(t: &mut D) -> Result<(), D::Error> {
    if let Err(_e) = t.fill_solid(1) {}
    match t.fill_solid(2) {
        Ok(()) => {}
        Err(_) => {}
    }
    Ok(())
}

// ---- further non-propagating forms -----------------------------------------------------------

// violates
// expect: discarded discarded discarded discarded tail
pub fn bad_dropped<D: DrawTarget>(t: &mut D) -> Result<(), D::Error> {
    let _ = t.fill_solid(1);
    t.fill_solid(2);
    t.fill_solid(3).ok();
    t.fill_solid(4).unwrap_or(());
    t.fill_solid(5)
}

// and_then runs its closure only on Ok, but the closure may return any error: not accepted
// expect: discarded tail
pub fn bad_and_then<D: DrawTarget>(t: &mut D) -> Result<(), D::Error> {
    t.fill_solid(1).and_then(|_| Ok(()))?;
    t.fill_solid(2)
}

// one result variable for two calls (seeded change C04-2)
// violates
// expect: discarded discarded
pub fn bad_reassigned<D: DrawTarget>(t: &mut D) -> Result<(), D::Error> {
    let mut result = t.fill_solid(1);
    result = t.fill_solid(2);
    result
}

// result kept but only checked on one path (seeded change C04-3)
// violates
// expect: discarded q
pub fn bad_checked_on_one_path<D: DrawTarget>(t: &mut D, stroke: bool) -> Result<(), D::Error> {
    let filled = t.fill_solid(1);
    if !stroke {
        return filled;
    }
    t.fill_solid(2)?;
    Ok(())
}

// fold instead of try_fold (seeded change C04-r2-1), for_each, lazily mapped closure
// violates
// expect: discarded discarded discarded
pub fn bad_closures<D: DrawTarget>(t: &mut D) -> Result<(), D::Error> {
    let r = (0..3u32).fold(Ok(()), |_, i| t.fill_solid(i));
    (0..3u32).for_each(|i| {
        t.fill_solid(i).ok();
    });
    let n = (0..3u32)
        .map(|i| {
            t.fill_solid(i)?;
            Ok::<(), D::Error>(())
        })
        .count();
    r
}

// try_for_each whose own result is dropped
// violates
// expect: discarded tail
pub fn bad_try_result_dropped<D: DrawTarget>(t: &mut D) -> Result<(), D::Error> {
    let _ = (0..3u32).try_for_each(|i| t.fill_solid(i));
    t.fill_solid(7)
}

// `?` converts the error into another type
// violates (the caller does not get the target's error value)
// expect: discarded
pub fn bad_other_error_type<D: DrawTarget>(t: &mut D) -> Result<(), OtherError>
where
    OtherError: From<D::Error>,
{
    t.fill_solid(1)?;
    Ok(())
}

// `?` inside a closure that is called later (or never)
// violates
// expect: discarded discarded tail
pub fn bad_q_in_closure<D: DrawTarget>(t: &mut D) -> Result<(), D::Error> {
    let mut f = |t: &mut D| {
        t.fill_solid(1)?;
        t.fill_solid(2)
    };
    let _ = f(t);
    t.fill_solid(3)
}

// match forms that do not return the same error at once
// violates
// expect: discarded discarded discarded discarded discarded
pub fn bad_match_forms<D: DrawTarget>(t: &mut D, other: D::Error, c: bool) -> Result<(), D::Error> {
    match t.fill_solid(1) {
        _ => {}
        Err(e) => return Err(e),
    }
    match t.fill_solid(2) {
        Err(e) if c => return Err(e),
        Err(_) => {}
        Ok(()) => {}
    }
    match t.fill_solid(3) {
        Err(e) => return Err(other),
        Ok(()) => {}
    }
    match t.fill_solid(4) {
        Err(e) => {
            t.fill_solid(40);
            return Err(e);
        }
        Ok(()) => {}
    }
    Ok(())
}

// a bound result whose `?` comes after an early exit or another `?`
// violates
// expect: discarded discarded q
pub fn bad_bound_late<D: DrawTarget>(t: &mut D, c: bool) -> Result<(), D::Error> {
    let a = t.fill_solid(1);
    if c {
        return Ok(());
    }
    a?;
    let b = t.fill_solid(2);
    t.fill_solid(3)?;
    b?;
    Ok(())
}

// value of a loop body / of a function that returns nothing
// violates
// expect: discarded
pub fn bad_unit_fn<D: DrawTarget>(t: &mut D) {
    t.fill_solid(1).is_ok();
}

#[cfg(test)]
mod tests {
    use super::*;

    fn in_tests_not_counted<D: DrawTarget>(t: &mut D) {
        let _ = t.fill_solid(1);
        t.fill_solid(2).ok();
    }
}
