// Regression inputs for tools/tr_drawsites.py (run by its selftest(), i.e. on every ./check, and by
// `python3 tools/tr_drawsites.py --selftest`). Not part of any crate; it does compile on its own
// (`rustc --crate-type lib --edition 2021`), and the expectations were validated once against a
// fault-injecting target: every function whose sites are all expected to propagate obeys the
// prefix law for every k, every function marked `violates` breaks it for some k.
//
// (The cases of the third statement audit were validated the same way; drawsites_cases_owntry.rs is a
// second input, scanned as a source tree of its own; drawsites_cases_audit4.rs, the fourth audit's
// cases, a third one, with a validation program that can be re-run: drawsites_validate_audit4.rs.)
//
// `// expect:` lists the expected kind of every call site of the following function, in source
// order (a `macro_rules!` item with call sites outside any fn carries one too). Kinds q, tail, ret,
// bound_q, match_ret, tryclosure propagate; discarded / unknown do not.
//
// expect-textual-count: 111
#![allow(dead_code, unused_variables, unused_must_use, unreachable_patterns, unused_macros, unused_mut, clippy::all)]

pub trait DrawTarget {
    type Error;
    fn fill_solid(&mut self, a: u32) -> Result<(), Self::Error>;
}

pub struct OtherError;

// ---- forms that propagate ---------------------------------------------------------------------

// expect: q tail
pub fn ok_q_tail<D: DrawTarget>(t: &mut D) -> Result<(), D::Error> {
    t.fill_solid(1)?;
    t.fill_solid(2)
}

// expect: q ret tail
pub fn ok_ret<D: DrawTarget>(t: &mut D, c: bool) -> Result<(), D::Error> {
    t.fill_solid(1)?;
    if c {
        return t.fill_solid(2);
    }
    t.fill_solid(3)
}

// expect: tail tail tail tail
pub fn ok_tail_arms<D: DrawTarget>(t: &mut D, c: u32) -> Result<(), D::Error> {
    if c == 0 {
        t.fill_solid(1)
    } else if c == 1 {
        t.fill_solid(2)
    } else {
        match c {
            2 => t.fill_solid(3),
            _ => {
                t.fill_solid(4)
            }
        }
    }
}

// expect: bound_q bound_q
pub fn ok_bound<D: DrawTarget>(t: &mut D) -> Result<(), D::Error> {
    let r = t.fill_solid(1);
    let unrelated = 3 + 4;
    r?;
    let last = t.fill_solid(unrelated);
    last
}

// expect: bound_q bound_q
pub fn ok_bound_if<D: DrawTarget>(t: &mut D, c: bool) -> Result<(), D::Error> {
    let r = if c { t.fill_solid(1) } else { t.fill_solid(2) };
    r?;
    Ok(())
}

// the reviewer's false alarm: this form propagates
// expect: match_ret match_ret match_ret tail
pub fn ok_match_ret<D: DrawTarget>(t: &mut D) -> Result<(), D::Error> {
    match t.fill_solid(1) {
        Err(e) => return Err(e),
        Ok(v) => v,
    }
    let v = match t.fill_solid(2) {
        Ok(v) => v,
        Err(e) => {
            return Err(e);
        }
    };
    if let Err(e) = t.fill_solid(3) {
        return Err(e);
    }
    t.fill_solid(4)
}

// expect: tryclosure tryclosure tryclosure q
pub fn ok_try_closures<D: DrawTarget>(t: &mut D) -> Result<(), D::Error> {
    (0..3u32).try_for_each(|i| t.fill_solid(i))?;
    (0..3u32).try_for_each(|i| {
        t.fill_solid(i)?;
        t.fill_solid(i + 10)
    })?;
    t.fill_solid(9).map(|_| ())?;
    Ok(())
}

// ---- the statement audit's snippets (review 1, C04) -------------------------------------------------

// (a) deferred error: a call follows the failing one
// violates
// expect: discarded q
pub fn bad_deferred<D: DrawTarget>(t: &mut D) -> Result<(), D::Error> {
    let r = t.fill_solid(1);
    t.fill_solid(2)?;
    r
}

// (b) swallowed error
// violates
// expect: discarded tail
pub fn bad_or_else<D: DrawTarget>(t: &mut D) -> Result<(), D::Error> {
    t.fill_solid(1).or_else(|_| Ok(()))?;
    t.fill_solid(2)
}

// (c) error value replaced
// violates
// expect: discarded
pub fn bad_map_err<D: DrawTarget>(t: &mut D, other: D::Error) -> Result<(), D::Error> {
    t.fill_solid(1).map_err(|_| other)?;
    Ok(())
}

// (d) error checked on one branch only
// violates
// expect: discarded tail
pub fn bad_conditional<D: DrawTarget>(t: &mut D, c: bool) -> Result<(), D::Error> {
    let r = t.fill_solid(1);
    if c {
        r?;
    }
    t.fill_solid(2)
}

// (e) eager `.and`: the second call is evaluated although the first failed (seeded change C04-1)
// violates
// expect: discarded discarded
pub fn bad_and<D: DrawTarget>(t: &mut D) -> Result<(), D::Error> {
    t.fill_solid(1).and(t.fill_solid(2))
}

// (f) errors matched away
// violates
// expect: discarded discarded
pub fn bad_matched_away<D: DrawTarget>(t: &mut D) -> Result<(), D::Error> {
    if let Err(_e) = t.fill_solid(1) {}
    match t.fill_solid(2) {
        Ok(()) => {}
        Err(_) => {}
    }
    Ok(())
}

// ---- further non-propagating forms -----------------------------------------------------------

// violates
// expect: discarded discarded discarded discarded tail
pub fn bad_dropped<D: DrawTarget>(t: &mut D) -> Result<(), D::Error> {
    let _ = t.fill_solid(1);
    t.fill_solid(2);
    t.fill_solid(3).ok();
    t.fill_solid(4).unwrap_or(());
    t.fill_solid(5)
}

// and_then runs its closure only on Ok, but the closure may return any error: not accepted
// expect: discarded tail
pub fn bad_and_then<D: DrawTarget>(t: &mut D) -> Result<(), D::Error> {
    t.fill_solid(1).and_then(|_| Ok(()))?;
    t.fill_solid(2)
}

// one result variable for two calls (seeded change C04-2)
// violates
// expect: discarded discarded
pub fn bad_reassigned<D: DrawTarget>(t: &mut D) -> Result<(), D::Error> {
    let mut result = t.fill_solid(1);
    result = t.fill_solid(2);
    result
}

// result kept but only checked on one path (seeded change C04-3)
// violates
// expect: discarded q
pub fn bad_checked_on_one_path<D: DrawTarget>(t: &mut D, stroke: bool) -> Result<(), D::Error> {
    let filled = t.fill_solid(1);
    if !stroke {
        return filled;
    }
    t.fill_solid(2)?;
    Ok(())
}

// fold instead of try_fold (seeded change C04-r2-1), for_each, lazily mapped closure
// violates
// expect: discarded discarded discarded
pub fn bad_closures<D: DrawTarget>(t: &mut D) -> Result<(), D::Error> {
    let r = (0..3u32).fold(Ok(()), |_, i| t.fill_solid(i));
    (0..3u32).for_each(|i| {
        t.fill_solid(i).ok();
    });
    let n = (0..3u32)
        .map(|i| {
            t.fill_solid(i)?;
            Ok::<(), D::Error>(())
        })
        .count();
    r
}

// try_for_each whose own result is dropped
// violates
// expect: discarded tail
pub fn bad_try_result_dropped<D: DrawTarget>(t: &mut D) -> Result<(), D::Error> {
    let _ = (0..3u32).try_for_each(|i| t.fill_solid(i));
    t.fill_solid(7)
}

// `?` converts the error into another type
// violates (the caller does not get the target's error value)
// expect: discarded
pub fn bad_other_error_type<D: DrawTarget>(t: &mut D) -> Result<(), OtherError>
where
    OtherError: From<D::Error>,
{
    t.fill_solid(1)?;
    Ok(())
}

// `?` inside a closure that is called later (or never)
// violates
// expect: discarded discarded tail
pub fn bad_q_in_closure<D: DrawTarget>(t: &mut D) -> Result<(), D::Error> {
    let mut f = |t: &mut D| {
        t.fill_solid(1)?;
        t.fill_solid(2)
    };
    let _ = f(t);
    t.fill_solid(3)
}

// match forms that do not return the same error at once
// violates
// expect: discarded discarded discarded discarded discarded
pub fn bad_match_forms<D: DrawTarget>(t: &mut D, other: D::Error, c: bool) -> Result<(), D::Error> {
    match t.fill_solid(1) {
        _ => {}
        Err(e) => return Err(e),
    }
    match t.fill_solid(2) {
        Err(e) if c => return Err(e),
        Err(_) => {}
        Ok(()) => {}
    }
    match t.fill_solid(3) {
        Err(e) => return Err(other),
        Ok(()) => {}
    }
    match t.fill_solid(4) {
        Err(e) => {
            t.fill_solid(40);
            return Err(e);
        }
        Ok(()) => {}
    }
    Ok(())
}

// a bound result whose `?` comes after an early exit or another `?`
// violates
// expect: discarded discarded q
pub fn bad_bound_late<D: DrawTarget>(t: &mut D, c: bool) -> Result<(), D::Error> {
    let a = t.fill_solid(1);
    if c {
        return Ok(());
    }
    a?;
    let b = t.fill_solid(2);
    t.fill_solid(3)?;
    b?;
    Ok(())
}

// value of a loop body / of a function that returns nothing
// violates
// expect: discarded
pub fn bad_unit_fn<D: DrawTarget>(t: &mut D) {
    t.fill_solid(1).is_ok();
}

// ---- the third statement audit's false negatives ---------------------------------------------------

// `?` / `return Err(..)` inside a closure WITHOUT braces (`|..| match / if / loop ..`): it only leaves
// the closure; the function went on and returned Ok
// violates
// expect: discarded tail
pub fn bad_braceless_closure_match<D: DrawTarget>(t: &mut D) -> Result<(), D::Error> {
    let mut g = |t: &mut D, i: u32| match i {
        0 => Ok::<(), D::Error>(()),
        _ => {
            t.fill_solid(i)?;
            Ok(())
        }
    };
    let _ = g(t, 1);
    t.fill_solid(2)
}

// violates
// expect: discarded tail
pub fn bad_braceless_closure_if<D: DrawTarget>(t: &mut D) -> Result<(), D::Error> {
    let g = move |t: &mut D, i: u32| if i > 0 {
        t.fill_solid(i)?;
        Ok::<(), D::Error>(())
    } else {
        Ok(())
    };
    let _ = g(t, 1);
    t.fill_solid(2)
}

// violates
// expect: discarded tail
pub fn bad_braceless_closure_loop_ret<D: DrawTarget>(t: &mut D) -> Result<(), D::Error> {
    let mut g = |t: &mut D, i: u32| loop {
        match t.fill_solid(i) {
            Err(e) => return Err(e),
            Ok(()) => return Ok(()),
        }
    };
    let _ = g(t, 1);
    t.fill_solid(2)
}

// closure without arguments, `return <call>` inside a closure, or-pattern `|` in the argument list
// violates
// expect: discarded discarded discarded tail
pub fn bad_more_closures<D: DrawTarget>(t: &mut D) -> Result<(), D::Error> {
    let mut g = || match 1 {
        _ => {
            t.fill_solid(1)?;
            Ok::<(), D::Error>(())
        }
    };
    let _ = g();
    let h = |t: &mut D, c: bool| {
        if c {
            return t.fill_solid(2);
        }
        Ok(())
    };
    let _ = h(t, true);
    let k = |t: &mut D, (1 | _): u32| {
        t.fill_solid(3)?;
        Ok::<(), D::Error>(())
    };
    let _ = k(t, 1);
    t.fill_solid(4)
}

// a closure with an explicit return type (the `,` of `Result<(), D::Error>` does not end it)
// violates
// expect: discarded tail
pub fn bad_typed_closure<D: DrawTarget>(t: &mut D) -> Result<(), D::Error> {
    let g = |t: &mut D| -> Result<(), D::Error> {
        t.fill_solid(1)?;
        Ok(())
    };
    let _ = g(t);
    t.fill_solid(2)
}

// control: two-argument brace-less closure of try_fold, typed `move` closure of try_for_each
// expect: tryclosure tryclosure tryclosure
pub fn ok_more_try_closures<D: DrawTarget>(t: &mut D) -> Result<(), D::Error> {
    (0..3u32).try_fold((), |_, i| t.fill_solid(i))?;
    (0..2u32).try_for_each(move |i| -> Result<(), D::Error> {
        t.fill_solid(i)?;
        t.fill_solid(i + 5)
    })
}

// control: a brace-less closure handed to a propagated try_for_each does propagate; a binary `|`
// and a logical `||` before the call are not closures
// expect: tryclosure tryclosure q tail
pub fn ok_braceless_try_closure<D: DrawTarget>(t: &mut D, a: u32) -> Result<(), D::Error> {
    (0..3u32).try_for_each(|i| match i {
        0 => Ok(()),
        _ => {
            t.fill_solid(i)?;
            t.fill_solid(i + 10)
        }
    })?;
    let b = a | 4;
    if a > 1 || b > 2 {
        t.fill_solid(b)?;
    }
    t.fill_solid(a)
}

// the function's error type CONVERTS the target's error: `?` goes through `From` and the caller gets
// another value. The type still mentions `D::Error`
#[derive(Debug, PartialEq)]
pub struct Wrap<E>(pub E, pub u32);
impl<E> From<E> for Wrap<E> {
    fn from(e: E) -> Self {
        Wrap(e, 777)
    }
}

// violates (the caller does not get the target's error value)
// expect: unknown unknown
pub fn bad_wrapped_error_type<D: DrawTarget>(t: &mut D) -> Result<(), Wrap<D::Error>> {
    t.fill_solid(1)?;
    t.fill_solid(2)?;
    Ok(())
}

// an adapter whose own error type wraps the inner one: `Self::Error` is not the target's error
pub struct Converting<T>(pub T);
impl<T: DrawTarget> DrawTarget for Converting<T> {
    type Error = Wrap<T::Error>;
    // violates (the caller does not get the target's error value)
    // expect: unknown
    fn fill_solid(&mut self, a: u32) -> Result<(), Self::Error> {
        self.0.fill_solid(a)?;
        Ok(())
    }
}

// control: an adapter that hands the inner error type on
pub struct Forwarding<T>(pub T);
impl<T: DrawTarget> DrawTarget for Forwarding<T> {
    type Error = T::Error;
    // expect: q tail
    fn fill_solid(&mut self, a: u32) -> Result<(), Self::Error> {
        self.0.fill_solid(a)?;
        self.0.fill_solid(a + 1)
    }
}

// raw strings: the `"` inside `r#".."#` do not end the literal
// violates
// expect: discarded tail
pub fn bad_between_raw_strings<D: DrawTarget>(t: &mut D) -> Result<(), D::Error> {
    let s = r#"a"b"#; let _ = t.fill_solid(1); let u = r#"c"d"#;
    t.fill_solid(2)
}

// a call site in the body of a local macro: the body is expanded somewhere else (here inside a closure
// whose result is dropped), so what its `?` does is not known at the definition
// violates
// expect: unknown tail
pub fn bad_macro_in_dropped_closure<D: DrawTarget>(t: &mut D) -> Result<(), D::Error> {
    macro_rules! call {
        ($t:expr, $a:expr) => {
            $t.fill_solid($a)?
        };
    }
    let g = |t: &mut D| -> Result<(), D::Error> {
        call!(t, 1);
        Ok(())
    };
    let _ = g(t);
    t.fill_solid(2)
}

// a call site in a macro outside every function: attributed to the macro item
// expect: unknown
macro_rules! swallow {
    ($t:expr, $a:expr) => {
        let _ = $t.fill_solid($a);
    };
}

// violates (through the macro's site above; its own visible site is fine)
// expect: tail
pub fn bad_uses_swallow_macro<D: DrawTarget>(t: &mut D) -> Result<(), D::Error> {
    swallow!(t, 1);
    t.fill_solid(2)
}

// control: a whole `fn` item inside a macro body is classified like any other function
macro_rules! generate_fn {
    () => {
        // expect: q tail
        pub fn ok_generated_by_macro<D: DrawTarget>(t: &mut D) -> Result<(), D::Error> {
            t.fill_solid(1)?;
            t.fill_solid(2)
        }
    };
}
generate_fn!();

// a home-made adaptor that does not stop at the first error (one NAMED try_for_each: see
// drawsites_cases_owntry.rs)
pub struct Twice;
impl Twice {
    pub fn each_twice<E>(&self, mut f: impl FnMut(u32) -> Result<(), E>) -> Result<(), E> {
        let a = f(1);
        let b = f(2);
        a.and(b)
    }
}

// violates
// expect: discarded
pub fn bad_homemade_adaptor<D: DrawTarget>(t: &mut D) -> Result<(), D::Error> {
    Twice.each_twice(|i| t.fill_solid(i))
}

// ---- the third statement audit's false alarms: harmless forms that do propagate --------------------

// expect: ret ret tail
pub fn ok_return_of_call<D: DrawTarget>(t: &mut D, c: u32) -> Result<(), D::Error> {
    if c == 0 { return t.fill_solid(1) }
    match c {
        1 => return t.fill_solid(2),
        _ => {}
    }
    t.fill_solid(3)
}

// expect: match_ret match_ret tail
pub fn ok_at_err_return<D: DrawTarget>(t: &mut D) -> Result<(), D::Error> {
    match t.fill_solid(1) { Ok(()) => {}, e @ Err(_) => return e }
    match t.fill_solid(2) {
        Ok(()) => {}
        e @ Err(_) => {
            return e;
        }
    }
    t.fill_solid(3)
}

// violates
// expect: discarded discarded discarded tail
pub fn bad_at_err_forms<D: DrawTarget>(t: &mut D, c: bool) -> Result<(), D::Error> {
    match t.fill_solid(1) {
        e @ Err(_) if c => return e,
        _ => {}
    }
    match t.fill_solid(2) {
        Ok(()) => {}
        e @ Err(_) => {
            let _ = t.fill_solid(40);
            return e;
        }
    }
    t.fill_solid(3)
}

// return-type aliases
pub type Res<E> = Result<(), E>;
pub type ResOf<D> = Result<(), <D as DrawTarget>::Error>;
pub type Wrapped<E> = Result<(), Wrap<E>>;

// expect: q tail
pub fn ok_alias<D: DrawTarget>(t: &mut D) -> Res<D::Error> {
    t.fill_solid(1)?;
    t.fill_solid(2)
}

// expect: q tail
pub fn ok_alias_qualified<D: DrawTarget>(t: &mut D) -> ResOf<D> {
    t.fill_solid(1)?;
    ok_alias(t)
}

// the functions above are error-returning functions themselves: their call sites are followed
// violates
// expect: discarded tail
pub fn bad_alias_caller<D: DrawTarget>(t: &mut D) -> Result<(), D::Error> {
    let _ = ok_alias(t);
    ok_alias_qualified(t)
}

// violates (the caller does not get the target's error value)
// expect: unknown
pub fn bad_alias_wrapped<D: DrawTarget>(t: &mut D) -> Wrapped<D::Error> {
    t.fill_solid(1)?;
    Ok(())
}

#[cfg(test)]
mod tests {
    use super::*;

    fn in_tests_not_counted<D: DrawTarget>(t: &mut D) {
        let _ = t.fill_solid(1);
        t.fill_solid(2).ok();
    }
}
