"""tr_drawsites.py — translator part for C04: how every call that can return a draw-target error
consumes that `Result`.

Scans all non-test Rust sources of the two crates. An *error-returning function* is a `fn` whose
return type is `Result<_, X::Error>` (X a type parameter or Self: the draw target's error type).
Every call site of such a function (by name) inside any function body is classified by what
happens to its value. A site is classified as *propagating* only if, whenever the call returns
`Err(e)`, the enclosing function returns `Err(e)` (the same value) at once, i.e. without evaluating
any other call site first:

  q          followed by `?` (possibly after `.map(..)`, which cannot touch an `Err`), in a function
             that itself returns the target's error, not inside a closure
  tail       value of the enclosing function body (directly, or as the value of a tail `if/else`
             / `match` arm / block), and the enclosing function is itself error-returning
  ret        `return <call>;` (same conditions as q)
  bound_q    `let x = <call>;` whose FIRST later mention of `x` is `x?` (or `x` as the value of the
             function body) in the same block at the same nesting depth (so it is reached
             unconditionally), with no other call site, `?`, `return`, `break` or `continue` in between
  match_ret  `match <call> { Err(e) => return Err(e), .. }` (the only arm mentioning `Err`, no arm
             before it that could match an `Err`) and `if let Err(e) = <call> { return Err(e); }`
  tryclosure value (tail, `?` or `return`) of a closure passed to `try_for_each`/`try_fold` whose
             own result is q/tail/ret/...

Everything else does not propagate:

  discarded  a form known to drop, defer or change the error: `;` statement, `let _ =`, `.ok()`,
             `.unwrap_or*`, `.is_ok()`, `.err()`, `.or_else(..)`, `.map_err(..)`, `.and_then(..)`,
             `.and(..)`, closure passed to a non-`try_` adaptor, argument of another call, a bound
             variable that is used late / conditionally / never, `?` in a closure or in a function
             with another error type, ...
  unknown    a form this scan does not understand (counts as not propagating)

Output: lean/EG/Generated/DrawSites.lean with one record per site, plus the number of call
expressions per file found by an INDEPENDENT textual scan (`textual_scan`, line oriented, no
function/bracket parsing). `all_sites_propagate` and `prefix_law_sites` (EG/Props/C04.lean) are
decided over this table, so a dropped `?`, a `let _ =`, an `.ok()` or a deferred `?` changes the
generated file and breaks the theorems; `sites_match_textual_scan` breaks when the classifier's
parser does not see a call expression that the textual scan sees (or vice versa).

`generate()` (run by tools/translate.py on every ./check) first runs `selftest()` on the snippets
in tools/tests/drawsites_cases.rs (every function there carries its expected kinds in a
`// expect:` comment); `python3 tools/tr_drawsites.py --selftest` runs it alone.
"""
import os
import re

# methods that certainly drop, replace or defer the error
DISCARD_METHODS = {"ok", "unwrap_or", "unwrap_or_default", "unwrap_or_else", "is_ok", "is_err", "err", "unwrap", "expect",
                   "unwrap_unchecked", "or_else", "or", "map_err", "and_then", "and", "map_or", "map_or_else", "iter",
                   "into_iter", "unwrap_err", "expect_err", "is_ok_and", "is_err_and", "inspect_err"}
# methods that hand an `Err` on unchanged and make no call when the value is an `Err`
# (`map`'s closure only runs on `Ok`; a call site inside that closure is classified on its own)
PASS_METHODS = {"map"}
TRY_ADAPTORS = {"try_for_each", "try_fold"}
PROPAGATING = ("q", "tail", "ret", "bound_q", "match_ret", "tryclosure")


def blank_comments_and_strings(src):
    out = list(src)
    i, n = 0, len(src)
    while i < n:
        c = src[i]
        if src.startswith("//", i):
            while i < n and src[i] != "\n":
                out[i] = " "
                i += 1
        elif src.startswith("/*", i):
            depth = 0
            while i < n:
                if src.startswith("/*", i):
                    depth += 1
                    out[i] = out[i + 1] = " "
                    i += 2
                elif src.startswith("*/", i):
                    depth -= 1
                    out[i] = out[i + 1] = " "
                    i += 2
                    if depth == 0:
                        break
                else:
                    if src[i] != "\n":
                        out[i] = " "
                    i += 1
        elif c == '"':
            i += 1
            while i < n and src[i] != '"':
                if src[i] == "\\":
                    out[i] = " "
                    i += 1
                if i < n and src[i] != "\n":
                    out[i] = " "
                i += 1
            i += 1
        elif c == "'" and i + 2 < n and (src[i + 2] == "'" or (src[i + 1] == "\\")):
            # char literal (not a lifetime)
            j = i + 1
            if src[j] == "\\":
                j += 2
                while j < n and src[j] != "'":
                    j += 1
            else:
                j += 1
            for k in range(i + 1, min(j, n)):
                out[k] = " "
            i = j + 1
        else:
            i += 1
    return "".join(out)


def match_close(s, i):
    """index of the bracket closing the opener at s[i]"""
    pairs = {"(": ")", "[": "]", "{": "}"}
    depth = 0
    for j in range(i, len(s)):
        ch = s[j]
        if ch in "([{":
            depth += 1
        elif ch in ")]}":
            depth -= 1
            if depth == 0:
                return j
    raise ValueError("unbalanced bracket")


def match_open(s, i):
    """index of the bracket opening the closer at s[i]"""
    depth = 0
    for j in range(i, -1, -1):
        ch = s[j]
        if ch in ")]}":
            depth += 1
        elif ch in "([{":
            depth -= 1
            if depth == 0:
                return j
    raise ValueError("unbalanced bracket")


def enclosing_open(s, i, lo):
    """nearest unmatched opener before position i (not before lo), or None"""
    depth = 0
    for j in range(i - 1, lo - 1, -1):
        ch = s[j]
        if ch in ")]}":
            depth += 1
        elif ch in "([{":
            if depth == 0:
                return j
            depth -= 1
    return None


def strip_tests(s):
    """blank out `#[cfg(test)] mod <name> { ... }` blocks"""
    out = s
    for m in list(re.finditer(r"#\[cfg\(test\)\]\s*(?:pub(?:\([^)]*\))?\s+)?mod\s+\w+\s*\{", s)):
        o = m.end() - 1
        c = match_close(s, o)
        out = out[: m.start()] + re.sub(r"[^\n]", " ", out[m.start(): c + 1]) + out[c + 1:]
    return out


class Fn:
    def __init__(self, name, ret, body_open, body_close, file):
        self.name, self.ret, self.open, self.close, self.file = name, ret, body_open, body_close, file
        # the draw target's error type: `D::Error`, `T::Error`, `Self::Error` ... (TryFrom's is not one)
        self.err = bool(re.search(r"Result\s*<.*::\s*Error\s*>", ret, re.S)) and name not in ("try_from", "try_into")


def find_fns(s, file):
    fns = []
    for m in re.finditer(r"\bfn\s+(\w+)", s):
        # signature ends at the first `{` or `;` at bracket depth 0 (generics use <>, not tracked; `where` clauses have no braces)
        i = m.end()
        depth = 0
        while i < len(s):
            ch = s[i]
            if ch in "([":
                depth += 1
            elif ch in ")]":
                depth -= 1
            elif depth == 0 and ch in "{;":
                break
            i += 1
        if i >= len(s) or s[i] == ";":
            sig = s[m.end(): i]
            ret = sig.split("->", 1)[1] if "->" in sig else ""
            fns.append(Fn(m.group(1), ret, None, None, file))
            continue
        sig = s[m.end(): i]
        ret = sig.split("->", 1)[1] if "->" in sig else ""
        ret = ret.split("where")[0]
        fns.append(Fn(m.group(1), ret, i, match_close(s, i), file))
    return fns


def stmt_start(s, i, lo):
    """start of the statement containing position i: after the previous `;`, `{` or `}` at the same depth"""
    depth = 0
    j = i - 1
    while j >= lo:
        ch = s[j]
        if ch in ")]}":
            if ch == "}" and depth == 0:
                return j + 1
            depth += 1
        elif ch in "([{":
            if depth == 0:
                return j + 1
            depth -= 1
        elif ch == ";" and depth == 0:
            return j + 1
        j -= 1
    return lo


CLOSURE_HEAD = r"(?:\bmove\s*)?\|[^|]*\|\s*(?:->\s*[^{]+)?"


def innermost_closure(s, fn, pos):
    """the opener (`{` of a block-bodied closure, or `(` of the call a brace-less closure is an
    argument of) of the innermost closure whose body contains position pos; None if pos is
    directly in the function's own body. Returns (opener index, paren?)."""
    i = pos
    while True:
        op = enclosing_open(s, i, fn.open)
        if op is None or op == fn.open:
            return None
        if s[op] == "{":
            header = s[stmt_start(s, op, fn.open + 1): op]
            if re.search(CLOSURE_HEAD + r"$", header):
                return (op, False)
        elif s[op] == "(":
            seg = s[op + 1: pos]
            depth = 0
            last_comma = -1
            for k, ch in enumerate(seg):
                if ch in "([{":
                    depth += 1
                elif ch in ")]}":
                    depth -= 1
                elif ch == "," and depth == 0:
                    last_comma = k
            if re.match(r"\s*" + CLOSURE_HEAD, seg[last_comma + 1:]):
                return (op, True)
        i = op


def exits_function(s, fn, expr_start, how, depth_guard):
    """`?` / `return` at expr_start: leaves the function with the error only if it is not inside a
    closure and the function returns the target's error type"""
    clo = innermost_closure(s, fn, expr_start)
    if clo is not None:
        op, paren = clo
        k, d = classify_closure(s, fn, op, match_close(s, op), depth_guard, paren=paren)
        if k == "tryclosure":
            return ("tryclosure", how + " in closure of " + d)
        return ("discarded", how + " inside a closure: " + d)
    if not fn.err:
        return ("discarded", how + " in fn " + fn.name + " which does not return the target's error")
    return None


def split_arms(body):
    """[(pattern, expression)] of a match body, or None if it cannot be split"""
    arms = []
    i, n = 0, len(body)
    while True:
        while i < n and (body[i].isspace() or body[i] == ","):
            i += 1
        if i >= n:
            return arms
        j, depth = i, 0
        while j < n:
            ch = body[j]
            if ch in "([{":
                depth += 1
            elif ch in ")]}":
                depth -= 1
            elif depth == 0 and body.startswith("=>", j):
                break
            j += 1
        if j >= n:
            return None
        pattern = body[i:j].strip()
        j += 2
        while j < n and body[j].isspace():
            j += 1
        if j < n and body[j] == "{":
            c = match_close(body, j)
            expr = body[j: c + 1]
            i = c + 1
            k = i
            while k < n and body[k].isspace():
                k += 1
            if k < n and body[k] in ".?":
                return None  # `{ .. }.method()` arm: not understood
        else:
            k, depth = j, 0
            while k < n:
                ch = body[k]
                if ch in "([{":
                    depth += 1
                elif ch in ")]}":
                    depth -= 1
                elif ch == "," and depth == 0:
                    break
                k += 1
            expr = body[j:k].strip()
            i = k + 1
        arms.append((pattern, expr))


def classify_scrutinee(s, fn, expr_start, brace, depth_guard):
    """the call is followed by `{`: scrutinee of `match` / `if let` / `while let` ..."""
    st = stmt_start(s, expr_start, fn.open + 1)
    head = s[st:expr_start]
    close = match_close(s, brace)
    body = s[brace + 1: close]
    m = re.search(r"\bif\s+let\s+Err\s*\(\s*(\w+)\s*\)\s*=\s*$", head)
    if m:
        if re.match(r"^\s*return\s+Err\s*\(\s*" + re.escape(m.group(1)) + r"\s*\)\s*;?\s*$", body):
            bad = exits_function(s, fn, expr_start, "return", depth_guard)
            return bad if bad else ("match_ret", "if let Err(" + m.group(1) + ")")
        return ("discarded", "if let Err(..) whose block is not `return Err(..)`")
    if re.search(r"\bmatch\s*$", head):
        arms = split_arms(body)
        if arms is None:
            return ("unknown", "match arms not understood")
        err_arms = [k for k, (pattern, _) in enumerate(arms) if re.search(r"\bErr\b", pattern)]
        if len(err_arms) != 1:
            return ("discarded", "match with %d arms mentioning Err" % len(err_arms))
        k = err_arms[0]
        pattern, expr = arms[k]
        m = re.match(r"^Err\s*\(\s*(\w+)\s*\)$", pattern)
        if not m or m.group(1) == "_":
            return ("discarded", "Err arm pattern `" + pattern[:30] + "`")
        e = re.escape(m.group(1))
        if not (re.match(r"^return\s+Err\s*\(\s*" + e + r"\s*\)$", expr)
                or re.match(r"^\{\s*return\s+Err\s*\(\s*" + e + r"\s*\)\s*;?\s*\}$", expr)):
            return ("discarded", "Err arm is not `return Err(" + m.group(1) + ")`")
        for pattern2, _ in arms[:k]:
            if not re.match(r"^Ok\s*\(", pattern2):
                return ("discarded", "arm `" + pattern2[:30] + "` before the Err arm")
        bad = exits_function(s, fn, expr_start, "return", depth_guard)
        return bad if bad else ("match_ret", "match")
    if re.search(r"\b(if|while)\s+let\b[^;{}]*=\s*$", head):
        return ("discarded", "scrutinee of " + " ".join(head.split())[-40:])
    return ("unknown", "followed by a block")


def classify_binding(s, fn, var, semi, expr_start, depth_guard):
    """`let var = <call>;` (semi = index of the `;`)"""
    if var.startswith("_"):
        return ("discarded", "let " + var)
    blk = enclosing_open(s, expr_start, fn.open)
    if blk is None or s[blk] != "{":
        return ("unknown", "let " + var + " not directly in a block")
    blk_close = match_close(s, blk)
    region = s[semi + 1: blk_close]
    mu = re.search(r"\b" + re.escape(var) + r"\b", region)
    if not mu:
        return ("discarded", "let " + var + " never used in its block")
    between = region[: mu.start()]
    depth = 0
    for ch in between:
        if ch in "([{":
            depth += 1
        elif ch in ")]}":
            depth -= 1
    if depth != 0:
        return ("discarded", "let " + var + " first used inside a nested block or call (not unconditional)")
    if fn.pat.search(between):
        return ("discarded", "let " + var + ": another call site before its first use")
    mx = re.search(r"\?|\b(return|break|continue)\b", between)
    if mx:
        return ("discarded", "let " + var + ": `" + mx.group(0) + "` before its first use")
    after = region[mu.end():]
    if re.match(r"\s*\?", after):
        bad = exits_function(s, fn, expr_start, "?", depth_guard)
        return bad if bad else ("bound_q", var)
    if after.strip() == "" and blk == fn.open:
        return ("bound_q", var + " (tail)") if fn.err else ("discarded", "tail of non-error fn " + fn.name)
    return ("discarded", "let " + var + ": first use is neither `" + var + "?` nor the function's value")


def classify(s, fn, expr_start, e, depth_guard=0):
    """how the value of the expression s[expr_start:e] is consumed; returns (kind, detail)"""
    if depth_guard > 12:
        return ("unknown", "too-deep")
    n = len(s)
    i = e
    while i < n and s[i].isspace():
        i += 1
    c = s[i] if i < n else ""
    if c == "?":
        bad = exits_function(s, fn, expr_start, "?", depth_guard)
        return bad if bad else ("q", "")
    if c == ".":
        m = re.match(r"\.\s*(\w+)\s*(::\s*<[^>]*>)?\s*\(", s[i:])
        if not m:
            return ("unknown", "field-access")
        name = m.group(1)
        close = match_close(s, i + m.end() - 1)
        if name in DISCARD_METHODS:
            return ("discarded", "." + name + "()")
        if name in PASS_METHODS:
            return classify(s, fn, expr_start, close + 1, depth_guard + 1)
        return ("unknown", "method ." + name)
    if c == "{":
        return classify_scrutinee(s, fn, expr_start, i, depth_guard)
    if c == ";":
        st = stmt_start(s, expr_start, fn.open + 1)
        head = s[st:expr_start].strip()
        if re.match(r"return\b", head):
            if head != "return":
                return ("unknown", "statement: " + head[:30])
            bad = exits_function(s, fn, expr_start, "return", depth_guard)
            return bad if bad else ("ret", "")
        m = re.match(r"let\s+(mut\s+)?(\w+)\s*(:[^=]*)?=\s*$", head)
        if m:
            return classify_binding(s, fn, m.group(2), i, expr_start, depth_guard)
        if head == "":
            return ("discarded", "expression statement")
        return ("discarded", "statement: " + head[:30])
    if c in "},)":
        # value of an enclosing construct
        op = enclosing_open(s, expr_start, fn.open)
        if op is None:
            return ("unknown", "no enclosing block")
        if s[op] == "{":
            if op == fn.open:
                if c != "}":
                    return ("unknown", "not at end of fn body")
                return ("tail", "") if fn.err else ("discarded", "tail of non-error fn " + fn.name)
            close = match_close(s, op)
            header_start = stmt_start(s, op, fn.open + 1)
            header = s[header_start:op].strip()
            # closure with a block body: `|args| {`
            if re.search(CLOSURE_HEAD + r"$", header):
                return classify_closure(s, fn, op, close, depth_guard)
            if c == "," or (c == "}" and re.search(r"\bmatch\b", header) and not re.search(r"=>\s*$", header)):
                # match arm value: the value of the whole match expression
                if re.search(r"\bmatch\b", header):
                    mstart = header_start + re.search(r"\bmatch\b", s[header_start:op]).start()
                    return classify(s, fn, mstart, close + 1, depth_guard + 1)
                return ("unknown", "comma in block")
            # tail of a block: if / else / arm block / plain block / loop
            if re.search(r"\b(for|while|loop)\b[^{}]*$", header):
                return ("discarded", "value of a loop body")
            if re.search(r"=>\s*$", header):
                # block-bodied match arm: value of the match
                mop = enclosing_open(s, op, fn.open)
                if mop is not None and s[mop] == "{":
                    mh_start = stmt_start(s, mop, fn.open + 1)
                    mh = s[mh_start:mop]
                    mm = re.search(r"\bmatch\b", mh)
                    if mm:
                        return classify(s, fn, mh_start + mm.start(), match_close(s, mop) + 1, depth_guard + 1)
                return ("unknown", "arm of unknown construct")
            if re.search(r"\b(if|else)\b", header) or header == "" or header.endswith("unsafe"):
                # find the end of the whole if / else chain
                end = close + 1
                while True:
                    m = re.match(r"\s*else\s*(if\b[^{]*)?\{", s[end:])
                    if not m:
                        break
                    end = match_close(s, end + m.end() - 1) + 1
                # and its start (walk back over `} else if .. {` chains to the first `if`)
                start, hdr, hdr_end = header_start, header, op
                while re.match(r"else\b", hdr):
                    j = start - 1
                    while j > fn.open and s[j].isspace():
                        j -= 1
                    if s[j] != "}":
                        break
                    hdr_end = match_open(s, j)
                    start = stmt_start(s, hdr_end, fn.open + 1)
                    hdr = s[start:hdr_end].strip()
                hm = re.search(r"\bif\b|\belse\b", s[start:hdr_end])
                if hm:
                    start = start + hm.start()
                # `let x = if ..` / `return if ..`: start of statement handles via ';' branch later
                return classify(s, fn, start, end, depth_guard + 1)
            return ("unknown", "block header: " + header[-30:])
        if s[op] == "(":
            # argument of a call: closure without braces?
            arg_start = op + 1
            # the argument containing the expression starts after the previous top-level comma
            seg = s[arg_start:expr_start]
            depth = 0
            last_comma = -1
            for k, ch in enumerate(seg):
                if ch in "([{":
                    depth += 1
                elif ch in ")]}":
                    depth -= 1
                elif ch == "," and depth == 0:
                    last_comma = k
            arg_head = seg[last_comma + 1:].strip()
            if re.match(CLOSURE_HEAD + r"$", arg_head):
                return classify_closure(s, fn, op, match_close(s, op), depth_guard, paren=True)
            return ("discarded", "argument of a call")
        return ("discarded", "inside [ ]")
    return ("unknown", "followed by " + repr(s[i:i + 12]))


def classify_closure(s, fn, op, close, depth_guard, paren=False):
    """value of a closure body: which adaptor receives the closure?"""
    call_open = op if paren else enclosing_open(s, op, fn.open)
    if call_open is None or s[call_open] != "(":
        return ("discarded", "closure not passed to a call")
    m = re.search(r"\.\s*(\w+)\s*(::\s*<[^>]*>)?\s*$", s[:call_open])
    if not m:
        return ("discarded", "closure passed to a function")
    name = m.group(1)
    if name in TRY_ADAPTORS:
        # receiver expression start: approximate with the statement start
        st = stmt_start(s, call_open, fn.open + 1)
        head = s[st:call_open]
        mm = re.match(r"\s*(return\s+|let\s+(mut\s+)?\w+\s*(:[^=]*)?=\s*)?", head)
        k, d = classify(s, fn, st + (mm.end() if mm else 0), match_close(s, call_open) + 1, depth_guard + 1)
        if k in PROPAGATING:
            return ("tryclosure", name)
        return ("discarded", name + " result " + k + " " + d)
    return ("discarded", "closure passed to ." + name)


def source_files(repo):
    files = []
    for root in ("src", "core/src"):
        for dp, dn, fn in os.walk(os.path.join(repo, root)):
            for f in fn:
                if f.endswith(".rs") and os.sep + "generated" + os.sep not in os.path.join(dp, f):
                    files.append(os.path.join(dp, f))
    files.sort()
    return files


def site_pattern(names):
    return re.compile(r"(?<![\w])(?:\.\s*)?\b(" + "|".join(sorted(map(re.escape, names))) + r")\s*(::\s*<[^>]*>)?\s*\(")


def scan(repo):
    files = source_files(repo)
    parsed = {}
    err_names = set()
    for f in files:
        src = open(f).read()
        s = strip_tests(blank_comments_and_strings(src))
        fns = find_fns(s, f)
        parsed[f] = (s, fns)
        for fn in fns:
            if fn.err:
                err_names.add(fn.name)
    sites = []
    if not err_names:
        raise ValueError("no error-returning function found: the scan no longer understands the sources")
    pat = site_pattern(err_names)
    for f, (s, fns) in parsed.items():
        rel = os.path.relpath(f, repo)
        for fn in fns:
            if fn.open is None:
                continue
            fn.pat = pat
            body = s[fn.open: fn.close + 1]
            for m in pat.finditer(body):
                start = fn.open + m.start()
                name = m.group(1)
                # skip definitions (`fn name(`)
                if re.search(r"\bfn\s+$", s[max(0, start - 8): start + (1 if s[start] == '.' else 0)]):
                    continue
                pre = s[max(0, start - 4): start]
                if re.search(r"fn\s*$", pre):
                    continue
                # is this call inside a nested fn body? then it is handled with that fn
                inner = [g for g in fns if g.open is not None and g.open > fn.open and g.close < fn.close and g.open < start < g.close]
                if inner:
                    continue
                call_open = fn.open + m.end() - 1
                call_close = match_close(s, call_open)
                # the whole postfix expression starts at the receiver; for classification only the end matters,
                # the start is used for statement/closure detection: walk back over the receiver chain
                es = start
                j = start - 1
                while j > fn.open:
                    while j > fn.open and s[j].isspace():
                        j -= 1
                    if s[j] == ".":
                        j -= 1
                        continue
                    if s[j] in ")]":
                        j = match_open(s, j) - 1
                        es = j + 1
                        continue
                    if re.match(r"[\w]", s[j]):
                        while j > fn.open and (re.match(r"[\w:]", s[j]) or s[j] in "&*"):
                            j -= 1
                        es = j + 1
                        # keep walking if preceded by `.`
                        k = j
                        while k > fn.open and s[k].isspace():
                            k -= 1
                        if s[k] == ".":
                            j = k
                            continue
                        break
                    break
                if s[start] != "." and not re.match(r"\w", s[start]):
                    es = start
                line = s.count("\n", 0, start) + 1
                kind, detail = classify(s, fn, es, call_close + 1)
                sites.append({"file": rel, "line": line, "fn": fn.name, "callee": name, "kind": kind, "detail": detail})
    return sites, sorted(err_names)


def textual_scan(repo):
    """INDEPENDENT count of call expressions, per file: line oriented, shares no code with
    find_fns / classify / blank_comments_and_strings / strip_tests (no function bodies, no bracket
    matching). Names: every `fn NAME .. -> Result<.., X::Error>` signature found by one regular
    expression over the text; calls: every `NAME(` that is not the definition `fn NAME(`, anywhere
    in the file (also outside function bodies, e.g. in macro definitions), outside `//` comments,
    one-line string literals, `/* */` comments and `#[cfg(test)] mod .. { }` (skipped by counting
    the braces of the lines). Returns ({relative file: count}, names)."""
    texts = {}
    for f in source_files(repo):
        text = re.sub(r"/\*.*?\*/", lambda m: re.sub(r"[^\n]", " ", m.group(0)), open(f).read(), flags=re.S)
        out = []
        skipping = None  # None, "armed" (saw #[cfg(test)], waiting for the mod's `{`) or the brace depth inside it
        for ln in text.split("\n"):
            ln = re.sub(r'"(?:[^"\\]|\\.)*"', '""', ln)
            ln = re.sub(r"'(?:[^'\\]|\\.)'", "' '", ln)
            ln = ln.split("//")[0]
            if skipping is None and re.match(r"\s*#\[cfg\(test\)\]\s*$", ln):
                skipping = "armed"
                out.append("")
                continue
            if skipping == "armed":
                if ln.strip() == "":
                    out.append("")
                    continue
                if not re.match(r"\s*(pub(\([^)]*\))?\s+)?mod\s+\w+\s*\{", ln):
                    skipping = None  # #[cfg(test)] on something that is not a module: keep it (as the classifier does)
                else:
                    skipping = 0
            if isinstance(skipping, int):
                skipping += ln.count("{") - ln.count("}")
                out.append("")
                if skipping <= 0:
                    skipping = None
                continue
            out.append(ln)
        texts[os.path.relpath(f, repo)] = "\n".join(out)
    names = set()
    for text in texts.values():
        for m in re.finditer(r"\bfn\s+(\w+)\b([^{;]*)", text):
            if re.search(r"->\s*Result\s*<.*::\s*Error\s*>", m.group(2), re.S) and m.group(1) not in ("try_from", "try_into"):
                names.add(m.group(1))
    if not names:
        raise ValueError("textual scan: no error-returning function found")
    call = re.compile(r"(?<![\w])(" + "|".join(sorted(map(re.escape, names))) + r")\s*(?:::\s*<[^>]*>)?\s*\(")
    counts = {}
    for rel, text in texts.items():
        n = 0
        for m in call.finditer(text):
            if re.search(r"\bfn\s+$", text[max(0, m.start() - 12): m.start()]):
                continue
            n += 1
        if n:
            counts[rel] = n
    return counts, sorted(names)


# ---------------------------------------------------------------------------------------------
# self-test: tools/tests/drawsites_cases.rs

def selftest():
    """Every `fn` of tools/tests/drawsites_cases.rs is preceded by `// expect: kind kind ...` (the
    expected kinds of its call sites in source order). Returns the list of mismatches."""
    import shutil, tempfile
    here = os.path.dirname(os.path.abspath(__file__))
    case_file = os.path.join(here, "tests", "drawsites_cases.rs")
    src = open(case_file).read()
    expected = {}
    for m in re.finditer(r"//\s*expect:([^\n]*)\n(?:\s*//[^\n]*\n)*\s*(?:pub\s+)?fn\s+(\w+)", src):
        expected[m.group(2)] = m.group(1).split()
    if len(expected) < 12:
        raise ValueError("drawsites self-test: case file not understood")
    tmp = tempfile.mkdtemp(prefix="drawsites_selftest_")
    try:
        os.makedirs(os.path.join(tmp, "src"))
        shutil.copy(case_file, os.path.join(tmp, "src", "cases.rs"))
        sites, _ = scan(tmp)
        counts, _ = textual_scan(tmp)
    finally:
        shutil.rmtree(tmp, ignore_errors=True)
    got = {}
    for st in sites:
        got.setdefault(st["fn"], []).append(st["kind"])
    bad = []
    for name, exp in expected.items():
        if got.get(name, []) != exp:
            bad.append(f"{name}: expected {exp}, classified {got.get(name, [])}")
    for name in got:
        if name not in expected:
            bad.append(f"{name}: no `// expect:` line")
    m = re.search(r"//\s*expect-textual-count:\s*(\d+)", src)
    if not m or counts.get(os.path.join("src", "cases.rs")) != int(m.group(1)):
        bad.append(f"textual scan counted {counts.get(os.path.join('src', 'cases.rs'))} call expressions, case file says {m.group(1) if m else '?'}")
    if len(sites) != sum(counts.values()):
        bad.append(f"classifier saw {len(sites)} sites, textual scan {sum(counts.values())}")
    return bad


def lean_str(x):
    return '"' + x.replace("\\", "\\\\").replace('"', '\\"') + '"'


def generate(repo):
    bad = selftest()
    if bad:
        raise ValueError("tr_drawsites self-test failed: " + "; ".join(bad[:4]))
    sites, names = scan(repo)
    if len(sites) < 20:
        raise ValueError(f"only {len(sites)} call sites found: the scan no longer understands the sources")
    textual, tnames = textual_scan(repo)
    lines = [
        "/- GENERATED by tools/tr_drawsites.py from /repo's sources on every run. Do not edit. -/",
        "namespace EG.Generated",
        "",
        "/-- how a call site consumes the `Result` (see tools/tr_drawsites.py for the exact rules) -/",
        "inductive SiteKind | q | tail | ret | boundQ | matchRet | tryClosure | discarded | unknown",
        "  deriving DecidableEq, Repr",
        "",
        "structure DrawSite where",
        "  file : String",
        "  line : Nat",
        "  fn : String",
        "  callee : String",
        "  kind : SiteKind",
        "  detail : String",
        "  deriving DecidableEq, Repr",
        "",
        "/-- every call site of a function returning the draw target's error, outside tests, as seen by",
        "the classifier (function bodies, bracket matching) -/",
        "def drawSites : List DrawSite := [",
    ]
    kmap = {"q": ".q", "tail": ".tail", "ret": ".ret", "bound_q": ".boundQ", "match_ret": ".matchRet", "tryclosure": ".tryClosure",
            "discarded": ".discarded", "unknown": ".unknown"}
    rows = []
    for st in sites:
        rows.append(f"  ⟨{lean_str(st['file'])}, {st['line']}, {lean_str(st['fn'])}, {lean_str(st['callee'])}, {kmap[st['kind']]}, {lean_str(st['detail'])}⟩")
    lines.append(",\n".join(rows))
    lines.append("]")
    lines.append("")
    lines.append("/-- number of call expressions per file found by the independent line-oriented textual scan")
    lines.append("(`textual_scan` in tools/tr_drawsites.py: no function or bracket parsing) -/")
    lines.append("def textualCallCounts : List (String × Nat) := [")
    lines.append(",\n".join(f"  ({lean_str(f)}, {n})" for f, n in sorted(textual.items())))
    lines.append("]")
    lines.append("")
    lines.append("def errorReturningFns : List String := [" + ", ".join(lean_str(n) for n in names) + "]")
    lines.append("")
    lines.append("/-- the error-returning function names as found by the textual scan's own regular expression -/")
    lines.append("def textualErrorReturningFns : List String := [" + ", ".join(lean_str(n) for n in tnames) + "]")
    lines.append("")
    lines.append("end EG.Generated")
    counts = {}
    for st in sites:
        counts[st["kind"]] = counts.get(st["kind"], 0) + 1
    return {"DrawSites.lean": "\n".join(lines) + "\n"}, {"sites": len(sites), "kinds": counts, "error_returning_fns": len(names),
                                                          "textual_call_expressions": sum(textual.values()), "selftest": "ok"}


if __name__ == "__main__":
    import sys
    if "--selftest" in sys.argv:
        bad = selftest()
        for b in bad:
            print("FAIL", b)
        print("tr_drawsites self-test:", "FAILED" if bad else "ok")
        sys.exit(1 if bad else 0)
    repo = sys.argv[1] if len(sys.argv) > 1 else "/repo"
    sites, names = scan(repo)
    for st in sites:
        print(f"{st['kind']:10} {st['file']}:{st['line']} {st['fn']} -> {st['callee']}  {st['detail']}")
    print(len(sites), "sites;", len(names), "error-returning fns:", names)
    counts = {}
    for st in sites:
        counts[st["kind"]] = counts.get(st["kind"], 0) + 1
    print("per kind:", counts)
    textual, tnames = textual_scan(repo)
    print("textual scan:", sum(textual.values()), "call expressions;", len(tnames), "names", "(same names)" if tnames == names else "(DIFFERENT names: %s)" % sorted(set(tnames) ^ set(names)))
    per = {}
    for st in sites:
        per[st["file"]] = per.get(st["file"], 0) + 1
    for f in sorted(set(per) | set(textual)):
        if per.get(f, 0) != textual.get(f, 0):
            print("  MISMATCH", f, "classifier", per.get(f, 0), "textual", textual.get(f, 0))
