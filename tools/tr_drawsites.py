"""tr_drawsites.py — translator part for C04: how every call that can return a draw-target error
consumes that `Result`.

Scans all non-test Rust sources of the two crates. An *error-returning function* is a `fn` whose
return type (the text after the signature's own `->`: the first one outside ( ) [ ] < >, so not the
`->` of a parameter `f: impl Fn(u32) -> u32` or of a bound) is `Result<_, E>` — written out or
through `type` aliases of the scanned sources (`type R<E> = Result<(), E>`) — with E EXACTLY a path
ending in `::Error` (`D::Error`, `T::Error`, `<D as DrawTarget>::Error`; `Self::Error` only if the
surrounding impl/trait declares `type Error;`, assigns `type Error = X::Error;` or does not mention
it). `Result<(), Wrap<D::Error>>` or `type Error = Wrap<T::Error>` is NOT one: a `?` there converts
the error value through `From`.
A *call site* is a call expression BY NAME of such a function inside a function body: `NAME(`,
`.NAME(`, `PATH::NAME(`, also with generic arguments `NAME::<A, B<C>>(` (nested `<..>` are balanced).
Every site is classified by what happens to its value. The rules are SYNTACTIC and strict: a site is
classified as *propagating* only in one of the forms below, chosen so that whenever the call returns
`Err(e)` the enclosing function returns `Err(e)` (the same value) at once, i.e. without evaluating
any other call site first. Forms that would propagate in fact but are not listed are refused (alarm
side; see the `alarm_*` regression cases).

  q          followed by `?` (possibly after `.map(..)`, which cannot touch an `Err`), in a function
             that itself returns the target's error, not inside a closure
  tail       value of the enclosing function body (directly, or as the value of a tail `if/else`
             / `match` arm / plain or `unsafe` block), and the enclosing function is itself
             error-returning
  ret        `return <call>;`, `if c { return <call> }`, `pat => return <call>,` (same conditions as q)
  bound_q    `let x = <call>;` whose FIRST later mention of `x` is in the same block at the same
             nesting depth, with no other call site, `?`, `return`, `break` or `continue` in between,
             and is `x?` standing FIRST in its statement — nothing before it in that statement but
             `let PATTERN =` (so not `c && x? == ()`, `while c && x? ..`, `|| x?`, `f(a, x?)`) — or
             `x` alone as the value of the function body
  match_ret  `match <call> { Err(e) => return Err(e), .. }` or `e @ Err(_) => return e`: the only arm
             mentioning `Err`, no guard on it, and every arm before it a PLAIN `Ok(..)` pattern (no
             `|` alternative after the `)`, no guard: `Ok(()) | _`, `Ok(()) | Bad(_)` are refused); and
             `if let Err(e) = <call> { return Err(e); }`
  tryclosure value (tail, `?` or `return`) of a closure that is a whole argument of the standard
             `try_for_each`/`try_fold` whose own result is q/tail/ret/... (not trusted when the scanned
             sources define a function of that name themselves)

Closures: a site is *inside a closure* when a `|..|` / `||` / `move |..|` head encloses it — with a
block body or without braces (`let g = |i| match i { .. <site>? .. }`), bound by `let`, passed as an
argument, written as a struct-literal field (`f: |..| ..`) or after a label (`closure_at`). A `|` is
taken for a closure head UNLESS it directly follows the end of an operand — a word that is neither an
expression keyword (`move`, `return`, ..) nor a label, a literal, `)`, `]`, `?` — where it is a binary
or / an or-pattern. `?` / `return` in a closure only leave the closure, so whatever the form, a site
inside a closure is non-propagating unless the innermost closure is a `tryclosure` one.

Opaque contexts (`opaque_context`): a site inside the ARGUMENTS of a macro invocation `name!( .. )` /
`name![ .. ]` / `name!{ .. }` is `unknown` whatever its form (the macro decides where and whether its
arguments are expanded: `attempt!(call?)` may wrap them in a closure whose result is dropped); no
macro is trusted to be transparent (`TRANSPARENT_MACROS` is empty: the current sources have no site
in macro arguments). A site inside an `async` / `try` block is `unknown` (`?` leaves only the block).

Macro definitions: a site inside the body of a `macro_rules!` is `unknown` (the body is expanded
elsewhere, e.g. inside a closure whose result is dropped) unless it is inside a whole `fn` item of
that body; sites of macro bodies outside every function are listed with fn = "macro_rules! NAME".

Everything else does not propagate:

  discarded  a form known to drop, defer or change the error: `;` statement, `let _ =`, `.ok()`,
             `.unwrap_or*`, `.is_ok()`, `.err()`, `.or_else(..)`, `.map_err(..)`, `.and_then(..)`,
             `.and(..)`, closure passed to a non-`try_` adaptor (std or home-made) or bound by `let`,
             argument of another call, a bound variable that is used late / conditionally / never,
             `?` in a function returning another error type, ...
  unknown    a form this scan does not follow (counts as not propagating): macro bodies and macro
             arguments, a call as the value of a `break` (the loop's / labelled block's value is not
             followed), `?` in a function whose error type mentions but is not exactly the target's,
             an unknown method on the result, ...

What the rules do NOT see (listed as [V] lines in EG/Props/C04.lean): calls not made by name
(function pointers, method paths, a name that is a macro argument), whether two `X::Error` paths are
the same TYPE, errors dropped by means that are not a call-site form (`mem::forget`, wrapper types),
a method named `try_for_each` / `try_fold` defined outside the scanned sources, and any Rust syntax
for delaying evaluation other than closures, macro arguments and `async` / `try` blocks.

Output: lean/EG/Generated/DrawSites.lean with one record per site, plus the number of call
expressions per file found by an INDEPENDENT textual scan (`textual_scan`, line oriented, no
function/bracket parsing). `all_sites_propagate` and `prefix_law_sites` (EG/Props/C04.lean) are
decided over this table, so a site that is not in one of the six propagating forms changes the
generated file and breaks the theorems; `sites_match_textual_scan` breaks when the classifier's
parser does not see a call expression that the textual scan sees (or vice versa). Both scans share
the notion of a call expression (`NAME(`, `NAME::<..>(`): a call written in a way neither recognises
is seen by neither.

`generate()` (run by tools/translate.py on every ./check) first runs `selftest()` on the snippets
in tools/tests/drawsites_cases*.rs (every function there carries its expected kinds in a
`// expect:` comment; each file is scanned as a source tree of its own);
`python3 tools/tr_drawsites.py --selftest` runs it alone. The cases marked `violates` were checked
against a fault-injecting target (tools/tests/drawsites_validate_audit4.rs does it for the fourth
audit's file and can be re-run).
"""
import os
import re

# methods that certainly drop, replace or defer the error
DISCARD_METHODS = {"ok", "unwrap_or", "unwrap_or_default", "unwrap_or_else", "is_ok", "is_err", "err", "unwrap", "expect",
                   "unwrap_unchecked", "or_else", "or", "map_err", "and_then", "and", "map_or", "map_or_else", "iter",
                   "into_iter", "unwrap_err", "expect_err", "is_ok_and", "is_err_and", "inspect_err"}
# methods that hand an `Err` on unchanged and make no call when the value is an `Err`
# (`map`'s closure only runs on `Ok`; a call site inside that closure is classified on its own)
PASS_METHODS = {"map"}
TRY_ADAPTORS = {"try_for_each", "try_fold"}
# `<..>` with up to three levels of nested `<..>` inside (for text matched BACKWARDS from a `(`)
ANGLE = r"<(?:[^<>]|<(?:[^<>]|<(?:[^<>]|<[^<>]*>)*>)*>)*>"
PROPAGATING = ("q", "tail", "ret", "bound_q", "match_ret", "tryclosure")


def blank_comments_and_strings(src):
    out = list(src)
    i, n = 0, len(src)
    while i < n:
        c = src[i]
        if src.startswith("//", i):
            while i < n and src[i] != "\n":
                out[i] = " "
                i += 1
        elif src.startswith("/*", i):
            depth = 0
            while i < n:
                if src.startswith("/*", i):
                    depth += 1
                    out[i] = out[i + 1] = " "
                    i += 2
                elif src.startswith("*/", i):
                    depth -= 1
                    out[i] = out[i + 1] = " "
                    i += 2
                    if depth == 0:
                        break
                else:
                    if src[i] != "\n":
                        out[i] = " "
                    i += 1
        elif c == "r" and (i == 0 or not (src[i - 1].isalnum() or src[i - 1] == "_") or (src[i - 1] == "b" and (i < 2 or not (src[i - 2].isalnum() or src[i - 2] == "_")))) \
                and re.match(r'r#*"', src[i:i + 80]):
            # raw string r"..", r#".."#, br##".."## (no escapes; ends at `"` followed by the same number of `#`)
            hashes = len(re.match(r'r(#*)"', src[i:i + 80]).group(1))
            i += 1 + hashes + 1
            end = src.find('"' + "#" * hashes, i)
            if end < 0:
                end = n
            for k in range(i, end):
                if src[k] != "\n":
                    out[k] = " "
            i = end + 1 + hashes
        elif c == '"':
            i += 1
            while i < n and src[i] != '"':
                if src[i] == "\\":
                    out[i] = " "
                    i += 1
                if i < n and src[i] != "\n":
                    out[i] = " "
                i += 1
            i += 1
        elif c == "'" and i + 2 < n and (src[i + 2] == "'" or (src[i + 1] == "\\")):
            # char literal (not a lifetime)
            j = i + 1
            if src[j] == "\\":
                j += 2
                while j < n and src[j] != "'":
                    j += 1
            else:
                j += 1
            for k in range(i + 1, min(j, n)):
                out[k] = " "
            i = j + 1
        else:
            i += 1
    return "".join(out)


def match_close(s, i):
    """index of the bracket closing the opener at s[i]"""
    pairs = {"(": ")", "[": "]", "{": "}"}
    depth = 0
    for j in range(i, len(s)):
        ch = s[j]
        if ch in "([{":
            depth += 1
        elif ch in ")]}":
            depth -= 1
            if depth == 0:
                return j
    raise ValueError("unbalanced bracket")


def match_open(s, i):
    """index of the bracket opening the closer at s[i]"""
    depth = 0
    for j in range(i, -1, -1):
        ch = s[j]
        if ch in ")]}":
            depth += 1
        elif ch in "([{":
            depth -= 1
            if depth == 0:
                return j
    raise ValueError("unbalanced bracket")


def enclosing_open(s, i, lo):
    """nearest unmatched opener before position i (not before lo), or None"""
    depth = 0
    for j in range(i - 1, lo - 1, -1):
        ch = s[j]
        if ch in ")]}":
            depth += 1
        elif ch in "([{":
            if depth == 0:
                return j
            depth -= 1
    return None


def strip_tests(s):
    """blank out `#[cfg(test)] mod <name> { ... }` blocks"""
    out = s
    for m in list(re.finditer(r"#\[cfg\(test\)\]\s*(?:pub(?:\([^)]*\))?\s+)?mod\s+\w+\s*\{", s)):
        o = m.end() - 1
        c = match_close(s, o)
        out = out[: m.start()] + re.sub(r"[^\n]", " ", out[m.start(): c + 1]) + out[c + 1:]
    return out


def split_top(text):
    """split at commas that are outside ( ) [ ] { } and < > (`->` is not a closing angle bracket)"""
    parts, depth, cur = [], 0, []
    for k, ch in enumerate(text):
        if ch in "([{<":
            depth += 1
        elif ch in ")]}" or (ch == ">" and not (k > 0 and text[k - 1] == "-")):
            depth -= 1
        if ch == "," and depth == 0:
            parts.append("".join(cur))
            cur = []
        else:
            cur.append(ch)
    parts.append("".join(cur))
    return [p.strip() for p in parts]


# a path that ends in `::Error` with nothing around it: `D::Error`, `Self::Error`, `<D as DrawTarget>::Error`
EXACT_ERROR_PATH = re.compile(r"^(?:<[^<>]*>|\w+)(?:\s*::\s*\w+)*\s*::\s*Error$")
ALIAS_DECL = re.compile(r"\btype\s+(\w+)\s*(?:<([^=;]*)>)?\s*=\s*([^;]+);")
RESULT_HEAD = re.compile(r"^(?:(?:::\s*)?(?:core|std)\s*::\s*result\s*::\s*)?Result\s*<(.*)>$", re.S)


def find_aliases(s):
    """`type NAME<P, ..> = <something mentioning Result>;` -> {NAME: ([P, ..], rhs)}"""
    out = {}
    for m in ALIAS_DECL.finditer(s):
        rhs = " ".join(m.group(3).split())
        if not re.search(r"\bResult\s*<", rhs):
            continue
        params = [p.split(":")[0].strip() for p in split_top(m.group(2))] if m.group(2) else []
        out[m.group(1)] = (params, rhs)
    return out


def error_type(ret, aliases):
    """the error type of a return type if it is `Result<T, E>` (directly or through `type` aliases of
    the scanned sources) with E exactly a path ending in `::Error`; None otherwise — in particular for
    `Result<(), Wrap<D::Error>>`, where `?` converts the error value through `From`"""
    ret = " ".join(ret.split())
    for _ in range(4):
        m = RESULT_HEAD.match(ret)
        if m and not ("Result" in aliases and ret.startswith("Result")):
            parts = split_top(m.group(1))
            if len(parts) != 2:
                return None
            return parts[1] if EXACT_ERROR_PATH.match(parts[1]) else None
        m = re.match(r"^(?:\w+\s*::\s*)*(\w+)\s*(?:<(.*)>)?$", ret, re.S)
        if not m or m.group(1) not in aliases:
            return None
        params, rhs = aliases[m.group(1)]
        args = split_top(m.group(2)) if m.group(2) else []
        if len(args) != len(params):
            return None
        sub = dict(zip(params, args))
        ret = re.sub(r"(?<![\w:])(" + "|".join(map(re.escape, params)) + r")\b", lambda mm: sub[mm.group(1)], rhs) if params else rhs
    return None


def self_error_is_targets(s, pos):
    """`Self::Error` in the signature at pos: look at the enclosing `impl` / `trait` block. True if the
    block declares `type Error;` (the trait itself), assigns `type Error = X::Error;` (an adapter
    handing the inner target's error on) or does not mention `type Error` at all (an extension
    trait: Self is the target). False for `type Error = Wrap<T::Error>`, `= Infallible`, ..."""
    op = enclosing_open(s, pos, 0)
    if op is None or s[op] != "{":
        return False
    header = s[stmt_start(s, op, 0): op]
    if not re.search(r"\b(impl|trait)\b", header):
        return False
    close = match_close(s, op)
    flat, depth = [], 0
    for ch in s[op + 1: close]:
        if ch in "([{":
            depth += 1
        elif ch in ")]}":
            depth -= 1
        elif depth == 0:
            flat.append(ch)
    m = re.search(r"\btype\s+Error\b([^;]*);", "".join(flat))
    if not m:
        return True
    if "=" not in m.group(1):
        return True
    rhs = " ".join(m.group(1).split("=", 1)[1].split())
    return bool(EXACT_ERROR_PATH.match(rhs)) and not rhs.startswith("Self")


class Fn:
    def __init__(self, name, ret, body_open, body_close, file, pos=0):
        self.name, self.ret, self.open, self.close, self.file, self.pos = name, ret, body_open, body_close, file, pos
        self.err = False  # set by resolve_err once the aliases of all files are known

    def resolve_err(self, s, aliases):
        """does the function return the draw target's error type itself: `Result<_, X::Error>` with
        the error type EXACTLY a path ending in `::Error` (TryFrom's is not one)"""
        e = error_type(self.ret, aliases)
        self.err = e is not None and self.name not in ("try_from", "try_into")
        if self.err and re.match(r"Self\b", e):
            self.err = self_error_is_targets(s, self.pos)


def return_type(sig):
    """the text after the signature's own `->`: the first one outside ( ) [ ] < > (the `->` of a
    parameter `f: impl Fn(u32) -> u32` or of a bound `<F: Fn(u32) -> u32>` is not it); "" if none"""
    depth, k = 0, 0
    while k < len(sig):
        if sig.startswith("->", k):
            if depth == 0:
                return sig[k + 2:]
            k += 2
            continue
        if sig[k] in "([<":
            depth += 1
        elif sig[k] in ")]>":
            depth -= 1
        k += 1
    return ""


def find_fns(s, file):
    fns = []
    for m in re.finditer(r"\bfn\s+(\w+)", s):
        # signature ends at the first `{` or `;` at bracket depth 0 (generics use <>, not tracked; `where` clauses have no braces)
        i = m.end()
        depth = 0
        while i < len(s):
            ch = s[i]
            if ch in "([":
                depth += 1
            elif ch in ")]":
                depth -= 1
            elif depth == 0 and ch in "{;":
                break
            i += 1
        if i >= len(s) or s[i] == ";":
            ret = return_type(s[m.end(): i]).split("where")[0]
            fns.append(Fn(m.group(1), ret, None, None, file, m.start()))
            continue
        ret = return_type(s[m.end(): i]).split("where")[0]
        fns.append(Fn(m.group(1), ret, i, match_close(s, i), file, m.start()))
    return fns


def stmt_start(s, i, lo):
    """start of the statement containing position i: after the previous `;`, `{` or `}` at the same depth"""
    depth = 0
    j = i - 1
    while j >= lo:
        ch = s[j]
        if ch in ")]}":
            if ch == "}" and depth == 0:
                return j + 1
            depth += 1
        elif ch in "([{":
            if depth == 0:
                return j + 1
            depth -= 1
        elif ch == ";" and depth == 0:
            return j + 1
        j -= 1
    return lo


EXPR_START_KEYWORDS = {"move", "return", "in", "else", "match", "if", "while", "break", "yield", "async", "static", "mut"}


def level_start(s, i, lo):
    """start of the text, at the bracket level of position i, that belongs to the same statement as i:
    after the previous `;` at that level or after the level's opener (bracketed groups, including
    `{ }` blocks, are skipped: `|i| if c { a } else { <here> }` belongs to the closure's statement)"""
    j = i - 1
    while j >= lo:
        ch = s[j]
        if ch in ")]}":
            j = match_open(s, j) - 1
            continue
        if ch in "([{":
            return j + 1
        if ch == ";":
            return j + 1
        j -= 1
    return lo


def closure_head_before(s, a, b):
    """scan s[a:b] (text of ONE bracket level; nested groups are skipped) for closure heads `|args|`,
    `||`, `move |args|`. Returns the index of the `|` opening the closure whose body contains
    position b, or None. A `|` is a closure head unless it directly follows the end of an operand
    (a word that is neither a keyword such as `move` / `return` nor a label, a literal, `)`, `]`,
    `?`), where it is a binary or / an or-pattern: so also after `:` (struct-literal field), a
    label, `..`, `<`. A closure body without braces ends at the next `,` of its level
    (not a comma inside `::<..>`, nor one after an unclosed `<`: `x as P<A, B>`; a `-> Type` after
    the head is skipped up to the body's `{`). When in doubt the answer is "inside a closure"."""
    i, inside, angle = a, None, 0
    while i < b:
        ch = s[i]
        if ch == "<":
            angle += 1
        elif ch == ">" and s[i - 1] not in "-=":
            angle -= 1
        if ch in "([{":
            i = match_close(s, i) + 1
            continue
        if s.startswith("::", i) and re.match(r"::\s*<", s[i:i + 8]):
            # turbofish: skip to the matching `>`
            k = s.index("<", i)
            depth = 0
            while k < b:
                if s[k] == "<":
                    depth += 1
                elif s[k] == ">" and s[k - 1] != "-":
                    depth -= 1
                    if depth == 0:
                        break
                k += 1
            i = k + 1
            continue
        if ch == ",":
            if angle <= 0:
                inside = None
            i += 1
            continue
        if ch == "|":
            j = i - 1
            while j >= a and s[j].isspace():
                j -= 1
            if j >= a and (s[j].isalnum() or s[j] == "_"):
                # after a word: an operand (binary or / or-pattern) unless the word is a keyword after
                # which an expression starts, or a label (`break 'a |..| ..`)
                k = j
                while k >= a and (s[k].isalnum() or s[k] == "_"):
                    k -= 1
                starts = s[k + 1: j + 1] in EXPR_START_KEYWORDS or (k >= 0 and s[k] == "'")
            else:
                # after the end of an operand (`)`, `]`, `?`, a string / char literal) it is a binary or /
                # an or-pattern; anywhere else (`( , = ; : { } [ => ! & | < > + ..`, start of the text) a
                # closure head
                starts = j < a or s[j] not in ")]?\"'"
            double = s.startswith("||", i)
            if not starts:
                i += 2 if double else 1
                continue
            inside, angle = i, 0
            if double:
                i += 2
            else:
                # closing `|` of the argument list (patterns may contain bracketed groups)
                k = i + 1
                while k < b and s[k] != "|":
                    k = match_close(s, k) + 1 if s[k] in "([{" else k + 1
                i = k + 1
            m = re.match(r"\s*->", s[i:b])
            if m:
                # explicit return type: the body is the next `{`
                k = s.find("{", i + m.end(), b)
                i = b if k < 0 else k
            continue
        i += 1
    return inside


def closure_at(s, fn, pos):
    """innermost closure (with or without braces, `move` or not, bound by `let` or passed as an
    argument) whose body contains position pos: (index of its opening `|`, opener of the bracket
    level the closure expression stands in); None if pos is directly in the function's own body."""
    child = pos
    while True:
        op = enclosing_open(s, child, fn.open)
        if op is None:
            return None
        head = closure_head_before(s, level_start(s, child, op + 1), child)
        if head is not None:
            return (head, op)
        if op == fn.open:
            return None
        child = op


def closure_body_at(s, fn, pos):
    """(head, level opener) of the closure whose body STARTS at position pos (`|args| <pos>`, or
    `|args| -> T <pos>{`), else None"""
    clo = closure_at(s, fn, pos)
    if clo is None:
        return None
    head = clo[0]
    if s.startswith("||", head):
        k = head + 2
    else:
        k = head + 1
        while k < pos and s[k] != "|":
            k = match_close(s, k) + 1 if s[k] in "([{" else k + 1
        k += 1
    between = s[k:pos].strip()
    if between == "" or (s[pos] == "{" and re.match(r"^->[^{;]*$", between)):
        return clo
    return None


# macros known to expand to their argument where it stands (so that a `?` / `return` / tail value in the
# argument means what it says); the current sources need none
TRANSPARENT_MACROS = set()


def opaque_context(s, fn, pos):
    """is position pos of fn's body inside the arguments of a macro invocation `name!( .. )` /
    `name![ .. ]` / `name!{ .. }` (the macro decides where its arguments are expanded: inside a closure
    whose result is dropped, twice, never) or inside an `async` / `try` block (`?` only leaves the
    block)? Returns a description, or None."""
    child = pos
    while True:
        op = enclosing_open(s, child, fn.open)
        if op is None or op == fn.open:
            return None
        before = s[max(0, op - 80): op]
        m = re.search(r"(\w+)\s*!\s*$", before)
        if m and m.group(1) not in TRANSPARENT_MACROS and m.group(1) not in EXPR_START_KEYWORDS:  # `if !(..)` is a negation
            return "inside the arguments of the macro invocation " + m.group(1) + "! (expanded by the macro)"
        if s[op] == "{":
            m = re.search(r"\b(async|try)(\s+move)?\s*$", before)
            if m:
                return "inside an `" + m.group(1) + "` block (`?` leaves only the block)"
        child = op


def exits_function(s, fn, expr_start, how, depth_guard):
    """`?` / `return` at expr_start: leaves the function with the error only if it is not inside a
    closure and the function returns the target's error type"""
    clo = closure_at(s, fn, expr_start)
    if clo is not None:
        k, d = classify_closure(s, fn, clo[0], clo[1], depth_guard)
        if k == "tryclosure":
            return ("tryclosure", how + " in closure of " + d)
        return (k if k == "unknown" else "discarded", how + " inside a closure: " + d)
    if not fn.err:
        if re.search(r"\bError\b", fn.ret) or not re.search(r"\bResult\b", fn.ret):
            return ("unknown", how + " in fn " + fn.name + " whose error type is not exactly the target's (`?` may convert the error)")
        return ("discarded", how + " in fn " + fn.name + " which does not return the target's error")
    return None


def split_arms(body):
    """[(pattern, expression)] of a match body, or None if it cannot be split"""
    arms = []
    i, n = 0, len(body)
    while True:
        while i < n and (body[i].isspace() or body[i] == ","):
            i += 1
        if i >= n:
            return arms
        j, depth = i, 0
        while j < n:
            ch = body[j]
            if ch in "([{":
                depth += 1
            elif ch in ")]}":
                depth -= 1
            elif depth == 0 and body.startswith("=>", j):
                break
            j += 1
        if j >= n:
            return None
        pattern = body[i:j].strip()
        j += 2
        while j < n and body[j].isspace():
            j += 1
        if j < n and body[j] == "{":
            c = match_close(body, j)
            expr = body[j: c + 1]
            i = c + 1
            k = i
            while k < n and body[k].isspace():
                k += 1
            if k < n and body[k] in ".?":
                return None  # `{ .. }.method()` arm: not understood
        else:
            k, depth = j, 0
            while k < n:
                ch = body[k]
                if ch in "([{":
                    depth += 1
                elif ch in ")]}":
                    depth -= 1
                elif ch == "," and depth == 0:
                    break
                k += 1
            expr = body[j:k].strip()
            i = k + 1
        arms.append((pattern, expr))


def classify_scrutinee(s, fn, expr_start, brace, depth_guard):
    """the call is followed by `{`: scrutinee of `match` / `if let` / `while let` ..."""
    st = stmt_start(s, expr_start, fn.open + 1)
    head = s[st:expr_start]
    close = match_close(s, brace)
    body = s[brace + 1: close]
    m = re.search(r"\bif\s+let\s+Err\s*\(\s*(\w+)\s*\)\s*=\s*$", head)
    if m:
        if re.match(r"^\s*return\s+Err\s*\(\s*" + re.escape(m.group(1)) + r"\s*\)\s*;?\s*$", body):
            bad = exits_function(s, fn, expr_start, "return", depth_guard)
            return bad if bad else ("match_ret", "if let Err(" + m.group(1) + ")")
        return ("discarded", "if let Err(..) whose block is not `return Err(..)`")
    if re.search(r"\bmatch\s*$", head):
        arms = split_arms(body)
        if arms is None:
            return ("unknown", "match arms not understood")
        err_arms = [k for k, (pattern, _) in enumerate(arms) if re.search(r"\bErr\b", pattern)]
        if len(err_arms) != 1:
            return ("discarded", "match with %d arms mentioning Err" % len(err_arms))
        k = err_arms[0]
        pattern, expr = arms[k]
        m = re.match(r"^Err\s*\(\s*(\w+)\s*\)$", pattern)
        m2 = re.match(r"^(\w+)\s*@\s*Err\s*\(\s*_\s*\)$", pattern)
        if m2 and m2.group(1) != "_":
            # `e @ Err(_) => return e`: the whole `Result` is returned as it is
            value = re.escape(m2.group(1))
        elif m and m.group(1) != "_":
            value = r"Err\s*\(\s*" + re.escape(m.group(1)) + r"\s*\)"
        else:
            return ("discarded", "Err arm pattern `" + pattern[:30] + "`")
        if not (re.match(r"^return\s+" + value + r"$", expr)
                or re.match(r"^\{\s*return\s+" + value + r"\s*;?\s*\}$", expr)):
            return ("discarded", "Err arm `" + pattern[:20] + "` does not return that error at once")
        for pattern2, _ in arms[:k]:
            # a PLAIN `Ok(..)` pattern: no `|` alternative after it (`Ok(()) | _`, `Ok(()) | Bad(_)` with
            # `use Result::Err as Bad` catch the `Err`), no guard
            mo = re.match(r"^Ok\s*\(", pattern2)
            if not mo or match_close(pattern2, mo.end() - 1) != len(pattern2) - 1:
                return ("discarded", "arm `" + pattern2[:30] + "` before the Err arm is not a plain `Ok(..)` pattern")
        bad = exits_function(s, fn, expr_start, "return", depth_guard)
        return bad if bad else ("match_ret", "match")
    if re.search(r"\b(if|while)\s+let\b[^;{}]*=\s*$", head):
        return ("discarded", "scrutinee of " + " ".join(head.split())[-40:])
    return ("unknown", "followed by a block")


def classify_binding(s, fn, var, semi, expr_start, depth_guard):
    """`let var = <call>;` (semi = index of the `;`)"""
    if var.startswith("_"):
        return ("discarded", "let " + var)
    blk = enclosing_open(s, expr_start, fn.open)
    if blk is None or s[blk] != "{":
        return ("unknown", "let " + var + " not directly in a block")
    blk_close = match_close(s, blk)
    region = s[semi + 1: blk_close]
    mu = re.search(r"\b" + re.escape(var) + r"\b", region)
    if not mu:
        return ("discarded", "let " + var + " never used in its block")
    between = region[: mu.start()]
    depth = 0
    for ch in between:
        if ch in "([{":
            depth += 1
        elif ch in ")]}":
            depth -= 1
    if depth != 0:
        return ("discarded", "let " + var + " first used inside a nested block or call (not unconditional)")
    if any(True for _ in iter_sites(fn.pat, between)):
        return ("discarded", "let " + var + ": another call site before its first use")
    # the first use must be the FIRST thing its statement evaluates: nothing before it in that statement
    # but `let PATTERN =` (`c && x? == ()`, `while c && x? ..`, `f(a, x?)`, `|| x?` are conditional
    # or deferred uses)
    cut = max(between.rfind(";"), between.rfind("}"), between.rfind("{")) + 1
    earlier, prefix = between[:cut], between[cut:]
    mx = re.search(r"\?|\b(return|break|continue)\b", earlier)
    if mx:
        return ("discarded", "let " + var + ": `" + mx.group(0) + "` before its first use")
    if not re.match(r"^\s*(let\s+(mut\s+)?[\w\s(),&]+(:[^=;]*)?=\s*)?$", prefix):
        return ("discarded", "let " + var + ": first use is not at the start of its statement (`" + " ".join(prefix.split())[:30] + "` before it)")
    after = region[mu.end():]
    if re.match(r"\s*\?", after):
        bad = exits_function(s, fn, expr_start, "?", depth_guard)
        return bad if bad else ("bound_q", var)
    if prefix.strip() != "":
        return ("discarded", "let " + var + ": first use is neither `" + var + "?` nor the function's value")
    if after.strip() == "" and blk == fn.open:
        return ("bound_q", var + " (tail)") if fn.err else ("discarded", "tail of non-error fn " + fn.name)
    return ("discarded", "let " + var + ": first use is neither `" + var + "?` nor the function's value")


def classify(s, fn, expr_start, e, depth_guard=0):
    """how the value of the expression s[expr_start:e] is consumed; returns (kind, detail)"""
    if depth_guard > 12:
        return ("unknown", "too-deep")
    n = len(s)
    i = e
    while i < n and s[i].isspace():
        i += 1
    c = s[i] if i < n else ""
    if c == "?":
        bad = exits_function(s, fn, expr_start, "?", depth_guard)
        return bad if bad else ("q", "")
    if c == ".":
        m = re.match(r"\.\s*(\w+)\s*", s[i:i + 200])
        if not m:
            return ("unknown", "field-access")
        name = m.group(1)
        k = skip_turbofish(s, i + m.end())
        k = i + m.end() if k is None else k
        while k < n and s[k].isspace():
            k += 1
        if k >= n or s[k] != "(":
            return ("unknown", "field-access")
        close = match_close(s, k)
        if name in DISCARD_METHODS:
            return ("discarded", "." + name + "()")
        if name in PASS_METHODS:
            return classify(s, fn, expr_start, close + 1, depth_guard + 1)
        return ("unknown", "method ." + name)
    if c == "{":
        return classify_scrutinee(s, fn, expr_start, i, depth_guard)
    if c in "},;":
        # `break <call>` / `break 'label <call>`: the value of a loop or labelled block; what happens to that
        # value is not followed
        head = s[stmt_start(s, expr_start, fn.open + 1): expr_start].strip()
        if re.search(r"(^|=>\s*)break(\s+'\w+)?$", head):
            return ("unknown", "value of a `break` (the loop's / block's value is not followed)")
    if c == ";":
        st = stmt_start(s, expr_start, fn.open + 1)
        head = s[st:expr_start].strip()
        if re.match(r"return\b", head):
            if head != "return":
                return ("unknown", "statement: " + head[:30])
            bad = exits_function(s, fn, expr_start, "return", depth_guard)
            return bad if bad else ("ret", "")
        m = re.match(r"let\s+(mut\s+)?(\w+)\s*(:[^=]*)?=\s*$", head)
        if m:
            return classify_binding(s, fn, m.group(2), i, expr_start, depth_guard)
        if head == "":
            return ("discarded", "expression statement")
        return ("discarded", "statement: " + head[:30])
    if c in "},":
        # `if c { return <call> }` / `pattern => return <call>,`: a `return` of the call expression itself
        head = s[stmt_start(s, expr_start, fn.open + 1): expr_start].strip()
        if re.search(r"(^|=>\s*)return$", head):
            bad = exits_function(s, fn, expr_start, "return", depth_guard)
            return bad if bad else ("ret", "")
    if c in "},)":
        # value of an enclosing construct
        op = enclosing_open(s, expr_start, fn.open)
        if op is None:
            return ("unknown", "no enclosing block")
        if s[op] == "{":
            if op == fn.open:
                if c != "}":
                    return ("unknown", "not at end of fn body")
                return ("tail", "") if fn.err else ("discarded", "tail of non-error fn " + fn.name)
            close = match_close(s, op)
            header_start = stmt_start(s, op, fn.open + 1)
            header = s[header_start:op].strip()
            # closure with a block body: `|args| {`
            clo = closure_body_at(s, fn, op)
            if clo is not None:
                return classify_closure(s, fn, clo[0], clo[1], depth_guard)
            if c == "," or (c == "}" and re.search(r"\bmatch\b", header) and not re.search(r"=>\s*$", header)):
                # match arm value: the value of the whole match expression
                if re.search(r"\bmatch\b", header):
                    mstart = header_start + re.search(r"\bmatch\b", s[header_start:op]).start()
                    return classify(s, fn, mstart, close + 1, depth_guard + 1)
                return ("unknown", "comma in block")
            # tail of a block: if / else / arm block / plain block / loop
            if re.search(r"\b(for|while|loop)\b[^{}]*$", header):
                return ("discarded", "value of a loop body")
            if re.search(r"=>\s*$", header):
                # block-bodied match arm: value of the match
                mop = enclosing_open(s, op, fn.open)
                if mop is not None and s[mop] == "{":
                    mh_start = stmt_start(s, mop, fn.open + 1)
                    mh = s[mh_start:mop]
                    mm = re.search(r"\bmatch\b", mh)
                    if mm:
                        return classify(s, fn, mh_start + mm.start(), match_close(s, mop) + 1, depth_guard + 1)
                return ("unknown", "arm of unknown construct")
            if re.search(r"\b(if|else)\b", header) or header == "" or header.endswith("unsafe"):
                # find the end of the whole if / else chain
                end = close + 1
                while True:
                    m = re.match(r"\s*else\s*(if\b[^{]*)?\{", s[end:])
                    if not m:
                        break
                    end = match_close(s, end + m.end() - 1) + 1
                # and its start (walk back over `} else if .. {` chains to the first `if`)
                start, hdr, hdr_end = header_start, header, op
                while re.match(r"else\b", hdr):
                    j = start - 1
                    while j > fn.open and s[j].isspace():
                        j -= 1
                    if s[j] != "}":
                        break
                    hdr_end = match_open(s, j)
                    start = stmt_start(s, hdr_end, fn.open + 1)
                    hdr = s[start:hdr_end].strip()
                hm = re.search(r"\bif\b|\belse\b", s[start:hdr_end])
                if hm:
                    start = start + hm.start()
                # `let x = if ..` / `return if ..`: start of statement handles via ';' branch later
                return classify(s, fn, start, end, depth_guard + 1)
            return ("unknown", "block header: " + header[-30:])
        if s[op] == "(":
            # argument of a call: the whole body of a closure without braces?
            clo = closure_body_at(s, fn, expr_start)
            if clo is not None and clo[1] == op:
                return classify_closure(s, fn, clo[0], clo[1], depth_guard)
            return ("discarded", "argument of a call")
        return ("discarded", "inside [ ]")
    return ("unknown", "followed by " + repr(s[i:i + 12]))


def classify_closure(s, fn, head, level_open, depth_guard):
    """value of the body of the closure whose opening `|` is at head (level_open = opener of the
    bracket level it stands in): which adaptor receives the closure?"""
    if s[level_open] != "(":
        return ("discarded", "closure not passed to a call")
    # the closure must be a whole argument: nothing but `move` between the previous `,` / `(` and its `|`
    j = head - 1
    while j > level_open and s[j].isspace():
        j -= 1
    if s[j - 3: j + 1] == "move" and not (s[j - 4].isalnum() or s[j - 4] == "_"):
        j -= 4
        while j > level_open and s[j].isspace():
            j -= 1
    if j != level_open and s[j] != ",":
        return ("discarded", "closure inside a larger argument expression")
    call_open = level_open
    m = re.search(r"\.\s*(\w+)\s*(::\s*" + ANGLE + r")?\s*$", s[max(0, call_open - 200): call_open])
    if not m:
        return ("discarded", "closure passed to a function")
    name = m.group(1)
    if name in TRY_ADAPTORS:
        if name in getattr(fn, "own_try", ()):
            return ("unknown", "closure passed to ." + name + ", but the scanned sources define their own fn " + name)
        # receiver expression start: approximate with the statement start
        st = stmt_start(s, call_open, fn.open + 1)
        head_txt = s[st:call_open]
        mm = re.match(r"\s*(return\s+|let\s+(mut\s+)?\w+\s*(:[^=]*)?=\s*)?", head_txt)
        k, d = classify(s, fn, st + (mm.end() if mm else 0), match_close(s, call_open) + 1, depth_guard + 1)
        if k in PROPAGATING:
            return ("tryclosure", name)
        return ("discarded", name + " result " + k + " " + d)
    return ("discarded", "closure passed to ." + name)


def source_files(repo):
    files = []
    for root in ("src", "core/src"):
        for dp, dn, fn in os.walk(os.path.join(repo, root)):
            for f in fn:
                if f.endswith(".rs") and os.sep + "generated" + os.sep not in os.path.join(dp, f):
                    files.append(os.path.join(dp, f))
    files.sort()
    return files


def skip_turbofish(s, i):
    """s[i:] is `::<..>` (white space allowed around the `::`): index just after the `>` that balances
    the `<` (nested `<..>` are counted, the `>` of a `->` is not one); None if it is not a turbofish
    or does not close"""
    m = re.match(r"\s*::\s*<", s[i:i + 40])
    if not m:
        return None
    depth = 0
    for k in range(i + m.end() - 1, len(s)):
        if s[k] == "<":
            depth += 1
        elif s[k] == ">" and s[k - 1] != "-":
            depth -= 1
            if depth == 0:
                return k + 1
        elif s[k] in ";{}":
            return None
    return None


def site_pattern(names):
    return re.compile(r"(?<![\w])(?:\.\s*)?\b(" + "|".join(sorted(map(re.escape, names))) + r")\s*(?=\(|::\s*<)")


def iter_sites(pat, text):
    """call expressions `NAME(` / `.NAME(` / `NAME::<T, U<V>>(` in text: (start, NAME, index of the `(`)"""
    for m in pat.finditer(text):
        j = m.end()
        if text[j] != "(":
            j = skip_turbofish(text, j)
            if j is None:
                continue
            while j < len(text) and text[j].isspace():
                j += 1
            if j >= len(text) or text[j] != "(":
                continue
        yield m.start(), m.group(1), j


def macro_bodies(s):
    """[(name, opener index, closer index)] of every `macro_rules! name { .. }` in s"""
    out = []
    for m in re.finditer(r"\bmacro_rules\s*!\s*(\w+)\s*([\{\(\[])", s):
        out.append((m.group(1), m.end() - 1, match_close(s, m.end() - 1)))
    return out


def scan(repo):
    files = source_files(repo)
    parsed = {}
    err_names = set()
    aliases = {}
    own_try = set()
    for f in files:
        src = open(f).read()
        s = strip_tests(blank_comments_and_strings(src))
        fns = find_fns(s, f)
        parsed[f] = (s, fns)
        aliases.update(find_aliases(s))
    for f, (s, fns) in parsed.items():
        for fn in fns:
            fn.resolve_err(s, aliases)
            fn.own_try = own_try
            if fn.err:
                err_names.add(fn.name)
            if fn.name in TRY_ADAPTORS:
                own_try.add(fn.name)
    sites = []
    if not err_names:
        raise ValueError("no error-returning function found: the scan no longer understands the sources")
    pat = site_pattern(err_names)
    for f, (s, fns) in parsed.items():
        rel = os.path.relpath(f, repo)
        macros = macro_bodies(s)
        for fn in fns:
            if fn.open is None:
                continue
            fn.pat = pat
            body = s[fn.open: fn.close + 1]
            for m_start, name, m_open in iter_sites(pat, body):
                start = fn.open + m_start
                # skip definitions (`fn name(`)
                if re.search(r"\bfn\s+$", s[max(0, start - 8): start + (1 if s[start] == '.' else 0)]):
                    continue
                pre = s[max(0, start - 4): start]
                if re.search(r"fn\s*$", pre):
                    continue
                # is this call inside a nested fn body? then it is handled with that fn
                inner = [g for g in fns if g.open is not None and g.open > fn.open and g.close < fn.close and g.open < start < g.close]
                if inner:
                    continue
                call_open = fn.open + m_open
                call_close = match_close(s, call_open)
                # the whole postfix expression starts at the receiver; for classification only the end matters,
                # the start is used for statement/closure detection: walk back over the receiver chain
                es = start
                j = start - 1
                while j > fn.open:
                    while j > fn.open and s[j].isspace():
                        j -= 1
                    if s[j] == ".":
                        j -= 1
                        continue
                    if s[j] in ")]":
                        j = match_open(s, j) - 1
                        es = j + 1
                        continue
                    if re.match(r"[\w]", s[j]):
                        while j > fn.open and (re.match(r"[\w:]", s[j]) or s[j] in "&*"):
                            j -= 1
                        es = j + 1
                        # keep walking if preceded by `.`
                        k = j
                        while k > fn.open and s[k].isspace():
                            k -= 1
                        if s[k] == ".":
                            j = k
                            continue
                        break
                    break
                if s[start] != "." and not re.match(r"\w", s[start]):
                    es = start
                line = s.count("\n", 0, start) + 1
                kind, detail = classify(s, fn, es, call_close + 1)
                # whatever the form: a site inside a closure leaves the function only through a propagated
                # `try_` adaptor, and a `tryclosure` site must really be inside such a closure
                clo = closure_at(s, fn, es)
                if clo is None:
                    if kind == "tryclosure":
                        kind, detail = "unknown", "classified tryclosure but not inside a closure"
                elif kind in PROPAGATING:
                    k2, d2 = classify_closure(s, fn, clo[0], clo[1], 0)
                    if k2 == "tryclosure":
                        kind = "tryclosure"
                    else:
                        kind, detail = (k2 if k2 == "unknown" else "discarded"), "inside a closure: " + d2
                # arguments of a macro invocation, `async` / `try` blocks: what `?` / `return` / tail position mean
                # there is decided elsewhere
                why = opaque_context(s, fn, start)
                if why:
                    kind, detail = "unknown", why
                # the body of a `macro_rules!` is expanded somewhere else: what `?` / `return` / tail position mean
                # there is not known here — unless the site is inside a `fn` item that is itself part of the macro body
                for mname, mo, mc in macros:
                    if mo < start < mc and not (fn.open > mo and fn.close < mc):
                        kind, detail = "unknown", "inside the body of macro_rules! " + mname + " (expanded elsewhere)"
                sites.append({"file": rel, "line": line, "fn": fn.name, "callee": name, "kind": kind, "detail": detail, "pos": start,
                              "fnline": s.count("\n", 0, fn.pos) + 1})
        # call expressions in macro bodies outside every function body
        for mname, mo, mc in macros:
            for m_start, name, _ in iter_sites(pat, s[mo: mc + 1]):
                start = mo + m_start
                if re.search(r"\bfn\s+$", s[max(0, start - 8): start + (1 if s[start] == '.' else 0)]):
                    continue
                if any(g.open is not None and g.open < start < g.close for g in fns):
                    continue
                sites.append({"file": rel, "line": s.count("\n", 0, start) + 1, "fn": "macro_rules! " + mname, "callee": name,
                              "kind": "unknown", "detail": "inside the body of macro_rules! " + mname + ", outside any fn (expanded elsewhere)", "pos": start,
                              "fnline": s.count("\n", 0, mo) + 1})
    order = {os.path.relpath(f, repo): k for k, f in enumerate(parsed)}
    sites.sort(key=lambda st: (order[st["file"]], st["pos"]))
    return sites, sorted(err_names)


def textual_scan(repo):
    """INDEPENDENT count of call expressions, per file: line oriented, shares no code with
    find_fns / classify / blank_comments_and_strings / strip_tests (no function bodies, no bracket
    matching). Names: every `fn NAME .. -> Result<.., X::Error>` signature found by one regular
    expression over the text (the text after ANY `->` of the signature is tried as the return type);
    calls: every `NAME(` / `NAME::<..>(` (angle brackets counted) that is not the definition
    `fn NAME(`, anywhere in the file (also outside function bodies, e.g. in macro definitions), outside `//` comments,
    one-line string literals, `/* */` comments and `#[cfg(test)] mod .. { }` (skipped by counting
    the braces of the lines). Returns ({relative file: count}, names)."""
    texts = {}
    for f in source_files(repo):
        text = re.sub(r"/\*.*?\*/", lambda m: re.sub(r"[^\n]", " ", m.group(0)), open(f).read(), flags=re.S)
        out = []
        skipping = None  # None, "armed" (saw #[cfg(test)], waiting for the mod's `{`) or the brace depth inside it
        for ln in text.split("\n"):
            ln = re.sub(r'\bb?r(#*)".*?"\1', '""', ln)  # one-line raw strings r".." / r#".."#
            ln = re.sub(r'"(?:[^"\\]|\\.)*"', '""', ln)
            ln = re.sub(r"'(?:[^'\\]|\\.)'", "' '", ln)
            ln = ln.split("//")[0]
            if skipping is None and re.match(r"\s*#\[cfg\(test\)\]\s*$", ln):
                skipping = "armed"
                out.append("")
                continue
            if skipping == "armed":
                if ln.strip() == "":
                    out.append("")
                    continue
                if not re.match(r"\s*(pub(\([^)]*\))?\s+)?mod\s+\w+\s*\{", ln):
                    skipping = None  # #[cfg(test)] on something that is not a module: keep it (as the classifier does)
                else:
                    skipping = 0
            if isinstance(skipping, int):
                skipping += ln.count("{") - ln.count("}")
                out.append("")
                if skipping <= 0:
                    skipping = None
                continue
            out.append(ln)
        texts[os.path.relpath(f, repo)] = "\n".join(out)
    # names: the return type, with the `type` aliases of the sources expanded textually, must END in
    # `, PATH::Error>` with PATH a plain or `<A as B>` path and that `>` closing the `Result<` (so
    # `Result<(), Wrap<D::Error>>` is not one); for `Self::Error` the surrounding impl/trait (the text
    # between the nearest lines starting with `impl` / `trait` before and after) must not assign
    # `type Error = ` anything but such a path
    tail_re = re.compile(r"^(?:::)?(?:(?:core|std)::result::)?Result<[^;]*,((?:<[^<>]*>|\w+)(?:::\w+)*::Error)>$")
    alias_re = re.compile(r"\btype\s+(\w+)\s*(?:<([^=;<>]*)>)?\s*=\s*([^;]*\bResult\s*<[^;]*);")
    talias = {}
    for text in texts.values():
        for m in alias_re.finditer(text):
            talias[m.group(1)] = ([p.split(":")[0].strip() for p in m.group(2).split(",")] if m.group(2) else [], "".join(m.group(3).split()))
    block_re = re.compile(r"^[ \t]*(?:pub(?:\([^)]*\))?[ \t]+)?(?:unsafe[ \t]+)?(?:impl|trait)\b", re.M)
    names = set()
    for text in texts.values():
        blocks = [m.start() for m in block_re.finditer(text)]
        cands = []
        for m in re.finditer(r"\bfn\s+(\w+)\b([^{;]*)", text):
            if m.group(1) in ("try_from", "try_into"):
                continue
            # the text after EACH `->` of the signature is tried as the return type (the first `->` may
            # belong to a parameter `f: impl Fn(u32) -> u32` or a bound; such a suffix does not match below)
            for piece in re.finditer(r"->", m.group(2)):
                cands.append((m, m.group(2)[piece.end():]))
        for m, after_arrow in cands:
            ret = "".join(after_arrow.split("where")[0].split())  # all white space removed
            for _ in range(3):
                am = re.match(r"^(?:\w+::)*(\w+)(?:<(.*)>)?$", ret)
                if not am or am.group(1) not in talias or (am.group(1) == "Result" and "::" in ret.split("<")[0]):
                    break
                params, rhs = talias[am.group(1)]
                args, depth, cur = [], 0, ""
                for ch in (am.group(2) or ""):
                    depth += ch in "<([" 
                    depth -= ch in ">)]"
                    if ch == "," and depth == 0:
                        args.append(cur)
                        cur = ""
                    else:
                        cur += ch
                if cur:
                    args.append(cur)
                if len(args) != len(params):
                    break
                for p_, a_ in zip(params, args):
                    rhs = re.sub(r"(?<![\w:])" + re.escape(p_) + r"\b", "\0" + a_ + "\0", rhs)
                ret = rhs.replace("\0", "")
            tm = tail_re.match(ret)
            if not tm:
                continue
            # the `, PATH::Error>` must be the second argument of the outermost Result< >: no unclosed `<` `(` before the comma
            inner = ret[ret.index("<") + 1: ret.rindex("," + tm.group(1))]
            if inner.count("<") != inner.count(">") - inner.count("->") or inner.count("(") != inner.count(")"):
                continue
            if tm.group(1).startswith("Self::"):
                lo = max([b for b in blocks if b <= m.start()], default=None)
                if lo is None:
                    continue
                hi = min([b for b in blocks if b > m.start()], default=len(text))
                tm2 = re.search(r"\btype\s+Error\s*=\s*([^;]*);", text[lo:hi])
                rhs = "".join(tm2.group(1).split()) if tm2 else None
                if rhs is not None and (rhs.startswith("Self") or not re.match(r"^(?:<[^<>]*>|\w+)(?:::\w+)*::Error$", rhs)):
                    continue
            names.add(m.group(1))
    if not names:
        raise ValueError("textual scan: no error-returning function found")
    call = re.compile(r"(?<![\w])(" + "|".join(sorted(map(re.escape, names))) + r")\b\s*(::\s*<)?")
    counts = {}
    for rel, text in texts.items():
        n = 0
        for m in call.finditer(text):
            if re.search(r"\bfn\s+$", text[max(0, m.start() - 12): m.start()]):
                continue
            rest = text[m.end(): m.end() + 400]
            if m.group(2):
                # generic arguments `NAME::<A, B<C>>(`: drop text up to the `>` that closes the first `<`
                open_angles, prev = 1, ""
                while rest and open_angles > 0:
                    if rest[0] == "<":
                        open_angles += 1
                    elif rest[0] == ">" and prev != "-":
                        open_angles -= 1
                    prev, rest = rest[0], rest[1:]
            if not rest.lstrip().startswith("("):
                continue
            n += 1
        if n:
            counts[rel] = n
    return counts, sorted(names)


# ---------------------------------------------------------------------------------------------
# self-test: tools/tests/drawsites_cases.rs

def selftest_file(case_file):
    """Every `fn` (and every `macro_rules!` with call sites) of a case file is preceded by
    `// expect: kind kind ...` (the expected kinds of its call sites in source order). The file is
    scanned as the only source of a scratch repository. Returns the list of mismatches."""
    import shutil, tempfile
    base = os.path.basename(case_file)
    src = open(case_file).read()
    expected = {}
    for m in re.finditer(r"//\s*expect:([^\n]*)\n(?:\s*//[^\n]*\n)*\s*(?:(?:pub\s+)?fn\s+(\w+)|macro_rules!\s*(\w+))", src):
        key = m.group(2) or "macro_rules! " + m.group(3)
        item = m.start(2) if m.group(2) else m.start(3)
        expected[(key, src.count("\n", 0, item) + 1)] = m.group(1).split()
    tmp = tempfile.mkdtemp(prefix="drawsites_selftest_")
    try:
        os.makedirs(os.path.join(tmp, "src"))
        shutil.copy(case_file, os.path.join(tmp, "src", "cases.rs"))
        sites, _ = scan(tmp)
        counts, _ = textual_scan(tmp)
    finally:
        shutil.rmtree(tmp, ignore_errors=True)
    got = {}
    for st in sites:
        got.setdefault((st["fn"], st["fnline"]), []).append(st["kind"])
    bad = []
    for key, exp in expected.items():
        if got.get(key, []) != exp:
            bad.append(f"{base}: {key[0]} (line {key[1]}): expected {exp}, classified {got.get(key, [])}")
    for key in got:
        if key not in expected:
            bad.append(f"{base}: {key[0]} (line {key[1]}): no `// expect:` line")
    m = re.search(r"//\s*expect-textual-count:\s*(\d+)", src)
    if not m or counts.get(os.path.join("src", "cases.rs")) != int(m.group(1)):
        bad.append(f"{base}: textual scan counted {counts.get(os.path.join('src', 'cases.rs'))} call expressions, case file says {m.group(1) if m else '?'}")
    if len(sites) != sum(counts.values()):
        bad.append(f"{base}: classifier saw {len(sites)} sites, textual scan {sum(counts.values())}")
    return bad, len(expected)


def selftest():
    """runs selftest_file on tools/tests/drawsites_cases*.rs (each file is a source tree of its own)"""
    here = os.path.dirname(os.path.abspath(__file__))
    files = sorted(f for f in os.listdir(os.path.join(here, "tests")) if re.match(r"drawsites_cases\w*\.rs$", f))
    bad, n = [], 0
    for f in files:
        b, k = selftest_file(os.path.join(here, "tests", f))
        bad += b
        n += k
    if n < 70 or len(files) < 3:
        raise ValueError("drawsites self-test: case files not understood")
    return bad


def lean_str(x):
    return '"' + x.replace("\\", "\\\\").replace('"', '\\"') + '"'


def generate(repo):
    bad = selftest()
    if bad:
        raise ValueError("tr_drawsites self-test failed: " + "; ".join(bad[:4]))
    sites, names = scan(repo)
    if len(sites) < 20:
        raise ValueError(f"only {len(sites)} call sites found: the scan no longer understands the sources")
    textual, tnames = textual_scan(repo)
    lines = [
        "/- GENERATED by tools/tr_drawsites.py from /repo's sources on every run. Do not edit. -/",
        "namespace EG.Generated",
        "",
        "/-- how a call site consumes the `Result` (see tools/tr_drawsites.py for the exact rules) -/",
        "inductive SiteKind | q | tail | ret | boundQ | matchRet | tryClosure | discarded | unknown",
        "  deriving DecidableEq, Repr",
        "",
        "structure DrawSite where",
        "  file : String",
        "  line : Nat",
        "  fn : String",
        "  callee : String",
        "  kind : SiteKind",
        "  detail : String",
        "  deriving DecidableEq, Repr",
        "",
        "/-- every call site of a function returning the draw target's error, outside tests, as seen by",
        "the classifier (function bodies, bracket matching) -/",
        "def drawSites : List DrawSite := [",
    ]
    kmap = {"q": ".q", "tail": ".tail", "ret": ".ret", "bound_q": ".boundQ", "match_ret": ".matchRet", "tryclosure": ".tryClosure",
            "discarded": ".discarded", "unknown": ".unknown"}
    rows = []
    for st in sites:
        rows.append(f"  ⟨{lean_str(st['file'])}, {st['line']}, {lean_str(st['fn'])}, {lean_str(st['callee'])}, {kmap[st['kind']]}, {lean_str(st['detail'])}⟩")
    lines.append(",\n".join(rows))
    lines.append("]")
    lines.append("")
    lines.append("/-- number of call expressions per file found by the independent line-oriented textual scan")
    lines.append("(`textual_scan` in tools/tr_drawsites.py: no function or bracket parsing) -/")
    lines.append("def textualCallCounts : List (String × Nat) := [")
    lines.append(",\n".join(f"  ({lean_str(f)}, {n})" for f, n in sorted(textual.items())))
    lines.append("]")
    lines.append("")
    lines.append("def errorReturningFns : List String := [" + ", ".join(lean_str(n) for n in names) + "]")
    lines.append("")
    lines.append("/-- the error-returning function names as found by the textual scan's own regular expression -/")
    lines.append("def textualErrorReturningFns : List String := [" + ", ".join(lean_str(n) for n in tnames) + "]")
    lines.append("")
    lines.append("end EG.Generated")
    counts = {}
    for st in sites:
        counts[st["kind"]] = counts.get(st["kind"], 0) + 1
    return {"DrawSites.lean": "\n".join(lines) + "\n"}, {"sites": len(sites), "kinds": counts, "error_returning_fns": len(names),
                                                          "textual_call_expressions": sum(textual.values()), "selftest": "ok"}


if __name__ == "__main__":
    import sys
    if "--selftest" in sys.argv:
        bad = selftest()
        for b in bad:
            print("FAIL", b)
        print("tr_drawsites self-test:", "FAILED" if bad else "ok")
        sys.exit(1 if bad else 0)
    repo = sys.argv[1] if len(sys.argv) > 1 else "/repo"
    sites, names = scan(repo)
    for st in sites:
        print(f"{st['kind']:10} {st['file']}:{st['line']} {st['fn']} -> {st['callee']}  {st['detail']}")
    print(len(sites), "sites;", len(names), "error-returning fns:", names)
    counts = {}
    for st in sites:
        counts[st["kind"]] = counts.get(st["kind"], 0) + 1
    print("per kind:", counts)
    textual, tnames = textual_scan(repo)
    print("textual scan:", sum(textual.values()), "call expressions;", len(tnames), "names", "(same names)" if tnames == names else "(DIFFERENT names: %s)" % sorted(set(tnames) ^ set(names)))
    per = {}
    for st in sites:
        per[st["file"]] = per.get(st["file"], 0) + 1
    for f in sorted(set(per) | set(textual)):
        if per.get(f, 0) != textual.get(f, 0):
            print("  MISMATCH", f, "classifier", per.get(f, 0), "textual", textual.get(f, 0))
