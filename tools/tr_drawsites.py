"""tr_drawsites.py — translator part for C04: how every call that can return a draw-target error
consumes that `Result`.

Scans all non-test Rust sources of the two crates. An *error-returning function* is a `fn` whose
return type is `Result<_, X::Error>` (X a type parameter or Self: the draw target's error type).
Every call site of such a function (by name) inside any function body is classified by what
happens to its value:

  q          followed by `?` (possibly after `.map(..)`, `.map_err(..)`, `.and_then(..)`)
  tail       value of the enclosing function body (directly, or as the value of a tail `if/else`
             / `match` arm / block), and the enclosing function is itself error-returning
  ret        `return <call>;`
  bound_q    `let x = <call>;` with a later `x?` or `x` in tail position
  tryclosure tail of a closure passed to `try_for_each`/`try_fold` whose own result is q/tail/ret
  discarded  `;` statement, `let _ =`, `.ok()`, `.unwrap_or*`, `.is_ok()`, `.is_err()`, `.err()`,
             closure passed to a non-`try_` adaptor, argument of another call, ... (anything else)

Output: lean/EG/Generated/DrawSites.lean with one record per site. The theorem
`all_sites_propagate` (EG/Props/C04.lean) is decided over this table, so a dropped `?`, a
`let _ =` or an `.ok()` changes the generated file and breaks the theorem.
"""
import os
import re

DISCARD_METHODS = {"ok", "unwrap_or", "unwrap_or_default", "unwrap_or_else", "is_ok", "is_err", "err", "unwrap", "expect", "unwrap_unchecked"}
PASS_METHODS = {"map", "map_err", "and_then", "or_else", "and"}
TRY_ADAPTORS = {"try_for_each", "try_fold"}


def blank_comments_and_strings(src):
    out = list(src)
    i, n = 0, len(src)
    while i < n:
        c = src[i]
        if src.startswith("//", i):
            while i < n and src[i] != "\n":
                out[i] = " "
                i += 1
        elif src.startswith("/*", i):
            depth = 0
            while i < n:
                if src.startswith("/*", i):
                    depth += 1
                    out[i] = out[i + 1] = " "
                    i += 2
                elif src.startswith("*/", i):
                    depth -= 1
                    out[i] = out[i + 1] = " "
                    i += 2
                    if depth == 0:
                        break
                else:
                    if src[i] != "\n":
                        out[i] = " "
                    i += 1
        elif c == '"':
            i += 1
            while i < n and src[i] != '"':
                if src[i] == "\\":
                    out[i] = " "
                    i += 1
                if i < n and src[i] != "\n":
                    out[i] = " "
                i += 1
            i += 1
        elif c == "'" and i + 2 < n and (src[i + 2] == "'" or (src[i + 1] == "\\")):
            # char literal (not a lifetime)
            j = i + 1
            if src[j] == "\\":
                j += 2
                while j < n and src[j] != "'":
                    j += 1
            else:
                j += 1
            for k in range(i + 1, min(j, n)):
                out[k] = " "
            i = j + 1
        else:
            i += 1
    return "".join(out)


def match_close(s, i):
    """index of the bracket closing the opener at s[i]"""
    pairs = {"(": ")", "[": "]", "{": "}"}
    depth = 0
    for j in range(i, len(s)):
        ch = s[j]
        if ch in "([{":
            depth += 1
        elif ch in ")]}":
            depth -= 1
            if depth == 0:
                return j
    raise ValueError("unbalanced bracket")


def match_open(s, i):
    """index of the bracket opening the closer at s[i]"""
    depth = 0
    for j in range(i, -1, -1):
        ch = s[j]
        if ch in ")]}":
            depth += 1
        elif ch in "([{":
            depth -= 1
            if depth == 0:
                return j
    raise ValueError("unbalanced bracket")


def enclosing_open(s, i, lo):
    """nearest unmatched opener before position i (not before lo), or None"""
    depth = 0
    for j in range(i - 1, lo - 1, -1):
        ch = s[j]
        if ch in ")]}":
            depth += 1
        elif ch in "([{":
            if depth == 0:
                return j
            depth -= 1
    return None


def strip_tests(s):
    """blank out `#[cfg(test)] mod <name> { ... }` blocks"""
    out = s
    for m in list(re.finditer(r"#\[cfg\(test\)\]\s*(?:pub(?:\([^)]*\))?\s+)?mod\s+\w+\s*\{", s)):
        o = m.end() - 1
        c = match_close(s, o)
        out = out[: m.start()] + re.sub(r"[^\n]", " ", out[m.start(): c + 1]) + out[c + 1:]
    return out


class Fn:
    def __init__(self, name, ret, body_open, body_close, file):
        self.name, self.ret, self.open, self.close, self.file = name, ret, body_open, body_close, file
        # the draw target's error type: `D::Error`, `T::Error`, `Self::Error` ... (TryFrom's is not one)
        self.err = bool(re.search(r"Result\s*<.*::\s*Error\s*>", ret, re.S)) and name not in ("try_from", "try_into")


def find_fns(s, file):
    fns = []
    for m in re.finditer(r"\bfn\s+(\w+)", s):
        # signature ends at the first `{` or `;` at bracket depth 0 (generics use <>, not tracked; `where` clauses have no braces)
        i = m.end()
        depth = 0
        while i < len(s):
            ch = s[i]
            if ch in "([":
                depth += 1
            elif ch in ")]":
                depth -= 1
            elif depth == 0 and ch in "{;":
                break
            i += 1
        if i >= len(s) or s[i] == ";":
            sig = s[m.end(): i]
            ret = sig.split("->", 1)[1] if "->" in sig else ""
            fns.append(Fn(m.group(1), ret, None, None, file))
            continue
        sig = s[m.end(): i]
        ret = sig.split("->", 1)[1] if "->" in sig else ""
        ret = ret.split("where")[0]
        fns.append(Fn(m.group(1), ret, i, match_close(s, i), file))
    return fns


def stmt_start(s, i, lo):
    """start of the statement containing position i: after the previous `;`, `{` or `}` at the same depth"""
    depth = 0
    j = i - 1
    while j >= lo:
        ch = s[j]
        if ch in ")]}":
            if ch == "}" and depth == 0:
                return j + 1
            depth += 1
        elif ch in "([{":
            if depth == 0:
                return j + 1
            depth -= 1
        elif ch == ";" and depth == 0:
            return j + 1
        j -= 1
    return lo


def classify(s, fn, expr_start, e, depth_guard=0):
    """how the value of the expression s[expr_start:e] is consumed; returns (kind, detail)"""
    if depth_guard > 12:
        return ("discarded", "too-deep")
    n = len(s)
    i = e
    while i < n and s[i].isspace():
        i += 1
    c = s[i] if i < n else ""
    if c == "?":
        return ("q", "")
    if c == ".":
        m = re.match(r"\.\s*(\w+)\s*(::\s*<[^>]*>)?\s*\(", s[i:])
        if not m:
            return ("discarded", "field-access")
        name = m.group(1)
        close = match_close(s, i + m.end() - 1)
        if name in DISCARD_METHODS:
            return ("discarded", "." + name + "()")
        if name in PASS_METHODS:
            return classify(s, fn, expr_start, close + 1, depth_guard + 1)
        return ("discarded", "method ." + name)
    if c == ";":
        st = stmt_start(s, expr_start, fn.open + 1)
        head = s[st:expr_start].strip()
        if head.startswith("return"):
            return ("ret", "") if fn.err else ("discarded", "return in non-error fn")
        m = re.match(r"let\s+(mut\s+)?(\w+)\s*(:[^=]*)?=\s*$", head)
        if m:
            var = m.group(2)
            if var.startswith("_"):
                return ("discarded", "let " + var)
            rest = s[i: fn.close]
            if re.search(r"\b" + re.escape(var) + r"\s*\?", rest):
                return ("bound_q", var)
            # variable returned in tail position
            mm = re.search(r"\b" + re.escape(var) + r"\s*\}\s*$", s[i: fn.close + 1])
            if mm and fn.err:
                return ("bound_q", var + " (tail)")
            return ("discarded", "let " + var + " never propagated")
        if head == "":
            return ("discarded", "expression statement")
        return ("discarded", "statement: " + head[:30])
    if c in "},)":
        # value of an enclosing construct
        op = enclosing_open(s, expr_start, fn.open)
        if op is None:
            return ("discarded", "no enclosing block")
        if s[op] == "{":
            if op == fn.open:
                if c != "}":
                    return ("discarded", "not at end of fn body")
                return ("tail", "") if fn.err else ("discarded", "tail of non-error fn " + fn.name)
            close = match_close(s, op)
            header_start = stmt_start(s, op, fn.open + 1)
            header = s[header_start:op].strip()
            # closure with a block body: `|args| {`
            if re.search(r"\|[^|]*\|\s*$", header) or re.search(r"\bmove\s*\|[^|]*\|\s*$", header):
                return classify_closure(s, fn, op, close, depth_guard)
            if c == "," or (c == "}" and re.search(r"\bmatch\b", header) and not re.search(r"=>\s*$", header)):
                # match arm value: the value of the whole match expression
                if re.search(r"\bmatch\b", header):
                    mstart = header_start + re.search(r"\bmatch\b", s[header_start:op]).start()
                    return classify(s, fn, mstart, close + 1, depth_guard + 1)
                return ("discarded", "comma in block")
            # tail of a block: if / else / arm block / plain block / loop
            if re.search(r"\b(for|while|loop)\b[^{}]*$", header):
                return ("discarded", "value of a loop body")
            if re.search(r"=>\s*$", header):
                # block-bodied match arm: value of the match
                mop = enclosing_open(s, op, fn.open)
                if mop is not None and s[mop] == "{":
                    mh_start = stmt_start(s, mop, fn.open + 1)
                    mh = s[mh_start:mop]
                    mm = re.search(r"\bmatch\b", mh)
                    if mm:
                        return classify(s, fn, mh_start + mm.start(), match_close(s, mop) + 1, depth_guard + 1)
                return ("discarded", "arm of unknown construct")
            if re.search(r"\b(if|else)\b", header) or header == "" or header.endswith("unsafe"):
                # find the end of the whole if / else chain
                end = close + 1
                while True:
                    m = re.match(r"\s*else\s*(if\b[^{]*)?\{", s[end:])
                    if not m:
                        break
                    end = match_close(s, end + m.end() - 1) + 1
                # and its start (walk back over `} else if .. {` chains)
                start = header_start
                hm = re.search(r"\bif\b|\belse\b", s[header_start:op])
                if hm:
                    start = header_start + hm.start()
                # `let x = if ..` / `return if ..`: start of statement handles via ';' branch later
                return classify(s, fn, start, end, depth_guard + 1)
            return ("discarded", "block header: " + header[-30:])
        if s[op] == "(":
            # argument of a call: closure without braces?
            arg_start = op + 1
            # the argument containing the expression starts after the previous top-level comma
            seg = s[arg_start:expr_start]
            depth = 0
            last_comma = -1
            for k, ch in enumerate(seg):
                if ch in "([{":
                    depth += 1
                elif ch in ")]}":
                    depth -= 1
                elif ch == "," and depth == 0:
                    last_comma = k
            arg_head = seg[last_comma + 1:].strip()
            if re.match(r"(move\s*)?\|[^|]*\|\s*$", arg_head):
                return classify_closure(s, fn, op, match_close(s, op), depth_guard, paren=True)
            return ("discarded", "argument of a call")
        return ("discarded", "inside [ ]")
    return ("discarded", "followed by " + repr(s[i:i + 12]))


def classify_closure(s, fn, op, close, depth_guard, paren=False):
    """value of a closure body: which adaptor receives the closure?"""
    call_open = op if paren else enclosing_open(s, op, fn.open)
    if call_open is None or s[call_open] != "(":
        return ("discarded", "closure not passed to a call")
    m = re.search(r"\.\s*(\w+)\s*(::\s*<[^>]*>)?\s*$", s[:call_open])
    if not m:
        return ("discarded", "closure passed to a function")
    name = m.group(1)
    if name in TRY_ADAPTORS:
        # receiver expression start: approximate with the statement start
        st = stmt_start(s, call_open, fn.open + 1)
        head = s[st:call_open]
        mm = re.match(r"\s*(return\s+|let\s+(mut\s+)?\w+\s*(:[^=]*)?=\s*)?", head)
        k, d = classify(s, fn, st + (mm.end() if mm else 0), match_close(s, call_open) + 1, depth_guard + 1)
        if k in ("q", "tail", "ret", "bound_q", "tryclosure"):
            return ("tryclosure", name)
        return ("discarded", name + " result " + k + " " + d)
    return ("discarded", "closure passed to ." + name)


def scan(repo):
    files = []
    for root in ("src", "core/src"):
        for dp, dn, fn in os.walk(os.path.join(repo, root)):
            for f in fn:
                if f.endswith(".rs"):
                    files.append(os.path.join(dp, f))
    files.sort()
    parsed = {}
    err_names = set()
    all_fn_names_nonerr = {}
    for f in files:
        if os.sep + "generated" + os.sep in f:
            continue
        src = open(f).read()
        s = strip_tests(blank_comments_and_strings(src))
        fns = find_fns(s, f)
        parsed[f] = (s, fns)
        for fn in fns:
            if fn.err:
                err_names.add(fn.name)
            else:
                all_fn_names_nonerr.setdefault(fn.name, 0)
                all_fn_names_nonerr[fn.name] += 1
    # names that are also used by functions that do not return the target's error would be ambiguous
    sites = []
    if not err_names:
        raise ValueError("no error-returning function found: the scan no longer understands the sources")
    pat = re.compile(r"(?<![\w])(?:\.\s*)?\b(" + "|".join(sorted(map(re.escape, err_names))) + r")\s*(::\s*<[^>]*>)?\s*\(")
    for f, (s, fns) in parsed.items():
        rel = os.path.relpath(f, repo)
        for fn in fns:
            if fn.open is None:
                continue
            # innermost function only: skip fns that contain other fn bodies? (nested fns are rare) — take calls
            body = s[fn.open: fn.close + 1]
            for m in pat.finditer(body):
                start = fn.open + m.start()
                name = m.group(1)
                # skip definitions (`fn name(`) and paths like `Self::name` used as values
                if re.search(r"\bfn\s+$", s[max(0, start - 8): start + (1 if s[start] == '.' else 0)]):
                    continue
                pre = s[max(0, start - 4): start]
                if re.search(r"fn\s*$", pre):
                    continue
                # is this call inside a nested fn body? then it is handled with that fn
                inner = [g for g in fns if g.open is not None and g.open > fn.open and g.close < fn.close and g.open < start < g.close]
                if inner:
                    continue
                call_open = fn.open + m.end() - 1
                call_close = match_close(s, call_open)
                # the whole postfix expression starts at the receiver; for classification only the end matters,
                # the start is used for statement/closure detection: walk back over the receiver chain
                es = start
                j = start - 1
                while j > fn.open:
                    while j > fn.open and s[j].isspace():
                        j -= 1
                    if s[j] == ".":
                        j -= 1
                        continue
                    if s[j] in ")]":
                        j = match_open(s, j) - 1
                        es = j + 1
                        continue
                    if re.match(r"[\w]", s[j]):
                        while j > fn.open and (re.match(r"[\w:]", s[j]) or s[j] in "&*"):
                            j -= 1
                        es = j + 1
                        # keep walking if preceded by `.`
                        k = j
                        while k > fn.open and s[k].isspace():
                            k -= 1
                        if s[k] == ".":
                            j = k
                            continue
                        break
                    break
                if s[start] != "." and not re.match(r"\w", s[start]):
                    es = start
                line = s.count("\n", 0, start) + 1
                kind, detail = classify(s, fn, es, call_close + 1)
                sites.append({"file": rel, "line": line, "fn": fn.name, "callee": name, "kind": kind, "detail": detail})
    return sites, sorted(err_names)


def lean_str(x):
    return '"' + x.replace("\\", "\\\\").replace('"', '\\"') + '"'


def generate(repo):
    sites, names = scan(repo)
    if len(sites) < 20:
        raise ValueError(f"only {len(sites)} call sites found: the scan no longer understands the sources")
    lines = [
        "/- GENERATED by tools/tr_drawsites.py from /repo's sources on every run. Do not edit. -/",
        "namespace EG.Generated",
        "",
        "inductive SiteKind | q | tail | ret | boundQ | tryClosure | discarded",
        "  deriving DecidableEq, Repr",
        "",
        "structure DrawSite where",
        "  file : String",
        "  line : Nat",
        "  fn : String",
        "  callee : String",
        "  kind : SiteKind",
        "  detail : String",
        "  deriving Repr",
        "",
        "/-- every call site of a function returning the draw target's error, outside tests -/",
        "def drawSites : List DrawSite := [",
    ]
    kmap = {"q": ".q", "tail": ".tail", "ret": ".ret", "bound_q": ".boundQ", "tryclosure": ".tryClosure", "discarded": ".discarded"}
    rows = []
    for st in sites:
        rows.append(f"  ⟨{lean_str(st['file'])}, {st['line']}, {lean_str(st['fn'])}, {lean_str(st['callee'])}, {kmap[st['kind']]}, {lean_str(st['detail'])}⟩")
    lines.append(",\n".join(rows))
    lines.append("]")
    lines.append("")
    lines.append(f"/-- number of call sites the translator saw in the source -/")
    lines.append(f"def drawSitesSeen : Nat := {len(sites)}")
    lines.append("")
    lines.append("def errorReturningFns : List String := [" + ", ".join(lean_str(n) for n in names) + "]")
    lines.append("")
    lines.append("end EG.Generated")
    counts = {}
    for st in sites:
        counts[st["kind"]] = counts.get(st["kind"], 0) + 1
    return {"DrawSites.lean": "\n".join(lines) + "\n"}, {"sites": len(sites), "kinds": counts, "error_returning_fns": len(names)}


if __name__ == "__main__":
    import json, sys
    sites, names = scan(sys.argv[1] if len(sys.argv) > 1 else "/repo")
    for st in sites:
        print(f"{st['kind']:10} {st['file']}:{st['line']} {st['fn']} -> {st['callee']}  {st['detail']}")
    print(len(sites), "sites;", len(names), "error-returning fns:", names)
