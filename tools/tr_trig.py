#!/usr/bin/env python3
"""tr_trig.py — translator part for the `fixed_point` trigonometry (C18, angular half).

Reads, from /repo's current working tree,
  src/geometry/real.rs                        the `fixed_point` constants FRAC_PI_2 / PI / TAU (I16F16 bits) and the
                                              bodies of the conversions / `rem_euclid` / `round` the model relies on
  src/geometry/angle.rs                       the 91-entry `SIN` table, the literals of the `degree` computation and of
                                              the quadrant chain, `cos`, `angle_consts`, `from_degrees`, `normalize`
  src/geometry/mod.rs                         `rotate_90`
  src/primitives/common/linear_equation.rs    `NORMAL_VECTOR_SCALE`, `OriginLinearEquation::with_angle`
  src/primitives/common/plane_sector.rs       the body of `PlaneSector::new` (compared with the text the model follows)
  src/primitives/sector/styled.rs             the bevel selection of `StyledPixelsIterator::new` and its three limits
and writes
  EG/Generated/TrigTable.lean                 the table and every literal, as `Int` / `List Int` definitions

Numbers are *extracted* (the model in EG/Model/FixedTrig.lean, PlaneSectorNew.lean uses the generated
definitions, so a changed literal changes the model and breaks the theorems / the `sector.trig` tie);
the *shape* of the code around them is pinned with strict patterns, and anything that does not match
raises (a broken tie, never a silently different model).

`Angle` values that the code writes as f32 expressions (`Angle::from_degrees(180.0)`, `(2.0 * PI).into()`,
`Angle::from_degrees(360.0 - 55.0)` ...) are evaluated here the way the `fixed_point` build evaluates
them: IEEE binary32 arithmetic (round to nearest even after every operation) followed by
`I16F16::from_num` (round to nearest, ties to even — fixed-1.31.0 `float_helper.rs`). The harness prints
the same values from the real build (`sector.consts`), so this evaluation is tied as well.
"""
import math
import os
import re
import struct
from fractions import Fraction


class TieError(Exception):
    pass


def _read(repo, rel):
    p = os.path.join(repo, rel)
    if not os.path.exists(p):
        raise TieError(f"{rel}: file not found")
    src = open(p).read()
    src = re.sub(r"//[^\n]*", "", src)      # line comments (also doc comments)
    return src


def _norm(s):
    return " ".join(s.split())


def _block_after(src, start_pat, rel, what):
    """text between the braces that follow the first match of `start_pat` (which must end with `{`)."""
    m = re.search(start_pat, src)
    if not m:
        raise TieError(f"{rel}: {what} not found (pattern {start_pat!r})")
    i = m.end()
    depth = 1
    j = i
    while j < len(src) and depth:
        if src[j] == "{":
            depth += 1
        elif src[j] == "}":
            depth -= 1
        j += 1
    if depth:
        raise TieError(f"{rel}: unbalanced braces in {what}")
    return src[i:j - 1]


def _need(text, frag, rel, what):
    if _norm(frag) not in text:
        raise TieError(f"{rel}: {what}: expected code `{_norm(frag)}` not found — the model of the fixed_point trigonometry no longer follows the source")


def _rx(text, pattern, rel, what):
    m = re.search(pattern, text)
    if not m:
        raise TieError(f"{rel}: {what} not found (pattern {pattern!r})")
    return m


# ---- IEEE binary32 evaluation of the few f32 expressions the code uses --------------------------------

def f32(x):
    return struct.unpack("<f", struct.pack("<f", x))[0]


PI32 = f32(math.pi)   # core::f32::consts::PI


def f32_mul(a, b):
    return f32(a * b)     # the exact product of two binary32 values fits a binary64: one rounding


def f32_div(a, b):
    return f32(a / b)     # binary64 has >= 2*24+2 digits: double rounding is innocuous for division


def f32_sub(a, b):
    return f32(a - b)


def i16f16_from_f32(x):
    """I16F16::from_num(x: f32): nearest, ties to even; must fit."""
    q = Fraction(x) * 65536
    fl = q.numerator // q.denominator
    rem = q - fl
    if rem > Fraction(1, 2) or (rem == Fraction(1, 2) and fl % 2 == 1):
        fl += 1
    if not (-2**31 <= fl < 2**31):
        raise TieError(f"I16F16::from_num({x}) does not fit")
    return fl


def angle_from_degrees(deg):
    """Angle::from_degrees(deg) = Angle((angle * PI / 180.0).into()) in the fixed_point build."""
    return i16f16_from_f32(f32_div(f32_mul(f32(deg), PI32), f32(180.0)))


def _eval_f32_expr(e, rel):
    """`a` or `a - b` over float literals (what the bevel limits use)."""
    e = e.strip()
    m = re.fullmatch(r"(\d+\.\d+)", e)
    if m:
        return f32(float(m.group(1)))
    m = re.fullmatch(r"(\d+\.\d+) - (\d+\.\d+)", e)
    if m:
        return f32_sub(f32(float(m.group(1))), f32(float(m.group(2))))
    raise TieError(f"{rel}: cannot evaluate f32 expression `{e}`")


PLANE_SECTOR_NEW = """
let angle_sweep_abs = angle_sweep.abs();
let operation = if angle_sweep_abs >= ANGLE_360DEG {
    return Self {
        half_plane_left: OriginLinearEquation::new_horizontal(),
        half_plane_right: OriginLinearEquation::new_horizontal(),
        operation: Operation::EntirePlane,
    };
} else if angle_sweep_abs >= ANGLE_180DEG {
    Operation::Union
} else {
    Operation::Intersection
};
let mut angle_end = angle_start + angle_sweep;
if angle_sweep < Angle::zero() {
    core::mem::swap(&mut angle_start, &mut angle_end)
}
Self {
    half_plane_right: OriginLinearEquation::with_angle(angle_start),
    half_plane_left: OriginLinearEquation::with_angle(angle_end),
    operation,
}
"""


def generate(repo):
    lits = {}

    # ---- real.rs ---------------------------------------------------------------------------------
    rel = "src/geometry/real.rs"
    src = _read(repo, rel)
    fx = _norm(_block_after(src, r'#\[cfg\(feature = "fixed_point"\)\]\s*mod real_impl \{', rel, "fixed_point mod real_impl"))
    for name, key in (("FRAC_PI_2", "fracPi2Bits"), ("PI", "piBits"), ("TAU", "tauBits")):
        m = _rx(fx, r"pub\(crate\) const " + name + r": Real = Real\(I16F16::from_bits\((-?\d+)\)\);", rel, f"constant {name}")
        lits[key] = int(m.group(1))
    _need(fx, "pub(crate) struct Real(pub(super) I16F16);", rel, "Real = I16F16")
    _need(fx, "impl From<f32> for Real { fn from(src: f32) -> Self { Self(I16F16::from_num(src)) } }", rel, "From<f32> for Real")
    _need(fx, "impl From<i32> for Real { fn from(src: i32) -> Self { Self(I16F16::from_num(src)) } }", rel, "From<i32> for Real")
    _need(fx, "impl From<Real> for f32 { fn from(src: Real) -> Self { src.0.to_num::<f32>() } }", rel, "From<Real> for f32")
    _need(fx, "impl From<Real> for i32 { fn from(src: Real) -> Self { src.0.round_to_zero().to_num::<i32>() } }", rel, "From<Real> for i32")
    whole = _norm(src)
    for op, body in (("Add", "fn add(self, other: Real) -> Real { Self(self.0 + other.0) }"),
                     ("Sub", "fn sub(self, other: Real) -> Real { Self(self.0 - other.0) }"),
                     ("Neg", "fn neg(self) -> Real { Self(-self.0) }"),
                     ("Mul", "fn mul(self, other: Real) -> Real { Self(self.0 * other.0) }"),
                     ("Div", "fn div(self, other: Real) -> Real { Self(self.0 / other.0) }")):
        _need(whole, body, rel, f"impl {op} for Real")
    _need(whole, "pub(crate) fn abs(self) -> Self { Self(self.0.abs()) }", rel, "Real::abs")
    _need(whole, "pub(crate) fn rem_euclid(self, rhs: Real) -> Self { let r = self.0 % rhs.0; if r < 0.0 { Real(r) + rhs.abs() } else { Real(r) } }", rel, "Real::rem_euclid")
    _need(whole, "pub(crate) fn round(self) -> Self { Self(self.0.round()) }", rel, "Real::round")

    # ---- angle.rs --------------------------------------------------------------------------------
    rel = "src/geometry/angle.rs"
    src = _read(repo, rel)
    whole = _norm(src)
    _need(whole, "use core::f32::consts::PI;", rel, "f32 PI")
    _need(whole, "pub(crate) const ANGLE_90DEG: Angle = Angle(real::FRAC_PI_2);", rel, "ANGLE_90DEG")
    _need(whole, "pub(crate) const ANGLE_180DEG: Angle = Angle(real::PI);", rel, "ANGLE_180DEG")
    _need(whole, "pub(crate) const ANGLE_360DEG: Angle = Angle(real::TAU);", rel, "ANGLE_360DEG")
    _need(whole, "pub struct Angle(Real);", rel, "Angle(Real)")
    m = _rx(whole, r"pub fn from_degrees\(angle: f32\) -> Self \{ Angle\(\(angle \* PI / (\d+\.\d+)\)\.into\(\)\) \}", rel, "Angle::from_degrees")
    if float(m.group(1)) != 180.0:
        raise TieError(f"{rel}: from_degrees divides by {m.group(1)}, the translator evaluates `angle * PI / 180.0`")
    _need(whole, "pub fn from_radians(angle: f32) -> Self { Angle(angle.into()) }", rel, "Angle::from_radians")
    _need(whole, "pub fn zero() -> Self { Angle(0.into()) }", rel, "Angle::zero")
    _need(whole, "pub fn abs(self) -> Self { Angle(self.0.abs()) }", rel, "Angle::abs")
    _need(whole, "pub fn to_radians(self) -> f32 { self.0.into() }", rel, "Angle::to_radians")
    m = _rx(whole, r"pub fn normalize\(self\) -> Self \{ Angle\(self\.0\.rem_euclid\(\((\d+\.\d+) \* PI\)\.into\(\)\)\) \}", rel, "Angle::normalize")
    lits["normalizeModBits"] = i16f16_from_f32(f32_mul(f32(float(m.group(1))), PI32))
    for op, body in (("Add", "fn add(self, other: Angle) -> Angle { Angle(self.0 + other.0) }"),
                     ("Sub", "fn sub(self, other: Angle) -> Angle { Angle(self.0 - other.0) }"),
                     ("Neg", "fn neg(self) -> Angle { Angle(-self.0) }")):
        _need(whole, body, rel, f"impl {op} for Angle")
    _need(whole, "#[derive(Copy, Clone, PartialEq, PartialOrd, Debug)] #[cfg_attr(feature = \"defmt\", derive(::defmt::Format))] pub struct Angle(Real);", rel, "derived comparisons of Angle")
    trig = _norm(_block_after(src, r'#\[cfg\(feature = "fixed_point"\)\]\s*impl Trigonometry for Angle \{', rel, "fixed_point impl Trigonometry for Angle"))
    m = _rx(trig, r"const SIN: \[I16F16; (\d+)\] = \[(.*?)\];", rel, "SIN table")
    declared = int(m.group(1))
    body = m.group(2)
    table = [int(x) for x in re.findall(r"I16F16::from_bits\((-?\d+)\)", body)]
    rest = re.sub(r"I16F16::from_bits\(-?\d+\)", "", body).replace(",", "").strip()
    if rest:
        raise TieError(f"{rel}: SIN table has entries the translator cannot read: `{rest[:60]}`")
    if len(table) != declared:
        raise TieError(f"{rel}: SIN table declares {declared} entries, {len(table)} parsed")
    m = _rx(trig, r"let degree: i32 = \(Real::from\((\d+)\) \* self\.0 / real::PI\)\.round\(\)\.into\(\); "
                  r"let degree = degree\.rem_euclid\((\d+)\) as usize;", rel, "degree computation of sin")
    lits["degFactor"] = int(m.group(1))
    lits["degModulus"] = int(m.group(2))
    m = _rx(trig, r"let sin = if degree <= (\d+) \{ SIN\[degree\] \} else if degree <= (\d+) \{ SIN\[(\d+) - degree\] \} "
                  r"else if degree <= (\d+) \{ -SIN\[degree - (\d+)\] \} else \{ -SIN\[(\d+) - degree\] \}; sin\.into\(\)", rel, "quadrant chain of sin")
    for key, g in zip(("sinQ1", "sinQ2", "sinM2", "sinQ3", "sinM3", "sinM4"), m.groups()):
        lits[key] = int(g)
    _need(trig, "fn cos(self) -> Real { (self + angle_consts::ANGLE_90DEG).sin() }", rel, "cos")

    # ---- geometry/mod.rs ---------------------------------------------------------------------------
    rel = "src/geometry/mod.rs"
    _need(_norm(_read(repo, rel)), "fn rotate_90(self) -> Self { Self::new(-self.y, self.x) }", rel, "rotate_90")

    # ---- linear_equation.rs ------------------------------------------------------------------------
    rel = "src/primitives/common/linear_equation.rs"
    whole = _norm(_read(repo, rel))
    m = _rx(whole, r"pub const NORMAL_VECTOR_SCALE: i32 = (\d+) << (\d+);", rel, "NORMAL_VECTOR_SCALE")
    lits["trigNormalVectorScale"] = int(m.group(1)) << int(m.group(2))
    m = _rx(whole, r"pub fn with_angle\(angle: Angle\) -> Self \{ let normal_vector = if angle == Angle::from_degrees\((\d+\.\d+)\) \{ "
                   r"Point::new\(0, -NORMAL_VECTOR_SCALE\) \} else \{ Point::new\( "
                   r"i32::from\(angle\.cos\(\) \* Real::from\(NORMAL_VECTOR_SCALE\)\), "
                   r"i32::from\(angle\.sin\(\) \* Real::from\(NORMAL_VECTOR_SCALE\)\), \) \.rotate_90\(\) \}; Self \{ normal_vector \} \}",
            rel, "OriginLinearEquation::with_angle")
    lits["withAngleSpecialBits"] = angle_from_degrees(float(m.group(1)))
    _need(whole, "pub const fn new_horizontal() -> Self { Self { normal_vector: Point::new(0, NORMAL_VECTOR_SCALE), } }", rel, "new_horizontal")
    _need(whole, "pub fn with_angle_and_distance(angle: Angle, origin_distance: i32) -> Self { Self { normal_vector: OriginLinearEquation::with_angle(angle).normal_vector, origin_distance, } }", rel, "with_angle_and_distance")

    # ---- plane_sector.rs ---------------------------------------------------------------------------
    rel = "src/primitives/common/plane_sector.rs"
    src = _read(repo, rel)
    body = _norm(_block_after(src, r"pub fn new\(mut angle_start: Angle, angle_sweep: Angle\) -> Self \{", rel, "PlaneSector::new"))
    if body != _norm(PLANE_SECTOR_NEW):
        raise TieError(f"{rel}: the body of PlaneSector::new differs from the text EG.Fx.planeSectorNew models: `{body[:400]}`")

    # ---- sector/styled.rs --------------------------------------------------------------------------
    rel = "src/primitives/sector/styled.rs"
    whole = _norm(_read(repo, rel))
    _need(whole, "let plane_sector = PlaneSector::new(stroke_area.angle_start, stroke_area.angle_sweep);", rel, "plane sector of the styled sector")
    m = _rx(whole, r"let angle_sweep_abs = primitive\.angle_sweep\.abs\(\); "
                   r"let exterior_bevel = angle_sweep_abs < Angle::from_degrees\(([^()]+)\); "
                   r"let interior_bevel = angle_sweep_abs > Angle::from_degrees\(([^()]+)\) && angle_sweep_abs < Angle::from_degrees\(([^()]+)\); "
                   r"let bevel = if exterior_bevel \|\| interior_bevel \{ "
                   r"let half_sweep = primitive\.angle_start \+ Angle::from_radians\(primitive\.angle_sweep\.to_radians\(\) / 2\.0\); "
                   r"let threshold = -outside_stroke_width \* NORMAL_VECTOR_SCALE \* 4; "
                   r"if interior_bevel \{ Some\(\( BevelKind::Interior, LinearEquation::with_angle_and_distance\(half_sweep \+ ANGLE_90DEG, threshold\), \)\) \} "
                   r"else \{ Some\(\( BevelKind::Exterior, LinearEquation::with_angle_and_distance\(half_sweep - ANGLE_90DEG, threshold\), \)\) \} "
                   r"\} else \{ None \};", rel, "bevel selection of StyledPixelsIterator::new")
    for key, g in zip(("bevelExteriorBits", "bevelInteriorLoBits", "bevelInteriorHiBits"), m.groups()):
        d = _eval_f32_expr(g, rel)
        lits[key] = i16f16_from_f32(f32_div(f32_mul(d, PI32), f32(180.0)))

    # ---- derived table (a cache for the kernel; EG.Lemmas.FixedTrigNormals proves it equal to the model's functions) ----
    def sin_deg(k):
        d = k % lits["degModulus"]
        if d <= lits["sinQ1"]:
            i, sign = d, 1
        elif d <= lits["sinQ2"]:
            i, sign = lits["sinM2"] - d, 1
        elif d <= lits["sinQ3"]:
            i, sign = d - lits["sinM3"], -1
        else:
            i, sign = lits["sinM4"] - d, -1
        if not (0 <= i < len(table)):
            raise TieError(f"src/geometry/angle.rs: quadrant chain indexes SIN[{i}] for degree {d}")
        return sign * table[i]

    def trunc_div(a, b):
        return abs(a) // b * (1 if a >= 0 else -1)

    unit = 65536 // lits["trigNormalVectorScale"] if lits["trigNormalVectorScale"] > 0 and 65536 % lits["trigNormalVectorScale"] == 0 else None
    if unit is None:
        raise TieError("NORMAL_VECTOR_SCALE does not divide 65536: the derived normal table cannot be computed")
    normal_rows = [(trunc_div(sin_deg(k), unit), trunc_div(sin_deg(k + 90), unit), trunc_div(sin_deg(k + 91), unit)) for k in range(360)]

    # ---- output ------------------------------------------------------------------------------------
    o = []
    o.append("/-\n  GENERATED by tools/tr_trig.py from /repo/src/geometry/{real,angle}.rs, src/primitives/common/{linear_equation,plane_sector}.rs,\n"
             "  src/primitives/sector/styled.rs (feature `fixed_point`) — do not edit.\n"
             "  The sine table and every literal of the fixed-point trigonometry pipeline; I16F16 values are their bits.\n-/\n")
    o.append("namespace EG.Generated\n\n")
    o.append("/-- `SIN` of `impl Trigonometry for Angle` (fixed_point): `I16F16::from_bits` arguments, degrees 0..=90 -/\n")
    o.append("def sinTable : List Int := [\n")
    rows = [table[i:i + 10] for i in range(0, len(table), 10)]
    o.append(",\n".join("  " + ", ".join(str(v) for v in r) for r in rows))
    o.append("\n]\n\n")
    o.append(f"/-- the length the source declares (`[I16F16; N]`) -/\ndef seenSinLen : Nat := {declared}\n\n")
    doc = {
        "fracPi2Bits": "`real::FRAC_PI_2` (= `ANGLE_90DEG`)",
        "piBits": "`real::PI` (= `ANGLE_180DEG`)",
        "tauBits": "`real::TAU` (= `ANGLE_360DEG`)",
        "normalizeModBits": "`(2.0 * PI).into()` of `Angle::normalize` (f32 product, `I16F16::from_num`)",
        "degFactor": "`Real::from(180)` of the degree computation",
        "degModulus": "`degree.rem_euclid(360)`",
        "sinQ1": "`if degree <= 90 { SIN[degree] }`",
        "sinQ2": "`else if degree <= 180`",
        "sinM2": "`SIN[180 - degree]`",
        "sinQ3": "`else if degree <= 270`",
        "sinM3": "`-SIN[degree - 180]`",
        "sinM4": "`-SIN[360 - degree]`",
        "trigNormalVectorScale": "`NORMAL_VECTOR_SCALE`",
        "withAngleSpecialBits": "`Angle::from_degrees(180.0)` of `with_angle` (f32 `180.0 * PI / 180.0`, `I16F16::from_num`)",
        "bevelExteriorBits": "`Angle::from_degrees(55.0)`: exterior bevel below",
        "bevelInteriorLoBits": "`Angle::from_degrees(360.0 - 55.0)`: interior bevel above",
        "bevelInteriorHiBits": "`Angle::from_degrees(360.0)`: interior bevel below",
    }
    for k in doc:
        o.append(f"/-- {doc[k]} -/\ndef {k} : Int := {lits[k]}\n")
    o.append("\n/-- DERIVED (not read from the source; proved equal to the model's functions in EG.Lemmas.FixedTrigNormals, so\n"
             "that the kernel evaluates them once): for the whole degrees `k = 0..359` the integer part toward zero of\n"
             "`1024 sin k`, `1024 sin (k + 90)`, `1024 sin (k + 91)` by the table (the components of the normal vectors),\n"
             "each OFFSET by `NORMAL_VECTOR_SCALE` (so that they are naturals: kernel arithmetic on `Nat` literals is fast). -/\n")
    o.append("def normalTableNat : List (Nat × Nat × Nat) := [\n")
    off = lits["trigNormalVectorScale"]
    if any(v + off < 0 for r in normal_rows for v in r):
        raise TieError("derived normal table: a component is below -NORMAL_VECTOR_SCALE")
    o.append(",\n".join("  " + ", ".join(f"⟨{a + off}, {b + off}, {c + off}⟩" for (a, b, c) in normal_rows[i:i + 6]) for i in range(0, 360, 6)))
    o.append("\n]\n")
    o.append("\nend EG.Generated\n")
    info = {"sin_table_entries": len(table), "literals": lits}
    return {"TrigTable.lean": "".join(o)}, info


if __name__ == "__main__":
    import json
    import sys
    files, info = generate(sys.argv[1] if len(sys.argv) > 1 else "/repo")
    print(json.dumps(info))
