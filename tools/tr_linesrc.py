#!/usr/bin/env python3
"""tr_linesrc.py — SOURCE-TO-LEAN translator for the LINE code that property C17 rests on.

It reads, from /repo's current working tree,
  src/primitives/line/bresenham.rs   `MajorMinor<T>`, `BresenhamParameters::{new, increase_error, decrease_error,
                                     mirror_extra_points}`, `Bresenham::{new, with_initial_error, next, next_all,
                                     previous_all}`, `BresenhamPoint`, `major_length`
  src/primitives/line/points.rs      `Points::{new, empty}`, `Iterator::next`
  src/primitives/line/mod.rs         `Line::{new, with_delta, perpendicular, midpoint, delta}`, `Transform::translate`,
                                     `PointsIter::points`
  core/src/geometry/point.rs         the `Point` helpers those bodies call (`abs`, `x_axis`, `y_axis`, `+ - / Neg`,
                                     `+=`, `-=`), found on demand
and writes EG/Generated/LineSrc.lean: one Lean `def` per Rust function, mirroring the Rust text arm for arm.
`lean/EG/Props/C17/GeneratedLine.lean` proves every generated definition equal to the hand model
(EG/Model/Bresenham.lean, EG/Model/Line.lean) for all inputs and restates C17's thin-line theorems over them.

REUSES tools/tr_rect.py (imported, not edited): tokenizer, `Cursor`, item scanner `parse_items`, the body parser
`BodyParser` unchanged, and the syntax-directed `Translator`, which is SUBCLASSED (`LineTranslator`) for what the line
sources add to the Rectangle subset:
  * generic struct `MajorMinor<T>`: MONOMORPHISED in a token pre-pass (`monomorphise`): the `struct` / `impl<T>` items
    are copied once per instantiation `MajorMinor<X>` found in the sources with `T := X` under the name `MajorMinor_X`;
    a constructor call `MajorMinor::new(a, b)` is resolved by the type of its first argument.
  * the data-carrying enum `BresenhamPoint` (cut out by the pre-pass; constructors are prelude functions).
  * `let (a, b) = ..` (tuple pattern), `+=` / `-=` on `Point` (the `AddAssign` / `SubAssign` impls of point.rs, which are
    translated like any `&mut self` function), a parameter `error: &mut i32` (the function returns (value, updated
    error)), a tail expression `if .. { stmts; v } else { .. }` / `Some(self.f.next(..))` in a `&mut self` function
    (the `return` is pushed into the arms, the mutating call is hoisted into a `let`), module-qualified calls
    (`bresenham::major_length`).
`translate_fn` is a COPY of tr_rect's (one monolithic function) with the `&mut i32` parameter and the pushed return added.
Anything else raises (never skipped); `generate` then writes a LineSrc.lean that only contains
`def translationFailed : String`, so that exactly the theorems of Props/C17/GeneratedLine.lean stop building.
All semantics lives in the prelude EG/Model/LineSrcPrelude.lean (+ RectSrcPrelude.lean).
"""
import os
import re

import tr_rect
from tr_rect import RectTrError as TrError, Cursor, Tok, tokenize, strip_comments, parse_items, Program, subst_assoc, \
    type_str, contains_kind

FILES = {
    "point": "core/src/geometry/point.rs",
    "bresenham": "src/primitives/line/bresenham.rs",
    "points": "src/primitives/line/points.rs",
    "line": "src/primitives/line/mod.rs",
}
# `bresenham::major_length(..)`: a module name in front of a free function of one of the parsed files
MODULE_PATHS = {"bresenham": "src/primitives/line/bresenham.rs"}

ROOTS = [
    (None, None, "major_length"),
    ("MajorMinor_i32", None, "new"), ("MajorMinor_Point", None, "new"),
    ("BresenhamParameters", None, "new"), ("BresenhamParameters", None, "increase_error"),
    ("BresenhamParameters", None, "decrease_error"), ("BresenhamParameters", None, "mirror_extra_points"),
    ("Bresenham", None, "new"), ("Bresenham", None, "with_initial_error"), ("Bresenham", None, "next"),
    ("Bresenham", None, "next_all"), ("Bresenham", None, "previous_all"),
    ("Line", None, "new"), ("Line", None, "with_delta"), ("Line", None, "perpendicular"), ("Line", None, "midpoint"),
    ("Line", None, "delta"), ("Line", "Transform", "translate"), ("Line", "PointsIter", "points"),
    ("Points", None, "new"), ("Points", None, "empty"), ("Points", "Iterator", "next"),
]

# the prelude gives these structs as the hand model's structures: the Rust declarations must be exactly these
EXPECTED_STRUCTS = {
    "Point": [("x", "i32"), ("y", "i32")],
    "Line": [("start", "Point"), ("end", "Point")],
    "MajorMinor_i32": [("major", "i32"), ("minor", "i32")],
    "MajorMinor_Point": [("major", "Point"), ("minor", "Point")],
    "BresenhamParameters": [("error_threshold", "i32"), ("error_step", "MajorMinor_i32"), ("position_step", "MajorMinor_Point")],
    "Bresenham": [("point", "Point"), ("error", "i32")],
    "Points": [("parameters", "BresenhamParameters"), ("bresenham", "Bresenham"), ("points_remaining", "u32")],
}
EXPECTED_DATA_ENUMS = {"BresenhamPoint": [("Normal", ["Point"]), ("Extra", ["Point"])]}
INVENTORY_TYPES = ["Line", "Points", "Bresenham", "BresenhamParameters", "MajorMinor_i32", "MajorMinor_Point"]
ASSIGN_TRAITS = {"+=": ("AddAssign", "add_assign"), "-=": ("SubAssign", "sub_assign")}


# ---------------------------------------------------------------------------------------------------------------
# token pre-pass: generic structs are monomorphised, data-carrying enums are cut out and recorded
# ---------------------------------------------------------------------------------------------------------------

def _match_close(toks, i, open_, close):
    """toks[i] is `open_`: index of the matching `close`."""
    depth = 0
    while i < len(toks):
        t = toks[i]
        if t.kind == "p" and t.text == open_:
            depth += 1
        elif t.kind == "p" and t.text == close:
            depth -= 1
            if depth == 0:
                return i
        i += 1
    raise TrError(f"unbalanced `{open_}`")


def _is(t, text):
    return t is not None and t.kind in ("p", "id") and t.text == text


def cut_items(toks, rel, generics, data_enums):
    """remove `struct N<T> {..}`, `impl<T> N<T> {..}` (recorded in `generics`) and data-carrying `enum`s (recorded in
    `data_enums`) from the TOP LEVEL of a file's token list (attributes in front of them stay and are skipped with the
    next item)."""
    out = []
    i, n = 0, len(toks)
    depth = 0
    while i < n:
        t = toks[i]
        g = lambda k: toks[i + k] if i + k < n else None
        if depth == 0 and _is(t, "struct") and g(1) is not None and g(1).kind == "id" and _is(g(2), "<"):
            name = g(1).text
            if not (g(3) is not None and g(3).kind == "id" and _is(g(4), ">") and _is(g(5), "{")):
                raise TrError(f"{rel}:{t.line}: generic struct {name}: only `struct {name}<T> {{ .. }}` is supported")
            end = _match_close(toks, i + 5, "{", "}")
            ent = generics.setdefault(name, {"param": g(3).text, "struct": None, "impls": [], "rel": rel})
            if ent["struct"] is not None:
                raise TrError(f"{rel}:{t.line}: generic struct {name} declared twice")
            ent["param"] = g(3).text
            ent["struct"] = toks[i + 5:end + 1]
            i = end + 1
            continue
        if depth == 0 and _is(t, "impl") and _is(g(1), "<") and g(2) is not None and g(2).kind == "id" and _is(g(3), ">") \
                and g(4) is not None and g(4).kind == "id" and _is(g(5), "<") and g(6) is not None and g(6).text == g(2).text \
                and _is(g(7), ">") and _is(g(8), "{"):
            name = g(4).text
            end = _match_close(toks, i + 8, "{", "}")
            ent = generics.setdefault(name, {"param": g(2).text, "struct": None, "impls": [], "rel": rel})
            ent["impls"].append((g(2).text, toks[i + 8:end + 1]))
            i = end + 1
            continue
        if depth == 0 and _is(t, "enum") and g(1) is not None and g(1).kind == "id" and _is(g(2), "{"):
            end = _match_close(toks, i + 2, "{", "}")
            body = toks[i + 3:end]
            if any(_is(x, "(") or _is(x, "{") for x in body):
                name = g(1).text
                variants = []
                c = Cursor(body)
                while not c.eof():
                    tr_rect.skip_attrs_and_vis(c)
                    if c.eof():
                        break
                    v = c.ident()
                    tys = []
                    if c.at("("):
                        s, e = c.skip_balanced("(", ")")
                        pc = Cursor(body, s, e)
                        while not pc.eof():
                            tys.append(tr_rect.parse_type(pc))
                            if pc.at(","):
                                pc.next()
                    elif not (c.eof() or c.at(",")):
                        raise TrError(f"{rel}: enum {name}: variant {v}: only tuple variants are supported")
                    variants.append((v, tys))
                    if c.at(","):
                        c.next()
                if name in data_enums:
                    raise TrError(f"{rel}: enum {name} declared twice")
                data_enums[name] = variants
                i = end + 1
                continue
        if t.kind == "p" and t.text == "{":
            depth += 1
        elif t.kind == "p" and t.text == "}":
            depth -= 1
        out.append(t)
        i += 1
    return out


def monomorphise(files):
    """files: {rel: tokens}. Returns ({rel: tokens}, data_enums, instances)."""
    generics, data_enums = {}, {}
    cut = {rel: cut_items(toks, rel, generics, data_enums) for rel, toks in files.items()}
    instances = {}      # generic name -> ordered list of argument type names
    out = {}
    for rel, toks in cut.items():
        new, i = [], 0
        while i < len(toks):
            t = toks[i]
            if t.kind == "id" and t.text in generics and i + 1 < len(toks) and _is(toks[i + 1], "<") \
                    and not (i > 0 and _is(toks[i - 1], "::") and False):
                if not (i + 3 < len(toks) and toks[i + 2].kind == "id" and _is(toks[i + 3], ">")):
                    raise TrError(f"{rel}:{t.line}: `{t.text}<..>`: only a plain type name as the argument is supported")
                arg = toks[i + 2].text
                if arg not in instances.setdefault(t.text, []):
                    instances[t.text].append(arg)
                new.append(Tok("id", f"{t.text}_{arg}", t.line, rel))
                i += 4
                continue
            new.append(t)
            i += 1
        out[rel] = new
    for name, ent in generics.items():
        if ent["struct"] is None:
            raise TrError(f"{ent['rel']}: `impl<T> {name}<T>` without the struct declaration")
        for arg in instances.get(name, []):
            sub = lambda ts, p: [Tok("id", arg, x.line, x.rel) if (x.kind == "id" and x.text == p) else x for x in ts]
            mono = f"{name}_{arg}"
            line = ent["struct"][0].line
            rel = ent["rel"]
            extra = [Tok("id", "struct", line, rel), Tok("id", mono, line, rel)] + sub(ent["struct"], ent["param"])
            for (p, body) in ent["impls"]:
                extra += [Tok("id", "impl", body[0].line, rel), Tok("id", mono, body[0].line, rel)] + sub(body, p)
            out[rel] = out[rel] + extra
    return out, data_enums, {k: list(v) for k, v in instances.items()}, sorted(generics)


# ---------------------------------------------------------------------------------------------------------------
# the translator: tr_rect's, extended
# ---------------------------------------------------------------------------------------------------------------

PRELUDE_NAMES = set()
for _s, _fs in EXPECTED_STRUCTS.items():
    PRELUDE_NAMES |= {_s, f"{_s}_mk"} | {f"{_s}_{f}" for f, _ in _fs} | {f"{_s}_set_{f}" for f, _ in _fs}
for _e, _vs in EXPECTED_DATA_ENUMS.items():
    PRELUDE_NAMES |= {_e} | {f"{_e}_{v}" for v, _ in _vs}


def push_return(e):
    """the tail expression `e` of a `&mut` function as statements ending in `return`: the `return` is pushed into the
    arms of a tail `if` / `match` / block (so that the assignments inside the arms stay statement-level)."""
    k, line = e[0], e[1]
    if k == "paren":
        return push_return(e[2])
    if k == "block":
        stmts, tail = e[2], e[3]
        if tail is None:
            return list(stmts)
        return list(stmts) + push_return(tail)
    if k == "if" and e[4] is not None:
        then, els = e[3], e[4]
        return [("expr", line, ("if", line, e[2], ("block", then[1], push_return(then), None),
                                ("block", els[1], push_return(els), None)))]
    if k == "match":
        arms = [(p, ("block", b[1], push_return(b), None)) for (p, b) in e[3]]
        return [("expr", line, ("match", line, e[2], arms))]
    return [("expr", line, ("return", line, e))]


class LineTranslator(tr_rect.Translator):
    def __init__(self, prog, data_enums, generic_names, instances):
        super().__init__(prog)
        self.data_enums = data_enums
        self.generic_names = generic_names
        self.instances = instances

    # ---- names
    def lean_fn_name(self, f):
        if f.impl_type is None:
            return f.name
        if f.trait is None:
            return f"{f.impl_type}_{f.name}"
        m = re.fullmatch(r"(\w+)(?:<(\w+)>)?", f.trait)
        if not m:
            raise TrError(f"trait name `{f.trait}` not understood")
        if m.group(1) in tr_rect.OP_TRAIT_NAMES or m.group(1) in ("AddAssign", "SubAssign"):
            rhs = m.group(2) or f.impl_type
            return f"{f.impl_type}_op_{f.name}_{rhs}" if m.group(1) != "Neg" else f"{f.impl_type}_op_{f.name}"
        return f"{f.impl_type}_{m.group(1)}_{f.name}"

    def lvar(self, name):
        if name in PRELUDE_NAMES:
            return name + "_"
        return super().lvar(name)

    def lean_type(self, t, self_type=None):
        if t == "Self":
            t = self_type
        if isinstance(t, str) and t != "Point" and t in EXPECTED_STRUCTS and t in self.prog.structs:
            return f"LineSrcPrelude.{t}"
        if isinstance(t, str) and t in self.data_enums:
            return f"LineSrcPrelude.{t}"
        return super().lean_type(t, self_type)

    # ---- functions (COPY of tr_rect.Translator.translate_fn; additions marked `+`)
    def translate_fn(self, f):
        where = f"{f.rel} fn {(f.impl_type + '::') if f.impl_type else ''}{f.name}"
        self.where = where
        st = f.impl_type
        env = {"%tail": True, "%frozen": frozenset()}
        params = []
        if f.self_kind is not None:
            if st is None:
                raise TrError(f"{where}: self outside an impl")
            env["self"] = st
            params.append(("self", st))
        mut_var = "self" if f.self_kind == "refmut" else None
        mut_type = st if f.self_kind == "refmut" else None
        for (n, t) in f.params:
            t = self.norm_type(t, st)
            if not isinstance(t, str) and t[0] == "refmut":
                # + a `&mut i32` parameter of a function that does not also mutate `self`: the function returns
                #   (value, updated parameter)
                if t[1] != "i32" or mut_var is not None:
                    raise TrError(f"{where}: `&mut` parameter {n}: only one `&mut i32` parameter (and no `&mut self`) is supported")
                mut_var, mut_type, t = n, "i32", "i32"
            env[n] = t
            params.append((n, t))
        ret = self.norm_type(f.ret, st)
        toks, s, e = f.body
        stmts, tail = tr_rect.BodyParser(toks, s, e, where).parse_block_body()
        mutating = mut_var is not None
        if contains_kind((stmts, tail), "while"):
            raise TrError(f"{where}: `while` loop: not supported by this part")
        kind = "plain" if not mutating else ("mut_unit" if ret == "unit" else "mut_val")
        ctx = {"ret": ret, "self_type": st, "mut_self": mutating, "kind": kind, "loopy": False, "in_loop": False,
               "mut_var": mut_var, "mut_type": mut_type}
        if kind == "plain":
            body, bt = self.tr_stmts(stmts, 0, tail, env, ctx, ret, None, 2)
            self.unify(bt, ret, where + ": result")
            lres = self.lean_type(ret)
        else:
            # + the tail expression is the returned value; the `return` is pushed into the arms of a tail `if` / `match`
            if tail is not None:
                stmts = stmts + push_return(tail)
                tail = None

            def final(env2, ind2=2, ctx=ctx, where=where):
                if ret != "unit":
                    raise TrError(f"{where}: the end of the body is reached without a value")
                return self.wrap_result(None, ctx), "never"
            body, bt = self.tr_stmts(stmts, 0, tail, env, ctx, None, final, 2)
            lres = self.result_lean_type(ctx)
        name = self.lean_fn_name(f)
        ps = " ".join(f"({self.lvar(n)} : {self.lean_type(t)})" for (n, t) in params)
        what = "`&mut self`" if mut_var == "self" else f"`{mut_var}: &mut i32`"
        head = f"/-- `{f.rel}` line {f.line}: `{'impl ' + f.trait + ' for ' + st + ' :: ' if f.trait else (st + '::' if st else '')}{f.name}`" \
               + (f" ({what}: returns the updated `{mut_var}`)" if kind == "mut_unit" else "") \
               + (f" ({what}: returns (value, updated `{mut_var}`))" if kind == "mut_val" else "") + " -/\n"
        return f"{head}def {name}{' ' if ps else ''}{ps} : {lres} :=\n  {body}\n"

    def result_lean_type(self, ctx):
        mt = self.lean_type(ctx["mut_type"]) if ctx.get("mut_type") else None
        if ctx["kind"] == "mut_unit":
            return mt
        if ctx["kind"] == "mut_val":
            return f"({self.lean_type(ctx['ret'])} × {mt})"
        return self.lean_type(ctx["ret"])

    def wrap_result(self, val, ctx):
        kind = ctx["kind"]
        mv = self.lvar(ctx["mut_var"]) if ctx.get("mut_var") else None
        if kind == "plain":
            return val
        if kind == "mut_unit":
            return mv
        return f"({val}, {mv})"

    # ---- statements: tuple `let`, `+=` / `-=` on a struct, `return` of a mutating call
    def tr_stmts(self, stmts, i, tail, env, ctx, expected, final, ind):
        pad = " " * ind
        if i < len(stmts):
            s = stmts[i]
            rest = lambda env2, ind2=ind: self.tr_stmts(stmts, i + 1, tail, env2, ctx, expected, final, ind2)
            if s[0] == "let" and s[2][0] == "ptuple":
                _, line, pat, ty, e, mut = s
                W = f"{self.where}: line {line}"
                want = self.norm_type(ty, ctx["self_type"]) if ty is not None else None
                txt, t = self.tr_expr(e, self.nt(env), ctx, want, ind + 2)
                t = self.unify(t, want, W)
                if isinstance(t, str) or t[0] != "tuple" or len(t[1]) != len(pat[2]):
                    raise TrError(f"{W}: tuple pattern against type {type_str(t)}")
                env2 = dict(env)
                names = []
                for q, qt in zip(pat[2], t[1]):
                    if q[0] == "pbind":
                        env2[q[2]] = qt
                        env2["%frozen"] = env2["%frozen"] - {q[2]}
                        names.append(self.lvar(q[2]))
                    elif q[0] == "pwild":
                        names.append("_")
                    else:
                        raise TrError(f"{W}: only names and `_` inside a tuple `let` pattern are supported")
                if len(set(n for n in names if n != "_")) != len([n for n in names if n != "_"]):
                    raise TrError(f"{W}: a name bound twice in a tuple pattern")
                r, rt = rest(env2)
                return f"let ({', '.join(names)}) := {txt};\n{pad}{r}", rt
            if s[0] == "assign" and s[2] in ASSIGN_TRAITS:
                _, line, op, lhs, rhs = s
                W = f"{self.where}: line {line}"
                root, fields = self.place(lhs, env, line)
                rtype = env[root]
                pt = rtype
                for fl in fields:
                    pt = self.field_type(pt, fl, line)
                if isinstance(pt, str) and pt in self.prog.structs:
                    self.check_assignable(root, env, line)
                    rv, vt = self.tr_expr(rhs, self.nt(env), ctx, None, ind + 2)
                    if vt == "int?":
                        raise TrError(f"{W}: `{op}` of {pt} with an untyped literal")
                    tn, fn = ASSIGN_TRAITS[op]
                    g = self.find_fn(pt, tn if vt == pt else f"{tn}<{type_str(vt)}>", fn, W)
                    if g.self_kind != "refmut" or self.norm_type(g.ret, pt) != "unit" or len(g.params) != 1:
                        raise TrError(f"{W}: `{fn}` of {pt} is not `fn {fn}(&mut self, other)`")
                    where = self.where
                    gname = self.need(g)
                    self.where = where
                    self.unify(vt, self.norm_type(g.params[0][1], pt), W)
                    cur = self.place_read(root, fields, rtype)
                    new = self.place_write(self.lvar(root), rtype, fields, f"(RectSrc.{gname} {cur} {self.atom(rv)})", line)
                    r, rt = rest(env)
                    return f"let {self.lvar(root)} := {new};\n{pad}{r}", rt
            if s[0] == "expr" and s[2][0] == "return" and s[2][2] is not None:
                e = s[2][2]
                line = e[1]
                inner = e
                wrap = None
                if e[0] == "callexpr" and e[2][0] == "path" and e[2][2] in (["Some"], ["Option", "Some"]) and len(e[3]) == 1:
                    inner, wrap = e[3][0], e
                if inner[0] == "mcall" and self.mut_call(inner, env, ctx, line, ind) is not None:
                    # `return Some(PLACE.m(..))` with `m` a `&mut self` method: `let ret' = PLACE.m(..); return Some(ret')`
                    v = ("path", line, ["ret'"])
                    new_e = v if wrap is None else ("callexpr", wrap[1], wrap[2], [v])
                    new = list(stmts[:i]) + [("let", line, ("pbind", line, "ret'"), None, inner, False),
                                             ("expr", line, ("return", line, new_e))] + list(stmts[i + 1:])
                    return super().tr_stmts(new, i, tail, env, ctx, expected, final, ind)
        return super().tr_stmts(stmts, i, tail, env, ctx, expected, final, ind)

    def place(self, e, env, line):
        # `*error += ..` on a `&mut i32` parameter: the dereference is transparent
        probe, fields = e, []
        while probe[0] == "field":
            fields.append(probe)
            probe = probe[2]
        if probe[0] == "deref" and not fields and probe[2][0] == "path" and len(probe[2][2]) == 1 and probe[2][2][0] in env:
            return probe[2][2][0], []
        return super().place(e, env, line)

    # ---- calls
    def tr_call(self, e, env, ctx, expected, ind):
        _, line, fe, args = e
        W = f"{self.where}: line {line}"
        if fe[0] == "path":
            segs = list(fe[2])
            if len(segs) == 2 and segs[0] in MODULE_PATHS:
                g = self.find_fn(None, None, segs[1], W)
                if g.rel != MODULE_PATHS[segs[0]]:
                    raise TrError(f"{W}: `{'::'.join(segs)}`: function {segs[1]} is defined in {g.rel}")
                segs = segs[1:]
            if len(segs) == 2 and segs[0] in self.generic_names:
                # `MajorMinor::new(a, b)`: the instance is chosen by the type of the first argument
                if not args:
                    raise TrError(f"{W}: cannot tell the instance of generic `{segs[0]}`")
                _, at = self.tr_expr(args[0], env, ctx, None, ind)
                if at == "int?":
                    at = "i32" if "i32" in self.instances.get(segs[0], []) and expected in (None, f"{segs[0]}_i32") else at
                if not isinstance(at, str) or at not in self.instances.get(segs[0], []):
                    raise TrError(f"{W}: `{segs[0]}<{type_str(at)}>` is not an instance found in the sources")
                segs = [f"{segs[0]}_{at}", segs[1]]
            ty = ctx["self_type"] if segs[0] == "Self" else segs[0]
            if len(segs) == 2 and ty in self.data_enums:
                vs = dict(self.data_enums[ty])
                if segs[1] not in vs or len(vs[segs[1]]) != len(args):
                    raise TrError(f"{W}: `{ty}::{segs[1]}` with {len(args)} argument(s): no such variant")
                out = []
                for a, pt in zip(args, vs[segs[1]]):
                    txt, t = self.tr_expr(a, env, ctx, pt, ind)
                    self.unify(t, pt, W)
                    out.append(self.atom(txt))
                return f"({ty}_{segs[1]}{''.join(' ' + x for x in out)})", ty
            e = (e[0], line, ("path", fe[1], segs), args)
        return super().tr_call(e, env, ctx, expected, ind)


HEADER = """/-
  EG.Generated.LineSrc — GENERATED by tools/tr_linesrc.py from /repo's current sources. Do not edit.

  One `def` per Rust function of src/primitives/line/{bresenham,points,mod}.rs (and the `Point` helpers of
  core/src/geometry/point.rs they call), mirroring the Rust text arm for arm. Every Rust primitive is a call of a
  function of the hand-written preludes EG/Model/RectSrcPrelude.lean and EG/Model/LineSrcPrelude.lean (which carry
  all the semantics). The theorems `<name>_src_eq_model` of EG/Props/C17/GeneratedLine.lean prove these definitions
  equal to the hand-written models EG/Model/Bresenham.lean and EG/Model/Line.lean, for all inputs.
-/
import EG.Model.LineSrcPrelude
set_option linter.unusedVariables false
namespace EG.Generated.LineSrc
open EG.RectSrcPrelude EG.LineSrcPrelude

"""


def load_program(repo, overrides=None):
    files = {}
    for key, rel in FILES.items():
        p = os.path.join(repo, rel)
        if not os.path.exists(p):
            raise TrError(f"{rel}: file not found")
        src = overrides[rel] if overrides and rel in overrides else open(p).read()
        files[rel] = tokenize(strip_comments(src, rel), rel)
    files, data_enums, instances, generic_names = monomorphise(files)
    prog = Program()
    for rel, toks in files.items():
        parse_items(Cursor(toks), prog, rel)
    for f in prog.fns.values():
        if getattr(f, "unsupported", None):
            continue
        try:
            f.ret = subst_assoc(f.ret, f, prog)
            f.params = [(n, subst_assoc(t, f, prog)) for (n, t) in f.params]
        except TrError as ex:
            f.unsupported = str(ex)
    return prog, data_enums, instances, generic_names


def translate(repo, overrides=None, roots=None):
    prog, data_enums, instances, generic_names = load_program(repo, overrides)
    if roots is None:
        for name, fields in EXPECTED_STRUCTS.items():
            if prog.structs.get(name) != fields:
                raise TrError(f"struct {name}: fields {prog.structs.get(name)} differ from the prelude's {fields}")
        for name, variants in EXPECTED_DATA_ENUMS.items():
            if data_enums.get(name) != variants:
                raise TrError(f"enum {name}: variants {data_enums.get(name)} differ from the prelude's {variants}")
    tr = LineTranslator(prog, data_enums, generic_names, instances)
    for (it, trn, n) in (ROOTS if roots is None else roots):
        tr.need(tr.find_fn(it, trn, n, "roots"))
    body = "\n".join(tr.out).replace("RectSrc.", "LineSrc.")
    text = [HEADER, body]
    untranslated = {}
    for (it, trn, n), f in sorted(prog.fns.items(), key=lambda kv: (kv[0][0] or "", kv[0][1] or "", kv[0][2])):
        if it in INVENTORY_TYPES and (it, trn, n) not in tr.done:
            untranslated.setdefault(f"impl {trn + ' for ' if trn else ''}{it}", []).append(n)
    text.append("\n/-- functions of the impls of " + " / ".join(INVENTORY_TYPES) + " (in the parsed files) that are NOT translated -/\n"
                "def untranslated : List (String × List String) := [\n"
                + ",\n".join(f'  ("{k}", [' + ", ".join(f'"{n}"' for n in v) + "])" for k, v in untranslated.items()) + "]\n")
    text.append("\n/-- what was translated (Lean name, Rust origin) -/\ndef translated : List (String × String) := [\n"
                + ",\n".join(f'  ("{a}", "{b}")' for a, b in tr.listing) + "]\n")
    text.append("\nend EG.Generated.LineSrc\n")
    info = {"functions": len(tr.listing), "untranslated": untranslated, "instances": instances,
            "names": [a for a, _ in tr.listing]}
    return "".join(text), info


def failed_file(reason):
    r = reason.replace("\\", "\\\\").replace('"', '\\"').replace("\n", " ")
    return ("/-\n  EG.Generated.LineSrc — GENERATED by tools/tr_linesrc.py. THE TRANSLATION FAILED: the Rust source of the line\n"
            "  primitive (bresenham.rs / points.rs / mod.rs, or the Point helpers they call) contains a construct the\n"
            "  translator does not know. No function is defined here, so the `_src_eq_model` theorems of\n"
            "  EG/Props/C17/GeneratedLine.lean do not build.\n-/\n"
            "namespace EG.Generated.LineSrc\n\n"
            f"def translationFailed : String := \"{r}\"\n\nend EG.Generated.LineSrc\n")


# ---------------------------------------------------------------------------------------------------------------
# self test of this part's additions (tr_rect's own self test covers the inherited subset)
# ---------------------------------------------------------------------------------------------------------------

SELFTEST_SRC = """
pub struct Point { pub x: i32, pub y: i32 }
impl Point { pub const fn new(x: i32, y: i32) -> Self { Point { x, y } } }
impl AddAssign for Point { fn add_assign(&mut self, other: Point) { self.x += other.x; self.y += other.y; } }
pub struct Pair<T> { pub a: T, pub b: T }
impl<T> Pair<T> { pub const fn new(a: T, b: T) -> Self { Self { a, b } } }
pub enum Tagged { Plain(Point), Marked(Point) }
pub struct Walker { pub at: Point, pub err: i32, pub steps: Pair<i32> }
impl Walker {
    fn bump(&self, e: &mut i32) -> bool { *e += self.err; if *e > 3 { *e -= 1; true } else { false } }
    fn step(&mut self, d: Point) -> Point { let r = self.at; self.at += d; r }
CASES
}
"""
# (name, signature + body, expected error fragment or None, expected Lean fragment or None)
SELFTEST_CASES = [
    ("ok_mono", "fn ok_mono(&self) -> Pair<Point> { Pair::new(self.at, self.at) }", None, "(LineSrc.Pair_Point_new (Walker_at self) (Walker_at self))"),
    ("ok_mono_i32", "fn ok_mono_i32(&self) -> i32 { let p = Pair::new(2 * self.err, self.err); p.a }", None, "LineSrc.Pair_i32_new"),
    ("ok_tuple_let", "fn ok_tuple_let(&self) -> i32 { let (u, v) = if self.err > 0 { (1i32, self.err) } else { (self.err, 2i32) }; u + v }", None, "let (u, v) := (if"),
    ("ok_add_assign", "fn ok_add_assign(&mut self, d: Point) { self.at += d; }", None, "(Walker_set_at self (LineSrc.Point_op_add_assign_Point (Walker_at self) d))"),
    ("ok_mut_param", "fn ok_mut_param(&self, e: &mut i32) -> bool { *e += 1; *e > self.err }", None, "((i32_gt e (Walker_err self)), e)"),
    ("ok_tail_if", "fn ok_tail_if(&mut self) -> Tagged { let p = self.at; if self.err > 0 { self.err -= 1; Tagged::Marked(p) } else { self.err += 1; Tagged::Plain(p) } }", None, "((Tagged_Marked p), self)"),
    ("ok_hoist", "fn ok_hoist(&mut self, d: Point) -> Option<Point> { if self.err > 0 { Some(self.step(d)) } else { None } }", None, "let ret' := tmp'.1;"),
    ("bad_enum_pattern", "fn bad_enum_pattern(&self, t: Tagged) -> Point { match t { Tagged::Plain(p) => p, Tagged::Marked(p) => p } }", "constructor pattern", None),
    ("bad_two_mut", "fn bad_two_mut(&mut self, e: &mut i32) { *e += 1; }", "only one `&mut i32` parameter", None),
    ("bad_mono_unknown", "fn bad_mono_unknown(&self) -> i32 { let p = Pair::new(true, false); 1 }", "is not an instance found in the sources", None),
    ("bad_loop", "fn bad_loop(&mut self) -> i32 { loop { return 1; } }", "`loop`", None),
    ("bad_sub_assign", "fn bad_sub_assign(&mut self, d: Point) { self.at -= d; }", "not found in the parsed sources", None),
    ("bad_tuple_nested", "fn bad_tuple_nested(&self) -> i32 { let (u, (v, w)) = (1i32, (2i32, 3i32)); u }", "only names and `_`", None),
]


def selftest():
    problems = []
    src = SELFTEST_SRC.replace("CASES", "\n".join("    " + c[1] for c in SELFTEST_CASES))
    try:
        files, data_enums, instances, generic_names = monomorphise({"selftest": tokenize(strip_comments(src, "selftest"), "selftest")})
        prog = Program()
        parse_items(Cursor(files["selftest"]), prog, "selftest")
    except TrError as ex:
        return [f"selftest input does not parse: {ex}"]
    if instances != {"Pair": ["i32", "Point"]} or data_enums != {"Tagged": [("Plain", ["Point"]), ("Marked", ["Point"])]}:
        problems.append(f"pre-pass: instances {instances}, data enums {data_enums}")
    saved = dict(EXPECTED_STRUCTS)
    EXPECTED_STRUCTS.update({"Walker": [], "Pair_i32": [], "Pair_Point": []})
    try:
        for (name, _, err, frag) in SELFTEST_CASES:
            tr = LineTranslator(prog, data_enums, generic_names, instances)
            try:
                tr.need(prog.fns[("Walker", None, name)])
                text = tr.out[-1].replace("RectSrc.", "LineSrc.")
                if err is not None:
                    problems.append(f"{name}: ACCEPTED but must be refused ({err}); output: {text.strip()[-200:]}")
                elif frag not in text:
                    problems.append(f"{name}: translated to unexpected text: {text}")
            except TrError as ex:
                if err is None:
                    problems.append(f"{name}: refused: {ex}")
                elif err not in str(ex):
                    problems.append(f"{name}: refused with an unexpected message: {ex} (expected `{err}`)")
    finally:
        for k in list(EXPECTED_STRUCTS):
            if k not in saved:
                del EXPECTED_STRUCTS[k]
    return problems


def generate(repo):
    try:
        problems = selftest()
        if problems:
            raise TrError("translator self test failed: " + "; ".join(problems[:3]))
        text, info = translate(repo)
        info["selftest_cases"] = len(SELFTEST_CASES)
        return {"LineSrc.lean": text}, info
    except TrError as ex:
        reason = str(ex)
    except RecursionError:
        reason = "recursion limit reached while parsing"
    except Exception as ex:     # a bug of the translator must not take the other checks down either
        reason = f"internal error {type(ex).__name__}: {ex}"
    return {"LineSrc.lean": failed_file(reason)}, {"failed": reason}


if __name__ == "__main__":
    import json
    import sys
    repo = os.environ.get("EG_REPO", "/repo")
    if len(sys.argv) > 1 and sys.argv[1] == "--selftest":
        ps = selftest()
        print("\n".join(ps) if ps else f"selftest: {len(SELFTEST_CASES)} cases fine")
        sys.exit(1 if ps else 0)
    elif len(sys.argv) > 1 and sys.argv[1] == "--strict":
        t, i = translate(repo)
        print(t)
    else:
        files, info = generate(repo)
        print(json.dumps(info))
