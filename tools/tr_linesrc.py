#!/usr/bin/env python3
"""tr_linesrc.py — SOURCE-TO-LEAN translator for the LINE code that property C17 rests on.

It reads, from /repo's current working tree,
  src/primitives/line/bresenham.rs   `MajorMinor<T>`, `BresenhamParameters::{new, increase_error, decrease_error,
                                     mirror_extra_points}`, `Bresenham::{new, with_initial_error, next, next_all,
                                     previous_all}`, `BresenhamPoint`, `major_length`
  src/primitives/line/points.rs      `Points::{new, empty}`, `Iterator::next`
  src/primitives/line/mod.rs         `Line::{new, with_delta, perpendicular, midpoint, delta}`, `Transform::translate`,
                                     `PointsIter::points`
  core/src/geometry/point.rs         the `Point` helpers those bodies call (`abs`, `x_axis`, `y_axis`, `+ - / Neg`,
                                     `+=`, `-=`), found on demand
and writes EG/Generated/LineSrc.lean: one Lean `def` per Rust function, mirroring the Rust text arm for arm.
`lean/EG/Props/C17/GeneratedLine.lean` proves every generated definition equal to the hand model
(EG/Model/Bresenham.lean, EG/Model/Line.lean) for all inputs and restates C17's thin-line theorems over them.

REUSES tools/tr_rect.py (imported, not edited): tokenizer, `Cursor`, item scanner `parse_items`, the body parser
`BodyParser` unchanged, and the syntax-directed `Translator`, which is SUBCLASSED (`LineTranslator`) for what the line
sources add to the Rectangle subset:
  * generic struct `MajorMinor<T>`: MONOMORPHISED in a token pre-pass (`monomorphise`): the `struct` / `impl<T>` items
    are copied once per instantiation `MajorMinor<X>` found in the sources with `T := X` under the name `MajorMinor_X`;
    a constructor call `MajorMinor::new(a, b)` is resolved by the type of its first argument.
  * the data-carrying enum `BresenhamPoint` (cut out by the pre-pass; constructors are prelude functions).
  * `let (a, b) = ..` (tuple pattern), `+=` / `-=` on `Point` (the `AddAssign` / `SubAssign` impls of point.rs, which are
    translated like any `&mut self` function), a parameter `error: &mut i32` (the function returns (value, updated
    error)), a tail expression `if .. { stmts; v } else { .. }` / `Some(self.f.next(..))` in a `&mut self` function
    (the `return` is pushed into the arms, the mutating call is hoisted into a `let`), module-qualified calls
    (`bresenham::major_length`).
`translate_fn` is a COPY of tr_rect's (one monolithic function) with the `&mut i32` parameter and the pushed return added.
Anything else raises (never skipped); `generate` then writes a LineSrc.lean that only contains
`def translationFailed : String`, so that exactly the theorems of Props/C17/GeneratedLine.lean stop building.
All semantics lives in the prelude EG/Model/LineSrcPrelude.lean (+ RectSrcPrelude.lean).
"""
import os
import re

import tr_rect
from tr_rect import RectTrError as TrError, Cursor, Tok, tokenize, strip_comments, parse_items, Program, subst_assoc, \
    type_str, contains_kind

FILES = {
    "point": "core/src/geometry/point.rs",
    "bresenham": "src/primitives/line/bresenham.rs",
    "points": "src/primitives/line/points.rs",
    "line": "src/primitives/line/mod.rs",
}
# `bresenham::major_length(..)`: a module name in front of a free function of one of the parsed files
MODULE_PATHS = {"bresenham": "src/primitives/line/bresenham.rs"}

ROOTS = [
    (None, None, "major_length"),
    ("MajorMinor_i32", None, "new"), ("MajorMinor_Point", None, "new"),
    ("BresenhamParameters", None, "new"), ("BresenhamParameters", None, "increase_error"),
    ("BresenhamParameters", None, "decrease_error"), ("BresenhamParameters", None, "mirror_extra_points"),
    ("Bresenham", None, "new"), ("Bresenham", None, "with_initial_error"), ("Bresenham", None, "next"),
    ("Bresenham", None, "next_all"), ("Bresenham", None, "previous_all"),
    ("Line", None, "new"), ("Line", None, "with_delta"), ("Line", None, "perpendicular"), ("Line", None, "midpoint"),
    ("Line", None, "delta"), ("Line", "Transform", "translate"), ("Line", "PointsIter", "points"),
    ("Points", None, "new"), ("Points", None, "empty"), ("Points", "Iterator", "next"),
]

# the prelude gives these structs as the hand model's structures: the Rust declarations must be exactly these
EXPECTED_STRUCTS = {
    "Point": [("x", "i32"), ("y", "i32")],
    "Line": [("start", "Point"), ("end", "Point")],
    "MajorMinor_i32": [("major", "i32"), ("minor", "i32")],
    "MajorMinor_Point": [("major", "Point"), ("minor", "Point")],
    "BresenhamParameters": [("error_threshold", "i32"), ("error_step", "MajorMinor_i32"), ("position_step", "MajorMinor_Point")],
    "Bresenham": [("point", "Point"), ("error", "i32")],
    "Points": [("parameters", "BresenhamParameters"), ("bresenham", "Bresenham"), ("points_remaining", "u32")],
}
EXPECTED_DATA_ENUMS = {"BresenhamPoint": [("Normal", ["Point"]), ("Extra", ["Point"])]}
INVENTORY_TYPES = ["Line", "Points", "Bresenham", "BresenhamParameters", "MajorMinor_i32", "MajorMinor_Point"]
ASSIGN_TRAITS = {"+=": ("AddAssign", "add_assign"), "-=": ("SubAssign", "sub_assign")}

# ---- second generated file: the thick line (ThickSrc.lean)
THICK_FILES = {
    "thick": "src/primitives/line/thick_points.rs",
    "common": "src/primitives/common/mod.rs",
    "geom_ext": "src/geometry/mod.rs",
}
THICK_ROOTS = [
    ("LineSide", None, "swap"), (None, None, "HORIZONTAL_LINE"), ("Point", "PointExt", "length_squared"),
    ("ParallelsIterator", None, "next_parallel"), ("ParallelsIterator", None, "new"), ("ParallelsIterator", "Iterator", "next"),
    ("ThickPoints", None, "new"), ("ThickPoints", "Iterator", "next"),
]
THICK_EXPECTED_STRUCTS = {
    "ParallelsIterator": [("parallel_parameters", "BresenhamParameters"), ("perpendicular_parameters", "BresenhamParameters"),
                          ("thickness_accumulator", "i32"), ("thickness_threshold", "i64"), ("flip", "bool"),
                          ("left", "Bresenham"), ("left_error", "i32"), ("right", "Bresenham"), ("right_error", "i32"),
                          ("next_side", "LineSide"), ("stroke_offset", "StrokeOffset")],
    "ThickPoints": [("parallel", "Bresenham"), ("parallel_length", "u32"), ("parallel_points_remaining", "u32"),
                    ("iter", "ParallelsIterator")],
}
THICK_EXPECTED_ENUMS = {"LineSide": ["Left", "Right"], "StrokeOffset": ["None", "Left", "Right"],
                        "ParallelLineType": ["Normal", "Extra"]}
THICK_INVENTORY_TYPES = ["ParallelsIterator", "ThickPoints", "LineSide"]
I64_OPS = {"+": "add", "-": "sub", "*": "mul", "==": "eq", "!=": "ne", "<": "lt", "<=": "le", ">": "gt", ">=": "ge"}


class NeedLoopy(Exception):
    """raised while translating a function as loop-free when it turns out to contain / call a loop: retried with fuel"""


# ---------------------------------------------------------------------------------------------------------------
# token pre-pass: generic structs are monomorphised, data-carrying enums are cut out and recorded
# ---------------------------------------------------------------------------------------------------------------

def _match_close(toks, i, open_, close):
    """toks[i] is `open_`: index of the matching `close`."""
    depth = 0
    while i < len(toks):
        t = toks[i]
        if t.kind == "p" and t.text == open_:
            depth += 1
        elif t.kind == "p" and t.text == close:
            depth -= 1
            if depth == 0:
                return i
        i += 1
    raise TrError(f"unbalanced `{open_}`")


def _is(t, text):
    return t is not None and t.kind in ("p", "id") and t.text == text


def cut_items(toks, rel, generics, data_enums, consts=None):
    """remove `struct N<T> {..}`, `impl<T> N<T> {..}` (recorded in `generics`) and data-carrying `enum`s (recorded in
    `data_enums`) from the TOP LEVEL of a file's token list (attributes in front of them stay and are skipped with the
    next item)."""
    out = []
    i, n = 0, len(toks)
    depth = 0
    while i < n:
        t = toks[i]
        g = lambda k: toks[i + k] if i + k < n else None
        if depth == 0 and _is(t, "struct") and g(1) is not None and g(1).kind == "id" and _is(g(2), "<"):
            name = g(1).text
            if not (g(3) is not None and g(3).kind == "id" and _is(g(4), ">") and _is(g(5), "{")):
                raise TrError(f"{rel}:{t.line}: generic struct {name}: only `struct {name}<T> {{ .. }}` is supported")
            end = _match_close(toks, i + 5, "{", "}")
            ent = generics.setdefault(name, {"param": g(3).text, "struct": None, "impls": [], "rel": rel})
            if ent["struct"] is not None:
                raise TrError(f"{rel}:{t.line}: generic struct {name} declared twice")
            ent["param"] = g(3).text
            ent["struct"] = toks[i + 5:end + 1]
            i = end + 1
            continue
        if depth == 0 and _is(t, "impl") and _is(g(1), "<") and g(2) is not None and g(2).kind == "id" and _is(g(3), ">") \
                and g(4) is not None and g(4).kind == "id" and _is(g(5), "<") and g(6) is not None and g(6).text == g(2).text \
                and _is(g(7), ">") and _is(g(8), "{"):
            name = g(4).text
            end = _match_close(toks, i + 8, "{", "}")
            ent = generics.setdefault(name, {"param": g(2).text, "struct": None, "impls": [], "rel": rel})
            ent["impls"].append((g(2).text, toks[i + 8:end + 1]))
            i = end + 1
            continue
        if depth == 0 and _is(t, "enum") and g(1) is not None and g(1).kind == "id" and _is(g(2), "{"):
            end = _match_close(toks, i + 2, "{", "}")
            body = toks[i + 3:end]
            if any(_is(x, "(") or _is(x, "{") for x in body):
                name = g(1).text
                variants = []
                c = Cursor(body)
                while not c.eof():
                    tr_rect.skip_attrs_and_vis(c)
                    if c.eof():
                        break
                    v = c.ident()
                    tys = []
                    if c.at("("):
                        s, e = c.skip_balanced("(", ")")
                        pc = Cursor(body, s, e)
                        while not pc.eof():
                            tys.append(tr_rect.parse_type(pc))
                            if pc.at(","):
                                pc.next()
                    elif not (c.eof() or c.at(",")):
                        raise TrError(f"{rel}: enum {name}: variant {v}: only tuple variants are supported")
                    variants.append((v, tys))
                    if c.at(","):
                        c.next()
                if name in data_enums:
                    raise TrError(f"{rel}: enum {name} declared twice")
                data_enums[name] = variants
                i = end + 1
                continue
        if consts is not None and depth == 0 and _is(t, "const") and g(1) is not None and g(1).kind == "id" and _is(g(2), ":"):
            # `const NAME: T = E;` becomes `fn NAME() -> T { E }` (a constant is the value of its initialiser)
            name = g(1).text
            j = i + 3
            while j < n and not _is(toks[j], "="):
                j += 1
            k = j
            while k < n and not _is(toks[k], ";"):
                k += 1
            if k >= n:
                raise TrError(f"{rel}:{t.line}: const {name}: cannot find the end of the item")
            mk = lambda kind, text: Tok(kind, text, t.line, rel)
            out += [mk("id", "fn"), mk("id", name), mk("p", "("), mk("p", ")"), mk("p", "->")] + toks[i + 3:j] \
                + [mk("p", "{")] + toks[j + 1:k] + [mk("p", "}")]
            consts[name] = rel
            i = k + 1
            continue
        if t.kind == "p" and t.text == "{":
            depth += 1
        elif t.kind == "p" and t.text == "}":
            depth -= 1
        out.append(t)
        i += 1
    return out


def derives_partial_eq(toks):
    """names of the structs / enums whose attributes contain `PartialEq`"""
    out = set()
    pending = []
    i, n = 0, len(toks)
    while i < n:
        t = toks[i]
        if _is(t, "#") and i + 1 < n and _is(toks[i + 1], "["):
            end = _match_close(toks, i + 1, "[", "]")
            pending += [x.text for x in toks[i + 2:end] if x.kind == "id"]
            i = end + 1
            continue
        if _is(t, "pub"):
            i += 1
            if i < n and _is(toks[i], "("):
                i = _match_close(toks, i, "(", ")") + 1
            continue
        if (_is(t, "struct") or _is(t, "enum")) and i + 1 < n and toks[i + 1].kind == "id":
            if "PartialEq" in pending:
                out.add(toks[i + 1].text)
        pending = []
        i += 1
    return out


def monomorphise(files, consts=None):
    """files: {rel: tokens}. Returns ({rel: tokens}, data_enums, instances, generic names)."""
    generics, data_enums = {}, {}
    cut = {rel: cut_items(toks, rel, generics, data_enums, consts) for rel, toks in files.items()}
    instances = {}      # generic name -> ordered list of argument type names
    out = {}
    for rel, toks in cut.items():
        new, i = [], 0
        while i < len(toks):
            t = toks[i]
            if t.kind == "id" and t.text in generics and i + 1 < len(toks) and _is(toks[i + 1], "<") \
                    and not (i > 0 and _is(toks[i - 1], "::") and False):
                if not (i + 3 < len(toks) and toks[i + 2].kind == "id" and _is(toks[i + 3], ">")):
                    raise TrError(f"{rel}:{t.line}: `{t.text}<..>`: only a plain type name as the argument is supported")
                arg = toks[i + 2].text
                if arg not in instances.setdefault(t.text, []):
                    instances[t.text].append(arg)
                new.append(Tok("id", f"{t.text}_{arg}", t.line, rel))
                i += 4
                continue
            new.append(t)
            i += 1
        out[rel] = new
    for name, ent in generics.items():
        if ent["struct"] is None:
            raise TrError(f"{ent['rel']}: `impl<T> {name}<T>` without the struct declaration")
        for arg in instances.get(name, []):
            sub = lambda ts, p: [Tok("id", arg, x.line, x.rel) if (x.kind == "id" and x.text == p) else x for x in ts]
            mono = f"{name}_{arg}"
            line = ent["struct"][0].line
            rel = ent["rel"]
            extra = [Tok("id", "struct", line, rel), Tok("id", mono, line, rel)] + sub(ent["struct"], ent["param"])
            for (p, body) in ent["impls"]:
                extra += [Tok("id", "impl", body[0].line, rel), Tok("id", mono, body[0].line, rel)] + sub(body, p)
            out[rel] = out[rel] + extra
    return out, data_enums, {k: list(v) for k, v in instances.items()}, sorted(generics)


# ---------------------------------------------------------------------------------------------------------------
# the translator: tr_rect's, extended
# ---------------------------------------------------------------------------------------------------------------

PRELUDE_NAMES = set()
for _s, _fs in EXPECTED_STRUCTS.items():
    PRELUDE_NAMES |= {_s, f"{_s}_mk"} | {f"{_s}_{f}" for f, _ in _fs} | {f"{_s}_set_{f}" for f, _ in _fs}
for _e, _vs in EXPECTED_DATA_ENUMS.items():
    PRELUDE_NAMES |= {_e} | {f"{_e}_{v}" for v, _ in _vs}


def push_return(e):
    """the tail expression `e` of a `&mut` function as statements ending in `return`: the `return` is pushed into the
    arms of a tail `if` / `match` / block (so that the assignments inside the arms stay statement-level)."""
    k, line = e[0], e[1]
    if k == "paren":
        return push_return(e[2])
    if k == "while":
        return [("expr", line, e)]      # a tail `loop { .. }`: its value is that of the `return`s inside
    if k == "block":
        stmts, tail = e[2], e[3]
        if tail is None:
            return list(stmts)
        return list(stmts) + push_return(tail)
    if k == "if" and e[4] is not None:
        then, els = e[3], e[4]
        return [("expr", line, ("if", line, e[2], ("block", then[1], push_return(then), None),
                                ("block", els[1], push_return(els), None)))]
    if k == "match":
        arms = [(p, ("block", b[1], push_return(b), None)) for (p, b) in e[3]]
        return [("expr", line, ("match", line, e[2], arms))]
    return [("expr", line, ("return", line, e))]


class LineTranslator(tr_rect.Translator):
    def __init__(self, prog, data_enums, generic_names, instances):
        super().__init__(prog)
        self.data_enums = data_enums
        self.generic_names = generic_names
        self.instances = instances

    # ---- names
    def lean_fn_name(self, f):
        if f.impl_type is None:
            return f.name
        if f.trait is None:
            return f"{f.impl_type}_{f.name}"
        m = re.fullmatch(r"(\w+)(?:<(\w+)>)?", f.trait)
        if not m:
            raise TrError(f"trait name `{f.trait}` not understood")
        if m.group(1) in tr_rect.OP_TRAIT_NAMES or m.group(1) in ("AddAssign", "SubAssign"):
            rhs = m.group(2) or f.impl_type
            return f"{f.impl_type}_op_{f.name}_{rhs}" if m.group(1) != "Neg" else f"{f.impl_type}_op_{f.name}"
        return f"{f.impl_type}_{m.group(1)}_{f.name}"

    def lvar(self, name):
        if name in PRELUDE_NAMES:
            return name + "_"
        return super().lvar(name)

    def lean_type(self, t, self_type=None):
        if t == "Self":
            t = self_type
        if isinstance(t, str) and t != "Point" and t in EXPECTED_STRUCTS and t in self.prog.structs:
            return f"LineSrcPrelude.{t}"
        if isinstance(t, str) and t in self.data_enums:
            return f"LineSrcPrelude.{t}"
        return super().lean_type(t, self_type)

    # ---- functions (COPY of tr_rect.Translator.translate_fn; additions marked `+`)
    def translate_fn(self, f):
        where = f"{f.rel} fn {(f.impl_type + '::') if f.impl_type else ''}{f.name}"
        self.where = where
        st = f.impl_type
        env = {"%tail": True, "%frozen": frozenset()}
        params = []
        if f.self_kind is not None:
            if st is None:
                raise TrError(f"{where}: self outside an impl")
            env["self"] = st
            params.append(("self", st))
        mut_var = "self" if f.self_kind == "refmut" else None
        mut_type = st if f.self_kind == "refmut" else None
        for (n, t) in f.params:
            t = self.norm_type(t, st)
            if not isinstance(t, str) and t[0] == "refmut":
                # + a `&mut i32` parameter of a function that does not also mutate `self`: the function returns
                #   (value, updated parameter)
                if t[1] != "i32" or mut_var is not None:
                    raise TrError(f"{where}: `&mut` parameter {n}: only one `&mut i32` parameter (and no `&mut self`) is supported")
                mut_var, mut_type, t = n, "i32", "i32"
            env[n] = t
            params.append((n, t))
        ret = self.norm_type(f.ret, st)
        toks, s, e = f.body
        stmts, tail = tr_rect.BodyParser(toks, s, e, where).parse_block_body()
        mutating = mut_var is not None
        if contains_kind((stmts, tail), "while"):
            raise TrError(f"{where}: `while` loop: not supported by this part")
        kind = "plain" if not mutating else ("mut_unit" if ret == "unit" else "mut_val")
        ctx = {"ret": ret, "self_type": st, "mut_self": mutating, "kind": kind, "loopy": False, "in_loop": False,
               "mut_var": mut_var, "mut_type": mut_type}
        if kind == "plain":
            body, bt = self.tr_stmts(stmts, 0, tail, env, ctx, ret, None, 2)
            self.unify(bt, ret, where + ": result")
            lres = self.lean_type(ret)
        else:
            # + the tail expression is the returned value; the `return` is pushed into the arms of a tail `if` / `match`
            if tail is not None:
                stmts = stmts + push_return(tail)
                tail = None

            def final(env2, ind2=2, ctx=ctx, where=where):
                if ret != "unit":
                    raise TrError(f"{where}: the end of the body is reached without a value")
                return self.wrap_result(None, ctx), "never"
            body, bt = self.tr_stmts(stmts, 0, tail, env, ctx, None, final, 2)
            lres = self.result_lean_type(ctx)
        name = self.lean_fn_name(f)
        ps = " ".join(f"({self.lvar(n)} : {self.lean_type(t)})" for (n, t) in params)
        what = "`&mut self`" if mut_var == "self" else f"`{mut_var}: &mut i32`"
        head = f"/-- `{f.rel}` line {f.line}: `{'impl ' + f.trait + ' for ' + st + ' :: ' if f.trait else (st + '::' if st else '')}{f.name}`" \
               + (f" ({what}: returns the updated `{mut_var}`)" if kind == "mut_unit" else "") \
               + (f" ({what}: returns (value, updated `{mut_var}`))" if kind == "mut_val" else "") + " -/\n"
        return f"{head}def {name}{' ' if ps else ''}{ps} : {lres} :=\n  {body}\n"

    def result_lean_type(self, ctx):
        mt = self.lean_type(ctx["mut_type"]) if ctx.get("mut_type") else None
        if ctx["kind"] == "mut_unit":
            return mt
        if ctx["kind"] == "mut_val":
            return f"({self.lean_type(ctx['ret'])} × {mt})"
        return self.lean_type(ctx["ret"])

    def wrap_result(self, val, ctx):
        kind = ctx["kind"]
        mv = self.lvar(ctx["mut_var"]) if ctx.get("mut_var") else None
        if kind == "plain":
            return val
        if kind == "mut_unit":
            return mv
        return f"({val}, {mv})"

    # ---- statements: tuple `let`, `+=` / `-=` on a struct, `return` of a mutating call
    def tr_stmts(self, stmts, i, tail, env, ctx, expected, final, ind):
        pad = " " * ind
        if i < len(stmts):
            s = stmts[i]
            rest = lambda env2, ind2=ind: self.tr_stmts(stmts, i + 1, tail, env2, ctx, expected, final, ind2)
            if s[0] == "let" and s[2][0] == "ptuple":
                _, line, pat, ty, e, mut = s
                W = f"{self.where}: line {line}"
                want = self.norm_type(ty, ctx["self_type"]) if ty is not None else None
                txt, t = self.tr_expr(e, self.nt(env), ctx, want, ind + 2)
                t = self.unify(t, want, W)
                if isinstance(t, str) or t[0] != "tuple" or len(t[1]) != len(pat[2]):
                    raise TrError(f"{W}: tuple pattern against type {type_str(t)}")
                env2 = dict(env)
                names = []
                for q, qt in zip(pat[2], t[1]):
                    if q[0] == "pbind":
                        env2[q[2]] = qt
                        env2["%frozen"] = env2["%frozen"] - {q[2]}
                        names.append(self.lvar(q[2]))
                    elif q[0] == "pwild":
                        names.append("_")
                    else:
                        raise TrError(f"{W}: only names and `_` inside a tuple `let` pattern are supported")
                if len(set(n for n in names if n != "_")) != len([n for n in names if n != "_"]):
                    raise TrError(f"{W}: a name bound twice in a tuple pattern")
                r, rt = rest(env2)
                return f"let ({', '.join(names)}) := {txt};\n{pad}{r}", rt
            if s[0] == "assign" and s[2] in ASSIGN_TRAITS:
                _, line, op, lhs, rhs = s
                W = f"{self.where}: line {line}"
                root, fields = self.place(lhs, env, line)
                rtype = env[root]
                pt = rtype
                for fl in fields:
                    pt = self.field_type(pt, fl, line)
                if isinstance(pt, str) and pt in self.prog.structs:
                    self.check_assignable(root, env, line)
                    rv, vt = self.tr_expr(rhs, self.nt(env), ctx, None, ind + 2)
                    if vt == "int?":
                        raise TrError(f"{W}: `{op}` of {pt} with an untyped literal")
                    tn, fn = ASSIGN_TRAITS[op]
                    g = self.find_fn(pt, tn if vt == pt else f"{tn}<{type_str(vt)}>", fn, W)
                    if g.self_kind != "refmut" or self.norm_type(g.ret, pt) != "unit" or len(g.params) != 1:
                        raise TrError(f"{W}: `{fn}` of {pt} is not `fn {fn}(&mut self, other)`")
                    where = self.where
                    gname = self.need(g)
                    self.where = where
                    self.unify(vt, self.norm_type(g.params[0][1], pt), W)
                    cur = self.place_read(root, fields, rtype)
                    new = self.place_write(self.lvar(root), rtype, fields, f"(RectSrc.{gname} {cur} {self.atom(rv)})", line)
                    r, rt = rest(env)
                    return f"let {self.lvar(root)} := {new};\n{pad}{r}", rt
            if s[0] == "expr" and s[2][0] == "return" and s[2][2] is not None:
                e = s[2][2]
                line = e[1]
                inner = e
                wrap = None
                if e[0] == "callexpr" and e[2][0] == "path" and e[2][2] in (["Some"], ["Option", "Some"]) and len(e[3]) == 1:
                    inner, wrap = e[3][0], e
                if inner[0] == "mcall" and self.mut_call(inner, env, ctx, line, ind) is not None:
                    # `return Some(PLACE.m(..))` with `m` a `&mut self` method: `let ret' = PLACE.m(..); return Some(ret')`
                    v = ("path", line, ["ret'"])
                    new_e = v if wrap is None else ("callexpr", wrap[1], wrap[2], [v])
                    new = list(stmts[:i]) + [("let", line, ("pbind", line, "ret'"), None, inner, False),
                                             ("expr", line, ("return", line, new_e))] + list(stmts[i + 1:])
                    return super().tr_stmts(new, i, tail, env, ctx, expected, final, ind)
        return super().tr_stmts(stmts, i, tail, env, ctx, expected, final, ind)

    def place(self, e, env, line):
        # `*error += ..` on a `&mut i32` parameter: the dereference is transparent
        probe, fields = e, []
        while probe[0] == "field":
            fields.append(probe)
            probe = probe[2]
        if probe[0] == "deref" and not fields and probe[2][0] == "path" and len(probe[2][2]) == 1 and probe[2][2][0] in env:
            return probe[2][2][0], []
        return super().place(e, env, line)

    # ---- calls
    def tr_call(self, e, env, ctx, expected, ind):
        _, line, fe, args = e
        W = f"{self.where}: line {line}"
        if fe[0] == "path":
            segs = list(fe[2])
            if len(segs) == 2 and segs[0] in MODULE_PATHS:
                g = self.find_fn(None, None, segs[1], W)
                if g.rel != MODULE_PATHS[segs[0]]:
                    raise TrError(f"{W}: `{'::'.join(segs)}`: function {segs[1]} is defined in {g.rel}")
                segs = segs[1:]
            if len(segs) == 2 and segs[0] in self.generic_names:
                # `MajorMinor::new(a, b)`: the instance is chosen by the type of the first argument
                if not args:
                    raise TrError(f"{W}: cannot tell the instance of generic `{segs[0]}`")
                _, at = self.tr_expr(args[0], env, ctx, None, ind)
                if at == "int?":
                    at = "i32" if "i32" in self.instances.get(segs[0], []) and expected in (None, f"{segs[0]}_i32") else at
                if not isinstance(at, str) or at not in self.instances.get(segs[0], []):
                    raise TrError(f"{W}: `{segs[0]}<{type_str(at)}>` is not an instance found in the sources")
                segs = [f"{segs[0]}_{at}", segs[1]]
            ty = ctx["self_type"] if segs[0] == "Self" else segs[0]
            if len(segs) == 2 and ty in self.data_enums:
                vs = dict(self.data_enums[ty])
                if segs[1] not in vs or len(vs[segs[1]]) != len(args):
                    raise TrError(f"{W}: `{ty}::{segs[1]}` with {len(args)} argument(s): no such variant")
                out = []
                for a, pt in zip(args, vs[segs[1]]):
                    txt, t = self.tr_expr(a, env, ctx, pt, ind)
                    self.unify(t, pt, W)
                    out.append(self.atom(txt))
                return f"({ty}_{segs[1]}{''.join(' ' + x for x in out)})", ty
            e = (e[0], line, ("path", fe[1], segs), args)
        return super().tr_call(e, env, ctx, expected, ind)


# ---------------------------------------------------------------------------------------------------------------
# the thick line: parser and translator extensions (src/primitives/line/thick_points.rs)
# ---------------------------------------------------------------------------------------------------------------

class LineBodyParser(tr_rect.BodyParser):
    """adds `loop { .. }` (node `while` with the condition `true`), `&mut e` (node `refmut`) and `e?` (node `try`)."""

    def parse_block_body(self):
        """COPY of tr_rect.BodyParser.parse_block_body; the only change: `loop` may start a statement"""
        c = self.c
        stmts, tail = [], None
        while not c.eof():
            if tail is not None:
                self.fail("expression in the middle of a block without `;`")
            if c.at(";"):
                c.next()
                continue
            if c.at("let"):
                t = c.next()
                mut = False
                if c.at("mut"):
                    c.next()
                    mut = True
                pat = self.parse_pattern()
                ty = None
                if c.at(":"):
                    c.next()
                    ty = tr_rect.parse_type(c)
                c.expect("=")
                e = self.parse_expr()
                if c.at("else"):
                    self.fail("let-else not supported")
                c.expect(";")
                stmts.append(("let", t.line, pat, ty, e, mut))
                continue
            if c.peek().kind == "id" and c.peek().text in ("fn", "struct", "enum", "impl", "use", "const", "static", "for", "unsafe"):
                self.fail(f"`{c.peek().text}` inside a body is not supported")
            e = self.parse_expr(stmt=True)
            if c.at("=") or (c.peek() and c.peek().kind == "p" and c.peek().text in ("+=", "-=", "*=", "/=", "%=")):
                op = c.next()
                rhs = self.parse_expr()
                c.expect(";")
                stmts.append(("assign", op.line, op.text, e, rhs))
            elif c.at(";"):
                c.next()
                stmts.append(("expr", e[1], e))
            elif c.eof():
                tail = e
            elif e[0] in ("if", "match", "block", "while"):
                stmts.append(("expr", e[1], e))
            else:
                self.fail(f"expected `;` or end of block after expression, found `{c.peek().text}`")
        return stmts, tail

    def parse_expr(self, stmt=False, nostruct=False):
        if stmt and self.c.at("loop"):
            return self.parse_primary(nostruct)
        return super().parse_expr(stmt, nostruct)

    def parse_prefix(self, nostruct):
        c = self.c
        if c.at("&") and c.at("mut", 1):
            t = c.next()
            c.next()
            return ("refmut", t.line, self.parse_prefix(nostruct))
        return super().parse_prefix(nostruct)

    def parse_primary(self, nostruct):
        c = self.c
        if c.at("loop"):
            t = c.next()
            body = self.parse_braced_block()
            return ("while", t.line, ("path", t.line, ["true"]), body)
        return super().parse_primary(nostruct)

    def parse_postfix_from(self, e, nostruct):
        """COPY of tr_rect.BodyParser.parse_postfix_from with `?` accepted (node `try`)"""
        c = self.c
        while True:
            if c.at("?"):
                q = c.next()
                e = ("try", q.line, e)
                continue
            if c.at("["):
                self.fail("indexing not supported")
            if c.at("("):
                t = c.peek()
                e = ("callexpr", t.line, e, self.parse_args())
                continue
            if c.at("."):
                if c.peek(1) is not None and c.peek(1).kind == "int":
                    self.fail("tuple field access not supported")
                if c.at("await", 1):
                    self.fail("await")
                d = c.next()
                name = c.ident()
                turbofish = None
                if c.at("::"):
                    c.next()
                    c.expect("<")
                    turbofish = tr_rect.parse_type(c)
                    c.expect(">")
                if c.at("("):
                    e = ("mcall", d.line, e, name, turbofish, self.parse_args())
                else:
                    if turbofish is not None:
                        self.fail("turbofish without a call")
                    e = ("field", d.line, e, name)
                continue
            return e


import contextlib


@contextlib.contextmanager
def scoped_parser():
    """tr_rect's parser creates its sub-parsers through the module global `BodyParser`: rebound while the thick part is
    translated, restored afterwards (tr_rect.py itself is not edited)"""
    saved = tr_rect.BodyParser
    tr_rect.BodyParser = LineBodyParser
    try:
        yield
    finally:
        tr_rect.BodyParser = saved


def path_names(node, out):
    """every single-segment path name in an AST (an over-approximation of its free variables)"""
    if isinstance(node, tuple):
        if len(node) == 3 and node[0] == "path" and isinstance(node[1], int) and isinstance(node[2], list) and len(node[2]) == 1:
            out.add(node[2][0])
        for x in node:
            path_names(x, out)
    elif isinstance(node, list):
        for x in node:
            path_names(x, out)
    return out


def pattern_binds(p, out):
    if p[0] == "pbind":
        out.add(p[2])
    elif p[0] in ("ptuple", "por"):
        for q in p[2]:
            pattern_binds(q, out)
    elif p[0] == "pctor":
        for q in p[3]:
            pattern_binds(q, out)
    return out


class ThickTranslator(LineTranslator):
    """LineTranslator + what thick_points.rs needs: `loop` on fuel, calls of functions that contain a loop (the caller
    takes `fuel` and returns `Option` too), `?` on such a call, a `&mut i32` ALIAS chosen by a `match`
    (`let (error, d) = match side { A => (&mut self.x, ..), B => (&mut self.y, ..) }`), `if f(alias) { .. }` with `f`
    taking `&mut i32`, `let v = match .. { arms that mutate }` (the `let` and the rest of the block are pushed into the
    arms), patterns of data enums, derived `==`, `i64`, `pow`, `const` items, `mut` parameters."""

    def __init__(self, prog, data_enums, generic_names, instances, consts, derives_eq):
        super().__init__(prog, data_enums, generic_names, instances)
        self.consts = consts
        self.derives_eq = derives_eq
        self.tmp_counter = 0

    def need(self, f):
        if getattr(f, "unsupported", None) == "`mut` parameter":
            f.unsupported = None       # parameters are rebound functionally anyway
        return super().need(f)

    def lean_type(self, t, self_type=None):
        if t == "Self":
            t = self_type
        if t == "i64":
            return "Int"
        if isinstance(t, str) and t in THICK_EXPECTED_STRUCTS and t in self.prog.structs:
            return f"ThickSrcPrelude.{t}"
        if isinstance(t, str) and t in THICK_EXPECTED_ENUMS and t in self.prog.enums:
            return f"ThickSrcPrelude.{t}"
        return super().lean_type(t, self_type)

    # ---- functions (second COPY of translate_fn: fuel for loops, retried when a loop shows up late)
    def translate_fn(self, f):
        where = f"{f.rel} fn {(f.impl_type + '::') if f.impl_type else ''}{f.name}"
        toks, s, e = f.body
        stmts, tail = tr_rect.BodyParser(toks, s, e, where).parse_block_body()
        loopy = contains_kind((stmts, tail), "while")
        saved = getattr(self, "cur_self_type", None)
        try:
            try:
                self.cur_self_type = f.impl_type
                return self.translate_fn_as(f, stmts, tail, loopy)
            except NeedLoopy:
                if loopy:
                    raise TrError(f"{where}: internal: loop status")
                self.cur_self_type = f.impl_type
                return self.translate_fn_as(f, stmts, tail, True)
        finally:
            self.cur_self_type = saved

    def translate_fn_as(self, f, stmts, tail, loopy):
        where = f"{f.rel} fn {(f.impl_type + '::') if f.impl_type else ''}{f.name}"
        self.where = where
        st = f.impl_type
        env = {"%tail": True, "%frozen": frozenset()}
        params = []
        if f.self_kind is not None:
            if st is None:
                raise TrError(f"{where}: self outside an impl")
            env["self"] = st
            params.append(("self", st))
        mut_var = "self" if f.self_kind == "refmut" else None
        mut_type = st if f.self_kind == "refmut" else None
        for (n, t) in f.params:
            t = self.norm_type(t, st)
            if not isinstance(t, str) and t[0] == "refmut":
                if t[1] != "i32" or mut_var is not None:
                    raise TrError(f"{where}: `&mut` parameter {n}: only one `&mut i32` parameter (and no `&mut self`) is supported")
                mut_var, mut_type, t = n, "i32", "i32"
            env[n] = t
            params.append((n, t))
        ret = self.norm_type(f.ret, st)
        mutating = mut_var is not None
        if loopy and contains_kind((stmts, tail), "while") and mut_var != "self":
            raise TrError(f"{where}: a loop in a function without `&mut self` (the loop state must be `self`): not supported")
        kind = "plain" if not mutating else ("mut_unit" if ret == "unit" else "mut_val")
        ctx = {"ret": ret, "self_type": st, "mut_self": mut_var == "self", "kind": kind, "loopy": loopy, "in_loop": False,
               "mut_var": mut_var, "mut_type": mut_type}
        if kind == "plain" and not loopy:
            body, bt = self.tr_stmts(stmts, 0, tail, env, ctx, ret, None, 2)
            self.unify(bt, ret, where + ": result")
            lres = self.lean_type(ret)
        else:
            if tail is not None:
                stmts = stmts + push_return(tail)
                tail = None

            def final(env2, ind2=2, ctx=ctx, where=where):
                if ret != "unit":
                    raise TrError(f"{where}: the end of the body is reached without a value")
                return self.wrap_result(None, ctx), "never"
            body, bt = self.tr_stmts(stmts, 0, tail, env, ctx, None, final, 2)
            lres = self.result_lean_type(ctx)
            if loopy:
                lres = f"(Option {lres})"
                self.loopy_fns.add(f.key())
        name = self.lean_fn_name(f)
        ps = " ".join(f"({self.lvar(n)} : {self.lean_type(t)})" for (n, t) in params)
        if loopy:
            ps = "(fuel : Nat)" + (" " + ps if ps else "")
        what = "`&mut self`" if mut_var == "self" else f"`{mut_var}: &mut i32`"
        head = f"/-- `{f.rel}` line {f.line}: `{'impl ' + f.trait + ' for ' + st + ' :: ' if f.trait else (st + '::' if st else '')}{f.name}`" \
               + (f" ({what}: returns the updated `{mut_var}`)" if kind == "mut_unit" else "") \
               + (f" ({what}: returns (value, updated `{mut_var}`))" if kind == "mut_val" else "") \
               + (" (contains or calls a loop: runs on `fuel`, `none` = not enough fuel)" if loopy else "") + " -/\n"
        return f"{head}def {name}{' ' if ps else ''}{ps} : {lres} :=\n  {body}\n"

    def wrap_result(self, val, ctx):
        kind = ctx["kind"]
        mv = self.lvar(ctx["mut_var"]) if ctx.get("mut_var") else None
        base = val if kind == "plain" else (mv if kind == "mut_unit" else f"({val}, {mv})")
        if ctx["in_loop"]:
            return f"(LoopStep.return_ (Option.some {self.atom(base)}))"
        if ctx["loopy"]:
            return f"(Option.some {self.atom(base)})"
        return base

    def nofuel(self, ctx):
        """the value of the function when a callee ran out of fuel"""
        return "(LoopStep.return_ Option.none)" if ctx["in_loop"] else "Option.none"

    def fresh(self, base):
        self.tmp_counter += 1
        return f"{base}{self.tmp_counter}'"

    def tr_while(self, e, env, ctx, rest, ind):
        """ADAPTED COPY of tr_rect.Translator.tr_while: the loop's result type is `Option R` (`none` = a callee inside the
        body ran out of fuel); `loop { }` has no exit but `return`."""
        _, line, cond, body = e
        W = f"{self.where}: line {line}"
        pad = " " * ind
        if ctx["in_loop"]:
            raise TrError(f"{W}: nested loops not supported")
        if not env.get("%tail") or not ctx["mut_self"]:
            raise TrError(f"{W}: a loop is only supported as a statement of a `&mut self` function (loop state = `self`)")
        if not ctx["loopy"]:
            raise NeedLoopy()
        self.check_assignable("self", env, line)
        is_loop = cond[0] == "path" and cond[2] == ["true"]
        if is_loop:
            cnd = "true"
        else:
            cnd, ct = self.tr_expr(cond, self.nt(env), ctx, "bool", ind + 4)
            self.unify(ct, "bool", W)
        ctx2 = dict(ctx, in_loop=True)
        envb = dict(env)
        envb["%frozen"] = frozenset(k for k in env if not k.startswith("%") and k != "self")
        btxt, _ = self.tr_stmts(body[2], 0, body[3], envb, ctx2, None,
                                lambda env2, ind2=0: ("(LoopStep.continue_ self)", "never"), ind + 4)
        if is_loop:
            rtxt, rt = "Option.none", "never"      # unreachable: `while_loop` with the condition `true` never ends normally
        else:
            rtxt, rt = rest(env, ind + 4)
        st = self.lean_type(ctx["self_type"])
        return (f"(match while_loop (σ := {st}) (ρ := (Option {self.result_lean_type(ctx)})) fuel\n"
                f"{pad}    (fun self => {cnd})\n"
                f"{pad}    (fun self =>\n{pad}    {btxt}) self with\n"
                f"{pad}  | Option.none => Option.none\n"
                f"{pad}  | Option.some (LoopStep.return_ r') => r'\n"
                f"{pad}  | Option.some (LoopStep.continue_ self) =>\n{pad}    {rtxt})"), rt

    # ---- calls of functions that run on fuel
    def loopy_mut_call(self, e, env, ctx, line, ind):
        """like tr_rect's mut_call, for a `&mut self` callee that runs on fuel: None, or
        (root, fields, root type, call text of type Option (value x receiver) or Option receiver, value type or None)"""
        if e[0] != "mcall":
            return None
        r = e[2]
        flds = []
        while r[0] == "field":
            flds.append(r[3])
            r = r[2]
        if r[0] != "path" or len(r[2]) != 1 or r[2][0] not in env or r[2][0].startswith("%"):
            return None
        root, fields = r[2][0], list(reversed(flds))
        rtype = env[root]
        if not isinstance(rtype, str):
            return None
        t = rtype
        for fl in fields:
            t = self.field_type(t, fl, line)
        if not (isinstance(t, str) and t in self.prog.structs):
            return None
        try:
            g = self.find_method(t, e[3], f"{self.where}: line {line}")
        except TrError:
            return None
        if g.self_kind != "refmut":
            return None
        where = self.where
        gname = self.need(g)
        self.where = where
        if g.key() not in self.loopy_fns:
            return None
        if not ctx["loopy"]:
            raise NeedLoopy()
        recv = self.place_read(root, fields, rtype)
        a = self.tr_args(e[5], g, env, ctx, line, ind)
        ret = self.norm_type(g.ret, g.impl_type)
        return root, fields, rtype, f"(RectSrc.{gname} fuel {recv}{''.join(' ' + x for x in a)})", (None if ret == "unit" else ret)

    def hoist_pure_loopy(self, e, env, ctx, found):
        """replace every call `Type::f(..)` of a fuel function without `self` inside `e` by a fresh variable"""
        if isinstance(e, tuple):
            if len(e) == 4 and e[0] == "callexpr" and isinstance(e[1], int) and e[2][0] == "path" and len(e[2][2]) == 2:
                segs = e[2][2]
                ty = ctx["self_type"] if segs[0] == "Self" else segs[0]
                if ty in self.prog.structs and any(k[0] == ty and k[2] == segs[1] for k in self.prog.fns):
                    g = self.find_method(ty, segs[1], self.where)
                    if g.self_kind is None:
                        where = self.where
                        gname = self.need(g)
                        self.where = where
                        if g.key() in self.loopy_fns:
                            if not ctx["loopy"]:
                                raise NeedLoopy()
                            v = self.fresh("call")
                            found.append((v, e, g, gname))
                            return ("path", e[1], [v])
            return tuple(self.hoist_pure_loopy(x, env, ctx, found) for x in e)
        if isinstance(e, list):
            return [self.hoist_pure_loopy(x, env, ctx, found) for x in e]
        return e

    def alias_read(self, al):
        _, scrut, arms, _t = al
        return "(match " + scrut + " with" + "".join(f" | {p} => {self.place_read(r, fl, rt)}" for (p, r, fl, rt) in arms) + ")"

    def alias_write(self, al, val, env, line):
        _, scrut, arms, _t = al
        roots = {r for (_, r, _, _) in arms}
        if len(roots) != 1:
            raise TrError(f"{self.where}: line {line}: the places of a `&mut` alias must live in one variable")
        root = roots.pop()
        self.check_assignable(root, env, line)
        txt = "(match " + scrut + " with" + "".join(
            f" | {p} => {self.place_write(self.lvar(r), rt, fl, val, line)}" for (p, r, fl, rt) in arms) + ")"
        return root, txt

    # ---- statements
    def tr_stmts(self, stmts, i, tail, env, ctx, expected, final, ind):
        pad = " " * ind
        if i >= len(stmts):
            return super().tr_stmts(stmts, i, tail, env, ctx, expected, final, ind)
        s = stmts[i]
        rest = lambda env2, ind2=ind: self.tr_stmts(stmts, i + 1, tail, env2, ctx, expected, final, ind2)
        line = s[1]
        W = f"{self.where}: line {line}"

        # (1) the `&mut i32` alias: `let (a, b) = match v { P1 => (&mut place1, e1), P2 => (&mut place2, e2) };`
        if s[0] == "let" and s[2][0] == "ptuple" and s[4][0] == "match" and contains_kind(s[4], "refmut"):
            _, _, pat, ty, m, _mut = s
            scrut, arms = m[2], m[3]
            if ty is not None or scrut[0] != "path" or len(scrut[2]) != 1 or scrut[2][0] not in env or scrut[2][0] in ("self",):
                raise TrError(f"{W}: a `&mut` alias must be chosen by `match <variable>`")
            sv = scrut[2][0]
            if not isinstance(env[sv], str) or env[sv] not in self.prog.enums:
                raise TrError(f"{W}: a `&mut` alias must be chosen by a `match` over a plain enum")
            n = len(pat[2])
            if any(q[0] != "pbind" for q in pat[2]):
                raise TrError(f"{W}: only names inside the tuple pattern of a `&mut` alias")
            items = []
            for (ap, ab) in arms:
                if ap[0] != "ppath" or ab[0] != "tuple" or len(ab[2]) != n:
                    raise TrError(f"{W}: every arm must be `Enum::Variant => (.., ..)`")
                items.append((self.tr_pat(ap, env[sv], {}, line), ab[2]))
            env2 = dict(env)
            # the alias is chosen by the value the scrutinee has NOW: kept under a name no Rust binding can shadow
            sel = self.fresh(sv + "_sel")
            out = [f"let {sel} := {self.lvar(sv)};\n{pad}"]
            for k, q in enumerate(pat[2]):
                col = [it[k] for (_, it) in items]
                if all(c[0] == "refmut" for c in col):
                    al_arms, et = [], None
                    for (ptxt, _), c in zip(items, col):
                        root, fields = self.place(c[2], env, line)
                        pt = env[root]
                        for fl in fields:
                            pt = self.field_type(pt, fl, line)
                        if pt != "i32" or (et is not None and et != pt):
                            raise TrError(f"{W}: a `&mut` alias must point to `i32` places")
                        et = pt
                        al_arms.append((ptxt, root, fields, env[root]))
                    env2[q[2]] = ("alias", sel, al_arms, et)
                elif any(c[0] == "refmut" for c in col):
                    raise TrError(f"{W}: `&mut` in some arms only")
                else:
                    sub = ("match", line, scrut, [(ap, c) for (ap, _), c in zip(arms, col)])
                    txt, t = self.tr_expr(sub, self.freeze(self.nt(env)), ctx, None, ind + 2)
                    if t == "int?":
                        raise TrError(f"{W}: untyped literal")
                    env2[q[2]] = t
                    out.append(f"let {self.lvar(q[2])} := {txt};\n{pad}")
                env2["%frozen"] = env2["%frozen"] - {q[2]}
            r, rt = rest(env2)
            return "".join(out) + r, rt

        # (2) assignment through an alias: `*error = v`, `*error += v`
        if s[0] == "assign" and s[3][0] == "deref" and s[3][2][0] == "path" and len(s[3][2][2]) == 1 \
                and isinstance(env.get(s[3][2][2][0]), tuple) and env[s[3][2][2][0]][0] == "alias":
            _, _, op, lhs, rhs = s
            al = env[lhs[2][2][0]]
            rv, vt = self.tr_expr(rhs, self.nt(env), ctx, al[3], ind + 2)
            self.unify(vt, al[3], W)
            if op == "=":
                val = rv
            elif op[0] in tr_rect.BIN_ARITH:
                val = f"({al[3]}_{tr_rect.BIN_ARITH[op[0]]} {self.alias_read(al)} {self.atom(rv)})"
            else:
                raise TrError(f"{W}: `{op}` through a `&mut` alias")
            root, txt = self.alias_write(al, val, env, line)
            r, rt = rest(env)
            return f"let {self.lvar(root)} := {txt};\n{pad}{r}", rt

        # (3) `if recv.f(alias) { .. } else { .. }` with `f(&self, x: &mut i32) -> bool`
        if s[0] == "expr" and s[2][0] == "if" and s[2][2][0] == "mcall":
            cond = s[2][2]
            args = cond[5]
            al_pos = [k for k, a in enumerate(args) if a[0] == "path" and len(a[2]) == 1
                      and isinstance(env.get(a[2][0]), tuple) and env[a[2][0]][0] == "alias"]
            if al_pos:
                if len(al_pos) != 1 or cond[4] is not None:
                    raise TrError(f"{W}: one `&mut` alias argument at most")
                rtxt, rtyp = self.tr_expr(cond[2], self.nt(env), ctx, None, ind)
                if not (isinstance(rtyp, str) and rtyp in self.prog.structs):
                    raise TrError(f"{W}: receiver of type {type_str(rtyp)}")
                g = self.find_method(rtyp, cond[3], W)
                k = al_pos[0]
                if g.self_kind != "ref" or len(g.params) != len(args) or self.norm_type(g.params[k][1], rtyp) != ("refmut", "i32") \
                        or self.norm_type(g.ret, rtyp) != "bool":
                    raise TrError(f"{W}: `{g.name}` is not `fn(&self, .., &mut i32, ..) -> bool`")
                where = self.where
                gname = self.need(g)
                self.where = where
                al = env[args[k][2][0]]
                atxts = []
                for j, a in enumerate(args):
                    if j == k:
                        atxts.append(self.alias_read(al))
                    else:
                        pt = self.norm_type(g.params[j][1], rtyp)
                        txt, t = self.tr_expr(a, self.nt(env), ctx, pt, ind)
                        self.unify(t, pt, W)
                        atxts.append(self.atom(txt))
                tv, cv = self.fresh("tmp"), self.fresh("cond")
                root, wtxt = self.alias_write(al, f"{tv}.2", env, line)
                env2 = dict(env)
                env2[cv] = "bool"
                new = list(stmts[:i]) + [("expr", line, ("if", line, ("path", line, [cv]), s[2][3], s[2][4]))] + list(stmts[i + 1:])
                r, rt = super().tr_stmts(new, i, tail, env2, ctx, expected, final, ind)
                return (f"let {tv} := (RectSrc.{gname} {self.atom(rtxt)} {' '.join(atxts)});\n{pad}let {self.lvar(root)} := {wtxt};\n"
                        f"{pad}let {cv} := {tv}.1;\n{pad}{r}"), rt

        # (4) calls of `&mut self` functions that run on fuel: `p.f(..);`, `let pat = p.f(..);`, `let pat = p.f(..)?;`
        call, pat, is_try = None, None, False
        if s[0] == "expr":
            call = s[2]
        elif s[0] == "let" and s[2][0] in ("pbind", "ptuple") and s[3] is None:
            call, pat = s[4], s[2]
        if call is not None and call[0] == "try":
            call, is_try = call[2], True
        mc = self.loopy_mut_call(call, env, ctx, line, ind) if call is not None else None
        if mc is not None:
            root, fields, rtype, ctext, vt = mc
            self.check_assignable(root, env, line)
            tv = self.fresh("tmp")
            out = [f"(match {ctext} with\n{pad}| Option.none => {self.nofuel(ctx)}\n{pad}| Option.some {tv} =>\n{pad}  "]
            new = self.place_write(self.lvar(root), rtype, fields, f"{tv}.2" if vt is not None else tv, line)
            out.append(f"let {self.lvar(root)} := {new};\n{pad}  ")
            env2 = dict(env)
            close = ")"
            vtxt = f"{tv}.1"
            if is_try:
                if vt is None or isinstance(vt, str) or vt[0] != "Option":
                    raise TrError(f"{W}: `?` on a value of type {type_str(vt)}")
                rt0 = ctx["ret"]
                if isinstance(rt0, str) or rt0[0] != "Option":
                    raise TrError(f"{W}: `?` in a function that does not return an Option")
                if not env.get("%tail"):
                    raise TrError(f"{W}: `?` outside a tail position")
                vv = self.fresh("val")
                out.append(f"(match {tv}.1 with\n{pad}  | Option.none => {self.wrap_result('Option.none', ctx)}\n{pad}  | Option.some {vv} =>\n{pad}    ")
                close = "))"
                vtxt, vt = vv, vt[1][0]
            if pat is not None:
                if vt is None:
                    raise TrError(f"{W}: `let` bound to a call that returns ()")
                if pat[0] == "pbind":
                    env2[pat[2]] = vt
                    env2["%frozen"] = env2["%frozen"] - {pat[2]}
                    out.append(f"let {self.lvar(pat[2])} := {vtxt};\n{pad}    ")
                else:
                    if isinstance(vt, str) or vt[0] != "tuple" or len(vt[1]) != len(pat[2]) or any(q[0] != "pbind" for q in pat[2]):
                        raise TrError(f"{W}: tuple pattern against type {type_str(vt)}")
                    for q, qt in zip(pat[2], vt[1]):
                        env2[q[2]] = qt
                        env2["%frozen"] = env2["%frozen"] - {q[2]}
                    out.append(f"let ({', '.join(self.lvar(q[2]) for q in pat[2])}) := {vtxt};\n{pad}    ")
            elif is_try:
                raise TrError(f"{W}: `?` whose value is dropped")
            r, rt = rest(env2, ind + 4)
            return "".join(out) + r + close, rt

        # (5) `return E` / `let x = E` where E contains a call `Type::f(..)` of a fuel function without `self`
        if (s[0] == "expr" and s[2][0] == "return" and s[2][2] is not None) or (s[0] == "let" and s[2][0] == "pbind"):
            target = s[2][2] if s[0] == "expr" else s[4]
            found = []
            new_e = self.hoist_pure_loopy(target, env, ctx, found)
            if found:
                out, env2, close = [], dict(env), ""
                for (v, ce, g, gname) in found:
                    a = self.tr_args(ce[3], g, env, ctx, line, ind)
                    out.append(f"(match (RectSrc.{gname} fuel{''.join(' ' + x for x in a)}) with\n{pad}| Option.none => {self.nofuel(ctx)}\n"
                               f"{pad}| Option.some {v} =>\n{pad}  ")
                    env2[v] = self.norm_type(g.ret, g.impl_type)
                    close += ")"
                ns = ("expr", line, ("return", s[2][1], new_e)) if s[0] == "expr" else (s[0], s[1], s[2], s[3], new_e, s[5])
                new = list(stmts[:i]) + [ns] + list(stmts[i + 1:])
                r, rt = self.tr_stmts(new, i, tail, env2, ctx, expected, final, ind + 2)
                return "".join(out) + r + close, rt

        # (6) `let v = match .. { arms that mutate }`: the `let` and the rest of the block go into every arm
        if s[0] == "let" and s[4][0] == "match" and s[2][0] in ("pbind", "ptuple"):
            where = self.where
            try:
                return super().tr_stmts(stmts, i, tail, env, ctx, expected, final, ind)
            except TrError as ex:
                self.where = where
                if "modified inside a block used as a value" not in str(ex) and "may only be called as a statement" not in str(ex):
                    raise
            m = s[4]
            rest_names = path_names((list(stmts[i + 1:]), tail), set())
            arms = []
            for (ap, ab) in m[3]:
                bound = pattern_binds(ap, set())
                if bound & rest_names:
                    raise TrError(f"{W}: the rest of the block mentions {sorted(bound & rest_names)}, which the pattern of a "
                                  f"mutating `match` arm binds: cannot push the rest into the arm")
                if ab[0] == "block":
                    if ab[3] is None:
                        raise TrError(f"{W}: a `match` arm without a value")
                    blk = list(ab[2]) + [("let", line, s[2], s[3], ab[3], s[5])]
                else:
                    blk = [("let", line, s[2], s[3], ab, s[5])]
                arms.append((ap, ("block", ab[1], blk, None)))
            new = list(stmts[:i]) + [("expr", line, ("match", line, m[2], arms))] + list(stmts[i + 1:])
            return self.tr_stmts(new, i, tail, env, ctx, expected, final, ind)
        return super().tr_stmts(stmts, i, tail, env, ctx, expected, final, ind)

    # ---- expressions
    def tr_expr(self, e, env, ctx, expected, ind):
        k = e[0]
        if k == "deref" and e[2][0] == "path" and len(e[2][2]) == 1 and isinstance(env.get(e[2][2][0]), tuple) \
                and env[e[2][2][0]][0] == "alias":
            al = env[e[2][2][0]]
            return self.alias_read(al), al[3]
        if k == "path" and len(e[2]) == 1 and e[2][0] not in env and e[2][0] in self.consts:
            g = self.find_fn(None, None, e[2][0], f"{self.where}: line {e[1]}")
            return self.call_user(g, None, [], env, ctx, e[1], ind)
        if k == "path" and len(e[2]) == 1 and isinstance(env.get(e[2][0]), tuple) and env[e[2][0]][0] == "alias":
            raise TrError(f"{self.where}: line {e[1]}: the `&mut` alias `{e[2][0]}` is used in a position the translator does not know")
        if k == "refmut":
            raise TrError(f"{self.where}: line {e[1]}: `&mut` expression in a position the translator does not know")
        if k == "try":
            raise TrError(f"{self.where}: line {e[1]}: `?` in a position the translator does not know")
        return super().tr_expr(e, env, ctx, expected, ind)

    def call_user(self, g, self_arg, args, env, ctx, line, ind):
        where = self.where
        self.need(g)
        self.where = where
        if g.key() in self.loopy_fns and not ctx["loopy"]:
            raise NeedLoopy()       # retried with fuel; the call is then hoisted by `tr_stmts` (or refused)
        return super().call_user(g, self_arg, args, env, ctx, line, ind)

    def tr_bin(self, e, env, ctx, expected, ind):
        _, line, op, l, r = e
        W = f"{self.where}: line {line}"
        if op in I64_OPS:
            a, at = self.tr_expr(l, env, ctx, None, ind)
            if op in ("==", "!=") and isinstance(at, str) and (at in self.prog.structs or at in self.prog.enums or at in self.data_enums):
                if at not in self.derives_eq:
                    raise TrError(f"{W}: `{op}` on {at}, which does not derive PartialEq")
                b, bt = self.tr_expr(r, env, ctx, at, ind)
                self.unify(bt, at, W)
                return f"(struct_{'eq' if op == '==' else 'ne'} {self.atom(a)} {self.atom(b)})", "bool"
            if at == "i64":
                if r[0] == "int" and r[3] is None:
                    b, bt = f"({r[2]} : Int)", "i64"
                else:
                    b, bt = self.tr_expr(r, env, ctx, None, ind)
                if bt != "i64":
                    raise TrError(f"{W}: `{op}` between i64 and {type_str(bt)}")
                return f"(i64_{I64_OPS[op]} {self.atom(a)} {self.atom(b)})", ("bool" if op in tr_rect.BIN_CMP else "i64")
        return super().tr_bin(e, env, ctx, expected, ind)

    def tr_call(self, e, env, ctx, expected, ind):
        _, line, fe, args = e
        W = f"{self.where}: line {line}"
        if fe[0] == "path" and fe[2] == ["i64", "from"] and len(args) == 1:
            a, at = self.tr_expr(args[0], env, ctx, None, ind)
            if at not in ("i32", "u32"):
                raise TrError(f"{W}: `i64::from` of {type_str(at)}")
            return f"(i64_from_{at} {self.atom(a)})", "i64"
        return super().tr_call(e, env, ctx, expected, ind)

    def tr_mcall(self, e, env, ctx, expected, ind):
        _, line, recv, name, turbofish, args = e
        if name == "pow" and turbofish is None and len(args) == 1 and args[0][0] == "int" and args[0][3] is None:
            rtxt, rt = self.tr_expr(recv, env, ctx, None, ind)
            if rt in ("i64", "i32"):
                return f"({rt}_pow {self.atom(rtxt)} ({args[0][2]} : Nat))", rt
        return super().tr_mcall(e, env, ctx, expected, ind)

    def tr_pat(self, p, t, binds, line):
        if p[0] == "ppath" and len(p[2]) == 2 and p[2][0] == "Self" and getattr(self, "cur_self_type", None):
            p = (p[0], p[1], [self.cur_self_type, p[2][1]])
        if p[0] == "pctor" and len(p[2]) == 2 and isinstance(t, str) and t in self.data_enums and p[2][0] in (t, "Self"):
            vs = dict(self.data_enums[t])
            if p[2][1] not in vs or len(vs[p[2][1]]) != len(p[3]):
                raise TrError(f"{self.where}: line {line}: pattern `{'::'.join(p[2])}`: no such variant")
            return f"({t}_{p[2][1]}" + "".join(" " + self.tr_pat(q, qt, binds, line) for q, qt in zip(p[3], vs[p[2][1]])) + ")"
        return super().tr_pat(p, t, binds, line)


HEADER = """/-
  EG.Generated.LineSrc — GENERATED by tools/tr_linesrc.py from /repo's current sources. Do not edit.

  One `def` per Rust function of src/primitives/line/{bresenham,points,mod}.rs (and the `Point` helpers of
  core/src/geometry/point.rs they call), mirroring the Rust text arm for arm. Every Rust primitive is a call of a
  function of the hand-written preludes EG/Model/RectSrcPrelude.lean and EG/Model/LineSrcPrelude.lean (which carry
  all the semantics). The theorems `<name>_src_eq_model` of EG/Props/C17/GeneratedLine.lean prove these definitions
  equal to the hand-written models EG/Model/Bresenham.lean and EG/Model/Line.lean, for all inputs.
-/
import EG.Model.LineSrcPrelude
set_option linter.unusedVariables false
namespace EG.Generated.LineSrc
open EG.RectSrcPrelude EG.LineSrcPrelude

"""


def load_program(repo, overrides=None):
    files = {}
    for key, rel in FILES.items():
        p = os.path.join(repo, rel)
        if not os.path.exists(p):
            raise TrError(f"{rel}: file not found")
        src = overrides[rel] if overrides and rel in overrides else open(p).read()
        files[rel] = tokenize(strip_comments(src, rel), rel)
    files, data_enums, instances, generic_names = monomorphise(files)
    prog = Program()
    for rel, toks in files.items():
        parse_items(Cursor(toks), prog, rel)
    for f in prog.fns.values():
        if getattr(f, "unsupported", None):
            continue
        try:
            f.ret = subst_assoc(f.ret, f, prog)
            f.params = [(n, subst_assoc(t, f, prog)) for (n, t) in f.params]
        except TrError as ex:
            f.unsupported = str(ex)
    return prog, data_enums, instances, generic_names


def translate(repo, overrides=None, roots=None):
    prog, data_enums, instances, generic_names = load_program(repo, overrides)
    if roots is None:
        for name, fields in EXPECTED_STRUCTS.items():
            if prog.structs.get(name) != fields:
                raise TrError(f"struct {name}: fields {prog.structs.get(name)} differ from the prelude's {fields}")
        for name, variants in EXPECTED_DATA_ENUMS.items():
            if data_enums.get(name) != variants:
                raise TrError(f"enum {name}: variants {data_enums.get(name)} differ from the prelude's {variants}")
    tr = LineTranslator(prog, data_enums, generic_names, instances)
    for (it, trn, n) in (ROOTS if roots is None else roots):
        tr.need(tr.find_fn(it, trn, n, "roots"))
    body = "\n".join(tr.out).replace("RectSrc.", "LineSrc.")
    text = [HEADER, body]
    untranslated = {}
    for (it, trn, n), f in sorted(prog.fns.items(), key=lambda kv: (kv[0][0] or "", kv[0][1] or "", kv[0][2])):
        if it in INVENTORY_TYPES and (it, trn, n) not in tr.done:
            untranslated.setdefault(f"impl {trn + ' for ' if trn else ''}{it}", []).append(n)
    text.append("\n/-- functions of the impls of " + " / ".join(INVENTORY_TYPES) + " (in the parsed files) that are NOT translated -/\n"
                "def untranslated : List (String × List String) := [\n"
                + ",\n".join(f'  ("{k}", [' + ", ".join(f'"{n}"' for n in v) + "])" for k, v in untranslated.items()) + "]\n")
    text.append("\n/-- what was translated (Lean name, Rust origin) -/\ndef translated : List (String × String) := [\n"
                + ",\n".join(f'  ("{a}", "{b}")' for a, b in tr.listing) + "]\n")
    text.append("\nend EG.Generated.LineSrc\n")
    info = {"functions": len(tr.listing), "untranslated": untranslated, "instances": instances,
            "names": [a for a, _ in tr.listing]}
    return "".join(text), info


THICK_HEADER = """/-
  EG.Generated.ThickSrc — GENERATED by tools/tr_linesrc.py from /repo's current sources. Do not edit.

  One `def` per Rust function of src/primitives/line/thick_points.rs (`ParallelsIterator::{new, next_parallel}`, its
  `Iterator::next`, `ThickPoints::new`, its `Iterator::next`, the constant `HORIZONTAL_LINE`) and of the helpers they call
  that EG/Generated/LineSrc.lean does not already contain (`LineSide::swap`, `PointExt::length_squared`, `-Point`),
  mirroring the Rust text arm for arm. A function that contains a `loop` or calls one takes `fuel` and returns `Option`
  (`none` = the fuel ran out). Semantics: EG/Model/{RectSrcPrelude,LineSrcPrelude,ThickSrcPrelude}.lean. The theorems of
  EG/Props/C17/GeneratedThick.lean prove these definitions equal to the hand-written model EG/Model/ThickLine.lean.
-/
import EG.Generated.LineSrc
import EG.Model.ThickSrcPrelude
set_option linter.unusedVariables false
namespace EG.Generated.ThickSrc
open EG.RectSrcPrelude EG.LineSrcPrelude EG.ThickSrcPrelude

"""


def translate_thick(repo, overrides=None, roots=None):
    files = {}
    derives = set()
    for rel in list(FILES.values()) + list(THICK_FILES.values()):
        p = os.path.join(repo, rel)
        if not os.path.exists(p):
            raise TrError(f"{rel}: file not found")
        src = overrides[rel] if overrides and rel in overrides else open(p).read()
        files[rel] = tokenize(strip_comments(src, rel), rel)
        derives |= derives_partial_eq(files[rel])
    consts = {}
    files, data_enums, instances, generic_names = monomorphise(files, consts)
    prog = Program()
    for rel, toks in files.items():
        parse_items(Cursor(toks), prog, rel)
    for f in prog.fns.values():
        if getattr(f, "unsupported", None):
            continue
        try:
            f.ret = subst_assoc(f.ret, f, prog)
            f.params = [(n, subst_assoc(t, f, prog)) for (n, t) in f.params]
        except TrError as ex:
            f.unsupported = str(ex)
    if roots is None:
        for name, fields in list(EXPECTED_STRUCTS.items()) + list(THICK_EXPECTED_STRUCTS.items()):
            if prog.structs.get(name) != fields:
                raise TrError(f"struct {name}: fields {prog.structs.get(name)} differ from the prelude's {fields}")
        for name, variants in EXPECTED_DATA_ENUMS.items():
            if data_enums.get(name) != variants:
                raise TrError(f"enum {name}: variants {data_enums.get(name)} differ from the prelude's {variants}")
        for name, variants in THICK_EXPECTED_ENUMS.items():
            if prog.enums.get(name) != variants:
                raise TrError(f"enum {name}: variants {prog.enums.get(name)} differ from the prelude's {variants}")
    with scoped_parser():
        tr = ThickTranslator(prog, data_enums, generic_names, instances, consts, derives)
        for (it, trn, n) in ROOTS:
            tr.need(tr.find_fn(it, trn, n, "roots"))
        thin_names = set(tr.done.values())
        n_thin = len(tr.out)
        thin_keys = set(tr.done)
        for (it, trn, n) in (THICK_ROOTS if roots is None else roots):
            tr.need(tr.find_fn(it, trn, n, "roots"))
    body = "\n".join(tr.out[n_thin:])
    body = re.sub(r"RectSrc\.(\w+)", lambda m: ("LineSrc." if m.group(1) in thin_names else "ThickSrc.") + m.group(1), body)
    text = [THICK_HEADER, body]
    untranslated = {}
    for (it, trn, n), f in sorted(prog.fns.items(), key=lambda kv: (kv[0][0] or "", kv[0][1] or "", kv[0][2])):
        if it in THICK_INVENTORY_TYPES and (it, trn, n) not in tr.done:
            untranslated.setdefault(f"impl {trn + ' for ' if trn else ''}{it}", []).append(n)
    text.append("\n/-- functions of the impls of " + " / ".join(THICK_INVENTORY_TYPES) + " (in the parsed files) that are NOT translated -/\n"
                "def untranslated : List (String × List String) := [\n"
                + ",\n".join(f'  ("{k}", [' + ", ".join(f'"{n}"' for n in v) + "])" for k, v in untranslated.items()) + "]\n")
    listing = tr.listing[n_thin:]
    text.append("\n/-- what was translated (Lean name, Rust origin) -/\ndef translated : List (String × String) := [\n"
                + ",\n".join(f'  ("{a}", "{b}")' for a, b in listing) + "]\n")
    text.append("\nend EG.Generated.ThickSrc\n")
    return "".join(text), {"functions": len(listing), "untranslated": untranslated, "names": [a for a, _ in listing]}


def thick_failed_file(reason):
    r = reason.replace("\\", "\\\\").replace('"', '\\"').replace("\n", " ")
    return ("/-\n  EG.Generated.ThickSrc — GENERATED by tools/tr_linesrc.py. THE TRANSLATION FAILED: the Rust source of the thick line\n"
            "  (thick_points.rs, or a helper it calls) contains a construct the translator does not know. No function is\n"
            "  defined here, so the theorems of EG/Props/C17/GeneratedThick.lean do not build.\n-/\n"
            "namespace EG.Generated.ThickSrc\n\n"
            f"def translationFailed : String := \"{r}\"\n\nend EG.Generated.ThickSrc\n")


def failed_file(reason):
    r = reason.replace("\\", "\\\\").replace('"', '\\"').replace("\n", " ")
    return ("/-\n  EG.Generated.LineSrc — GENERATED by tools/tr_linesrc.py. THE TRANSLATION FAILED: the Rust source of the line\n"
            "  primitive (bresenham.rs / points.rs / mod.rs, or the Point helpers they call) contains a construct the\n"
            "  translator does not know. No function is defined here, so the `_src_eq_model` theorems of\n"
            "  EG/Props/C17/GeneratedLine.lean do not build.\n-/\n"
            "namespace EG.Generated.LineSrc\n\n"
            f"def translationFailed : String := \"{r}\"\n\nend EG.Generated.LineSrc\n")


# ---------------------------------------------------------------------------------------------------------------
# self test of this part's additions (tr_rect's own self test covers the inherited subset)
# ---------------------------------------------------------------------------------------------------------------

SELFTEST_SRC = """
pub struct Point { pub x: i32, pub y: i32 }
impl Point { pub const fn new(x: i32, y: i32) -> Self { Point { x, y } } }
impl AddAssign for Point { fn add_assign(&mut self, other: Point) { self.x += other.x; self.y += other.y; } }
pub struct Pair<T> { pub a: T, pub b: T }
impl<T> Pair<T> { pub const fn new(a: T, b: T) -> Self { Self { a, b } } }
pub enum Tagged { Plain(Point), Marked(Point) }
pub struct Walker { pub at: Point, pub err: i32, pub steps: Pair<i32> }
impl Walker {
    fn bump(&self, e: &mut i32) -> bool { *e += self.err; if *e > 3 { *e -= 1; true } else { false } }
    fn step(&mut self, d: Point) -> Point { let r = self.at; self.at += d; r }
CASES
}
"""
# (name, signature + body, expected error fragment or None, expected Lean fragment or None)
SELFTEST_CASES = [
    ("ok_mono", "fn ok_mono(&self) -> Pair<Point> { Pair::new(self.at, self.at) }", None, "(LineSrc.Pair_Point_new (Walker_at self) (Walker_at self))"),
    ("ok_mono_i32", "fn ok_mono_i32(&self) -> i32 { let p = Pair::new(2 * self.err, self.err); p.a }", None, "LineSrc.Pair_i32_new"),
    ("ok_tuple_let", "fn ok_tuple_let(&self) -> i32 { let (u, v) = if self.err > 0 { (1i32, self.err) } else { (self.err, 2i32) }; u + v }", None, "let (u, v) := (if"),
    ("ok_add_assign", "fn ok_add_assign(&mut self, d: Point) { self.at += d; }", None, "(Walker_set_at self (LineSrc.Point_op_add_assign_Point (Walker_at self) d))"),
    ("ok_mut_param", "fn ok_mut_param(&self, e: &mut i32) -> bool { *e += 1; *e > self.err }", None, "((i32_gt e (Walker_err self)), e)"),
    ("ok_tail_if", "fn ok_tail_if(&mut self) -> Tagged { let p = self.at; if self.err > 0 { self.err -= 1; Tagged::Marked(p) } else { self.err += 1; Tagged::Plain(p) } }", None, "((Tagged_Marked p), self)"),
    ("ok_hoist", "fn ok_hoist(&mut self, d: Point) -> Option<Point> { if self.err > 0 { Some(self.step(d)) } else { None } }", None, "let ret' := tmp'.1;"),
    ("bad_enum_pattern", "fn bad_enum_pattern(&self, t: Tagged) -> Point { match t { Tagged::Plain(p) => p, Tagged::Marked(p) => p } }", "constructor pattern", None),
    ("bad_two_mut", "fn bad_two_mut(&mut self, e: &mut i32) { *e += 1; }", "only one `&mut i32` parameter", None),
    ("bad_mono_unknown", "fn bad_mono_unknown(&self) -> i32 { let p = Pair::new(true, false); 1 }", "is not an instance found in the sources", None),
    ("bad_loop", "fn bad_loop(&mut self) -> i32 { loop { return 1; } }", "`loop`", None),
    ("bad_sub_assign", "fn bad_sub_assign(&mut self, d: Point) { self.at -= d; }", "not found in the parsed sources", None),
    ("bad_tuple_nested", "fn bad_tuple_nested(&self) -> i32 { let (u, (v, w)) = (1i32, (2i32, 3i32)); u }", "only names and `_`", None),
]


def selftest():
    problems = []
    src = SELFTEST_SRC.replace("CASES", "\n".join("    " + c[1] for c in SELFTEST_CASES))
    try:
        files, data_enums, instances, generic_names = monomorphise({"selftest": tokenize(strip_comments(src, "selftest"), "selftest")})
        prog = Program()
        parse_items(Cursor(files["selftest"]), prog, "selftest")
    except TrError as ex:
        return [f"selftest input does not parse: {ex}"]
    if instances != {"Pair": ["i32", "Point"]} or data_enums != {"Tagged": [("Plain", ["Point"]), ("Marked", ["Point"])]}:
        problems.append(f"pre-pass: instances {instances}, data enums {data_enums}")
    saved = dict(EXPECTED_STRUCTS)
    EXPECTED_STRUCTS.update({"Walker": [], "Pair_i32": [], "Pair_Point": []})
    try:
        for (name, _, err, frag) in SELFTEST_CASES:
            tr = LineTranslator(prog, data_enums, generic_names, instances)
            try:
                tr.need(prog.fns[("Walker", None, name)])
                text = tr.out[-1].replace("RectSrc.", "LineSrc.")
                if err is not None:
                    problems.append(f"{name}: ACCEPTED but must be refused ({err}); output: {text.strip()[-200:]}")
                elif frag not in text:
                    problems.append(f"{name}: translated to unexpected text: {text}")
            except TrError as ex:
                if err is None:
                    problems.append(f"{name}: refused: {ex}")
                elif err not in str(ex):
                    problems.append(f"{name}: refused with an unexpected message: {ex} (expected `{err}`)")
    finally:
        for k in list(EXPECTED_STRUCTS):
            if k not in saved:
                del EXPECTED_STRUCTS[k]
    return problems


THICK_SELFTEST_SRC = """
#[derive(Copy, Clone, PartialEq)]
pub struct Point { pub x: i32, pub y: i32 }
impl Point { pub const fn new(x: i32, y: i32) -> Self { Point { x, y } } }
#[derive(Copy, Clone, PartialEq)]
pub enum Side { A, B }
pub enum Plain { P, Q }
const ORIGIN: Point = Point::new(0, 0);
pub struct Inner { pub n: u32 }
impl Inner {
    fn tick(&self, e: &mut i32) -> bool { *e += 1; *e > 3 }
    fn pull(&mut self) -> Option<u32> { loop { if self.n > 0 { self.n -= 1; return Some(self.n); } else { return None; } } }
}
pub struct Walker { pub l: i32, pub r: i32, pub inner: Inner, pub big: i64 }
impl Walker {
CASES
}
"""
THICK_SELFTEST_CASES = [
    ("ok_loop", "fn ok_loop(&mut self) -> i32 { loop { if self.l > 3 { return self.l; } self.l += 1; } }", None, "(LoopStep.return_ (Option.some ((Walker_l self), self)))"),
    ("ok_alias", "fn ok_alias(&mut self, s: Side) -> i32 { let (e, k) = match s { Side::A => (&mut self.l, 1i32), Side::B => (&mut self.r, 2i32) }; *e += k; *e }",
     None, "let self := (match s_sel1' with | Side.A => (Walker_set_l self (i32_add (match s_sel1' with | Side.A => (Walker_l self) | Side.B => (Walker_r self)) k))"),
    ("ok_alias_arg", "fn ok_alias_arg(&mut self, s: Side) -> bool { let (e, k) = match s { Side::A => (&mut self.l, 1i32), Side::B => (&mut self.r, 2i32) }; if self.inner.tick(e) { true } else { false } }",
     None, "(LineSrc.Inner_tick (Walker_inner self) (match s_sel1' with | Side.A => (Walker_l self) | Side.B => (Walker_r self)))"),
    ("ok_try", "fn ok_try(&mut self) -> Option<u32> { let v = self.inner.pull()?; Some(v) }", None, "| Option.none => (Option.some (Option.none, self))"),
    ("ok_const_eq", "fn ok_const_eq(&self, p: Point) -> bool { p == ORIGIN }", None, "(struct_eq p LineSrc.ORIGIN)"),
    ("ok_i64", "fn ok_i64(&self) -> bool { (i64::from(self.l) * 2).pow(2) > self.big }", None, "(i64_gt (i64_pow (i64_mul (i64_from_i32 (Walker_l self)) (2 : Int)) (2 : Nat)) (Walker_big self))"),
    ("bad_eq_no_derive", "fn bad_eq_no_derive(&self, a: Plain, b: Plain) -> bool { a == b }", "does not derive PartialEq", None),
    ("bad_break", "fn bad_break(&mut self) -> i32 { loop { break; } }", "`break` not supported", None),
    ("bad_alias_escape", "fn bad_alias_escape(&mut self, s: Side) -> i32 { let (e, k) = match s { Side::A => (&mut self.l, 1i32), Side::B => (&mut self.r, 2i32) }; let f = e; k }",
     "is used in a position the translator does not know", None),
    ("ok_alias_scrutinee_changes", "fn ok_alias_scrutinee_changes(&mut self, mut s: Side) -> i32 { let (e, k) = match s { Side::A => (&mut self.l, 1i32), Side::B => (&mut self.r, 2i32) }; s = Side::B; *e }",
     None, "let s := Side.B;\n  ((match s_sel1' with | Side.A => (Walker_l self) | Side.B => (Walker_r self)), self)"),
    ("bad_try_plain", "fn bad_try_plain(&self, o: Option<u32>) -> Option<u32> { let v = o?; Some(v) }", "`?` in a position the translator does not know", None),
    ("bad_nested_loop", "fn bad_nested_loop(&mut self) -> i32 { loop { loop { return 1; } } }", "nested loops", None),
    ("bad_refmut_free", "fn bad_refmut_free(&mut self) -> i32 { let e = &mut self.l; 1 }", "`&mut` expression in a position", None),
]


def selftest_thick():
    problems = []
    src = THICK_SELFTEST_SRC.replace("CASES", "\n".join("    " + c[1] for c in THICK_SELFTEST_CASES))
    saved = (dict(EXPECTED_STRUCTS), dict(THICK_EXPECTED_ENUMS))
    try:
        toks = tokenize(strip_comments(src, "selftest"), "selftest")
        derives = derives_partial_eq(toks)
        consts = {}
        files, data_enums, instances, generic_names = monomorphise({"selftest": toks}, consts)
        prog = Program()
        parse_items(Cursor(files["selftest"]), prog, "selftest")
        if derives != {"Point", "Side"} or consts != {"ORIGIN": "selftest"}:
            problems.append(f"pre-pass: derives {derives}, consts {consts}")
        EXPECTED_STRUCTS.update({"Walker": [], "Inner": []})
        THICK_EXPECTED_ENUMS.update({"Side": [], "Plain": []})
        with scoped_parser():
            for (name, _, err, frag) in THICK_SELFTEST_CASES:
                tr = ThickTranslator(prog, data_enums, generic_names, instances, consts, derives)
                try:
                    tr.need(prog.fns[("Walker", None, name)])
                    text = tr.out[-1].replace("RectSrc.", "LineSrc.")
                    if err is not None:
                        problems.append(f"{name}: ACCEPTED but must be refused ({err}); output: {text.strip()[-200:]}")
                    elif frag not in text:
                        problems.append(f"{name}: translated to unexpected text: {text}")
                except TrError as ex:
                    if err is None:
                        problems.append(f"{name}: refused: {ex}")
                    elif err not in str(ex):
                        problems.append(f"{name}: refused with an unexpected message: {ex} (expected `{err}`)")
    except TrError as ex:
        problems.append(f"thick selftest input does not parse: {ex}")
    finally:
        for d, sv in ((EXPECTED_STRUCTS, saved[0]), (THICK_EXPECTED_ENUMS, saved[1])):
            for k in list(d):
                if k not in sv:
                    del d[k]
    return problems


def generate(repo):
    try:
        problems = selftest() + selftest_thick()
        if problems:
            raise TrError("translator self test failed: " + "; ".join(problems[:3]))
        text, info = translate(repo)
        info["selftest_cases"] = len(SELFTEST_CASES) + len(THICK_SELFTEST_CASES)
    except TrError as ex:
        reason = str(ex)
    except RecursionError:
        reason = "recursion limit reached while parsing"
    except Exception as ex:     # a bug of the translator must not take the other checks down either
        reason = f"internal error {type(ex).__name__}: {ex}"
    else:
        # the thick line is a second file: a construct of thick_points.rs that is not known breaks only its theorems
        try:
            ttext, tinfo = translate_thick(repo)
            info["thick"] = tinfo
        except TrError as ex:
            treason = str(ex)
        except RecursionError:
            treason = "recursion limit reached while parsing"
        except Exception as ex:
            treason = f"internal error {type(ex).__name__}: {ex}"
        else:
            return {"LineSrc.lean": text, "ThickSrc.lean": ttext}, info
        info["thick_failed"] = treason
        return {"LineSrc.lean": text, "ThickSrc.lean": thick_failed_file(treason)}, info
    return {"LineSrc.lean": failed_file(reason), "ThickSrc.lean": thick_failed_file("LineSrc.lean failed: " + reason)}, {"failed": reason}


if __name__ == "__main__":
    import json
    import sys
    repo = os.environ.get("EG_REPO", "/repo")
    if len(sys.argv) > 1 and sys.argv[1] == "--selftest":
        ps = selftest() + selftest_thick()
        print("\n".join(ps) if ps else f"selftest: {len(SELFTEST_CASES)} + {len(THICK_SELFTEST_CASES)} cases fine")
        sys.exit(1 if ps else 0)
    elif len(sys.argv) > 1 and sys.argv[1] == "--strict":
        t, i = translate(repo)
        print(t)
    elif len(sys.argv) > 1 and sys.argv[1] == "--strict-thick":
        t, i = translate_thick(repo)
        print(t)
    else:
        files, info = generate(repo)
        print(json.dumps(info))
