#!/bin/sh
# seedrun_wt.sh (variant of seedrun.sh that copies the worktree /tmp/vw/rforacles instead of /verif) <patch.diff> <Cxx> [<Cxx> ...] — run checks against a seeded change WITHOUT touching /repo:
# uses a private copy of /verif (/tmp/vseed) whose harness depends on a private worktree of /repo
# (/tmp/vseed-repo) with the patch applied. For early feedback while /repo is in use by others;
# the recorded confirmation runs use /repo itself (git -C /repo apply ..; ./check ..; git checkout).
set -e
patch="$1"; shift
# VSEED_SLOT (optional): several runs in parallel, each with its own private copies
V=/tmp/vseed$VSEED_SLOT
R=/tmp/vseed-repo$VSEED_SLOT
if [ ! -d $R ]; then git -C /repo worktree add -q --detach $R HEAD; fi
git -C $R checkout -q --detach "$(git -C /repo rev-parse HEAD)"
git -C $R checkout -q -- . && git -C $R clean -fdq
mkdir -p $V
rsync -a --delete --exclude .git --exclude replays --exclude .work --exclude .locks --exclude incremental /tmp/vw/rforacles/ $V/; mkdir -p $V/replays
sed -i "s#path = \"/repo#path = \"$R#g" $V/harness/Cargo.toml
if [ -n "$patch" ] && [ "$patch" != "-" ]; then git -C $R apply "$patch"; fi
cd $V
rc=0
for p in "$@"; do
  EG_REPO=$R ./check "$p" --tier quick || rc=1
done
git -C $R checkout -q -- .
exit $rc
