#!/usr/bin/env python3
"""tr_fonts.py — translator part `fonts` (serves C14, C15, C02).

Reads, from /repo's current working tree,
  * src/mono_font/generated/mod.rs            the list of `pub mod <charset>;`
  * src/mono_font/generated/<charset>.rs      every `pub const FONT_*: ..MonoFont = ..MonoFont { .. };` block
  * fonts/raw/<charset>/<file>.raw            byte length of each atlas named by `include_bytes!`
  * src/mono_font/mapping.rs                  the `impl_mapping!( (Variant, CONST, "string"), .. );` invocation
                                              and the replacement index expression of the macro body
and writes
  * lean/EG/Generated/FontTable.lean          (returned to translate.py)
  * harness/src/font_table.rs                 the same font list as a Rust table of `&MonoFont` (font id =
                                              position in both tables); rewritten only when it differs, so
                                              harness and Lean table always come from one scan of one tree.

Fails loudly (exception) when a construct it expects cannot be parsed: the number of blocks parsed with
the strict block pattern must equal the number of `pub const FONT_` tokens counted independently, every
module listed in mod.rs must exist and vice versa, every raw file must exist, every mapping constant a
font names must be one of the parsed mappings. The counts *seen in the source* (independent token counts)
are emitted into the Lean file and asserted there against the table lengths.
"""
import os
import re

V = os.path.dirname(os.path.dirname(os.path.abspath(__file__)))

INT = r"(\d+)"
BLOCK = re.compile(
    r"pub const (FONT_[A-Z0-9_]+): crate::mono_font::MonoFont = crate::mono_font::MonoFont \{\s*"
    r"image: crate::image::ImageRaw::new_const\(\s*"
    r'include_bytes!\("\.\./\.\./\.\./fonts/raw/([a-z0-9_]+)/([a-z0-9_]+\.raw)"\),\s*'
    r"crate::geometry::Size::new\(" + INT + r", " + INT + r"\),\s*"
    r"\),\s*"
    r"glyph_mapping: &crate::mono_font::mapping::([A-Z0-9_]+),\s*"
    r"character_size: crate::geometry::Size::new\(" + INT + r", " + INT + r"\),\s*"
    r"character_spacing: " + INT + r",\s*"
    r"baseline: " + INT + r",\s*"
    r"underline: crate::mono_font::DecorationDimensions::new\(([^,()]+), " + INT + r"\),\s*"
    r"strikethrough: crate::mono_font::DecorationDimensions::new\(([^,()]+), " + INT + r"\),\s*"
    r"\};"
)


def eval_expr(e):
    """the generator writes offsets as `a + b` / `a / b` / `a` over unsigned literals (u32 arithmetic)"""
    e = e.strip()
    m = re.fullmatch(r"(\d+)", e)
    if m:
        return int(m.group(1))
    m = re.fullmatch(r"(\d+) ([+/*-]) (\d+)", e)
    if not m:
        raise ValueError(f"cannot evaluate decoration offset expression {e!r}")
    a, op, b = int(m.group(1)), m.group(2), int(m.group(3))
    if op == "+":
        return a + b
    if op == "*":
        return a * b
    if op == "-":
        if b > a:
            raise ValueError(f"u32 underflow in {e!r}")
        return a - b
    if b == 0:
        raise ValueError(f"division by zero in {e!r}")
    return a // b


def parse_rust_str(lit):
    """code points of a Rust (non-raw) string literal body"""
    out = []
    i, n = 0, len(lit)
    while i < n:
        ch = lit[i]
        if ch != "\\":
            out.append(ord(ch))
            i += 1
            continue
        i += 1
        if i >= n:
            raise ValueError("dangling backslash in mapping string")
        e = lit[i]
        if e == "0":
            out.append(0)
            i += 1
        elif e == "u":
            m = re.match(r"u\{([0-9a-fA-F_]{1,8})\}", lit[i:])
            if not m:
                raise ValueError(f"bad \\u escape at {lit[i:i+12]!r}")
            cp = int(m.group(1).replace("_", ""), 16)
            if cp > 0x10FFFF or 0xD800 <= cp <= 0xDFFF:
                raise ValueError(f"\\u{{{cp:x}}} is not a scalar value")
            out.append(cp)
            i += m.end()
        elif e == "x":
            m = re.match(r"x([0-7][0-9a-fA-F])", lit[i:])
            if not m:
                raise ValueError(f"bad \\x escape at {lit[i:i+6]!r}")
            out.append(int(m.group(1), 16))
            i += 3
        elif e in "nrt\\\"'":
            out.append({"n": 10, "r": 13, "t": 9, "\\": 92, '"': 34, "'": 39}[e])
            i += 1
        else:
            raise ValueError(f"unknown escape \\{e} in mapping string")
    return out


def scan(repo):
    gen_dir = os.path.join(repo, "src", "mono_font", "generated")
    mod_rs = open(os.path.join(gen_dir, "mod.rs")).read()
    mods = re.findall(r"^pub mod ([a-z0-9_]+);", mod_rs, re.M)
    files = sorted(f[:-3] for f in os.listdir(gen_dir) if f.endswith(".rs") and f != "mod.rs")
    if sorted(mods) != files:
        raise ValueError(f"generated/mod.rs lists {sorted(mods)} but the directory has {files}")
    if len(set(mods)) != len(mods):
        raise ValueError("duplicate module in generated/mod.rs")

    # ---- mappings ------------------------------------------------------------------------------
    map_rs = open(os.path.join(repo, "src", "mono_font", "mapping.rs")).read()
    m = re.search(r"^impl_mapping!\(\n(.*?)^\);", map_rs, re.M | re.S)
    if not m:
        raise ValueError("impl_mapping!( .. ); invocation not found in mapping.rs")
    body = m.group(1)
    entries = re.findall(r'^\s*\(([A-Za-z0-9_]+), ([A-Z0-9_]+), "((?:[^"\\]|\\.)*)"\),\s*$', body, re.M)
    seen_entries = len(re.findall(r"^\s*\(", body, re.M))
    if seen_entries != len(entries):
        raise ValueError(f"impl_mapping!: {seen_entries} entries seen, {len(entries)} parsed")
    rm = re.search(r"pub const \$constant: StrGlyphMapping = StrGlyphMapping::new\(\$mapping, '(.)' as usize - '(.)' as usize\);", map_rs)
    if not rm:
        raise ValueError("replacement index expression of impl_mapping! not recognised")
    if ord(rm.group(1)) < ord(rm.group(2)):
        raise ValueError("replacement index expression underflows")
    replacement = ord(rm.group(1)) - ord(rm.group(2))
    mappings = []
    for variant, const, lit in entries:
        mappings.append({"variant": variant, "const": const, "data": parse_rust_str(lit), "replacement": replacement})
    names = [mp["const"] for mp in mappings]
    if len(set(names)) != len(names):
        raise ValueError("duplicate mapping constant")

    # ---- fonts ---------------------------------------------------------------------------------
    fonts = []
    seen_fonts = 0
    for mod in mods:  # order of mod.rs; inside a module, source order
        src = open(os.path.join(gen_dir, mod + ".rs")).read()
        code = "\n".join(l for l in src.split("\n") if not l.lstrip().startswith("//"))
        tokens = len(re.findall(r"\bpub\s+const\s+\w+", code))
        seen_fonts += tokens
        blocks = list(BLOCK.finditer(code))
        if len(blocks) != tokens:
            raise ValueError(f"{mod}.rs: {tokens} `pub const` items seen but {len(blocks)} MonoFont blocks parsed")
        rest = BLOCK.sub("", code).strip()
        if rest:
            raise ValueError(f"{mod}.rs: unparsed content outside the MonoFont blocks: {rest[:80]!r}")
        for b in blocks:
            (name, rawdir, rawfile, iw, ih, mapping, cw, ch, sp, bl, ulo, ulh, sto, sth) = b.groups()
            raw = os.path.join(repo, "fonts", "raw", rawdir, rawfile)
            if not os.path.isfile(raw):
                raise ValueError(f"{mod}::{name}: atlas file {raw} missing")
            if mapping not in names:
                raise ValueError(f"{mod}::{name}: unknown mapping constant {mapping}")
            fonts.append({
                "module": mod, "name": name, "raw": f"{rawdir}/{rawfile}", "rawLen": os.path.getsize(raw),
                "imgW": int(iw), "imgH": int(ih), "mapping": names.index(mapping), "mappingName": mapping,
                "cw": int(cw), "ch": int(ch), "spacing": int(sp), "baseline": int(bl),
                "ulOff": eval_expr(ulo), "ulH": int(ulh), "stOff": eval_expr(sto), "stH": int(sth),
            })
    keys = [(f["module"], f["name"]) for f in fonts]
    if len(set(keys)) != len(keys):
        raise ValueError("duplicate font constant")
    raw_files = sum(len([f for f in fs if f.endswith(".raw")]) for _, _, fs in os.walk(os.path.join(repo, "fonts", "raw")))
    return mods, mappings, fonts, seen_fonts, seen_entries, raw_files


def lean_nat_list(xs, per=24, indent="    "):
    rows = [", ".join(str(x) for x in xs[i:i + per]) for i in range(0, len(xs), per)]
    return "[" + (",\n" + indent).join(rows) + "]"


def lean_source(mods, mappings, fonts, seen_fonts, seen_mappings):
    o = []
    o.append("/-\n  EG.Generated.FontTable — GENERATED by tools/tr_fonts.py from /repo's current sources. Do not edit.\n"
             "  Source: src/mono_font/generated/*.rs (MonoFont constants), fonts/raw/** (atlas byte lengths),\n"
             "          src/mono_font/mapping.rs (`impl_mapping!` strings, replacement index expression).\n"
             "  Font id = position in `fontTable` = position in harness/src/font_table.rs (written by the same scan).\n-/\n")
    o.append("namespace EG.Generated\n")
    o.append("/-- One `impl_mapping!` entry: the string's code points (NUL = range marker) and the replacement index. -/")
    o.append("structure MappingRec where\n  name : String\n  data : List Nat\n  replacement : Nat\n")
    o.append("/-- One `pub const FONT_*: MonoFont`. `rawLen` = byte length of the atlas file named by `include_bytes!`;\n"
             "`mapping` = position of the glyph mapping constant in `mappingTable`. -/")
    o.append("structure FontRec where\n  module : String\n  name : String\n  rawLen : Nat\n  imgW : Nat\n  imgH : Nat\n"
             "  cw : Nat\n  ch : Nat\n  spacing : Nat\n  baseline : Nat\n  ulOff : Nat\n  ulH : Nat\n  stOff : Nat\n  stH : Nat\n  mapping : Nat\n")
    o.append("def mappingTable : List MappingRec := [")
    rows = []
    for mp in mappings:
        rows.append(f'  ⟨"{mp["const"]}", {lean_nat_list(mp["data"])}, {mp["replacement"]}⟩')
    o.append(",\n".join(rows))
    o.append("]\n")
    o.append("def fontTable : List FontRec := [")
    rows = []
    for f in fonts:
        rows.append(f'  ⟨"{f["module"]}", "{f["name"]}", {f["rawLen"]}, {f["imgW"]}, {f["imgH"]}, {f["cw"]}, {f["ch"]}, '
                    f'{f["spacing"]}, {f["baseline"]}, {f["ulOff"]}, {f["ulH"]}, {f["stOff"]}, {f["stH"]}, {f["mapping"]}⟩')
    o.append(",\n".join(rows))
    o.append("]\n")
    o.append("/-- Counted in the source independently of the block parser (`pub const` tokens of the generated\n"
             "modules; parenthesised entries of `impl_mapping!`). -/")
    o.append(f"def fontsSeen : Nat := {seen_fonts}")
    o.append(f"def mappingsSeen : Nat := {seen_mappings}\n")
    o.append("/-- No entry was dropped between the source and the tables the theorems quantify over. -/")
    o.append("theorem fontTable_length : fontTable.length = fontsSeen := by decide +kernel")
    o.append("theorem mappingTable_length : mappingTable.length = mappingsSeen := by decide +kernel\n")
    o.append("end EG.Generated\n")
    return "\n".join(o)


def rust_source(fonts):
    o = []
    o.append("// GENERATED by tools/tr_fonts.py from /repo/src/mono_font/generated/*.rs — do not edit.")
    o.append("// Font id = position in this table = position in lean/EG/Generated/FontTable.lean `fontTable`.")
    o.append("// The translator rewrites this file on every `./check` run when the source scan differs.")
    o.append("use embedded_graphics::mono_font::{self as mf, MonoFont};")
    o.append("")
    o.append("/// (module, constant name, mapping id, font)")
    o.append(f"pub static FONTS: [(&str, &str, usize, &MonoFont<'static>); {len(fonts)}] = [")
    for f in fonts:
        o.append(f'    ("{f["module"]}", "{f["name"]}", {f["mapping"]}, &mf::{f["module"]}::{f["name"]}),')
    o.append("];")
    o.append("")
    return "\n".join(o)


def generate(repo):
    mods, mappings, fonts, seen_fonts, seen_mappings, raw_files = scan(repo)
    lean = lean_source(mods, mappings, fonts, seen_fonts, seen_mappings)
    rs = rust_source(fonts)
    rs_path = os.path.join(V, "harness", "src", "font_table.rs")
    old = open(rs_path).read() if os.path.exists(rs_path) else None
    status = "unchanged"
    if old != rs:
        with open(rs_path, "w") as f:
            f.write(rs)
        status = "rewritten"
    info = {
        "fonts_seen": seen_fonts, "fonts_parsed": len(fonts), "modules": len(mods),
        "mappings_seen": seen_mappings, "mappings_parsed": len(mappings),
        "raw_files_on_disk": raw_files, "raw_files_referenced": len({f["raw"] for f in fonts}),
        "replacement_index": mappings[0]["replacement"] if mappings else None,
        "mapping_string_lengths": {mp["const"]: len(mp["data"]) for mp in mappings},
        "harness_font_table": status,
    }
    return {"FontTable.lean": lean}, info


if __name__ == "__main__":
    import json
    import sys
    files, info = generate(os.environ.get("EG_REPO", "/repo"))
    print(json.dumps(info))
    if "--print" in sys.argv:
        print(files["FontTable.lean"][:3000])
