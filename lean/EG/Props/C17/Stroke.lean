/-
  C17 — stroked lines, the geometric sub-claims of the second sentence of the property, stated with
  EXACTLY the metrics of the harness oracle (header of harness/src/m_thick.rs), about the model
  `Thick.thickPoints l w` (= the points of
  `Line::new(s, e).into_styled(PrimitiveStyle::with_stroke(c, w)).pixels()`; EG/Model/ThickLine.lean;
  `thick_points_total` in EG/Props/C17.lean: the model yields a list for every line and width).

  Metrics (integers): s = start, (dx, dy) = `strokeDir l` = end - start, or (1, 0) for a zero-length
  line (the direction the code strokes it in), L2 = dx^2 + dy^2, and for a pixel p, v = p - s:
      dot(p)   = dx v.x + dy v.y        (L * position of the projection of p along the segment)
      cross(p) = dx v.y - dy v.x        (L * signed perpendicular distance from the ideal line)
  These are the definitions `strokeDir`, `dot`, `cross`, `L2`, `majorLen` (= max(|dx|, |dy|)) of
  EG/Lemmas/ThickGeoMetric.lean (namespace `EG.C17.Stroke`).

  How the proofs go (lemma family EG/Lemmas/ThickGeo{Frame,Bres,Side,Run,Main}.lean): a parallel
  started at `P` with initial error `e` is exactly the set of lattice points of the half-open BAND
  `-D < e + ph(q) - ph(P) <= D` (`ph = -+2 cross`, `D = max(|dx|,|dy|)`) in `D + 1` (extra parallel:
  `D`) consecutive columns of the major axis. The phase logic of `next_parallel` (the parallel error
  handed to each parallel, `flip`, `mirror_extra_points`, the error returned for an `Extra`
  parallel) keeps the invariant "a parallel started at the side's perpendicular walker with the
  side's current error is the NEXT band of height 2 D": the bands of the parallels are
  `tau n`, `n = 0, -1, -2, ..` (right; 0 = centre line) and `n = 1, 2, ..` (left), `tau = +-2 D` -
  they tile the plane, whether `Extra` steps are returned or skipped. The walker's own Bresenham
  error is twice its `dot`, so a `Normal` parallel starts within `D/2` of the perpendicular through
  `start` and an `Extra` one between `D/2` and `D/2 + min(|dx|,|dy|)` ahead of it.
-/
import EG.Lemmas.ThickGeoMetric
import EG.Lemmas.ThickGeoHole
import EG.Lemmas.ThickGeoBandMetric
import EG.Lemmas.ThickGeoMid
import EG.Lemmas.ThickGeoDiscountMetric
import EG.Lemmas.ThickGeoMidMetric
import EG.Lemmas.ThickTotal
namespace EG.C17.Stroke
open EG

/-- **A stroked line yields no pixel twice** (oracle class `C17:thick-duplicate`): the pixel
sequence of `pixels()` has no duplicates, for every line (zero length included) and every width. -/
theorem thick_no_pixel_twice (l : Line) (w : Nat) (ps : List Pt)
    (h : Thick.thickPoints l w = some ps) : ps.Nodup :=
  Thick.thickPoints_nodup l w ps h

example : (Thick.thickPoints ⟨⟨2, 2⟩, ⟨6, 4⟩⟩ 3).map (·.length) = some 19 := by decide

/-- Unconditional form. -/
theorem thick_no_pixel_twice_total (l : Line) (w : Nat) :
    ∃ ps, Thick.thickPoints l w = some ps ∧ ps.Nodup := by
  obtain ⟨ps, h⟩ := Thick.thickPoints_total l w
  exact ⟨ps, h, thick_no_pixel_twice l w ps h⟩

/-- Every pixel of a stroked line projects onto the segment or at most HALF A MAJOR STEP beyond
either end: `-max(|dx|,|dy|) <= 2 dot(p)` and `2 (dot(p) - L2) <= max(|dx|,|dy|)` (in pixels:
at most `max(|dx|,|dy|) / (2 L) <= 1/2` beyond an end). -/
theorem thick_ends_half_major_step (l : Line) (w : Nat) (ps : List Pt)
    (h : Thick.thickPoints l w = some ps) (p : Pt) (hp : p ∈ ps) :
    -majorLen l ≤ 2 * dot l p ∧ 2 * (dot l p - L2 l) ≤ majorLen l := by
  have := Thick.thickPoints_dt_bounds l w ps h p hp
  rw [dot_eq, L2_eq, majorLen_eq]
  omega

example : (⟨7, 2⟩ : Pt) ∈ (Thick.thickPoints ⟨⟨2, 2⟩, ⟨6, 4⟩⟩ 3).getD [] := by decide

/-- **A stroked line stays within one pixel of the segment's two ends** (oracle class
`C17:thick-ends`, its exact predicate): for every pixel `p`,
`dot(p) >= 0 or dot(p)^2 <= L2`, and `dot(p) <= L2 or (dot(p) - L2)^2 <= L2`. -/
theorem thick_within_one_pixel_of_ends (l : Line) (w : Nat) (ps : List Pt)
    (h : Thick.thickPoints l w = some ps) (p : Pt) (hp : p ∈ ps) :
    (0 ≤ dot l p ∨ dot l p ^ 2 ≤ L2 l) ∧ (dot l p ≤ L2 l ∨ (dot l p - L2 l) ^ 2 ≤ L2 l) := by
  obtain ⟨h1, h2⟩ := thick_ends_half_major_step l w ps h p hp
  have hD := (Thick.ctxOf_valid l).hD
  have hL : (Thick.ctxOf l).D * (Thick.ctxOf l).D ≤ L2 l := by
    rw [L2_eq]
    have := Int.mul_nonneg (Thick.ctxOf_valid l).hd0 (Thick.ctxOf_valid l).hd0
    omega
  rw [majorLen_eq] at h1 h2
  generalize dot l p = t at *
  generalize L2 l = L at *
  generalize (Thick.ctxOf l).D = D at *
  constructor
  · by_cases h0 : 0 ≤ t
    · exact Or.inl h0
    · right; nlinarith
  · by_cases h0 : t ≤ L
    · exact Or.inl h0
    · right; nlinarith

example : (⟨7, 2⟩ : Pt) ∈ (Thick.thickPoints ⟨⟨2, 2⟩, ⟨6, 4⟩⟩ 3).getD [] := by decide


/-- **A stroked line has no hole** (oracle class `C17:thick-hole`, its exact predicate, for EVERY
such lattice point, not only those of the middle slab): for a line of non-zero length and a width
`2 <= w <= i32::MAX`, every lattice point `q` of the ideal stroke shrunk by one pixel on every side,
    4 cross(q)^2 <= (w - 2)^2 L2                                    (|distance| <= w/2 - 1),
    dot(q) >= 0, dot(q)^2 >= L2, L2 - dot(q) >= 0, (L2 - dot(q))^2 >= L2
                                                (projection at least 1 px inside both ends),
is a stroked pixel. At the middle this is the text's "at least w - 1 pixels wide" read as a SOLID
width: `w - 2` plus one pixel. (Mechanism: the bands of the parallels tile the plane; the
accumulator that ends the iterator exceeds `2 w L` and counts at most `2 max(|dx|,|dy|)` per
parallel, so all bands within `w/2 - 1` of the line have been yielded.) -/
theorem thick_solid (l : Line) (hnd : l.start ≠ l.stop) (w : Nat) (hw : 2 ≤ w) (hw2 : w ≤ 2147483647)
    (ps : List Pt) (h : Thick.thickPoints l w = some ps) (q : Pt)
    (hc : 4 * cross l q ^ 2 ≤ ((w : Int) - 2) ^ 2 * L2 l)
    (hd1 : 0 ≤ dot l q) (hd2 : L2 l ≤ dot l q ^ 2)
    (hd3 : 0 ≤ L2 l - dot l q) (hd4 : L2 l ≤ (L2 l - dot l q) ^ 2) : q ∈ ps := by
  have hD := (Thick.ctxOf_valid l).hD
  have hL : (Thick.ctxOf l).D * (Thick.ctxOf l).D ≤ L2 l := by
    rw [L2_eq]
    have := Int.mul_nonneg (Thick.ctxOf_valid l).hd0 (Thick.ctxOf_valid l).hd0
    omega
  apply Thick.thickPoints_solid l hnd w hw hw2 ps h q
  · rw [ph_sq, ← L2_eq]
    have : ((w : Int) - 2) ^ 2 = ((w : Int) - 2) * ((w : Int) - 2) := by
      rw [Int.pow_succ, Int.pow_succ, Int.pow_zero, Int.one_mul]
    rw [← this]; exact hc
  · rw [← dot_eq]
    by_contra hlt
    have : dot l q * dot l q < (Thick.ctxOf l).D * (Thick.ctxOf l).D := by nlinarith
    have : dot l q ^ 2 = dot l q * dot l q := by
      rw [Int.pow_succ, Int.pow_succ, Int.pow_zero, Int.one_mul]
    omega
  · rw [← dot_eq, ← L2_eq]
    by_contra hlt
    have : (L2 l - dot l q) * (L2 l - dot l q) < (Thick.ctxOf l).D * (Thick.ctxOf l).D := by nlinarith
    have : (L2 l - dot l q) ^ 2 = (L2 l - dot l q) * (L2 l - dot l q) := by
      rw [Int.pow_succ, Int.pow_succ, Int.pow_zero, Int.one_mul]
    omega

example : (⟨2, 2⟩ : Pt) ≠ ⟨6, 4⟩ ∧ (2 : Nat) ≤ 5 ∧
    4 * cross ⟨⟨2, 2⟩, ⟨6, 4⟩⟩ ⟨4, 2⟩ ^ 2 ≤ ((5 : Int) - 2) ^ 2 * L2 ⟨⟨2, 2⟩, ⟨6, 4⟩⟩ ∧
    0 ≤ dot ⟨⟨2, 2⟩, ⟨6, 4⟩⟩ ⟨4, 2⟩ ∧ L2 ⟨⟨2, 2⟩, ⟨6, 4⟩⟩ ≤ dot ⟨⟨2, 2⟩, ⟨6, 4⟩⟩ ⟨4, 2⟩ ^ 2 ∧
    0 ≤ L2 ⟨⟨2, 2⟩, ⟨6, 4⟩⟩ - dot ⟨⟨2, 2⟩, ⟨6, 4⟩⟩ ⟨4, 2⟩ ∧
    L2 ⟨⟨2, 2⟩, ⟨6, 4⟩⟩ ≤ (L2 ⟨⟨2, 2⟩, ⟨6, 4⟩⟩ - dot ⟨⟨2, 2⟩, ⟨6, 4⟩⟩ ⟨4, 2⟩) ^ 2 ∧
    cross ⟨⟨2, 2⟩, ⟨6, 4⟩⟩ ⟨4, 2⟩ = -4 := by decide


/-! ### The band claim "within w/2 + 2.5 pixels of the ideal line"

The claim is false for wide oblique strokes (`thick_band_false` in EG/Props/C17.lean, known finding
`C17:thick-band:wide-stroke-overcount`). What IS true, for every line and width: -/

/-- The band claim of the property text for one stroke (the oracle's predicate `C17:thick-band`). -/
def ThickBand (l : Line) (w : Nat) : Prop :=
  ∀ ps, Thick.thickPoints l w = some ps → ∀ p ∈ ps, 4 * cross l p ^ 2 ≤ ((w : Int) + 5) ^ 2 * L2 l

/-- **The band claim with the overcount made explicit.** `E` = the number of `Extra` parallels the
`ParallelsIterator` of the stroke yields (`Thick.ExtraParallels l w E`; `E` is unique,
`Thick.extraParallels_unique`), `D = max(|dx|,|dy|)`, `d = min(|dx|,|dy|)`. Every pixel `p` satisfies
    t = 4 |cross(p)| - (3 D - d) - 2 (D - d) E,     t <= 0  or  t^2 <= (2 w)^2 L2,
i.e. its distance from the ideal line is at most `w/2 + (3 D - d)/(4 L) + (E/2) (D - d)/L` pixels:
every `Extra` parallel moves the stroke one full band (`D/L` px) outwards but adds only `2 d` instead
of `2 D` to the thickness accumulator. (Remark, arithmetic of the code and not a Lean theorem: the
parallel error of a side satisfies `2 (D - d) e = 2 d sk -+ err`, `e` returned and `sk` skipped
`Extra` steps of that side, `|err| <= D`; so `(E/2) (D - d)/L` is, up to 1/4 px and the difference
between the two sides, the discount `sk(side) min(|dx|,|dy|)/L` of the oracle class
`C17:thick-band:wide-stroke-overcount`. Witness of `thick_band_false`, (0,0)-(2,1) width 37, E = 9:
the bound is 21.07 px, the farthest pixel is at 21.02 px, the text allows 21.) -/
theorem thick_band_overcount_partial (l : Line) (w : Nat) (hw2 : w ≤ 2147483647) (ps : List Pt)
    (h : Thick.thickPoints l w = some ps) :
    ∃ E, Thick.ExtraParallels l w E ∧ 0 ≤ E ∧ ∀ p ∈ ps,
      4 * ((cross l p).natAbs : Int) - (3 * majorLen l - minorLen l) -
          2 * (majorLen l - minorLen l) * E ≤ 0 ∨
      (4 * ((cross l p).natAbs : Int) - (3 * majorLen l - minorLen l) -
          2 * (majorLen l - minorLen l) * E) ^ 2 ≤ (2 * (w : Int)) ^ 2 * L2 l := by
  obtain ⟨E, h1, h2, _, h4⟩ := reach_cross l w hw2 ps h
  refine ⟨E, h1, h2, ?_⟩
  intro p hp
  obtain ⟨a, a1, a2⟩ := h4 p hp
  by_cases ht : 4 * ((cross l p).natAbs : Int) - (3 * majorLen l - minorLen l) -
      2 * (majorLen l - minorLen l) * E ≤ 0
  · exact Or.inl ht
  · exact Or.inr (sq_le_of_le _ a _ (by omega) (by omega) a1)

/-- The line (0,0)-(2,1) of width 37 (the witness of `thick_band_false`): 46 parallels, 9 of them
`Extra` (`Thick.runPar`: the fuel-bounded list of the parallels the iterator yields). -/
example : ((Thick.ParallelsIterator.new ⟨⟨0, 0⟩, ⟨2, 1⟩⟩ 37 .none).map
    (fun it => ((Thick.runPar 100 it).length, Thick.exCount (Thick.runPar 100 it)))) = some (46, 9) ∧
    (37 : Nat) ≤ 2147483647 := by decide


/-- **The band claim holds for every stroke with few `Extra` parallels**: if
`2 (D - d) E <= 7 D + d` (`E` = the number of `Extra` parallels, `Thick.ExtraParallels l w E`) every
pixel is within `w/2 + 2.5` pixels of the ideal line. (For slopes near 1/2, where the overcount is
largest, about 22 % of the parallels are `Extra` and the guard holds up to width ~33; the claim
first fails on the real code at width 34.) -/
theorem thick_band_partial (l : Line) (w : Nat) (hw2 : w ≤ 2147483647) (E : Int)
    (hE : Thick.ExtraParallels l w E)
    (hguard : 2 * (majorLen l - minorLen l) * E ≤ 7 * majorLen l + minorLen l) : ThickBand l w := by
  intro ps h p hp
  obtain ⟨E', h1, _, _, h4⟩ := reach_cross l w hw2 ps h
  have hEE : E' = E := Thick.extraParallels_unique l w E' E h1 hE
  subst hEE
  obtain ⟨a, a1, a2⟩ := h4 p hp
  have hD := (Thick.ctxOf_valid l).hD
  have hd0 := (Thick.ctxOf_valid l).hd0
  have hS : majorLen l * majorLen l ≤ L2 l := by
    rw [L2_eq, majorLen_eq]
    have := Int.mul_nonneg hd0 hd0
    omega
  have hcr : cross l p ^ 2 = ((cross l p).natAbs : Int) ^ 2 := by rw [Int.natAbs_sq]
  rw [hcr]
  exact band_of_reach10 _ a (majorLen l) (L2 l) w (by omega) (by rw [majorLen_eq]; omega) hS
    (by omega) a1 (by omega)

/-- The guard of `thick_band_partial` on the line (0,0)-(7,3), width 9: 11 parallels, 2 `Extra`. -/
example : ((Thick.ParallelsIterator.new ⟨⟨0, 0⟩, ⟨7, 3⟩⟩ 9 .none).map
    (fun it => ((Thick.runPar 100 it).length, Thick.exCount (Thick.runPar 100 it)))) = some (11, 2) ∧
    2 * (majorLen ⟨⟨0, 0⟩, ⟨7, 3⟩⟩ - minorLen ⟨⟨0, 0⟩, ⟨7, 3⟩⟩) * 2 ≤
      7 * majorLen ⟨⟨0, 0⟩, ⟨7, 3⟩⟩ + minorLen ⟨⟨0, 0⟩, ⟨7, 3⟩⟩ := by decide

/-- **The band claim holds for axis-parallel and diagonal lines of every width** (and for
zero-length lines), even with `w/2 + 3/4` in place of `w/2 + 5/2`: these strokes have no `Extra`
parallel (axis-parallel) or count each of them in full (`d = D`, diagonal). -/
theorem thick_band_axis_parallel_or_diagonal (l : Line) (w : Nat) (hw2 : w ≤ 2147483647)
    (hdir : (strokeDir l).x = 0 ∨ (strokeDir l).y = 0 ∨
      (strokeDir l).x.natAbs = (strokeDir l).y.natAbs) :
    ThickBand l w ∧ ∀ ps, Thick.thickPoints l w = some ps → ∀ p ∈ ps,
      16 * cross l p ^ 2 ≤ (2 * (w : Int) + 3) ^ 2 * L2 l := by
  have key : ∀ ps, Thick.thickPoints l w = some ps → ∀ p ∈ ps,
      16 * cross l p ^ 2 ≤ (2 * (w : Int) + 3) ^ 2 * L2 l ∧
      4 * cross l p ^ 2 ≤ ((w : Int) + 5) ^ 2 * L2 l := by
    intro ps h p hp
    obtain ⟨E, _, h2, h3, h4⟩ := reach_cross l w hw2 ps h
    obtain ⟨a, a1, a2⟩ := h4 p hp
    have hD := (Thick.ctxOf_valid l).hD
    have hd0 := (Thick.ctxOf_valid l).hd0
    have hzero : (majorLen l - minorLen l) * E = 0 := by
      by_cases hm : minorLen l = 0
      · rw [h3 hm, Int.mul_zero]
      · have : majorLen l - minorLen l = 0 := by
          unfold majorLen minorLen at *
          omega
        rw [this, Int.zero_mul]
    have hS : majorLen l * majorLen l ≤ L2 l := by
      rw [L2_eq, majorLen_eq]
      have := Int.mul_nonneg hd0 hd0
      omega
    have hcr : cross l p ^ 2 = ((cross l p).natAbs : Int) ^ 2 := by
      rw [Int.natAbs_sq]
    rw [hcr]
    apply band_of_reach _ a (majorLen l) (L2 l) w (by omega) (by rw [majorLen_eq]; omega) hS
      (by omega) a1
    rw [Int.mul_assoc, hzero] at a2
    rw [minorLen_eq] at a2
    omega
  exact ⟨fun ps h p hp => (key ps h p hp).2, fun ps h p hp => (key ps h p hp).1⟩

example : (strokeDir ⟨⟨3, -2⟩, ⟨-4, 5⟩⟩).x.natAbs = (strokeDir ⟨⟨3, -2⟩, ⟨-4, 5⟩⟩).y.natAbs ∧
    (strokeDir ⟨⟨3, -2⟩, ⟨3, 9⟩⟩).x = 0 := by decide


/-! ### The band claim with the skipped `Extra` steps discounted: true for every line and width

`SkippedSteps l w skL skR` (EG/Lemmas/ThickGeoDiscountMetric.lean): `skL` / `skR` are the total numbers
of `Extra` perpendicular steps the `ParallelsIterator` of the stroke takes on its left / right side
WITHOUT returning a parallel (`Thick.skipsFuel` counts the tail calls of the `next_parallel` loop,
`Thick.skipTotals` sums them over the run) - the two counters of the harness port
`joins_port::skipped_extras`. `discountedReach l skL skR p` is the oracle's
`t = 2 |cross(p)| - 2 min(|dx|,|dy|) sk(side(p))`, left side = `cross < 0`. -/

/-- The band claim of the property text after the oracle's discount (class
`C17:thick-band:wide-stroke-overcount`), for one stroke: every pixel is within `w/2 + 2.5` pixels of
the ideal line once the uncounted displacement `min(|dx|,|dy|)/L` per skipped `Extra` step of its
side is subtracted. -/
def ThickBandDiscounted (l : Line) (w : Nat) : Prop :=
  ∃ skL skR, SkippedSteps l w skL skR ∧ ∀ ps, Thick.thickPoints l w = some ps → ∀ p ∈ ps,
    discountedReach l skL skR p ≤ 0 ∨
    discountedReach l skL skR p ^ 2 ≤ ((w : Int) + 5) ^ 2 * L2 l

/-- The oracle's attribution predicate (`explained` in `thick_oracle`, harness/src/m_thick.rs): a band
failure is filed under the known finding `C17:thick-band:wide-stroke-overcount` only if, after the
discount, every pixel is within `w/2 + 1.5` pixels of the ideal line (tighter than the text's 2.5). -/
def ThickBandOvercountExplained (l : Line) (w : Nat) : Prop :=
  ∃ skL skR, SkippedSteps l w skL skR ∧ ∀ ps, Thick.thickPoints l w = some ps → ∀ p ∈ ps,
    discountedReach l skL skR p ≤ 0 ∨
    discountedReach l skL skR p ^ 2 ≤ ((w : Int) + 3) ^ 2 * L2 l

/-- **With the skipped `Extra` steps of its side discounted, every pixel of every stroked line is
within `w/2 + 1.25` pixels of the ideal line** - hence within the oracle's attribution tolerance
`w/2 + 1.5` and the text's `w/2 + 2.5` - for every line (zero length included) and every width
`<= i32::MAX`: with `t = 2 |cross(p)| - 2 min(|dx|,|dy|) sk(side(p))`,
`t <= 0`, or `(2 t)^2 <= (2 w + 5)^2 L2`, `t^2 <= (w + 3)^2 L2` and `t^2 <= (w + 5)^2 L2`.
This is the exact account of the known finding: the only way a stroke leaves the band of the text is
by `min(|dx|,|dy|)/L` pixels per skipped step (`skipped_step_not_counted`, `next_adds_one_step` in
EG/Props/C17.lean); measured on the real code the discounted excess reaches 1.14 px, the bound 1.25
leaves 0.11 px.
(Mechanism of the proof, EG/Lemmas/ThickGeoDiscount.lean: per side, with `N` / `E` returned `Normal` /
`Extra` parallels and `S` skipped steps, the side's parallel error is `+-(2 d (E + S) - 2 D E)` and its
walker error `+-(2 d N - 2 D (E + S))`, both bounded by about `D`; so a pixel of the side's `n`-th
band, `|2 cross| <= 2 D n + D`, has `|2 cross| - 2 d S <=` the side's share `2 D N + 2 d E` of the
accumulator `+ D -+ err`; the shares of the two sides differ by `2 (D - d) z`, `z` the difference of
their numbers of `Extra` parallels, `|z| <= 1` by an exact identity; and the accumulator is at most
`2 w L` when the parallel is fetched: `2 t <= 2 w L + 5 D - d`.) -/
theorem thick_band_with_skipped_discount (l : Line) (w : Nat) (hw2 : w ≤ 2147483647) :
    ∃ skL skR, SkippedSteps l w skL skR ∧ ∀ ps, Thick.thickPoints l w = some ps → ∀ p ∈ ps,
      discountedReach l skL skR p ≤ 0 ∨
      (4 * discountedReach l skL skR p ^ 2 ≤ (2 * (w : Int) + 5) ^ 2 * L2 l ∧
       discountedReach l skL skR p ^ 2 ≤ ((w : Int) + 3) ^ 2 * L2 l ∧
       discountedReach l skL skR p ^ 2 ≤ ((w : Int) + 5) ^ 2 * L2 l) := by
  obtain ⟨ps0, h0⟩ := Thick.thickPoints_total l w
  obtain ⟨skL, skR, hsk, hall⟩ := discount_cross l w hw2 ps0 h0
  refine ⟨skL, skR, hsk, ?_⟩
  intro ps h p hp
  rw [h0] at h
  simp only [Option.some.injEq] at h
  subst h
  obtain ⟨A, hA0, hA, ht⟩ := hall p hp
  have hD := (Thick.ctxOf_valid l).hD
  have hd0 := (Thick.ctxOf_valid l).hd0
  have hS : majorLen l * majorLen l ≤ L2 l := by
    rw [L2_eq, majorLen_eq]
    have := Int.mul_nonneg hd0 hd0
    omega
  exact disc_band _ A (majorLen l) (L2 l) w (by rw [majorLen_eq]; omega) hS (by omega) hA0 hA
    (by rw [minorLen_eq] at ht; omega)

/-- The discounted band claim of the text holds for every stroke. -/
theorem thick_band_discounted_all (l : Line) (w : Nat) (hw2 : w ≤ 2147483647) :
    ThickBandDiscounted l w := by
  obtain ⟨skL, skR, hsk, hall⟩ := thick_band_with_skipped_discount l w hw2
  refine ⟨skL, skR, hsk, fun ps h p hp => ?_⟩
  rcases hall ps h p hp with ht | ⟨_, _, ht⟩
  · exact Or.inl ht
  · exact Or.inr ht

example : (120 : Nat) ≤ 2147483647 := by decide

/-- **Every band failure is the known finding**: the oracle's attribution predicate holds for every
stroke, so on the model a pixel outside `w/2 + 2.5` is always explained by skipped steps (the class
`C17:thick-band` without suffix never fires for a stroke that conforms to the model, at any width). -/
theorem thick_band_overcount_explained_all (l : Line) (w : Nat) (hw2 : w ≤ 2147483647) :
    ThickBandOvercountExplained l w := by
  obtain ⟨skL, skR, hsk, hall⟩ := thick_band_with_skipped_discount l w hw2
  refine ⟨skL, skR, hsk, fun ps h p hp => ?_⟩
  rcases hall ps h p hp with ht | ⟨_, ht, _⟩
  · exact Or.inl ht
  · exact Or.inr ht

/-- E.g. the first failing stroke of the real code, (119,57)-(-119,-52) width 34: 4 / 4 skipped steps. -/
example : (34 : Nat) ≤ 2147483647 ∧
    ((Thick.ParallelsIterator.new ⟨⟨119, 57⟩, ⟨-119, -52⟩⟩ 34 .none).bind (Thick.skipTotals 100)) = some (4, 4) := by
  decide

/-- The witness of `thick_band_false`, line (0,0)-(2,1) width 37: 5 / 4 `Extra` steps are skipped on
the left / right side (the harness port reports the same counts for the real code), the pixel (9,-19)
at `cross = -47` (21.02 px, outside the text's 21) has `t = 2 * 47 - 2 * 1 * 5 = 84`, and
`84^2 = 7056 <= (37 + 5)^2 * 5 = 8820` (18.78 px after the discount). -/
example : (37 : Nat) ≤ 2147483647 ∧
    ((Thick.ParallelsIterator.new ⟨⟨0, 0⟩, ⟨2, 1⟩⟩ 37 .none).bind (Thick.skipTotals 100)) = some (5, 4) ∧
    discountedReach ⟨⟨0, 0⟩, ⟨2, 1⟩⟩ 5 4 ⟨9, -19⟩ = 84 := by decide

/-- The skipped-step counts of a stroke are unique. -/
theorem skipped_steps_unique (l : Line) (w : Nat) (a b a' b' : Nat) (h : SkippedSteps l w a b)
    (h' : SkippedSteps l w a' b') : a = a' ∧ b = b' := skippedSteps_unique l w a b a' b' h h'

example : SkippedSteps ⟨⟨0, 0⟩, ⟨2, 1⟩⟩ 37 5 4 :=
  ⟨_, 100, rfl, by decide⟩


/-! ### "At least w - 1 pixels wide at its middle" as the extent of the middle slab -/

/-- `p` lies in the middle slab of the oracle: its projection is within one pixel of the midpoint
of the segment, `(2 dot(p) - L2)^2 <= 4 L2`. -/
def InMiddle (l : Line) (p : Pt) : Prop := (2 * dot l p - L2 l) ^ 2 ≤ 4 * L2 l

/-- The oracle's predicate `C17:thick-middle-width` for one stroke: the middle slab is not empty
and, for `w >= 3`, its perpendicular extent is at least `w - 2` (the width counted in pixels is
the extent plus one): `(max cross - min cross)^2 >= (w - 2)^2 L2`. NOT proved at this strength (see
`thick_middle_width_partial`); carried by correspondence + oracle. -/
def ThickMiddleWidth (l : Line) (w : Nat) : Prop :=
  ∀ ps, Thick.thickPoints l w = some ps → ∃ p ∈ ps, ∃ q ∈ ps, InMiddle l p ∧ InMiddle l q ∧
    (3 ≤ w → ((w : Int) - 2) ^ 2 * L2 l ≤ (cross l p - cross l q) ^ 2)

/-- **The middle slab of a stroked line is not empty and its perpendicular extent is at least
`w - 3`** (one pixel less than the oracle's `ThickMiddleWidth` demands), for every line of non-zero
length and every width `1 <= w <= i32::MAX`: every parallel has a pixel in the middle slab, the
pixels of the outermost left and right parallels are more than `D (N - 2)` apart in `cross`
(`N` parallels, `D = max(|dx|,|dy|)`), and `D + d + 2 D N >= accumulator > 2 w L`. -/
theorem thick_middle_width_partial (l : Line) (hnd : l.start ≠ l.stop) (w : Nat) (hw : 1 ≤ w)
    (hw2 : w ≤ 2147483647) (ps : List Pt) (h : Thick.thickPoints l w = some ps) :
    ∃ p ∈ ps, ∃ q ∈ ps, InMiddle l p ∧ InMiddle l q ∧
      (3 ≤ w → ((w : Int) - 3) ^ 2 * L2 l ≤ (cross l p - cross l q) ^ 2) := by
  obtain ⟨p, hp, q, hq, m1, m2, hext⟩ := Thick.thickPoints_mid_extent l hnd w hw hw2 ps h
  refine ⟨p, hp, q, hq, ?_, ?_, ?_⟩
  · unfold InMiddle
    unfold Thick.MidP Thick.StrokeCtx.tmid at m1
    rw [dot_eq, L2_eq]
    have : ∀ t : Int, t ^ 2 = t * t := fun t => by ring
    rw [this]; exact m1
  · unfold InMiddle
    unfold Thick.MidP Thick.StrokeCtx.tmid at m2
    rw [dot_eq, L2_eq]
    have : ∀ t : Int, t ^ 2 = t * t := fun t => by ring
    rw [this]; exact m2
  · intro hw3
    have h1 := hext hw3
    rw [← L2_eq] at h1
    have hX : ((Thick.ctxOf l).ph p - (Thick.ctxOf l).ph q) * ((Thick.ctxOf l).ph p - (Thick.ctxOf l).ph q) =
        4 * (cross l p - cross l q) ^ 2 := by
      have e : (Thick.ctxOf l).ph p - (Thick.ctxOf l).ph q =
          ((Thick.ctxOf l).ph p - (Thick.ctxOf l).ph l.start) -
          ((Thick.ctxOf l).ph q - (Thick.ctxOf l).ph l.start) := by omega
      rw [e]
      rcases ph_cross_uniform l with hu | hu <;> rw [hu p, hu q] <;> ring
    rw [hX] at h1
    have e2 : (2 * (w : Int) - 6) * (2 * (w : Int) - 6) * L2 l = 4 * (((w : Int) - 3) ^ 2 * L2 l) := by
      ring
    omega

example : (⟨2, 2⟩ : Pt) ≠ ⟨6, 4⟩ ∧ (1 : Nat) ≤ 5 ∧ (5 : Nat) ≤ 2147483647 ∧
    InMiddle ⟨⟨2, 2⟩, ⟨6, 4⟩⟩ ⟨4, 3⟩ := by unfold InMiddle; decide

/-! #### Where the full extent `w - 2` is proved

`ThickMiddleWidth` has no slack in general: on the lines (0,0)-(D,1) with `w = 2 D` the extent is
`D (N - 2) + 2` (in `cross` units, `N = w` parallels) against the demanded `(w - 2) L`, a margin of
`(1 + 1/D)/L` px - 0.052 px for D = 20, 0.0084 px for D = 120, tending to 0 - because the middle slab
holds the single minor step of every parallel: of the outermost left parallel it shows only the low
phase, of the outermost right one only the high phase, so almost two full bands are lost. No failure
exists for max(|dx|,|dy|) <= 60, w <= 40 (all octants), for min <= 8, max <= 120, w <= 6 max/min + 10,
for max <= 40, w <= 400 (searched on the real code), nor in the oracle's runs. Three regimes in which
the claim follows from the band structure and the accumulator alone: -/

/-- **Axis-parallel and diagonal lines of every width are at least `w - 1` pixels wide at their
middle** (`ThickMiddleWidth`, the oracle's predicate `C17:thick-middle-width`): all pixels have
`cross` a multiple of `max(|dx|,|dy|)`, the outermost parallels are exactly `D (N - 1)` apart, and
`D + d + 2 D N > 2 w L`. -/
theorem thick_middle_width_axis_parallel_or_diagonal (l : Line) (hnd : l.start ≠ l.stop) (w : Nat)
    (hw : 1 ≤ w) (hw2 : w ≤ 2147483647)
    (hdir : (strokeDir l).x = 0 ∨ (strokeDir l).y = 0 ∨
      (strokeDir l).x.natAbs = (strokeDir l).y.natAbs) : ThickMiddleWidth l w := by
  intro ps h
  by_cases hw3 : 3 ≤ w
  · have hreg : (Thick.ctxOf l).d = 0 ∨ (Thick.ctxOf l).d = (Thick.ctxOf l).D := by
      rw [← minorLen_eq, ← majorLen_eq]
      unfold majorLen minorLen
      omega
    obtain ⟨p, hp, q, hq, m1, m2, hext⟩ :=
      Thick.thickPoints_mid_extent_axis l hnd w (by omega) hw2 ps h hreg
    obtain ⟨g1, g2, g3⟩ := mid_metric l p q w m1 m2 hext
    exact ⟨p, hp, q, hq, g1, g2, fun _ => g3⟩
  · obtain ⟨p, hp, q, hq, g1, g2, _⟩ := thick_middle_width_partial l hnd w hw hw2 ps h
    exact ⟨p, hp, q, hq, g1, g2, fun hc => absurd hc hw3⟩

example : (⟨3, -2⟩ : Pt) ≠ ⟨-4, 5⟩ ∧
    (strokeDir ⟨⟨3, -2⟩, ⟨-4, 5⟩⟩).x.natAbs = (strokeDir ⟨⟨3, -2⟩, ⟨-4, 5⟩⟩).y.natAbs ∧
    (1 : Nat) ≤ 40 ∧ (40 : Nat) ≤ 2147483647 := by decide

/-- **Strokes with enough `Extra` parallels are at least `w - 1` pixels wide at their middle**:
if `Y = 5 D + d - 2 (D - d) E` is at most `4 L` (`Y <= 0` or `Y^2 <= 16 L2`; `E` = the number of `Extra`
parallels, `Thick.ExtraParallels l w E`), `ThickMiddleWidth` holds: every `Extra` parallel adds a full
band to the stroke but only `2 d` to the accumulator. (For slopes around 1/2 two `Extra` parallels
suffice, i.e. widths from about 10.) -/
theorem thick_middle_width_extras_partial (l : Line) (hnd : l.start ≠ l.stop) (w : Nat) (hw : 1 ≤ w)
    (hw2 : w ≤ 2147483647) (E : Int) (hE : Thick.ExtraParallels l w E)
    (hguard : 5 * majorLen l + minorLen l - 2 * (majorLen l - minorLen l) * E ≤ 0 ∨
      (5 * majorLen l + minorLen l - 2 * (majorLen l - minorLen l) * E) ^ 2 ≤ 16 * L2 l) :
    ThickMiddleWidth l w := by
  intro ps h
  by_cases hw3 : 3 ≤ w
  · have hsq : ∀ t : Int, t ^ 2 = t * t := fun t => by ring
    rw [majorLen_eq, minorLen_eq, L2_eq, hsq] at hguard
    obtain ⟨p, hp, q, hq, m1, m2, hext⟩ :=
      Thick.thickPoints_mid_extent_extras l hnd w (by omega) hw2 ps h E hE hguard
    obtain ⟨g1, g2, g3⟩ := mid_metric l p q w m1 m2 hext
    exact ⟨p, hp, q, hq, g1, g2, fun _ => g3⟩
  · obtain ⟨p, hp, q, hq, g1, g2, _⟩ := thick_middle_width_partial l hnd w hw hw2 ps h
    exact ⟨p, hp, q, hq, g1, g2, fun hc => absurd hc hw3⟩

/-- The guard of `thick_middle_width_extras_partial` on the line (0,0)-(7,3), width 12: 2 `Extra`
parallels, `Y = 35 + 3 - 2 * 4 * 2 = 22`, `22^2 = 484 <= 16 * 58 = 928`. -/
example : ((Thick.ParallelsIterator.new ⟨⟨0, 0⟩, ⟨7, 3⟩⟩ 12 .none).map
    (fun it => Thick.exCount (Thick.runPar 100 it))) = some 2 ∧
    (5 * majorLen ⟨⟨0, 0⟩, ⟨7, 3⟩⟩ + minorLen ⟨⟨0, 0⟩, ⟨7, 3⟩⟩ -
      2 * (majorLen ⟨⟨0, 0⟩, ⟨7, 3⟩⟩ - minorLen ⟨⟨0, 0⟩, ⟨7, 3⟩⟩) * 2) ^ 2 ≤
      16 * L2 ⟨⟨0, 0⟩, ⟨7, 3⟩⟩ := by decide

/-- **Flat thin strokes, `(w - 2) min(|dx|,|dy|)^2 <= 2 max(|dx|,|dy|)`, are at least `w - 1` pixels
wide at their middle**: there are at least `w` parallels, and the extent of the middle slab in
`2 cross` is an even number above `2 D (N - 2)`. This regime contains the tightest lines known,
(0,0)-(D,1) with `w = 2 D`. -/
theorem thick_middle_width_flat_partial (l : Line) (hnd : l.start ≠ l.stop) (w : Nat) (hw : 1 ≤ w)
    (hw2 : w ≤ 2147483647)
    (hguard : ((w : Int) - 2) * minorLen l ^ 2 ≤ 2 * majorLen l) : ThickMiddleWidth l w := by
  intro ps h
  by_cases hw3 : 3 ≤ w
  · have hsq : ∀ t : Int, t ^ 2 = t * t := fun t => by ring
    rw [majorLen_eq, minorLen_eq, hsq] at hguard
    obtain ⟨p, hp, q, hq, m1, m2, hext⟩ :=
      Thick.thickPoints_mid_extent_flat l hnd w (by omega) hw2 ps h hguard
    obtain ⟨g1, g2, g3⟩ := mid_metric l p q w m1 m2 hext
    exact ⟨p, hp, q, hq, g1, g2, fun _ => g3⟩
  · obtain ⟨p, hp, q, hq, g1, g2, _⟩ := thick_middle_width_partial l hnd w hw hw2 ps h
    exact ⟨p, hp, q, hq, g1, g2, fun hc => absurd hc hw3⟩

/-- The tightest line of the searched range, (0,0)-(20,1) width 40 (margin 0.052 px), is in the flat
regime: `38 * 1 <= 40`. -/
example : (⟨0, 0⟩ : Pt) ≠ ⟨20, 1⟩ ∧
    ((40 : Int) - 2) * minorLen ⟨⟨0, 0⟩, ⟨20, 1⟩⟩ ^ 2 ≤ 2 * majorLen ⟨⟨0, 0⟩, ⟨20, 1⟩⟩ := by decide

end EG.C17.Stroke
