/-
  C17 — stroked lines, the geometric sub-claims of the second sentence of the property, stated with
  EXACTLY the metrics of the harness oracle (header of harness/src/m_thick.rs), about the model
  `Thick.thickPoints l w` (= the points of
  `Line::new(s, e).into_styled(PrimitiveStyle::with_stroke(c, w)).pixels()`; EG/Model/ThickLine.lean;
  `thick_points_total` in EG/Props/C17.lean: the model yields a list for every line and width).

  Metrics (integers): s = start, (dx, dy) = `strokeDir l` = end - start, or (1, 0) for a zero-length
  line (the direction the code strokes it in), L2 = dx^2 + dy^2, and for a pixel p, v = p - s:
      dot(p)   = dx v.x + dy v.y        (L * position of the projection of p along the segment)
      cross(p) = dx v.y - dy v.x        (L * signed perpendicular distance from the ideal line)
  These are the definitions `strokeDir`, `dot`, `cross`, `L2`, `majorLen` (= max(|dx|, |dy|)) of
  EG/Lemmas/ThickGeoMetric.lean (namespace `EG.C17.Stroke`).

  How the proofs go (lemma family EG/Lemmas/ThickGeo{Frame,Bres,Side,Run,Main}.lean): a parallel
  started at `P` with initial error `e` is exactly the set of lattice points of the half-open BAND
  `-D < e + ph(q) - ph(P) <= D` (`ph = -+2 cross`, `D = max(|dx|,|dy|)`) in `D + 1` (extra parallel:
  `D`) consecutive columns of the major axis. The phase logic of `next_parallel` (the parallel error
  handed to each parallel, `flip`, `mirror_extra_points`, the error returned for an `Extra`
  parallel) keeps the invariant "a parallel started at the side's perpendicular walker with the
  side's current error is the NEXT band of height 2 D": the bands of the parallels are
  `tau n`, `n = 0, -1, -2, ..` (right; 0 = centre line) and `n = 1, 2, ..` (left), `tau = +-2 D` -
  they tile the plane, whether `Extra` steps are returned or skipped. The walker's own Bresenham
  error is twice its `dot`, so a `Normal` parallel starts within `D/2` of the perpendicular through
  `start` and an `Extra` one between `D/2` and `D/2 + min(|dx|,|dy|)` ahead of it.
-/
import EG.Lemmas.ThickGeoMetric
import EG.Lemmas.ThickGeoHole
import EG.Lemmas.ThickTotal
namespace EG.C17.Stroke
open EG

/-- **A stroked line yields no pixel twice** (oracle class `C17:thick-duplicate`): the pixel
sequence of `pixels()` has no duplicates, for every line (zero length included) and every width. -/
theorem thick_no_pixel_twice (l : Line) (w : Nat) (ps : List Pt)
    (h : Thick.thickPoints l w = some ps) : ps.Nodup :=
  Thick.thickPoints_nodup l w ps h

example : (Thick.thickPoints ⟨⟨2, 2⟩, ⟨6, 4⟩⟩ 3).map (·.length) = some 19 := by decide

/-- Unconditional form. -/
theorem thick_no_pixel_twice_total (l : Line) (w : Nat) :
    ∃ ps, Thick.thickPoints l w = some ps ∧ ps.Nodup := by
  obtain ⟨ps, h⟩ := Thick.thickPoints_total l w
  exact ⟨ps, h, thick_no_pixel_twice l w ps h⟩

/-- Every pixel of a stroked line projects onto the segment or at most HALF A MAJOR STEP beyond
either end: `-max(|dx|,|dy|) <= 2 dot(p)` and `2 (dot(p) - L2) <= max(|dx|,|dy|)` (in pixels:
at most `max(|dx|,|dy|) / (2 L) <= 1/2` beyond an end). -/
theorem thick_ends_half_major_step (l : Line) (w : Nat) (ps : List Pt)
    (h : Thick.thickPoints l w = some ps) (p : Pt) (hp : p ∈ ps) :
    -majorLen l ≤ 2 * dot l p ∧ 2 * (dot l p - L2 l) ≤ majorLen l := by
  have := Thick.thickPoints_dt_bounds l w ps h p hp
  rw [dot_eq, L2_eq, majorLen_eq]
  omega

example : (⟨7, 2⟩ : Pt) ∈ (Thick.thickPoints ⟨⟨2, 2⟩, ⟨6, 4⟩⟩ 3).getD [] := by decide

/-- **A stroked line stays within one pixel of the segment's two ends** (oracle class
`C17:thick-ends`, its exact predicate): for every pixel `p`,
`dot(p) >= 0 or dot(p)^2 <= L2`, and `dot(p) <= L2 or (dot(p) - L2)^2 <= L2`. -/
theorem thick_within_one_pixel_of_ends (l : Line) (w : Nat) (ps : List Pt)
    (h : Thick.thickPoints l w = some ps) (p : Pt) (hp : p ∈ ps) :
    (0 ≤ dot l p ∨ dot l p ^ 2 ≤ L2 l) ∧ (dot l p ≤ L2 l ∨ (dot l p - L2 l) ^ 2 ≤ L2 l) := by
  obtain ⟨h1, h2⟩ := thick_ends_half_major_step l w ps h p hp
  have hD := (Thick.ctxOf_valid l).hD
  have hL : (Thick.ctxOf l).D * (Thick.ctxOf l).D ≤ L2 l := by
    rw [L2_eq]
    have := Int.mul_nonneg (Thick.ctxOf_valid l).hd0 (Thick.ctxOf_valid l).hd0
    omega
  rw [majorLen_eq] at h1 h2
  generalize dot l p = t at *
  generalize L2 l = L at *
  generalize (Thick.ctxOf l).D = D at *
  constructor
  · by_cases h0 : 0 ≤ t
    · exact Or.inl h0
    · right; nlinarith
  · by_cases h0 : t ≤ L
    · exact Or.inl h0
    · right; nlinarith

example : (⟨7, 2⟩ : Pt) ∈ (Thick.thickPoints ⟨⟨2, 2⟩, ⟨6, 4⟩⟩ 3).getD [] := by decide


/-- **A stroked line has no hole** (oracle class `C17:thick-hole`, its exact predicate, for EVERY
such lattice point, not only those of the middle slab): for a line of non-zero length and a width
`2 <= w <= i32::MAX`, every lattice point `q` of the ideal stroke shrunk by one pixel on every side,
    4 cross(q)^2 <= (w - 2)^2 L2                                    (|distance| <= w/2 - 1),
    dot(q) >= 0, dot(q)^2 >= L2, L2 - dot(q) >= 0, (L2 - dot(q))^2 >= L2
                                                (projection at least 1 px inside both ends),
is a stroked pixel. At the middle this is the text's "at least w - 1 pixels wide" read as a SOLID
width: `w - 2` plus one pixel. (Mechanism: the bands of the parallels tile the plane; the
accumulator that ends the iterator exceeds `2 w L` and counts at most `2 max(|dx|,|dy|)` per
parallel, so all bands within `w/2 - 1` of the line have been yielded.) -/
theorem thick_solid (l : Line) (hnd : l.start ≠ l.stop) (w : Nat) (hw : 2 ≤ w) (hw2 : w ≤ 2147483647)
    (ps : List Pt) (h : Thick.thickPoints l w = some ps) (q : Pt)
    (hc : 4 * cross l q ^ 2 ≤ ((w : Int) - 2) ^ 2 * L2 l)
    (hd1 : 0 ≤ dot l q) (hd2 : L2 l ≤ dot l q ^ 2)
    (hd3 : 0 ≤ L2 l - dot l q) (hd4 : L2 l ≤ (L2 l - dot l q) ^ 2) : q ∈ ps := by
  have hD := (Thick.ctxOf_valid l).hD
  have hL : (Thick.ctxOf l).D * (Thick.ctxOf l).D ≤ L2 l := by
    rw [L2_eq]
    have := Int.mul_nonneg (Thick.ctxOf_valid l).hd0 (Thick.ctxOf_valid l).hd0
    omega
  apply Thick.thickPoints_solid l hnd w hw hw2 ps h q
  · rw [ph_sq, ← L2_eq]
    have : ((w : Int) - 2) ^ 2 = ((w : Int) - 2) * ((w : Int) - 2) := by
      rw [Int.pow_succ, Int.pow_succ, Int.pow_zero, Int.one_mul]
    rw [← this]; exact hc
  · rw [← dot_eq]
    by_contra hlt
    have : dot l q * dot l q < (Thick.ctxOf l).D * (Thick.ctxOf l).D := by nlinarith
    have : dot l q ^ 2 = dot l q * dot l q := by
      rw [Int.pow_succ, Int.pow_succ, Int.pow_zero, Int.one_mul]
    omega
  · rw [← dot_eq, ← L2_eq]
    by_contra hlt
    have : (L2 l - dot l q) * (L2 l - dot l q) < (Thick.ctxOf l).D * (Thick.ctxOf l).D := by nlinarith
    have : (L2 l - dot l q) ^ 2 = (L2 l - dot l q) * (L2 l - dot l q) := by
      rw [Int.pow_succ, Int.pow_succ, Int.pow_zero, Int.one_mul]
    omega

example : (⟨2, 2⟩ : Pt) ≠ ⟨6, 4⟩ ∧ (2 : Nat) ≤ 5 ∧
    4 * cross ⟨⟨2, 2⟩, ⟨6, 4⟩⟩ ⟨4, 2⟩ ^ 2 ≤ ((5 : Int) - 2) ^ 2 * L2 ⟨⟨2, 2⟩, ⟨6, 4⟩⟩ ∧
    0 ≤ dot ⟨⟨2, 2⟩, ⟨6, 4⟩⟩ ⟨4, 2⟩ ∧ L2 ⟨⟨2, 2⟩, ⟨6, 4⟩⟩ ≤ dot ⟨⟨2, 2⟩, ⟨6, 4⟩⟩ ⟨4, 2⟩ ^ 2 ∧
    0 ≤ L2 ⟨⟨2, 2⟩, ⟨6, 4⟩⟩ - dot ⟨⟨2, 2⟩, ⟨6, 4⟩⟩ ⟨4, 2⟩ ∧
    L2 ⟨⟨2, 2⟩, ⟨6, 4⟩⟩ ≤ (L2 ⟨⟨2, 2⟩, ⟨6, 4⟩⟩ - dot ⟨⟨2, 2⟩, ⟨6, 4⟩⟩ ⟨4, 2⟩) ^ 2 ∧
    cross ⟨⟨2, 2⟩, ⟨6, 4⟩⟩ ⟨4, 2⟩ = -4 := by decide

end EG.C17.Stroke
