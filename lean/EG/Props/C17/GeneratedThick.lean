/-
  C17 — the REGENERATED model of the stroked line (`ParallelsIterator`, `ThickPoints`) equals the hand-written one.

  `EG/Generated/ThickSrc.lean` is written by `tools/tr_linesrc.py` from /repo's src/primitives/line/thick_points.rs on
  every run of a check: `ParallelsIterator::next_parallel` (its `loop`, the `&mut i32` alias `error` chosen by
  `match side`, the calls of `increase_error` / `decrease_error` through it), `ParallelsIterator::new` (the `i64`
  thickness threshold `(i64::from(thickness) * 2).pow(2) * i64::from(length_squared)`, the accumulator start, `flip`,
  the skipped centre line), its `Iterator::next` (the test `i64::from(acc).pow(2) > threshold`, the accumulator update per
  `Normal` / `Extra` parallel, the side swap), `ThickPoints::new`, its `Iterator::next` (`loop`, `?`), the constant
  `HORIZONTAL_LINE`, `LineSide::swap`, `PointExt::length_squared`. A function that contains a `loop` or calls one takes
  `fuel` and returns `Option` (`none` = out of fuel), exactly like the hand model EG/Model/ThickLine.lean.

  This file proves each generated definition equal to the hand model: `next_parallel_src_eq_model` for EVERY fuel,
  the others at the hand model's loop bound `loopFuel` (the fuel the hand model itself uses; `thick_points_total` says it
  is never exhausted), then that the collected pixel list is the model's `Thick.thickPoints`
  (`thick_points_src_eq_model`), and restates C17's stroked-line theorems over the regenerated functions (`src_thick_*`,
  `src_next_adds_one_step`, `src_skipped_step_not_counted`: the mechanism of the known finding read off the source).

  Proof pattern for a loop: the generated `while_loop fuel (fun _ => true) body` is compared with the hand model's
  recursion through ONE-ITERATION functions written here in the model's vocabulary (`npStep`, `tpStep`):
  `while_loop_congr` (the body only matters pointwise) + `body = step` by unfolding + `step`-loop = model recursion by
  induction on the fuel.

  Where the two differ (stated exactly):
  * `x.pow(2)` is `x ^ 2` in the prelude and `x * x` in the hand model (`int_sq`); `/ 2` is `Int.tdiv` vs `tdiv2`.
  * Rust's `ThickPoints::next` returns `(None, self)` where the hand model's `nextFuel` returns `some none` (`tpView`).
  * `StyledPixelsIterator::new` (styled.rs: nothing for width 0, `stroke_width.saturating_as()`) is NOT regenerated;
    `srcThickPoints` transcribes it as the hand model does.
-/
import EG.Generated.ThickSrc
import EG.Props.C17.GeneratedLine
namespace EG.C17.Src
open EG EG.Line EG.Thick EG.RectSrcPrelude EG.LineSrcPrelude EG.ThickSrcPrelude EG.Generated

/-- unfold every prelude primitive of the thick part (and the listed definitions) -/
macro "thick_simp" "[" ls:Lean.Parser.Tactic.simpLemma,* "]" loc:(Lean.Parser.Tactic.location)? : tactic =>
  `(tactic| simp only [Point_mk, Point_x, Point_y, Point_set_x, Point_set_y,
      i32_add, i32_sub, i32_mul, i32_div, i32_neg, i32_min, i32_max, i32_abs,
      i32_eq, i32_ne, i32_lt, i32_le, i32_gt, i32_ge, i32_as_u32,
      u32_add, u32_sub, u32_eq, u32_ne, u32_lt, u32_le, u32_gt, u32_ge, bool_and, bool_or, bool_not,
      Line_mk, Line_start, Line_end, Line_set_start, Line_set_end,
      MajorMinor_i32_mk, MajorMinor_i32_major, MajorMinor_i32_minor,
      MajorMinor_Point_mk, MajorMinor_Point_major, MajorMinor_Point_minor,
      BresenhamParameters_mk, BresenhamParameters_error_threshold,
      BresenhamParameters_error_step, BresenhamParameters_position_step, Bresenham_mk, Bresenham_point,
      Bresenham_error, Bresenham_set_point, Bresenham_set_error, BresenhamPoint_Normal, BresenhamPoint_Extra,
      LineSide.Left, LineSide.Right, StrokeOffset.None, StrokeOffset.Left, StrokeOffset.Right,
      ParallelLineType.Normal, ParallelLineType.Extra,
      ParallelsIterator_mk, ParallelsIterator_parallel_parameters, ParallelsIterator_perpendicular_parameters,
      ParallelsIterator_thickness_accumulator, ParallelsIterator_thickness_threshold, ParallelsIterator_flip,
      ParallelsIterator_left, ParallelsIterator_left_error, ParallelsIterator_right, ParallelsIterator_right_error,
      ParallelsIterator_next_side, ParallelsIterator_stroke_offset,
      ParallelsIterator_set_parallel_parameters, ParallelsIterator_set_perpendicular_parameters,
      ParallelsIterator_set_thickness_accumulator, ParallelsIterator_set_thickness_threshold, ParallelsIterator_set_flip,
      ParallelsIterator_set_left, ParallelsIterator_set_left_error, ParallelsIterator_set_right,
      ParallelsIterator_set_right_error, ParallelsIterator_set_next_side, ParallelsIterator_set_stroke_offset,
      ThickPoints_mk, ThickPoints_parallel, ThickPoints_parallel_length, ThickPoints_parallel_points_remaining,
      ThickPoints_iter, ThickPoints_set_parallel, ThickPoints_set_parallel_length,
      ThickPoints_set_parallel_points_remaining, ThickPoints_set_iter,
      i64_from_i32, i64_from_u32, i64_add, i64_sub, i64_mul, i64_pow, i32_pow, i64_eq, i64_ne, i64_lt, i64_le, i64_gt,
      i64_ge, struct_eq, struct_ne, $ls,*] $[$loc]?)

theorem LineSide_swap_src_eq_model (s : Thick.LineSide) : ThickSrc.LineSide_swap s = s.swap := by
  cases s <;> rfl

theorem HORIZONTAL_LINE_src_eq_model : ThickSrc.HORIZONTAL_LINE = Thick.horizontalLine := rfl

theorem Point_neg_src_eq_model (p : Pt) : ThickSrc.Point_op_neg p = -p := rfl

theorem int_sq (a : Int) : a ^ 2 = a * a := by
  rw [show (2 : Nat) = 1 + 1 from rfl, Int.pow_succ, Int.pow_succ, Int.pow_zero, Int.one_mul]

theorem length_squared_src_eq_model (p : Pt) : ThickSrc.Point_PointExt_length_squared p = p.lengthSquared := by
  unfold ThickSrc.Point_PointExt_length_squared Pt.lengthSquared
  thick_simp [int_sq]

/-- `while_loop` only looks at the body pointwise. -/
theorem while_loop_congr {σ ρ : Type} (B B' : σ → LoopStep σ ρ) (h : ∀ s, B s = B' s) :
    ∀ (n : Nat) (c : σ → Bool) (s : σ), while_loop n c B s = while_loop n c B' s := by
  intro n
  induction n with
  | zero => intro c s; rfl
  | succ n ih =>
    intro c s
    unfold while_loop
    rw [h s]
    split
    · split
      · rfl
      · exact ih c _
    · rfl

/-- `decrease_error` of `next_parallel`: `flip` on the left side, `!flip` on the right. -/
def npDec (it : Thick.ParallelsIterator) : Thick.LineSide → Bool
  | .left => it.flip
  | .right => !it.flip

/-- One iteration of the `loop` of `next_parallel`, in the hand model's vocabulary (`nextParallelFuel` with the
recursive call replaced by `continue`). -/
def npStep (dec : Bool) (side : Thick.LineSide) (it : Thick.ParallelsIterator) :
    LoopStep Thick.ParallelsIterator (Option ((BresenhamPoint × Int) × Thick.ParallelsIterator)) :=
  let (point, it) := match side with
    | .left =>
      let (p, b) := it.left.nextAll it.perpendicularParameters
      (p, { it with left := b })
    | .right =>
      let (p, b) := it.right.previousAll it.perpendicularParameters
      (p, { it with right := b })
  match point with
  | .normal _ => .return_ (some ((point, it.sideError side), it))
  | .extra _ =>
    if dec then
      let errorBeforeDecrease := it.sideError side
      let (e, stepped) := it.parallelParameters.decreaseError (it.sideError side)
      let it := it.setSideError side e
      if stepped then .return_ (some ((point, errorBeforeDecrease), it)) else .continue_ it
    else
      let (e, stepped) := it.parallelParameters.increaseError (it.sideError side)
      let it := it.setSideError side e
      if stepped then .return_ (some ((point, e), it)) else .continue_ it

theorem npStep_flip (dec : Bool) (side : Thick.LineSide) (it it' : Thick.ParallelsIterator)
    (h : npStep dec side it = .continue_ it') : it'.flip = it.flip := by
  unfold npStep at h
  cases side <;> simp only at h <;> split at h <;> try cases h
  all_goals (split at h <;> split at h <;> cases h <;> rfl)

theorem nextParallelFuel_succ (n : Nat) (it : Thick.ParallelsIterator) (side : Thick.LineSide) :
    it.nextParallelFuel (n + 1) side =
      (match npStep (npDec it side) side it with
       | LoopStep.return_ r => r
       | LoopStep.continue_ it' => it'.nextParallelFuel n side) := by
  conv => lhs; unfold ParallelsIterator.nextParallelFuel
  unfold npStep npDec
  cases side with
  | left =>
    simp only
    rcases h : it.left.nextAll it.perpendicularParameters with ⟨p, b⟩
    cases p with
    | normal q => rfl
    | extra q =>
      simp only [ParallelsIterator.sideError, ParallelsIterator.setSideError]
      cases it.flip
      · simp only [Bool.false_eq_true, ↓reduceIte]
        by_cases hc : (it.parallelParameters.increaseError it.leftError).snd = true <;> simp only [hc, ↓reduceIte] <;> rfl
      · simp only [↓reduceIte]
        by_cases hc : (it.parallelParameters.decreaseError it.leftError).snd = true <;> simp only [hc, ↓reduceIte] <;> rfl
  | right =>
    simp only
    rcases h : it.right.previousAll it.perpendicularParameters with ⟨p, b⟩
    cases p with
    | normal q => rfl
    | extra q =>
      simp only [ParallelsIterator.sideError, ParallelsIterator.setSideError]
      cases it.flip
      · simp only [Bool.not_false, ↓reduceIte]
        by_cases hc : (it.parallelParameters.decreaseError it.rightError).snd = true <;> simp only [hc, ↓reduceIte] <;> rfl
      · simp only [Bool.not_true, Bool.false_eq_true, ↓reduceIte]
        by_cases hc : (it.parallelParameters.increaseError it.rightError).snd = true <;> simp only [hc, ↓reduceIte] <;> rfl

theorem npStep_loop : ∀ (n : Nat) (it : Thick.ParallelsIterator) (side : Thick.LineSide) (dec : Bool),
    dec = npDec it side →
    (match while_loop n (fun _ => true) (npStep dec side) it with
      | Option.none => Option.none
      | Option.some (LoopStep.return_ r) => r
      | Option.some (LoopStep.continue_ _) => Option.none) = it.nextParallelFuel n side := by
  intro n
  induction n with
  | zero => intro it side dec _; rfl
  | succ n ih =>
    intro it side dec hd
    unfold while_loop
    simp only [↓reduceIte]
    rw [nextParallelFuel_succ, ← hd]
    cases hs : npStep dec side it with
    | return_ r => rfl
    | continue_ it' =>
      simp only
      have hf := npStep_flip dec side it it' hs
      exact ih it' side dec (by rw [hd]; cases side <;> simp [npDec, hf])

/-- **`next_parallel` (regenerated, `loop` on `fuel`) = `nextParallelFuel` (hand model)**, same fuel. -/
theorem next_parallel_src_eq_model (fuel : Nat) (it : Thick.ParallelsIterator) (side : Thick.LineSide) :
    ThickSrc.ParallelsIterator_next_parallel fuel it side = it.nextParallelFuel fuel side := by
  rw [← npStep_loop fuel it side (npDec it side) rfl]
  unfold ThickSrc.ParallelsIterator_next_parallel
  dsimp only
  rw [while_loop_congr _ (npStep (npDec it side) side) ?h]
  case h =>
    intro s
    unfold npStep
    simp only [Bresenham_next_all_src_eq_model, Bresenham_previous_all_src_eq_model,
      increase_error_src_eq_model, decrease_error_src_eq_model]
    thick_simp [npDec, ParallelsIterator.sideError, ParallelsIterator.setSideError]
    cases side <;> rfl
  cases while_loop fuel (fun _ => true) (npStep (npDec it side) side) it with
  | none => rfl
  | some r => cases r <;> rfl

set_option linter.unusedSimpArgs false in -- the extra simp lemmas serve rewrites of the source (`if so == Left` for the `match`)
/-- **`ParallelsIterator::new` (regenerated) = the hand model**, every line, thickness and stroke offset; `fuel` is the
hand model's loop bound `loopFuel` (the skipped centre line never needs more: `thick_points_total`). -/
theorem ParallelsIterator_new_src_eq_model (l : Line) (t : Int) (so : Thick.StrokeOffset) :
    ThickSrc.ParallelsIterator_new loopFuel l t so = ParallelsIterator.new l t so := by
  unfold ThickSrc.ParallelsIterator_new ParallelsIterator.new ParallelsIterator.nextParallel
  simp only [next_parallel_src_eq_model, BresenhamParameters_new_src_eq_model, Line_perpendicular_src_eq_model,
    Line_delta_src_eq_model, length_squared_src_eq_model, Point_neg_src_eq_model, Bresenham_new_src_eq_model,
    LineSide_swap_src_eq_model, HORIZONTAL_LINE_src_eq_model]
  thick_simp [int_sq, tdiv_two]
  by_cases h : l.start = l.stop
  · simp only [h, decide_true, ↓reduceIte]
    cases so <;> (try simp only [reduceCtorEq, decide_false, decide_true, ↓reduceIte, Bool.false_eq_true]) <;>
      (split <;> rename_i hx <;> rw [hx])
  · simp only [h, decide_false, ↓reduceIte, Bool.false_eq_true]
    cases so <;> (try simp only [reduceCtorEq, decide_false, decide_true, ↓reduceIte, Bool.false_eq_true]) <;>
      (split <;> rename_i hx <;> rw [hx])

/-- **`Iterator::next` of `ParallelsIterator` (regenerated) = the hand model**: the `i64` threshold test
`i64::from(acc).pow(2) > threshold`, one `next_parallel`, the accumulator update per `Normal` / `Extra`, the side swap. -/
theorem ParallelsIterator_next_src_eq_model (it : Thick.ParallelsIterator) :
    ThickSrc.ParallelsIterator_Iterator_next loopFuel it = it.next := by
  unfold ThickSrc.ParallelsIterator_Iterator_next ParallelsIterator.next ParallelsIterator.nextParallel
  simp only [next_parallel_src_eq_model, Bresenham_with_initial_error_src_eq_model, LineSide_swap_src_eq_model]
  thick_simp [int_sq]
  by_cases h : it.thicknessAccumulator * it.thicknessAccumulator > it.thicknessThreshold
  · simp only [h, decide_true, ↓reduceIte]
  · simp only [h, decide_false, ↓reduceIte, Bool.false_eq_true]
    cases hx : ParallelsIterator.nextParallelFuel loopFuel it it.nextSide with
    | none => rfl
    | some r =>
      obtain ⟨⟨point, error⟩, it'⟩ := r
      cases point with
      | normal p =>
        simp only
        by_cases hs : it'.strokeOffset = Thick.StrokeOffset.none <;> simp [hs]
      | extra p =>
        simp only
        by_cases hs : it'.strokeOffset = Thick.StrokeOffset.none <;> simp [hs]

/-- `ThickPoints::new` (regenerated) = the hand model. -/
theorem ThickPoints_new_src_eq_model (l : Line) (t : Int) :
    ThickSrc.ThickPoints_new loopFuel l t = ThickPointsIt.new l t := by
  unfold ThickSrc.ThickPoints_new ThickPointsIt.new
  simp only [ParallelsIterator_new_src_eq_model, Bresenham_new_src_eq_model, major_length_src_eq_model]
  thick_simp []
  cases ParallelsIterator.new l t Thick.StrokeOffset.none <;> rfl

/-- One iteration of the `loop` of `ThickPoints::next`, in the hand model's vocabulary (`nextFuel` with the recursive call
replaced by `continue`). -/
def tpStep (s : ThickPointsIt) : LoopStep ThickPointsIt (Option (Option Pt × ThickPointsIt)) :=
  if s.parallelPointsRemaining > 0 then
    .return_ (some (some (s.parallel.next s.iter.parallelParameters).1,
      { s with parallelPointsRemaining := s.parallelPointsRemaining - 1,
               parallel := (s.parallel.next s.iter.parallelParameters).2 }))
  else
    match s.iter.next with
    | none => .return_ none
    | some (none, iter) => .return_ (some (none, { s with iter := iter }))
    | some (some (parallel, lineType), iter) =>
      .continue_ { s with parallel := parallel,
                          parallelPointsRemaining :=
                            if lineType = .extra then s.parallelLength - 1 else s.parallelLength,
                          iter := iter }

/-- What one call of `ThickPoints::next` shows to the caller, in the hand model's vocabulary. -/
def tpView (r : Option (Option Pt × ThickPointsIt)) : Option (Option (Pt × ThickPointsIt)) :=
  r.map (fun x => x.1.map (fun p => (p, x.2)))

theorem nextFuel_succ (n : Nat) (s : ThickPointsIt) :
    s.nextFuel (n + 1) =
      (match tpStep s with
       | LoopStep.return_ r => tpView r
       | LoopStep.continue_ s' => s'.nextFuel n) := by
  conv => lhs; unfold ThickPointsIt.nextFuel
  unfold tpStep
  by_cases h : s.parallelPointsRemaining > 0
  · simp only [h, ↓reduceIte, tpView, Option.map_some]
  · simp only [h, ↓reduceIte]
    cases hx : s.iter.next with
    | none => rfl
    | some r =>
      obtain ⟨v, iter⟩ := r
      cases v with
      | none => rfl
      | some q => rfl

theorem tpStep_loop : ∀ (n : Nat) (s : ThickPointsIt),
    tpView (match while_loop n (fun _ => true) tpStep s with
      | Option.none => Option.none
      | Option.some (LoopStep.return_ r) => r
      | Option.some (LoopStep.continue_ _) => Option.none) = s.nextFuel n := by
  intro n
  induction n with
  | zero => intro s; rfl
  | succ n ih =>
    intro s
    unfold while_loop
    simp only [↓reduceIte]
    rw [nextFuel_succ]
    cases hs : tpStep s with
    | return_ r => rfl
    | continue_ s' => exact ih s'

set_option linter.unusedSimpArgs false in
/-- **`Iterator::next` of `ThickPoints` (regenerated, `loop` on fuel, `?` on the parallels iterator) = the hand model.** -/
theorem ThickPoints_next_src_eq_model (it : ThickPointsIt) :
    tpView (ThickSrc.ThickPoints_Iterator_next loopFuel it) = it.next := by
  unfold ThickPointsIt.next
  rw [← tpStep_loop loopFuel it]
  unfold ThickSrc.ThickPoints_Iterator_next
  rw [while_loop_congr _ tpStep ?h]
  case h =>
    intro s
    unfold tpStep
    simp only [Bresenham_next_src_eq_model, ParallelsIterator_next_src_eq_model]
    thick_simp []
    rcases Nat.eq_zero_or_pos s.parallelPointsRemaining with hr | hr
    · simp only [hr, Nat.lt_irrefl, decide_false, Bool.false_eq_true, ↓reduceIte, gt_iff_lt]
      cases hx : s.iter.next with
      | none => rfl
      | some r =>
        obtain ⟨v, iter⟩ := r
        cases v with
        | none => rfl
        | some q =>
          obtain ⟨parallel, lineType⟩ := q
          cases lineType <;> simp
    · have h1 : s.parallelPointsRemaining ≠ 0 := by omega
      simp [hr, h1]
  congr 1

/-! ### the collected stroke -/

/-- What a `for` loop collects from the regenerated `ThickPoints` iterator within a step budget (`none` = a fuel or the
budget ran out; the list is never silently truncated): the hand model's `drainFuel` over the regenerated `next`. -/
def srcDrain : Nat → ThickPointsIt → Option (List Pt)
  | 0, _ => none
  | n + 1, it =>
    match ThickSrc.ThickPoints_Iterator_next loopFuel it with
    | none => none
    | some (none, _) => some []
    | some (some p, it') =>
      match srcDrain n it' with
      | none => none
      | some ps => some (p :: ps)

theorem srcDrain_src_eq_model : ∀ (n : Nat) (it : ThickPointsIt), srcDrain n it = it.drainFuel n := by
  intro n
  induction n with
  | zero => intro it; rfl
  | succ n ih =>
    intro it
    have h := ThickPoints_next_src_eq_model it
    unfold srcDrain ThickPointsIt.drainFuel
    rw [← h]
    cases ThickSrc.ThickPoints_Iterator_next loopFuel it with
    | none => rfl
    | some r =>
      obtain ⟨v, it'⟩ := r
      cases v with
      | none => rfl
      | some p =>
        simp only [tpView, Option.map_some, ih it']
        cases ThickPointsIt.drainFuel n it' <;> rfl

/-- The pixels of a stroked line collected from the regenerated `ThickPoints::new` + `Iterator::next`
(`StyledPixelsIterator::new` of styled.rs, which is NOT regenerated: no pixel for width 0, otherwise
`ThickPoints::new(line, stroke_width.saturating_as())`, transcribed as in the hand model `Thick.thickPoints`). -/
def srcThickPoints (l : Line) (w : Nat) : Option (List Pt) :=
  match ThickSrc.ThickPoints_new loopFuel l (satAsI32 w) with
  | none => none
  | some it => if w = 0 then some [] else srcDrain (pixelBudget l it.iter.thicknessThreshold) it

/-- **The regenerated thick-line iterator yields the hand model's `thickPoints`**, every line and width. -/
theorem thick_points_src_eq_model (l : Line) (w : Nat) : srcThickPoints l w = Thick.thickPoints l w := by
  unfold srcThickPoints Thick.thickPoints
  rw [ThickPoints_new_src_eq_model]
  cases ThickPointsIt.new l (satAsI32 w) with
  | none => rfl
  | some it => simp only [srcDrain_src_eq_model]

/-! ### C17's stroked-line theorems, restated over the regenerated functions -/

/-- The regenerated stroke is total: no fuel and no budget is ever exhausted. -/
theorem src_thick_points_total (l : Line) (w : Nat) : ∃ ps, srcThickPoints l w = some ps := by
  rw [thick_points_src_eq_model]; exact thick_points_total l w

/-- For width 1 the regenerated stroked line equals the regenerated `points()` (same points, same order). -/
theorem src_thick_width1_eq_points (l : Line) : srcThickPoints l 1 = some (srcPoints l) := by
  rw [thick_points_src_eq_model, points_src_eq_model]; exact thick_width1_eq_points l

/-- A regenerated stroked line of width `w ≥ 1` contains the regenerated thin line: its pixel sequence starts with
`points()`. -/
theorem src_thick_contains_thin (l : Line) (w : Nat) (hw : 1 ≤ w) (hw2 : w ≤ 2147483647)
    (ps : List Pt) (h : srcThickPoints l w = some ps) :
    (∃ more, ps = srcPoints l ++ more) ∧ ∀ p ∈ srcPoints l, p ∈ ps := by
  rw [thick_points_src_eq_model] at h
  rw [points_src_eq_model]
  exact thick_contains_thin l w hw hw2 ps h

example : (1 : Nat) ≤ 3 ∧ (3 : Nat) ≤ 2147483647 ∧
    srcThickPoints ⟨⟨2, 2⟩, ⟨6, 4⟩⟩ 3 =
      some [⟨2, 2⟩, ⟨3, 2⟩, ⟨4, 3⟩, ⟨5, 3⟩, ⟨6, 4⟩, ⟨2, 1⟩, ⟨3, 1⟩, ⟨4, 2⟩, ⟨5, 2⟩, ⟨6, 3⟩,
            ⟨2, 3⟩, ⟨3, 3⟩, ⟨4, 4⟩, ⟨5, 4⟩, ⟨3, 0⟩, ⟨4, 1⟩, ⟨5, 1⟩, ⟨6, 2⟩, ⟨7, 2⟩] := by decide

/-- Stroke width 0 draws nothing. -/
theorem src_thick_width0_empty (l : Line) : srcThickPoints l 0 = some [] := by
  rw [thick_points_src_eq_model]; exact thick_width0_empty l

/-- The mechanism of the known finding (wide strokes are too wide), part 1, over the regenerated `next`: one call that
returns a parallel adds exactly ONE perpendicular step's thickness to the accumulator, however many perpendicular steps
the regenerated `next_parallel` took to find it. -/
theorem src_next_adds_one_step (it it' : Thick.ParallelsIterator) (b : Bresenham) (ty : Thick.ParallelLineType)
    (h : ThickSrc.ParallelsIterator_Iterator_next loopFuel it = some (some (b, ty), it')) :
    it'.perpendicularParameters = it.perpendicularParameters ∧
    it'.thicknessAccumulator = it.thicknessAccumulator +
      (match ty with
       | .normal => it.perpendicularParameters.errorStep.minor
       | .extra => it.perpendicularParameters.errorStep.major) := by
  have h' := h
  rw [ParallelsIterator_next_src_eq_model] at h'
  have := next_adds_one_step it it' b ty h'
  cases ty <;> exact this

example : ((ThickSrc.ParallelsIterator_new loopFuel ⟨⟨0, 0⟩, ⟨2, 1⟩⟩ 37 .none).bind
    (ThickSrc.ParallelsIterator_Iterator_next loopFuel)).bind (·.1) = some (⟨⟨0, 0⟩, 0⟩, .normal) := by decide

/-- Part 2, over the regenerated `next_parallel`: an `Extra` perpendicular point whose parallel error does not wrap is
skipped - the side's start point moves, the accumulator does not. -/
theorem src_skipped_step_not_counted (fuel : Nat) (it : Thick.ParallelsIterator)
    (hx : it.left.error > it.perpendicularParameters.errorThreshold)
    (hflip : it.flip = false)
    (hw : (LineSrc.BresenhamParameters_increase_error it.parallelParameters it.leftError).1 = false) :
    ThickSrc.ParallelsIterator_next_parallel (fuel + 1) it .left =
      ThickSrc.ParallelsIterator_next_parallel fuel
        { it with
          left := ⟨it.left.point + it.perpendicularParameters.positionStep.minor,
                   it.left.error - it.perpendicularParameters.errorStep.minor⟩
          leftError := (LineSrc.BresenhamParameters_increase_error it.parallelParameters it.leftError).2 } .left := by
  rw [increase_error_src_eq_model] at hw ⊢
  simp only [next_parallel_src_eq_model]
  exact skipped_step_not_counted fuel it hx hflip hw

example : skipState.left.error > skipState.perpendicularParameters.errorThreshold ∧ skipState.flip = false ∧
    (LineSrc.BresenhamParameters_increase_error skipState.parallelParameters skipState.leftError).1 = false := by decide

/-- Every function of the impls of `ParallelsIterator`, `ThickPoints`, `LineSide` is translated. -/
theorem thick_untranslated_pinned : ThickSrc.untranslated = [] := by decide

end EG.C17.Src
