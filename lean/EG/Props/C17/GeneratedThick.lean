/-
  C17 — the REGENERATED model of the stroked line equals the hand-written one.
-/
import EG.Generated.ThickSrc
import EG.Props.C17.GeneratedLine
namespace EG.C17.Src
open EG EG.Line EG.Thick EG.RectSrcPrelude EG.LineSrcPrelude EG.ThickSrcPrelude EG.Generated

/-- unfold every prelude primitive of the thick part (and the listed definitions) -/
macro "thick_simp" "[" ls:Lean.Parser.Tactic.simpLemma,* "]" loc:(Lean.Parser.Tactic.location)? : tactic =>
  `(tactic| simp only [Point_mk, Point_x, Point_y, Point_set_x, Point_set_y,
      i32_add, i32_sub, i32_mul, i32_div, i32_neg, i32_min, i32_max, i32_abs,
      i32_eq, i32_ne, i32_lt, i32_le, i32_gt, i32_ge, i32_as_u32,
      u32_add, u32_sub, u32_eq, u32_ne, u32_lt, u32_le, u32_gt, u32_ge, bool_and, bool_or, bool_not,
      Line_mk, Line_start, Line_end, Line_set_start, Line_set_end,
      MajorMinor_i32_mk, MajorMinor_i32_major, MajorMinor_i32_minor,
      MajorMinor_Point_mk, MajorMinor_Point_major, MajorMinor_Point_minor,
      BresenhamParameters_mk, BresenhamParameters_error_threshold,
      BresenhamParameters_error_step, BresenhamParameters_position_step, Bresenham_mk, Bresenham_point,
      Bresenham_error, Bresenham_set_point, Bresenham_set_error, BresenhamPoint_Normal, BresenhamPoint_Extra,
      LineSide.Left, LineSide.Right, StrokeOffset.None, StrokeOffset.Left, StrokeOffset.Right,
      ParallelLineType.Normal, ParallelLineType.Extra,
      ParallelsIterator_mk, ParallelsIterator_parallel_parameters, ParallelsIterator_perpendicular_parameters,
      ParallelsIterator_thickness_accumulator, ParallelsIterator_thickness_threshold, ParallelsIterator_flip,
      ParallelsIterator_left, ParallelsIterator_left_error, ParallelsIterator_right, ParallelsIterator_right_error,
      ParallelsIterator_next_side, ParallelsIterator_stroke_offset,
      ParallelsIterator_set_parallel_parameters, ParallelsIterator_set_perpendicular_parameters,
      ParallelsIterator_set_thickness_accumulator, ParallelsIterator_set_thickness_threshold, ParallelsIterator_set_flip,
      ParallelsIterator_set_left, ParallelsIterator_set_left_error, ParallelsIterator_set_right,
      ParallelsIterator_set_right_error, ParallelsIterator_set_next_side, ParallelsIterator_set_stroke_offset,
      ThickPoints_mk, ThickPoints_parallel, ThickPoints_parallel_length, ThickPoints_parallel_points_remaining,
      ThickPoints_iter, ThickPoints_set_parallel, ThickPoints_set_parallel_length,
      ThickPoints_set_parallel_points_remaining, ThickPoints_set_iter,
      i64_from_i32, i64_from_u32, i64_add, i64_sub, i64_mul, i64_pow, i32_pow, i64_eq, i64_ne, i64_lt, i64_le, i64_gt,
      i64_ge, struct_eq, struct_ne, $ls,*] $[$loc]?)

theorem LineSide_swap_src_eq_model (s : Thick.LineSide) : ThickSrc.LineSide_swap s = s.swap := by
  cases s <;> rfl

theorem HORIZONTAL_LINE_src_eq_model : ThickSrc.HORIZONTAL_LINE = Thick.horizontalLine := rfl

theorem Point_neg_src_eq_model (p : Pt) : ThickSrc.Point_op_neg p = -p := rfl

theorem int_sq (a : Int) : a ^ 2 = a * a := by
  rw [show (2 : Nat) = 1 + 1 from rfl, Int.pow_succ, Int.pow_succ, Int.pow_zero, Int.one_mul]

theorem length_squared_src_eq_model (p : Pt) : ThickSrc.Point_PointExt_length_squared p = p.lengthSquared := by
  unfold ThickSrc.Point_PointExt_length_squared Pt.lengthSquared
  thick_simp [int_sq]

/-- `while_loop` only looks at the body pointwise. -/
theorem while_loop_congr {σ ρ : Type} (B B' : σ → LoopStep σ ρ) (h : ∀ s, B s = B' s) :
    ∀ (n : Nat) (c : σ → Bool) (s : σ), while_loop n c B s = while_loop n c B' s := by
  intro n
  induction n with
  | zero => intro c s; rfl
  | succ n ih =>
    intro c s
    unfold while_loop
    rw [h s]
    split
    · split
      · rfl
      · exact ih c _
    · rfl

/-- `decrease_error` of `next_parallel`: `flip` on the left side, `!flip` on the right. -/
def npDec (it : Thick.ParallelsIterator) : Thick.LineSide → Bool
  | .left => it.flip
  | .right => !it.flip

/-- One iteration of the `loop` of `next_parallel`, in the hand model's vocabulary (`nextParallelFuel` with the
recursive call replaced by `continue`). -/
def npStep (dec : Bool) (side : Thick.LineSide) (it : Thick.ParallelsIterator) :
    LoopStep Thick.ParallelsIterator (Option ((BresenhamPoint × Int) × Thick.ParallelsIterator)) :=
  let (point, it) := match side with
    | .left =>
      let (p, b) := it.left.nextAll it.perpendicularParameters
      (p, { it with left := b })
    | .right =>
      let (p, b) := it.right.previousAll it.perpendicularParameters
      (p, { it with right := b })
  match point with
  | .normal _ => .return_ (some ((point, it.sideError side), it))
  | .extra _ =>
    if dec then
      let errorBeforeDecrease := it.sideError side
      let (e, stepped) := it.parallelParameters.decreaseError (it.sideError side)
      let it := it.setSideError side e
      if stepped then .return_ (some ((point, errorBeforeDecrease), it)) else .continue_ it
    else
      let (e, stepped) := it.parallelParameters.increaseError (it.sideError side)
      let it := it.setSideError side e
      if stepped then .return_ (some ((point, e), it)) else .continue_ it

theorem npStep_flip (dec : Bool) (side : Thick.LineSide) (it it' : Thick.ParallelsIterator)
    (h : npStep dec side it = .continue_ it') : it'.flip = it.flip := by
  unfold npStep at h
  cases side <;> simp only at h <;> split at h <;> try cases h
  all_goals (split at h <;> split at h <;> cases h <;> rfl)

theorem nextParallelFuel_succ (n : Nat) (it : Thick.ParallelsIterator) (side : Thick.LineSide) :
    it.nextParallelFuel (n + 1) side =
      (match npStep (npDec it side) side it with
       | LoopStep.return_ r => r
       | LoopStep.continue_ it' => it'.nextParallelFuel n side) := by
  conv => lhs; unfold ParallelsIterator.nextParallelFuel
  unfold npStep npDec
  cases side with
  | left =>
    simp only
    rcases h : it.left.nextAll it.perpendicularParameters with ⟨p, b⟩
    cases p with
    | normal q => rfl
    | extra q =>
      simp only [ParallelsIterator.sideError, ParallelsIterator.setSideError]
      cases it.flip
      · simp only [Bool.false_eq_true, ↓reduceIte]
        by_cases hc : (it.parallelParameters.increaseError it.leftError).snd = true <;> simp only [hc, ↓reduceIte] <;> rfl
      · simp only [↓reduceIte]
        by_cases hc : (it.parallelParameters.decreaseError it.leftError).snd = true <;> simp only [hc, ↓reduceIte] <;> rfl
  | right =>
    simp only
    rcases h : it.right.previousAll it.perpendicularParameters with ⟨p, b⟩
    cases p with
    | normal q => rfl
    | extra q =>
      simp only [ParallelsIterator.sideError, ParallelsIterator.setSideError]
      cases it.flip
      · simp only [Bool.not_false, ↓reduceIte]
        by_cases hc : (it.parallelParameters.decreaseError it.rightError).snd = true <;> simp only [hc, ↓reduceIte] <;> rfl
      · simp only [Bool.not_true, Bool.false_eq_true, ↓reduceIte]
        by_cases hc : (it.parallelParameters.increaseError it.rightError).snd = true <;> simp only [hc, ↓reduceIte] <;> rfl

theorem npStep_loop : ∀ (n : Nat) (it : Thick.ParallelsIterator) (side : Thick.LineSide) (dec : Bool),
    dec = npDec it side →
    (match while_loop n (fun _ => true) (npStep dec side) it with
      | Option.none => Option.none
      | Option.some (LoopStep.return_ r) => r
      | Option.some (LoopStep.continue_ _) => Option.none) = it.nextParallelFuel n side := by
  intro n
  induction n with
  | zero => intro it side dec _; rfl
  | succ n ih =>
    intro it side dec hd
    unfold while_loop
    simp only [↓reduceIte]
    rw [nextParallelFuel_succ, ← hd]
    cases hs : npStep dec side it with
    | return_ r => rfl
    | continue_ it' =>
      simp only
      have hf := npStep_flip dec side it it' hs
      exact ih it' side dec (by rw [hd]; cases side <;> simp [npDec, hf])

/-- **`next_parallel` (regenerated, `loop` on `fuel`) = `nextParallelFuel` (hand model)**, same fuel. -/
theorem next_parallel_src_eq_model (fuel : Nat) (it : Thick.ParallelsIterator) (side : Thick.LineSide) :
    ThickSrc.ParallelsIterator_next_parallel fuel it side = it.nextParallelFuel fuel side := by
  rw [← npStep_loop fuel it side (npDec it side) rfl]
  unfold ThickSrc.ParallelsIterator_next_parallel
  dsimp only
  rw [while_loop_congr _ (npStep (npDec it side) side) ?h]
  case h =>
    intro s
    unfold npStep
    simp only [Bresenham_next_all_src_eq_model, Bresenham_previous_all_src_eq_model,
      increase_error_src_eq_model, decrease_error_src_eq_model]
    thick_simp [npDec, ParallelsIterator.sideError, ParallelsIterator.setSideError]
    cases side <;> rfl
  cases while_loop fuel (fun _ => true) (npStep (npDec it side) side) it with
  | none => rfl
  | some r => cases r <;> rfl

/-- **`ParallelsIterator::new` (regenerated) = the hand model**, every line, thickness and stroke offset; `fuel` is the
hand model's loop bound `loopFuel` (the skipped centre line never needs more: `thick_points_total`). -/
theorem ParallelsIterator_new_src_eq_model (l : Line) (t : Int) (so : Thick.StrokeOffset) :
    ThickSrc.ParallelsIterator_new loopFuel l t so = ParallelsIterator.new l t so := by
  unfold ThickSrc.ParallelsIterator_new ParallelsIterator.new ParallelsIterator.nextParallel
  simp only [next_parallel_src_eq_model, BresenhamParameters_new_src_eq_model, Line_perpendicular_src_eq_model,
    Line_delta_src_eq_model, length_squared_src_eq_model, Point_neg_src_eq_model, Bresenham_new_src_eq_model,
    LineSide_swap_src_eq_model, HORIZONTAL_LINE_src_eq_model]
  thick_simp [int_sq, tdiv_two]
  by_cases h : l.start = l.stop
  · simp only [h, decide_true, ↓reduceIte]
    cases so <;> (split <;> rename_i hx <;> rw [hx])
  · simp only [h, decide_false, ↓reduceIte, Bool.false_eq_true]
    cases so <;> (split <;> rename_i hx <;> rw [hx])

/-- **`Iterator::next` of `ParallelsIterator` (regenerated) = the hand model**: the `i64` threshold test
`i64::from(acc).pow(2) > threshold`, one `next_parallel`, the accumulator update per `Normal` / `Extra`, the side swap. -/
theorem ParallelsIterator_next_src_eq_model (it : Thick.ParallelsIterator) :
    ThickSrc.ParallelsIterator_Iterator_next loopFuel it = it.next := by
  unfold ThickSrc.ParallelsIterator_Iterator_next ParallelsIterator.next ParallelsIterator.nextParallel
  simp only [next_parallel_src_eq_model, Bresenham_with_initial_error_src_eq_model, LineSide_swap_src_eq_model]
  thick_simp [int_sq]
  by_cases h : it.thicknessAccumulator * it.thicknessAccumulator > it.thicknessThreshold
  · simp only [h, decide_true, ↓reduceIte]
  · simp only [h, decide_false, ↓reduceIte, Bool.false_eq_true]
    cases hx : ParallelsIterator.nextParallelFuel loopFuel it it.nextSide with
    | none => rfl
    | some r =>
      obtain ⟨⟨point, error⟩, it'⟩ := r
      cases point with
      | normal p =>
        simp only
        by_cases hs : it'.strokeOffset = Thick.StrokeOffset.none <;> simp [hs]
      | extra p =>
        simp only
        by_cases hs : it'.strokeOffset = Thick.StrokeOffset.none <;> simp [hs]

/-- `ThickPoints::new` (regenerated) = the hand model. -/
theorem ThickPoints_new_src_eq_model (l : Line) (t : Int) :
    ThickSrc.ThickPoints_new loopFuel l t = ThickPointsIt.new l t := by
  unfold ThickSrc.ThickPoints_new ThickPointsIt.new
  simp only [ParallelsIterator_new_src_eq_model, Bresenham_new_src_eq_model, major_length_src_eq_model]
  thick_simp []
  cases ParallelsIterator.new l t Thick.StrokeOffset.none <;> rfl

end EG.C17.Src
