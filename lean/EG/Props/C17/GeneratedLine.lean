/-
  C17 — the REGENERATED model of the thin line (`Line::points()`) equals the hand-written one.

  `EG/Generated/LineSrc.lean` is written by `tools/tr_linesrc.py` from /repo's Rust text on every run of a check:
  one Lean `def` per function of src/primitives/line/bresenham.rs (`BresenhamParameters::new`, `increase_error`,
  `decrease_error`, `mirror_extra_points`, `Bresenham::new / with_initial_error / next / next_all / previous_all`,
  `major_length`, `MajorMinor::new`), src/primitives/line/points.rs (`Points::new / empty`, `Iterator::next`),
  src/primitives/line/mod.rs (`Line::new / with_delta / perpendicular / midpoint / delta`, `Transform::translate`,
  `PointsIter::points`) and of the `Point` helpers of core/src/geometry/point.rs they call, arm for arm; every Rust
  primitive is a function of the trusted preludes EG/Model/RectSrcPrelude.lean + LineSrcPrelude.lean.

  This file proves, for every translated function, that the generated definition equals the hand-written model
  (EG/Model/Bresenham.lean, EG/Model/Line.lean; `midpoint`: EG/Model/LineJoin.lean) FOR ALL inputs
  (`<name>_src_eq_model`), that the list a `for` loop collects from the regenerated iterator is the model's
  `Line.points` (`points_src_eq_model`), and restates the thin-line theorems of C17 about the regenerated functions
  directly (`src_points_*`). A semantic change of a Rust body changes the generated definition and breaks a theorem.

  Where the two differ (stated exactly):
  * `increase_error` / `decrease_error` take `error: &mut i32`: the generated function returns (flag, updated error),
    the hand model (updated error, flag): equal after swapping the pair.
  * `Iterator::next` returns (Option<Point>, updated self); the hand model `Option (Pt × PointsIt)`: equal under
    `nextView`, with the one difference that Rust's `None` leaves `self` unchanged (not visible in the model).
  * `major_length` casts with `as u32` (two's complement in the prelude); the operand `max(|dx|, |dy|)` is never
    negative, so it equals the model's `toNat` unconditionally (integers are unbounded here: overflow is C08's topic).
  * `Point::abs` is `i32::abs` per coordinate (`natAbs`) in Rust and an `if` in the hand model: equal.
  * everything else is equal by unfolding.
-/
import EG.Generated.LineSrc
import EG.Model.LineJoin
import EG.Props.C17
namespace EG.C17.Src
open EG EG.Line EG.RectSrcPrelude EG.LineSrcPrelude EG.Generated

/-- unfold every prelude primitive (and the listed generated definitions) -/
macro "line_simp" "[" ls:Lean.Parser.Tactic.simpLemma,* "]" loc:(Lean.Parser.Tactic.location)? : tactic =>
  `(tactic| simp only [Point_mk, Point_x, Point_y, Point_set_x, Point_set_y,
      i32_add, i32_sub, i32_mul, i32_div, i32_neg, i32_min, i32_max, i32_abs,
      i32_eq, i32_ne, i32_lt, i32_le, i32_gt, i32_ge, i32_as_u32,
      u32_add, u32_sub, u32_eq, u32_ne, u32_lt, u32_le, u32_gt, u32_ge, bool_and, bool_or, bool_not,
      Line_mk, Line_start, Line_end, Line_set_start, Line_set_end,
      MajorMinor_i32_mk, MajorMinor_i32_major, MajorMinor_i32_minor, MajorMinor_i32_set_major, MajorMinor_i32_set_minor,
      MajorMinor_Point_mk, MajorMinor_Point_major, MajorMinor_Point_minor, MajorMinor_Point_set_major,
      MajorMinor_Point_set_minor, BresenhamParameters_mk, BresenhamParameters_error_threshold,
      BresenhamParameters_error_step, BresenhamParameters_position_step, Bresenham_mk, Bresenham_point,
      Bresenham_error, Bresenham_set_point, Bresenham_set_error, BresenhamPoint_Normal, BresenhamPoint_Extra,
      Points_mk, Points_parameters, Points_bresenham, Points_points_remaining, Points_set_parameters,
      Points_set_bresenham, Points_set_points_remaining, $ls,*] $[$loc]?)

/-! ### `Point` helpers (core/src/geometry/point.rs) -/

theorem Point_new_src_eq_model (x y : Int) : LineSrc.Point_new x y = (⟨x, y⟩ : Pt) := rfl
theorem Point_zero_src_eq_model : LineSrc.Point_zero = Pt.zero := rfl
theorem Point_add_src_eq_model (a b : Pt) : LineSrc.Point_op_add_Point a b = a + b := rfl
theorem Point_sub_src_eq_model (a b : Pt) : LineSrc.Point_op_sub_Point a b = a - b := rfl
/-- `a += b` (`impl AddAssign for Point`). -/
theorem Point_add_assign_src_eq_model (a b : Pt) : LineSrc.Point_op_add_assign_Point a b = a + b := rfl
/-- `a -= b` (`impl SubAssign for Point`). -/
theorem Point_sub_assign_src_eq_model (a b : Pt) : LineSrc.Point_op_sub_assign_Point a b = a - b := rfl
theorem Point_x_axis_src_eq_model (p : Pt) : LineSrc.Point_x_axis p = Pt.xAxis p := rfl
theorem Point_y_axis_src_eq_model (p : Pt) : LineSrc.Point_y_axis p = Pt.yAxis p := rfl

theorem Point_abs_src_eq_model (p : Pt) : LineSrc.Point_abs p = Pt.abs p := by
  line_simp [LineSrc.Point_abs, LineSrc.Point_new, Pt.abs]
  rw [Pt.ext_iff']
  dsimp only
  refine ⟨?_, ?_⟩ <;> split <;> omega

theorem abs_x_eq (p : Pt) : p.abs.x = (p.x.natAbs : Int) := by unfold Pt.abs; dsimp only; split <;> omega
theorem abs_y_eq (p : Pt) : p.abs.y = (p.y.natAbs : Int) := by unfold Pt.abs; dsimp only; split <;> omega

theorem tdiv_two (a : Int) : Int.tdiv a 2 = tdiv2 a := by
  unfold tdiv2
  split
  · rename_i h; exact Int.tdiv_eq_ediv_of_nonneg h
  · rename_i h
    have : a = -(-a) := by omega
    rw [this, Int.neg_tdiv, Int.tdiv_eq_ediv_of_nonneg (by omega)]
    simp

/-- `Point / 2`: Rust `/` on `i32` truncates toward zero. -/
theorem Point_div_two_src_eq_model (a : Pt) : LineSrc.Point_op_div_i32 a 2 = ⟨tdiv2 a.x, tdiv2 a.y⟩ := by
  line_simp [LineSrc.Point_op_div_i32, LineSrc.Point_new, tdiv_two]

/-! ### `Line` (src/primitives/line/mod.rs) -/

theorem Line_new_src_eq_model (s e : Pt) : LineSrc.Line_new s e = (⟨s, e⟩ : Line) := rfl
theorem Line_with_delta_src_eq_model (s d : Pt) : LineSrc.Line_with_delta s d = (⟨s, s + d⟩ : Line) := rfl
theorem Line_delta_src_eq_model (l : Line) : LineSrc.Line_delta l = l.delta := rfl
theorem Line_perpendicular_src_eq_model (l : Line) : LineSrc.Line_perpendicular l = l.perpendicular := rfl
theorem Line_translate_src_eq_model (l : Line) (d : Pt) : LineSrc.Line_Transform_translate l d = l.translate d := rfl
/-- `Line::midpoint` = the hand model used by the joins (EG/Model/LineJoin.lean). -/
theorem Line_midpoint_src_eq_model (l : Line) : LineSrc.Line_midpoint l = Joins.midpoint l := by
  unfold LineSrc.Line_midpoint Joins.midpoint
  rw [Point_div_two_src_eq_model]
  rfl

/-! ### `MajorMinor`, `BresenhamParameters` (src/primitives/line/bresenham.rs) -/

theorem MajorMinor_i32_new_src_eq_model (a b : Int) : LineSrc.MajorMinor_i32_new a b = (⟨a, b⟩ : MajorMinor Int) := rfl
theorem MajorMinor_Point_new_src_eq_model (a b : Pt) : LineSrc.MajorMinor_Point_new a b = (⟨a, b⟩ : MajorMinor Pt) := rfl

/-- **`BresenhamParameters::new` (regenerated) = the hand model**, every line. -/
theorem BresenhamParameters_new_src_eq_model (l : Line) :
    LineSrc.BresenhamParameters_new l = BresenhamParameters.new l := by
  unfold LineSrc.BresenhamParameters_new BresenhamParameters.new
  simp only [Point_abs_src_eq_model, Point_sub_src_eq_model, Point_x_axis_src_eq_model, Point_y_axis_src_eq_model,
    Point_new_src_eq_model, MajorMinor_i32_new_src_eq_model, MajorMinor_Point_new_src_eq_model]
  line_simp []
  by_cases h : (l.stop - l.start).abs.y ≥ (l.stop - l.start).abs.x
  · simp only [h, decide_true, ↓reduceIte, ge_iff_le, decide_eq_true_eq]
  · simp only [h, decide_false, ↓reduceIte, ge_iff_le, decide_eq_true_eq, Bool.false_eq_true]

/-- `increase_error(&self, error: &mut i32) -> bool`: (flag, updated error). -/
theorem increase_error_src_eq_model (p : BresenhamParameters) (e : Int) :
    LineSrc.BresenhamParameters_increase_error p e = ((p.increaseError e).2, (p.increaseError e).1) := by
  unfold LineSrc.BresenhamParameters_increase_error BresenhamParameters.increaseError
  line_simp []
  by_cases h : e + p.errorStep.major > p.errorThreshold
  · simp only [h, decide_true, ↓reduceIte]
  · simp only [h, decide_false, ↓reduceIte, Bool.false_eq_true]

/-- `decrease_error(&self, error: &mut i32) -> bool`: (flag, updated error). -/
theorem decrease_error_src_eq_model (p : BresenhamParameters) (e : Int) :
    LineSrc.BresenhamParameters_decrease_error p e = ((p.decreaseError e).2, (p.decreaseError e).1) := by
  unfold LineSrc.BresenhamParameters_decrease_error BresenhamParameters.decreaseError
  line_simp []
  by_cases h : e - p.errorStep.major ≤ -p.errorThreshold
  · simp only [h, decide_true, ↓reduceIte]
  · simp only [h, decide_false, ↓reduceIte, Bool.false_eq_true]

theorem mirror_extra_points_src_eq_model (p : BresenhamParameters) :
    LineSrc.BresenhamParameters_mirror_extra_points p = p.mirrorExtraPoints := by
  unfold LineSrc.BresenhamParameters_mirror_extra_points BresenhamParameters.mirrorExtraPoints
  line_simp []
  by_cases h : p.positionStep.major.x = 0 <;> simp [h] <;> rfl

/-! ### `Bresenham` -/

theorem Bresenham_new_src_eq_model (s : Pt) : LineSrc.Bresenham_new s = Bresenham.new s := rfl
theorem Bresenham_with_initial_error_src_eq_model (s : Pt) (e : Int) :
    LineSrc.Bresenham_with_initial_error s e = Bresenham.withInitialError s e := rfl

/-- **`Bresenham::next` (regenerated) = the hand model**: same point, same successor state. -/
theorem Bresenham_next_src_eq_model (b : Bresenham) (p : BresenhamParameters) :
    LineSrc.Bresenham_next b p = b.next p := by
  unfold LineSrc.Bresenham_next Bresenham.next
  simp only [Point_add_assign_src_eq_model]
  line_simp []
  by_cases h : b.error > p.errorThreshold
  · simp only [h, decide_true, ↓reduceIte]
  · simp only [h, decide_false, ↓reduceIte, Bool.false_eq_true]

theorem Bresenham_next_all_src_eq_model (b : Bresenham) (p : BresenhamParameters) :
    LineSrc.Bresenham_next_all b p = b.nextAll p := by
  unfold LineSrc.Bresenham_next_all Bresenham.nextAll
  simp only [Point_add_assign_src_eq_model, Point_sub_assign_src_eq_model, mirror_extra_points_src_eq_model]
  line_simp []
  by_cases h : b.error > p.errorThreshold
  · simp only [h, decide_true, ↓reduceIte]
    cases p.mirrorExtraPoints <;> simp
  · simp only [h, decide_false, ↓reduceIte, Bool.false_eq_true]

theorem Bresenham_previous_all_src_eq_model (b : Bresenham) (p : BresenhamParameters) :
    LineSrc.Bresenham_previous_all b p = b.previousAll p := by
  unfold LineSrc.Bresenham_previous_all Bresenham.previousAll
  simp only [Point_add_assign_src_eq_model, Point_sub_assign_src_eq_model, mirror_extra_points_src_eq_model]
  line_simp []
  by_cases h : b.error ≤ -p.errorThreshold
  · simp only [h, decide_true, ↓reduceIte]
    cases p.mirrorExtraPoints <;> simp
  · simp only [h, decide_false, ↓reduceIte, Bool.false_eq_true]

/-- `major_length`: the `as u32` cast never sees a negative value. -/
theorem major_length_src_eq_model (l : Line) : LineSrc.major_length l = majorLength l := by
  unfold LineSrc.major_length majorLength
  simp only [Point_abs_src_eq_model, Point_sub_src_eq_model]
  line_simp []
  have hx : 0 ≤ (l.stop - l.start).abs.x := by unfold Pt.abs; dsimp only; split <;> omega
  have h : 0 ≤ max (l.stop - l.start).abs.x (l.stop - l.start).abs.y := by omega
  simp only [h, ↓reduceIte]

/-! ### the `Points` iterator (src/primitives/line/points.rs) -/

theorem Points_new_src_eq_model (l : Line) : LineSrc.Points_new l = pointsIt l := by
  unfold LineSrc.Points_new pointsIt
  simp only [major_length_src_eq_model, BresenhamParameters_new_src_eq_model, Bresenham_new_src_eq_model]

theorem Line_points_src_eq_model (l : Line) : LineSrc.Line_PointsIter_points l = pointsIt l :=
  Points_new_src_eq_model l

theorem Points_empty_src_eq_model : LineSrc.Points_empty = PointsIt.empty := by
  unfold LineSrc.Points_empty PointsIt.empty
  simp only [Points_new_src_eq_model, Line_new_src_eq_model, Point_zero_src_eq_model]

/-- What one call of `next` shows to the caller, in the hand model's vocabulary. -/
def nextView (r : Option Pt × PointsIt) : Option (Pt × PointsIt) := r.1.map (fun p => (p, r.2))

set_option linter.unusedSimpArgs false in -- `h1` is used when the source tests `points_remaining == 0` instead of `> 0`
/-- **`Iterator::next` (regenerated) = `PointsIt.next` (hand model)**: one step of the generated state machine is one
step of the hand model (same point, same successor state; `None` together). -/
theorem Points_next_src_eq_model (it : PointsIt) : nextView (LineSrc.Points_Iterator_next it) = it.next := by
  unfold LineSrc.Points_Iterator_next PointsIt.next nextView
  simp only [Bresenham_next_src_eq_model]
  line_simp []
  rcases Nat.eq_zero_or_pos it.pointsRemaining with hr | hr
  · simp [hr]
  · have h1 : it.pointsRemaining ≠ 0 := by omega
    simp [hr, h1]

/-- What a `for` loop collects from the regenerated iterator in at most `steps` calls of `next`. -/
def srcCollect : Nat → PointsIt → List Pt
  | 0, _ => []
  | steps + 1, it =>
    match LineSrc.Points_Iterator_next it with
    | (some p, it') => p :: srcCollect steps it'
    | (none, _) => []

theorem srcCollect_src_eq_model : ∀ (steps : Nat) (it : PointsIt), srcCollect steps it = it.toListFuel steps := by
  intro steps
  induction steps with
  | zero => intro it; rfl
  | succ n ih =>
    intro it
    have h := Points_next_src_eq_model it
    unfold srcCollect PointsIt.toListFuel
    rw [← h]
    rcases LineSrc.Points_Iterator_next it with ⟨v, it'⟩
    cases v with
    | none => simp only [nextView, Option.map_none]
    | some p => simp only [nextView, Option.map_some, ih it']

/-- The hand model's collected list does not depend on the fuel once it covers `points_remaining`. -/
theorem toListFuel_stable : ∀ (fuel : Nat) (it : PointsIt), it.pointsRemaining ≤ fuel →
    it.toListFuel fuel = it.toList := by
  intro fuel
  induction fuel with
  | zero =>
    intro it h
    have : it.pointsRemaining = 0 := by omega
    unfold PointsIt.toList; rw [this]
  | succ n ih =>
    intro it h
    unfold PointsIt.toList
    cases hr : it.pointsRemaining with
    | zero =>
      unfold PointsIt.toListFuel
      have : it.next = none := by unfold PointsIt.next; simp [hr]
      simp only [this]
    | succ m =>
      unfold PointsIt.toListFuel
      have hn : it.next = some ((it.bresenham.next it.parameters).1,
          { it with pointsRemaining := m, bresenham := (it.bresenham.next it.parameters).2 }) := by
        unfold PointsIt.next; simp [hr]
      simp only [hn]
      congr 1
      have := ih { it with pointsRemaining := m, bresenham := (it.bresenham.next it.parameters).2 }
        (by dsimp only; omega)
      rw [this]; rfl

/-- `line.points()` collected from the regenerated `PointsIter::points` (= `Points::new`) + `Iterator::next`, with as
many calls of `next` as the regenerated `major_length` says there are points. -/
def srcPoints (l : Line) : List Pt := srcCollect (LineSrc.major_length l) (LineSrc.Line_PointsIter_points l)

/-- **The regenerated iterator yields the hand model's `points`**, and more calls of `next` yield nothing more. -/
theorem points_collect_src_eq_model (l : Line) (steps : Nat) (h : LineSrc.major_length l ≤ steps) :
    srcCollect steps (LineSrc.Line_PointsIter_points l) = points l := by
  rw [srcCollect_src_eq_model, Line_points_src_eq_model]
  rw [major_length_src_eq_model] at h
  exact toListFuel_stable steps (pointsIt l) h

example : LineSrc.major_length ⟨⟨1, 2⟩, ⟨5, 4⟩⟩ ≤ 7 := by decide

theorem points_src_eq_model (l : Line) : srcPoints l = points l :=
  points_collect_src_eq_model l _ (Nat.le_refl _)

example : srcPoints ⟨⟨1, 2⟩, ⟨5, 4⟩⟩ = [⟨1, 2⟩, ⟨2, 2⟩, ⟨3, 3⟩, ⟨4, 3⟩, ⟨5, 4⟩] := by decide
example : srcCollect 9 (LineSrc.Line_PointsIter_points ⟨⟨0, 0⟩, ⟨-1, -3⟩⟩) = [⟨0, 0⟩, ⟨0, -1⟩, ⟨-1, -2⟩, ⟨-1, -3⟩] := by
  decide

/-! ### C17's thin-line theorems, restated over the regenerated functions -/

/-- `points()` starts at `start`. -/
theorem src_points_head (l : Line) : (srcPoints l).head? = some l.start := by
  rw [points_src_eq_model]; exact points_head l

/-- `points()` ends at `end`. -/
theorem src_points_last (l : Line) : (srcPoints l).getLast? = some l.stop := by
  rw [points_src_eq_model]; exact points_last l

/-- `points()` has `max(|dx|, |dy|) + 1` points; that number is the regenerated `major_length`. -/
theorem src_points_length (l : Line) :
    (srcPoints l).length = majorLen l + 1 ∧ LineSrc.major_length l = majorLen l + 1 := by
  rw [points_src_eq_model]
  refine ⟨points_length l, ?_⟩
  rw [major_length_src_eq_model]
  unfold majorLength majorLen
  simp only [abs_x_eq, abs_y_eq, Pt.sub_x, Pt.sub_y]
  omega

/-- Each step moves exactly one pixel along the major axis and at most one along the minor axis. -/
theorem src_points_steps (l : Line) (i : Nat) (h : i + 1 < (srcPoints l).length) :
    (yIsMajor l →
      ((srcPoints l)[i + 1].y - (srcPoints l)[i].y).natAbs = 1 ∧
      ((srcPoints l)[i + 1].x - (srcPoints l)[i].x).natAbs ≤ 1) ∧
    (¬ yIsMajor l →
      ((srcPoints l)[i + 1].x - (srcPoints l)[i].x).natAbs = 1 ∧
      ((srcPoints l)[i + 1].y - (srcPoints l)[i].y).natAbs ≤ 1) := by
  have e := points_src_eq_model l
  have h' : i + 1 < (points l).length := by rw [← e]; exact h
  have := points_steps l i h'
  simp only [e]
  exact this

example : (3 : Nat) + 1 < (srcPoints ⟨⟨1, 2⟩, ⟨5, 4⟩⟩).length := by decide

/-- Every point is within half a pixel of the ideal line (measured along the minor axis). -/
theorem src_points_within_half_pixel (l : Line) (p : Pt) (hp : p ∈ srcPoints l) :
    (2 * ((l.stop.x - l.start.x) * (p.y - l.start.y)
        - (l.stop.y - l.start.y) * (p.x - l.start.x))).natAbs ≤ majorLen l := by
  rw [points_src_eq_model] at hp; exact points_within_half_pixel l p hp

example : (⟨3, 3⟩ : Pt) ∈ srcPoints ⟨⟨1, 2⟩, ⟨5, 4⟩⟩ := by decide

/-- The axis along which the regenerated `BresenhamParameters::new` takes its major steps is the one `yIsMajor`
names: `position_step.major` is a unit step along y exactly when `|dy| >= |dx|`. -/
theorem src_major_axis (l : Line) :
    (yIsMajor l → (LineSrc.BresenhamParameters_new l).positionStep.major.x = 0 ∧
        ((LineSrc.BresenhamParameters_new l).positionStep.major.y).natAbs = 1) ∧
    (¬ yIsMajor l → (LineSrc.BresenhamParameters_new l).positionStep.major.y = 0 ∧
        ((LineSrc.BresenhamParameters_new l).positionStep.major.x).natAbs = 1) := by
  rw [BresenhamParameters_new_src_eq_model]
  unfold yIsMajor
  have key : (l.stop - l.start).abs.y ≥ (l.stop - l.start).abs.x ↔
      (l.stop.y - l.start.y).natAbs ≥ (l.stop.x - l.start.x).natAbs := by
    rw [abs_x_eq, abs_y_eq, Pt.sub_x, Pt.sub_y]; omega
  refine ⟨fun hm => ?_, fun hm => ?_⟩
  · have h := key.mpr hm
    unfold BresenhamParameters.new
    simp only [h, ↓reduceIte, Pt.yAxis]
    refine ⟨trivial, ?_⟩
    split <;> rfl
  · have h : ¬ ((l.stop - l.start).abs.y ≥ (l.stop - l.start).abs.x) := fun c => hm (key.mp c)
    unfold BresenhamParameters.new
    simp only [h, ↓reduceIte, Pt.xAxis]
    refine ⟨trivial, ?_⟩
    split <;> rfl

/-- A zero-length line yields exactly `[start]`. -/
theorem src_points_zero_length (s : Pt) : srcPoints ⟨s, s⟩ = [s] := by
  rw [points_src_eq_model]; exact points_zero_length s

/-- `points()` commutes with the regenerated `Transform::translate`. -/
theorem src_points_translate (l : Line) (d : Pt) :
    srcPoints (LineSrc.Line_Transform_translate l d) = (srcPoints l).map (· + d) := by
  rw [Line_translate_src_eq_model, points_src_eq_model, points_src_eq_model]
  exact line_points_translate l d

/-! ### nothing of the line types is outside the translation unnoticed -/

/-- Every function of every `impl` of `Line`, `Points`, `Bresenham`, `BresenhamParameters`, `MajorMinor` in the parsed
files is translated, except these (thick-line `extents`, which needs `ParallelsIterator`; `bounding_box`, a one-line
call of `Rectangle::with_corners`; the in-place `translate_mut`). An added function (e.g. an override of
`Iterator::nth` / `size_hint` / `fold` for `Points`, which would change what a `for` loop or `count()` sees without
touching `next`) shows up here and breaks this theorem. -/
theorem line_untranslated_pinned : LineSrc.untranslated =
    [("impl Line", ["extents"]), ("impl Dimensions for Line", ["bounding_box"]),
     ("impl Transform for Line", ["translate_mut"])] := by decide

end EG.C17.Src
