/-
  C16 — the REGENERATED model of `Rectangle` equals the hand-written one.

  `EG/Generated/RectSrc.lean` is written by `tools/tr_rect.py` from /repo's Rust text on every run of a check
  (one Lean `def` per Rust function, arm for arm; every Rust primitive is a function of the small trusted prelude
  `EG/Model/RectSrcPrelude.lean`). This file proves, for every translated function of `Rectangle`, that the
  generated definition equals the hand-written model function of `EG/Model/Rect.lean` FOR ALL inputs
  (`<name>_src_eq_model`), and restates the headline theorems of C16 about the generated functions directly
  (`src_*`). A semantic change of a Rust body therefore changes the generated definition and breaks a theorem here.

  Where the two differ (stated exactly, as hypotheses):
  * `Point + Size` / `Point::sub_size` cast the size with `as i32` (wrapping) behind a `debug_assert!(.. >= 0)`;
    the hand model adds the size mathematically. They agree when the cast does not wrap:
      - `bottom_right`, `contains`, `intersection` (and the `ContainsPoint` impl): guard `FitsI32` on the size(s)
        (`width, height <= i32::MAX`: exactly the condition of the `debug_assert!`s);
      - `center`, `with_center`, `offset`: guard `IsU32` only (the type invariant `width, height <= u32::MAX`,
        which `Nat` does not carry): `(size - 1) / 2` of a `u32` always fits `i32`.
  * `AnchorPoint` is a 9-variant enum in Rust and a pair `⟨AnchorX, AnchorY⟩` in the hand model (`apOf`).
  * `rows()` / `columns()` return a `Range<i32>` (its two ends) in Rust and the list of values in the hand model:
    `range_i32_to_list (RectSrc.rows r) = r.rows`, and the ends are `⟨tl.y, rowsEnd⟩` (`rows_ends_src_eq_model`).
  * everything else (`with_corners`, `envelope`, `anchor_*`, `resized*`, `rows`, `columns`, `is_zero_sized`,
    `overlaps`, `center_offset`, `translate`, constructors) is equal unconditionally.
  The `Points` iterator is in `GeneratedPoints.lean`.
-/
import EG.Generated.RectSrc
import EG.Lemmas.RectPoints
import EG.Props.C16
namespace EG.C16.Src
open EG EG.Rect EG.RectSrcPrelude EG.Generated

/-! ### vocabulary -/

/-- `width, height <= i32::MAX`: the condition of the `debug_assert!`s in `Point + Size`. -/
def FitsI32 (s : Sz) : Prop := s.w ≤ 2147483647 ∧ s.h ≤ 2147483647
/-- `width, height <= u32::MAX`: the type invariant of `Size` (not carried by `Nat`). -/
def IsU32 (s : Sz) : Prop := s.w ≤ 4294967295 ∧ s.h ≤ 4294967295
instance (s : Sz) : Decidable (FitsI32 s) := by unfold FitsI32; exact inferInstance
instance (s : Sz) : Decidable (IsU32 s) := by unfold IsU32; exact inferInstance
theorem FitsI32.isU32 {s : Sz} (h : FitsI32 s) : IsU32 s := by unfold FitsI32 at h; unfold IsU32; omega

def axOf : RectSrc.AnchorX → EG.AnchorX
  | .Left => .left | .Center => .center | .Right => .right
def ayOf : RectSrc.AnchorY → EG.AnchorY
  | .Top => .top | .Center => .center | .Bottom => .bottom
/-- The Rust enum `AnchorPoint` as the hand model's pair. -/
def apOf : RectSrc.AnchorPoint → EG.Anchor
  | .TopLeft => ⟨.left, .top⟩ | .TopCenter => ⟨.center, .top⟩ | .TopRight => ⟨.right, .top⟩
  | .CenterLeft => ⟨.left, .center⟩ | .Center => ⟨.center, .center⟩ | .CenterRight => ⟨.right, .center⟩
  | .BottomLeft => ⟨.left, .bottom⟩ | .BottomCenter => ⟨.center, .bottom⟩ | .BottomRight => ⟨.right, .bottom⟩

/-- unfold every prelude primitive (and the listed generated definitions) -/
macro "prelude_simp" "[" ls:Lean.Parser.Tactic.simpLemma,* "]" loc:(Lean.Parser.Tactic.location)? : tactic =>
  `(tactic| simp only [Point_mk, Point_x, Point_y, Point_set_x, Point_set_y, Size_mk, Size_width, Size_height,
      Size_set_width, Size_set_height, Rectangle_mk, Rectangle_top_left, Rectangle_size, Rectangle_set_top_left,
      Rectangle_set_size, i32_add, i32_sub, i32_mul, i32_div, i32_neg, i32_min, i32_max, i32_abs, i32_unsigned_abs,
      i32_eq, i32_ne, i32_lt, i32_le, i32_gt, i32_ge, i32_saturating_add, i32_saturating_sub, i32_as_u32,
      u32_add, u32_sub, u32_mul, u32_div, u32_min, u32_max, u32_eq, u32_ne, u32_lt, u32_le, u32_gt, u32_ge,
      u32_saturating_add, u32_saturating_sub, u32_saturating_as_i32, u32_as_i32, bool_and, bool_or, bool_not,
      option_is_some_and, range_i32_new, rangeinclusive_i32_new, rangeinclusive_i32_start, rangeinclusive_i32_end,
      rangeinclusive_i32_contains, debug_assert, RangeI32_start, RangeI32_end, RangeI32_set_start, RangeI32_set_end,
      range_i32_is_empty, range_i32_next, $ls,*] $[$loc]?)

theorem tdiv_two (a : Int) : Int.tdiv a 2 = tdiv2 a := by
  unfold tdiv2
  split
  · rename_i h; exact Int.tdiv_eq_ediv_of_nonneg h
  · rename_i h
    have : a = -(-a) := by omega
    rw [this, Int.neg_tdiv, Int.tdiv_eq_ediv_of_nonneg (by omega)]
    simp

/-! ### `Point` / `Size` helpers -/

theorem Point_new_src_eq_model (x y : Int) : RectSrc.Point_new x y = (⟨x, y⟩ : Pt) := rfl
theorem Point_new_equal_src_eq_model (v : Int) : RectSrc.Point_new_equal v = (⟨v, v⟩ : Pt) := rfl
theorem Point_zero_src_eq_model : RectSrc.Point_zero = Pt.zero := rfl
theorem Size_new_src_eq_model (w h : Nat) : RectSrc.Size_new w h = (⟨w, h⟩ : Sz) := rfl
theorem Size_new_equal_src_eq_model (v : Nat) : RectSrc.Size_new_equal v = Sz.newEqual v := rfl
theorem Size_zero_src_eq_model : RectSrc.Size_zero = Sz.zero := rfl
theorem Point_component_min_src_eq_model (a b : Pt) : RectSrc.Point_component_min a b = a.componentMin b := rfl
theorem Point_component_max_src_eq_model (a b : Pt) : RectSrc.Point_component_max a b = a.componentMax b := rfl
theorem Point_add_src_eq_model (a b : Pt) : RectSrc.Point_op_add_Point a b = a + b := rfl
theorem Point_sub_src_eq_model (a b : Pt) : RectSrc.Point_op_sub_Point a b = a - b := rfl
theorem Point_neg_src_eq_model (a : Pt) : RectSrc.Point_op_neg a = -a := rfl
theorem Size_saturating_sub_src_eq_model (a b : Sz) : RectSrc.Size_saturating_sub a b = a.satSub b := rfl
theorem Size_saturating_add_src_eq_model (a b : Sz) : RectSrc.Size_saturating_add a b = a.satAdd b := rfl

/-- `Point + Size` is the mathematical sum when the `debug_assert!`s hold. -/
theorem Point_add_Size_src_eq_model (p : Pt) (s : Sz) (h : FitsI32 s) :
    RectSrc.Point_op_add_Size p s = ⟨p.x + s.w, p.y + s.h⟩ := by
  obtain ⟨h1, h2⟩ := h
  prelude_simp [RectSrc.Point_op_add_Size, RectSrc.Point_new]
  simp only [h1, h2, ↓reduceIte]

theorem Point_sub_size_src_eq_model (p : Pt) (s : Sz) (h : FitsI32 s) :
    RectSrc.Point_sub_size p s = ⟨p.x - s.w, p.y - s.h⟩ := by
  obtain ⟨h1, h2⟩ := h
  prelude_simp [RectSrc.Point_sub_size, RectSrc.Point_new]
  simp only [h1, h2, ↓reduceIte]

/-! ### constructors, `center_offset`, `overlaps` -/

theorem new_src_eq_model (tl : Pt) (s : Sz) : RectSrc.new tl s = (⟨tl, s⟩ : Rect) := rfl
theorem new_at_origin_src_eq_model (s : Sz) : RectSrc.new_at_origin s = (⟨Pt.zero, s⟩ : Rect) := rfl
theorem zero_src_eq_model : RectSrc.zero = Rect.zero := rfl

theorem center_offset_src_eq_model (s : Sz) : RectSrc.center_offset s = Rect.centerOffset s := by
  prelude_simp [RectSrc.center_offset, RectSrc.Size_div_u32, RectSrc.Size_saturating_sub, RectSrc.Size_new_equal,
    RectSrc.Size_new, Rect.centerOffset]

theorem overlaps_src_eq_model (f0 f1 s0 s1 : Int) :
    RectSrc.overlaps ⟨f0, f1⟩ ⟨s0, s1⟩ = Rect.overlaps f0 f1 s0 s1 := by
  prelude_simp [RectSrc.overlaps, Rect.overlaps]
  rw [Bool.eq_iff_iff]
  simp only [Bool.or_eq_true, Bool.and_eq_true, decide_eq_true_eq]
  omega

theorem with_corners_src_eq_model (a b : Pt) : RectSrc.with_corners a b = Rect.withCorners a b := by
  prelude_simp [RectSrc.with_corners, RectSrc.Size_from_bounding_box, RectSrc.Point_new, Rect.withCorners]

/-- `center_offset` of a `u32` size fits `i32`. -/
theorem centerOffset_fits {s : Sz} (h : IsU32 s) : FitsI32 (Rect.centerOffset s) := by
  unfold IsU32 at h; unfold FitsI32 Rect.centerOffset; dsimp only; omega

theorem with_center_src_eq_model (c : Pt) (s : Sz) (h : IsU32 s) :
    RectSrc.with_center c s = Rect.withCenter c s := by
  unfold RectSrc.with_center
  rw [center_offset_src_eq_model, Point_sub_size_src_eq_model _ _ (centerOffset_fits h)]
  rfl

theorem center_src_eq_model (r : Rect) (h : IsU32 r.size) : RectSrc.center r = r.center := by
  unfold RectSrc.center
  prelude_simp []
  rw [center_offset_src_eq_model, Point_add_Size_src_eq_model _ _ (centerOffset_fits h)]
  rfl

/-! ### `bottom_right`, `contains`, `intersection` -/

theorem bottom_right_src_eq_model (r : Rect) (h : FitsI32 r.size) : RectSrc.bottom_right r = r.bottomRight := by
  unfold RectSrc.bottom_right
  prelude_simp []
  rw [Point_add_Size_src_eq_model _ _ h]
  prelude_simp [RectSrc.Point_op_sub_Point, RectSrc.Point_new, Rect.bottomRight]
  simp only [Bool.and_eq_true, decide_eq_true_eq]

theorem contains_src_eq_model (r : Rect) (p : Pt) (h : FitsI32 r.size) : RectSrc.contains r p = r.contains p := by
  unfold RectSrc.contains
  rw [bottom_right_src_eq_model r h]
  prelude_simp [Rect.contains]
  simp only [Bool.and_eq_true, decide_eq_true_eq]
  cases r.bottomRight <;> simp

theorem ContainsPoint_contains_src_eq_model (r : Rect) (p : Pt) (h : FitsI32 r.size) :
    RectSrc.ContainsPoint_contains r p = r.contains p := by
  rw [← contains_src_eq_model r p h]; rfl

theorem intersection_src_eq_model (a b : Rect) (ha : FitsI32 a.size) (hb : FitsI32 b.size) :
    RectSrc.intersection a b = a.intersection b := by
  unfold RectSrc.intersection Rect.intersection
  rw [bottom_right_src_eq_model a ha, bottom_right_src_eq_model b hb]
  cases hbr : b.bottomRight <;> cases har : a.bottomRight <;>
    simp only [contains_src_eq_model _ _ ha, contains_src_eq_model _ _ hb, zero_src_eq_model, Rectangle_top_left]
  rename_i obr sbr
  prelude_simp [overlaps_src_eq_model, with_corners_src_eq_model, Point_component_max_src_eq_model,
    Point_component_min_src_eq_model]

/-! ### anchors, `envelope`, `resized*` -/

theorem AnchorPoint_x_src_eq_model (a : RectSrc.AnchorPoint) : axOf (RectSrc.AnchorPoint_x a) = (apOf a).ax := by
  cases a <;> rfl
theorem AnchorPoint_y_src_eq_model (a : RectSrc.AnchorPoint) : ayOf (RectSrc.AnchorPoint_y a) = (apOf a).ay := by
  cases a <;> rfl
theorem AnchorPoint_from_xy_src_eq_model (x : RectSrc.AnchorX) (y : RectSrc.AnchorY) :
    apOf (RectSrc.AnchorPoint_from_xy x y) = ⟨axOf x, ayOf y⟩ := by
  cases x <;> cases y <;> rfl

theorem anchor_x_src_eq_model (r : Rect) (a : RectSrc.AnchorX) : RectSrc.anchor_x r a = r.anchorX (axOf a) := by
  cases a <;> prelude_simp [RectSrc.anchor_x, Rect.anchorX, axOf, satAsI32, tdiv_two]

theorem anchor_y_src_eq_model (r : Rect) (a : RectSrc.AnchorY) : RectSrc.anchor_y r a = r.anchorY (ayOf a) := by
  cases a <;> prelude_simp [RectSrc.anchor_y, Rect.anchorY, ayOf, satAsI32, tdiv_two]

theorem anchor_point_src_eq_model (r : Rect) (a : RectSrc.AnchorPoint) :
    RectSrc.anchor_point r a = r.anchorPoint (apOf a) := by
  unfold RectSrc.anchor_point Rect.anchorPoint
  rw [anchor_x_src_eq_model, anchor_y_src_eq_model, AnchorPoint_x_src_eq_model, AnchorPoint_y_src_eq_model]
  rfl

theorem envelope_src_eq_model (a b : Rect) : RectSrc.envelope a b = a.envelope b := by
  unfold RectSrc.envelope Rect.envelope
  simp only [anchor_point_src_eq_model, with_corners_src_eq_model, Point_component_max_src_eq_model,
    Point_component_min_src_eq_model, Rectangle_top_left]
  rfl

theorem resize_width_mut_src_eq_model (r : Rect) (w : Nat) (a : RectSrc.AnchorX) :
    RectSrc.resize_width_mut r w a = r.resizedWidth w (axOf a) := by
  cases a <;> prelude_simp [RectSrc.resize_width_mut, Rect.resizedWidth, axOf, satAsI32, tdiv_two]

theorem resize_height_mut_src_eq_model (r : Rect) (h : Nat) (a : RectSrc.AnchorY) :
    RectSrc.resize_height_mut r h a = r.resizedHeight h (ayOf a) := by
  cases a <;> prelude_simp [RectSrc.resize_height_mut, Rect.resizedHeight, ayOf, satAsI32, tdiv_two]

theorem resized_width_src_eq_model (r : Rect) (w : Nat) (a : RectSrc.AnchorX) :
    RectSrc.resized_width r w a = r.resizedWidth w (axOf a) := by
  unfold RectSrc.resized_width; exact resize_width_mut_src_eq_model r w a

theorem resized_height_src_eq_model (r : Rect) (h : Nat) (a : RectSrc.AnchorY) :
    RectSrc.resized_height r h a = r.resizedHeight h (ayOf a) := by
  unfold RectSrc.resized_height; exact resize_height_mut_src_eq_model r h a

theorem resized_src_eq_model (r : Rect) (s : Sz) (a : RectSrc.AnchorPoint) :
    RectSrc.resized r s a = r.resized s (apOf a) := by
  unfold RectSrc.resized Rect.resized
  simp only [resize_width_mut_src_eq_model, resize_height_mut_src_eq_model, AnchorPoint_x_src_eq_model,
    AnchorPoint_y_src_eq_model, Size_width, Size_height]

/-! ### `offset`, `rows`, `columns`, `is_zero_sized`, `translate` -/

theorem offset_src_eq_model (r : Rect) (o : Int) (h : IsU32 r.size) : RectSrc.offset r o = r.offset o := by
  unfold RectSrc.offset Rect.offset
  by_cases ho : o ≥ 0
  · have h1 : i32_ge o 0 = true := by simp [i32_ge, ho]
    have h2 : i32_as_u32 o = o.toNat := by unfold i32_as_u32; simp [show 0 ≤ o from ho]
    simp only [h1, ho, ↓reduceIte, h2, u32_mul, Size_new_equal_src_eq_model, Size_saturating_add_src_eq_model,
      Point_new_equal_src_eq_model, Point_sub_src_eq_model, new_src_eq_model, Rectangle_top_left, Rectangle_size]
  · have h1 : i32_ge o 0 = false := by simp [i32_ge, ho]
    have h2 : i32_as_u32 (i32_neg o) = (-o).toNat := by
      show (if 0 ≤ -o then (-o).toNat else (-o + 4294967296).toNat) = (-o).toNat
      rw [if_pos (by omega)]
    have h3 : IsU32 (r.size.satSub (Sz.newEqual ((-o).toNat * 2))) := by
      unfold IsU32 at h ⊢; unfold Sz.satSub Sz.newEqual; dsimp only; omega
    simp only [h1, ho, ↓reduceIte, h2, u32_mul, Size_new_equal_src_eq_model, Size_saturating_sub_src_eq_model,
      Rectangle_size, center_src_eq_model r h, Bool.false_eq_true]
    exact with_center_src_eq_model _ _ h3

theorem OffsetOutline_offset_src_eq_model (r : Rect) (o : Int) (h : IsU32 r.size) :
    RectSrc.OffsetOutline_offset r o = r.offset o := by
  unfold RectSrc.OffsetOutline_offset; exact offset_src_eq_model r o h

theorem rows_src_eq_model (r : Rect) : range_i32_to_list (RectSrc.rows r) = r.rows := by
  prelude_simp [RectSrc.rows, Rect.rows, satAddI32, satAsI32, range_i32_to_list]
  rfl

theorem columns_src_eq_model (r : Rect) : range_i32_to_list (RectSrc.columns r) = r.columns := by
  prelude_simp [RectSrc.columns, Rect.columns, satAddI32, satAsI32, range_i32_to_list]
  rfl

/-- the two ends of `rows()` / `columns()` as the model names them -/
theorem rows_ends_src_eq_model (r : Rect) : RectSrc.rows r = ⟨r.tl.y, r.rowsEnd⟩ := by
  prelude_simp [RectSrc.rows, Rect.rowsEnd, satAddI32, satAsI32]
  rfl
theorem columns_ends_src_eq_model (r : Rect) : RectSrc.columns r = ⟨r.tl.x, r.columnsEnd⟩ := by
  prelude_simp [RectSrc.columns, Rect.columnsEnd, satAddI32, satAsI32]
  rfl

theorem is_zero_sized_src_eq_model (r : Rect) : RectSrc.is_zero_sized r = r.isZeroSized := by
  prelude_simp [RectSrc.is_zero_sized, Rect.isZeroSized]
  rw [Bool.eq_iff_iff]; simp

theorem Transform_translate_src_eq_model (r : Rect) (d : Pt) : RectSrc.Transform_translate r d = r.translate d := rfl
theorem Dimensions_bounding_box_src_eq_model (r : Rect) : RectSrc.Dimensions_bounding_box r = r := rfl
theorem PointsIter_points_src_eq_model (r : Rect) : RectSrc.PointsIter_points r = RectSrc.Points_new r := rfl

/-- **Inventory**: every function of every `impl` of `Rectangle` and of `Points` in the parsed files is translated
(and proved equal to the model in this directory), except the ones listed here: `translate_mut` returns `&mut Self`
(outside the translator's subset; the model has no in-place variant). A function ADDED to one of these impls (for
instance an override of `Iterator::fold` / `nth` / `size_hint` for `Points`, which changes what callers see without
touching a translated body) appears in `RectSrc.untranslated` and breaks this theorem. -/
theorem untranslated_pinned :
    RectSrc.untranslated = [("impl Transform for Rectangle", ["translate_mut"])] := by decide

/-! ### the headline theorems of C16, about the regenerated functions -/

/-- sizes of an intersection are bounded by the operands' (so the guards propagate) -/
theorem intersection_fits (a b : Rect) (ha : FitsI32 a.size) (hb : FitsI32 b.size) :
    FitsI32 (a.intersection b).size := by
  unfold FitsI32 at *
  unfold Rect.intersection
  split
  · rename_i obr sbr ho hs
    split
    · rename_i hov
      unfold Rect.bottomRight at ho hs
      split at ho
      · split at hs
        · cases ho; cases hs
          simp only [Rect.overlaps, Bool.and_eq_true, decide_eq_true_eq] at hov
          simp only [Rect.withCorners, Pt.componentMax, Pt.componentMin]
          omega
        · cases hs
      · cases ho
    · simp [Rect.zero, Sz.zero]
  · split
    · exact ha
    · simp [Rect.zero, Sz.zero]
  · split
    · exact hb
    · simp [Rect.zero, Sz.zero]
  · simp [Rect.zero, Sz.zero]

/-- `intersection` (regenerated from source) returns exactly the common points. -/
theorem src_mem_intersection (a b : Rect) (ha : FitsI32 a.size) (hb : FitsI32 b.size) (p : Pt) :
    RectSrc.contains (RectSrc.intersection a b) p = true ↔
      (RectSrc.contains a p = true ∧ RectSrc.contains b p = true) := by
  rw [intersection_src_eq_model a b ha hb, contains_src_eq_model _ _ (intersection_fits a b ha hb),
    contains_src_eq_model _ _ ha, contains_src_eq_model _ _ hb]
  exact Rect.mem_intersection a b p

example : FitsI32 (⟨⟨0, 0⟩, ⟨7, 8⟩⟩ : Rect).size ∧ FitsI32 (⟨⟨2, 3⟩, ⟨10, 7⟩⟩ : Rect).size := by decide
example : RectSrc.intersection ⟨⟨0, 0⟩, ⟨7, 8⟩⟩ ⟨⟨2, 3⟩, ⟨10, 7⟩⟩ = ⟨⟨2, 3⟩, ⟨5, 5⟩⟩ := by decide

/-- `contains` (regenerated) is top-left plus size as a set of points. -/
theorem src_contains_iff (r : Rect) (h : FitsI32 r.size) (p : Pt) :
    RectSrc.contains r p = true ↔
      r.tl.x ≤ p.x ∧ p.x < r.tl.x + r.size.w ∧ r.tl.y ≤ p.y ∧ p.y < r.tl.y + r.size.h := by
  rw [contains_src_eq_model r p h]; exact Rect.contains_iff

/-- `envelope` (regenerated) contains both operands (sizes read as at least 1) ... -/
theorem src_envelope_contains (a b : Rect) (ha : FitsI32 a.size) (hb : FitsI32 b.size)
    (he : FitsI32 (RectSrc.envelope a b).size) (p : Pt)
    (hp : RectSrc.contains a.atLeastOne p = true ∨ RectSrc.contains b.atLeastOne p = true) :
    RectSrc.contains (RectSrc.envelope a b) p = true := by
  have ha1 : FitsI32 a.atLeastOne.size := by unfold FitsI32 at *; simp only [Rect.atLeastOne]; omega
  have hb1 : FitsI32 b.atLeastOne.size := by unfold FitsI32 at *; simp only [Rect.atLeastOne]; omega
  rw [contains_src_eq_model _ _ ha1, contains_src_eq_model _ _ hb1] at hp
  rw [contains_src_eq_model _ _ he, envelope_src_eq_model]
  exact Rect.envelope_contains a b ha hb p hp

/-- ... and is the smallest such rectangle. -/
theorem src_envelope_least (a b c : Rect) (ha : FitsI32 a.size) (hb : FitsI32 b.size)
    (he : FitsI32 (RectSrc.envelope a b).size) (hc : FitsI32 c.size)
    (hall : ∀ p, (RectSrc.contains a.atLeastOne p = true ∨ RectSrc.contains b.atLeastOne p = true) →
      RectSrc.contains c p = true)
    (p : Pt) (hp : RectSrc.contains (RectSrc.envelope a b) p = true) : RectSrc.contains c p = true := by
  have ha1 : FitsI32 a.atLeastOne.size := by unfold FitsI32 at *; simp only [Rect.atLeastOne]; omega
  have hb1 : FitsI32 b.atLeastOne.size := by unfold FitsI32 at *; simp only [Rect.atLeastOne]; omega
  rw [contains_src_eq_model _ _ he, envelope_src_eq_model] at hp
  rw [contains_src_eq_model _ _ hc]
  refine Rect.envelope_least a b c ha hb ?_ p hp
  intro q hq
  have := hall q (by rw [contains_src_eq_model _ _ ha1, contains_src_eq_model _ _ hb1]; exact hq)
  rwa [contains_src_eq_model _ _ hc] at this

example : FitsI32 (RectSrc.envelope ⟨⟨0, 0⟩, ⟨7, 8⟩⟩ ⟨⟨2, 3⟩, ⟨10, 7⟩⟩).size := by decide
example : RectSrc.envelope ⟨⟨0, 0⟩, ⟨7, 8⟩⟩ ⟨⟨2, 3⟩, ⟨10, 7⟩⟩ = ⟨⟨0, 0⟩, ⟨12, 10⟩⟩ := by decide

/-- `with_center(center(), size)` (regenerated) is the identity. -/
theorem src_with_center_center (r : Rect) (h : IsU32 r.size) :
    RectSrc.with_center (RectSrc.center r) r.size = r := by
  rw [center_src_eq_model r h, with_center_src_eq_model _ _ h]
  exact EG.C16.with_center_center r

example : IsU32 (⟨⟨5, 5⟩, ⟨4, 6⟩⟩ : Rect).size := by decide

/-- `offset(n)` (regenerated) moves every side by `n` whenever the result has a positive size. -/
theorem src_offset_moves_sides (r : Rect) (n : Int)
    (hr : 0 ≤ n ∨ (0 < r.size.w ∧ 0 < r.size.h))
    (hn : 0 < (r.size.w : Int) + 2 * n ∧ 0 < (r.size.h : Int) + 2 * n)
    (hb : (r.size.w : Int) + 2 * n ≤ 4294967295 ∧ (r.size.h : Int) + 2 * n ≤ 4294967295)
    (hu : IsU32 r.size) :
    (RectSrc.offset r n).tl.x = r.tl.x - n ∧ (RectSrc.offset r n).tl.y = r.tl.y - n ∧
    ((RectSrc.offset r n).size.w : Int) = r.size.w + 2 * n ∧ ((RectSrc.offset r n).size.h : Int) = r.size.h + 2 * n := by
  rw [offset_src_eq_model r n hu]
  exact EG.C16.offset_moves_sides r n hr hn hb

example : RectSrc.offset ⟨⟨5, 5⟩, ⟨4, 6⟩⟩ (-1) = ⟨⟨6, 6⟩, ⟨2, 4⟩⟩ := by decide
example : RectSrc.offset ⟨⟨5, 5⟩, ⟨0, 3⟩⟩ 1 = ⟨⟨4, 4⟩, ⟨2, 5⟩⟩ := by decide

/-- Where the guard is needed: a width above `i32::MAX` wraps in `Point + Size` (a checked build stops at the
`debug_assert!`), so the regenerated `bottom_right` and the mathematical model differ there. -/
theorem bottom_right_differs_without_guard :
    RectSrc.bottom_right ⟨⟨0, 0⟩, ⟨2147483648, 1⟩⟩ = some ⟨-2147483649, 0⟩ ∧
    (⟨⟨0, 0⟩, ⟨2147483648, 1⟩⟩ : Rect).bottomRight = some ⟨2147483647, 0⟩ := by decide

/-- C03's clipping (`Adapter.clipped*`, `C03.clipped_exact`) is stated with `Rect.intersection`; by this equality it
is a statement about the regenerated `intersection` for every pair of `i32`-sized rectangles. -/
theorem clip_area_src (clip B : Rect) (h1 : FitsI32 clip.size) (h2 : FitsI32 B.size) :
    clip.intersection B = RectSrc.intersection clip B := (intersection_src_eq_model clip B h1 h2).symm

end EG.C16.Src
