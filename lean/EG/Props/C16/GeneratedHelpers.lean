/-
  C16 / regenerated `Point` / `Size` helpers that other models use.

  `tools/tr_rect.py` also translates the arithmetic helpers of core/src/geometry/{point,size}.rs that the line /
  rounded-rectangle / scaling models transcribe by hand (`Point::abs`, `x_axis`, `y_axis` of EG/Model/Bresenham.lean)
  or inline (`component_mul`, `component_div`, `swap_xy`, `Point * i32`, `Point / i32`, `Size` arithmetic). Equal to
  the hand definitions where there is one; otherwise the closed form the other models inline (`*_src_closed_form`).
-/
import EG.Props.C16.Generated
import EG.Model.Bresenham
namespace EG.C16.Src
open EG EG.RectSrcPrelude EG.Generated

theorem Point_abs_src_eq_model (p : Pt) : RectSrc.Point_abs p = Pt.abs p := by
  prelude_simp [RectSrc.Point_abs, RectSrc.Point_new, Pt.abs]
  rw [Pt.ext_iff']
  dsimp only
  refine ⟨?_, ?_⟩ <;> split <;> omega

theorem Point_x_axis_src_eq_model (p : Pt) : RectSrc.Point_x_axis p = Pt.xAxis p := rfl
theorem Point_y_axis_src_eq_model (p : Pt) : RectSrc.Point_y_axis p = Pt.yAxis p := rfl

theorem Point_component_mul_src_closed_form (a b : Pt) :
    RectSrc.Point_component_mul a b = ⟨a.x * b.x, a.y * b.y⟩ := rfl
/-- Rust `/` on `i32` truncates toward zero. -/
theorem Point_component_div_src_closed_form (a b : Pt) :
    RectSrc.Point_component_div a b = ⟨tdiv a.x b.x, tdiv a.y b.y⟩ := rfl
theorem Point_swap_xy_src_closed_form (a : Pt) : RectSrc.Point_swap_xy a = ⟨a.y, a.x⟩ := rfl
theorem Point_mul_i32_src_closed_form (a : Pt) (k : Int) : RectSrc.Point_op_mul_i32 a k = ⟨a.x * k, a.y * k⟩ := rfl
theorem Point_div_i32_src_closed_form (a : Pt) (k : Int) :
    RectSrc.Point_op_div_i32 a k = ⟨tdiv a.x k, tdiv a.y k⟩ := rfl
theorem Point_div_two_src_eq_model (a : Pt) : RectSrc.Point_op_div_i32 a 2 = ⟨tdiv2 a.x, tdiv2 a.y⟩ := by
  rw [Point_div_i32_src_closed_form]; simp only [tdiv, tdiv_two]

/-- `Point - Size` is the mathematical difference when the `debug_assert!`s hold. -/
theorem Point_sub_Size_src_eq_model (p : Pt) (s : Sz) (h : FitsI32 s) :
    RectSrc.Point_op_sub_Size p s = ⟨p.x - s.w, p.y - s.h⟩ := by
  unfold RectSrc.Point_op_sub_Size; exact Point_sub_size_src_eq_model p s h

theorem Size_component_min_src_closed_form (a b : Sz) :
    RectSrc.Size_component_min a b = ⟨min a.w b.w, min a.h b.h⟩ := rfl
theorem Size_component_max_src_closed_form (a b : Sz) :
    RectSrc.Size_component_max a b = ⟨max a.w b.w, max a.h b.h⟩ := rfl
theorem Size_component_mul_src_closed_form (a b : Sz) :
    RectSrc.Size_component_mul a b = ⟨a.w * b.w, a.h * b.h⟩ := rfl
theorem Size_component_div_src_closed_form (a b : Sz) :
    RectSrc.Size_component_div a b = ⟨a.w / b.w, a.h / b.h⟩ := rfl
theorem Size_add_src_closed_form (a b : Sz) : RectSrc.Size_op_add_Size a b = ⟨a.w + b.w, a.h + b.h⟩ := rfl
theorem Size_mul_u32_src_closed_form (a : Sz) (k : Nat) : RectSrc.Size_op_mul_u32 a k = ⟨a.w * k, a.h * k⟩ := rfl
theorem Size_div_u32_src_closed_form (a : Sz) (k : Nat) : RectSrc.Size_op_div_u32 a k = ⟨a.w / k, a.h / k⟩ := rfl
theorem Size_x_axis_src_closed_form (a : Sz) : RectSrc.Size_x_axis a = ⟨a.w, 0⟩ := rfl
theorem Size_y_axis_src_closed_form (a : Sz) : RectSrc.Size_y_axis a = ⟨0, a.h⟩ := rfl

example : FitsI32 (⟨3, 4⟩ : Sz) := by decide

end EG.C16.Src
