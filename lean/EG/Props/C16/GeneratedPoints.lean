/-
  C16 — the REGENERATED `rectangle::Points` iterator equals the hand-written state machine.

  `tools/tr_rect.py` also translates core/src/primitives/rectangle/points.rs (`Points::new`, `Points::empty`,
  `Iterator::next` with its `while` loop, `if let` and the calls of `Range::next` that mutate `self.x` / `self.y`)
  into `EG.Generated.RectSrc.Points_new / Points_empty / Iterator_next`. The `while` loop runs on explicit fuel
  (`RectSrcPrelude.while_loop`); this file proves that with more fuel than there are rows left
  (`(y.end - y.start) + 1` suffices) one call of the regenerated `next` is exactly one call of the hand model's
  `Rect.PointsIt.next` (same point, same successor state; `None` together), that `Points::new` builds the model's
  initial state, and hence that the list a `for` loop collects from the regenerated iterator is `Rect.points`
  (about which C16 / C05 prove: exactly the points `contains` accepts, row-major, each once).
-/
import EG.Props.C16.Generated
namespace EG.C16.Src
open EG EG.Rect EG.RectSrcPrelude EG.Generated

/-- The regenerated iterator state (`x: Range<i32>, y: Range<i32>, x_start`) as the hand model's flat record. -/
def pointsItOf (p : RectSrc.Points) : Rect.PointsIt := ⟨p.x.start, p.x.end_, p.y.start, p.y.end_, p.x_start⟩

/-- What one call of `next` shows to the caller, in the hand model's vocabulary. -/
def nextView (r : Option Pt × RectSrc.Points) : Option (Pt × Rect.PointsIt) :=
  r.1.map (fun pt => (pt, pointsItOf r.2))

theorem Points_empty_src_eq_model : pointsItOf RectSrc.Points_empty = PointsIt.empty := rfl

theorem Points_new_src_eq_model (r : Rect) : pointsItOf (RectSrc.Points_new r) = r.pointsIt := by
  unfold RectSrc.Points_new Rect.pointsIt
  rw [is_zero_sized_src_eq_model]
  cases h : r.isZeroSized
  · simp only [Bool.false_eq_true, ↓reduceIte, columns_ends_src_eq_model, rows_ends_src_eq_model]; rfl
  · simp only [↓reduceIte]; rfl

/-- The hand model's `nextFuel` does not depend on the fuel once it exceeds the number of rows left. -/
theorem nextFuel_stable : ∀ (f1 f2 : Nat) (it : Rect.PointsIt),
    (it.yEnd - it.y).toNat < f1 → (it.yEnd - it.y).toNat < f2 → it.nextFuel f1 = it.nextFuel f2 := by
  intro f1
  induction f1 with
  | zero => intro f2 it h; omega
  | succ n ih =>
    intro f2 it h1 h2
    cases f2 with
    | zero => omega
    | succ m =>
      unfold PointsIt.nextFuel
      by_cases hy : it.y < it.yEnd
      · rw [if_pos hy, if_pos hy]
        by_cases hx : it.x < it.xEnd
        · rw [if_pos hx, if_pos hx]
        · rw [if_neg hx, if_neg hx]
          exact ih m _ (by dsimp only; omega) (by dsimp only; omega)
      · rw [if_neg hy, if_neg hy]

/-- One call of the regenerated `next`, on `fuel` loop iterations, is one `nextFuel fuel` of the hand model. -/
theorem Iterator_next_fuel_src_eq_model : ∀ (fuel : Nat) (p : RectSrc.Points),
    (p.y.end_ - p.y.start).toNat < fuel →
    (RectSrc.Iterator_next fuel p).map nextView = some ((pointsItOf p).nextFuel fuel) := by
  intro fuel
  induction fuel with
  | zero => intro p h; omega
  | succ n ih =>
    intro p h
    obtain ⟨⟨xs, xe⟩, ⟨ys, ye⟩, x0⟩ := p
    unfold RectSrc.Iterator_next
    unfold while_loop
    unfold PointsIt.nextFuel
    by_cases hy : ys < ye
    · by_cases hx : xs < xe
      · prelude_simp [RectSrc.Points_x, RectSrc.Points_y, RectSrc.Points_set_x, RectSrc.Points_set_y,
          RectSrc.Points_x_start, RectSrc.Point_new, pointsItOf, nextView]
        simp [hy, hx, nextView, pointsItOf]
      · have ih' := ih ⟨⟨x0, xe⟩, ⟨ys + 1, ye⟩, x0⟩ (by dsimp only at h ⊢; omega)
        unfold RectSrc.Iterator_next at ih'
        prelude_simp [RectSrc.Points_x, RectSrc.Points_y, RectSrc.Points_set_x, RectSrc.Points_set_y,
          RectSrc.Points_x_start, RectSrc.Point_new, pointsItOf] at ih' ⊢
        simpa [hy, hx] using ih'
    · prelude_simp [RectSrc.Points_x, RectSrc.Points_y, RectSrc.Points_set_x, RectSrc.Points_set_y,
        RectSrc.Points_x_start, RectSrc.Point_new, pointsItOf, nextView]
      simp [hy, nextView]

/-- **`Iterator::next` (regenerated) = `PointsIt.next` (hand model)** whenever the fuel exceeds the rows left. -/
theorem Iterator_next_src_eq_model (p : RectSrc.Points) (fuel : Nat) (h : (p.y.end_ - p.y.start).toNat < fuel) :
    (RectSrc.Iterator_next fuel p).map nextView = some (pointsItOf p).next := by
  rw [Iterator_next_fuel_src_eq_model fuel p h]
  unfold PointsIt.next
  congr 1
  exact nextFuel_stable _ _ _ (by simpa [pointsItOf] using h) (by omega)

example : ((⟨⟨0, 3⟩, ⟨5, 7⟩, 0⟩ : RectSrc.Points).y.end_ - (⟨⟨0, 3⟩, ⟨5, 7⟩, 0⟩ : RectSrc.Points).y.start).toNat < 3 := by decide
example : RectSrc.Iterator_next 3 ⟨⟨3, 3⟩, ⟨5, 7⟩, 0⟩ = some (some ⟨0, 6⟩, ⟨⟨1, 3⟩, ⟨6, 7⟩, 0⟩) := by decide

/-- What a `for` loop collects from the regenerated iterator (`steps` calls of `next` at most, each with the fuel
that `Iterator_next_src_eq_model` asks for). -/
def srcCollect : Nat → RectSrc.Points → List Pt
  | 0, _ => []
  | steps + 1, p =>
    match RectSrc.Iterator_next ((p.y.end_ - p.y.start).toNat + 1) p with
    | some (some pt, p') => pt :: srcCollect steps p'
    | _ => []

theorem srcCollect_src_eq_model : ∀ (steps : Nat) (p : RectSrc.Points),
    srcCollect steps p = (pointsItOf p).toListFuel steps := by
  intro steps
  induction steps with
  | zero => intro p; rfl
  | succ n ih =>
    intro p
    have h := Iterator_next_src_eq_model p ((p.y.end_ - p.y.start).toNat + 1) (by omega)
    unfold srcCollect PointsIt.toListFuel
    cases hs : RectSrc.Iterator_next ((p.y.end_ - p.y.start).toNat + 1) p with
    | none => rw [hs] at h; cases h
    | some r =>
      obtain ⟨v, p'⟩ := r
      rw [hs] at h
      simp only [Option.map_some, nextView, Option.some.injEq] at h
      cases v with
      | none => simp only [Option.map_none] at h; rw [← h]
      | some pt => simp only [Option.map_some] at h; rw [← h]; simp only [ih p']

/-- `rect.points()` collected from the regenerated `Points::new` + `next`. -/
def srcPoints (r : Rect) : List Pt :=
  let it := RectSrc.Points_new r
  srcCollect ((it.y.end_ - it.y.start).toNat * (it.x.end_ - it.x_start).toNat + 1) it

/-- **The regenerated iterator yields the hand model's `points`** ... -/
theorem points_src_eq_model (r : Rect) : srcPoints r = r.points := by
  unfold srcPoints Rect.points
  simp only [srcCollect_src_eq_model, Points_new_src_eq_model]
  have := Points_new_src_eq_model r
  simp only [pointsItOf] at this
  rw [← this]

/-- ... hence exactly the points the regenerated `contains` accepts (C16 / C05's statement, both sides regenerated). -/
theorem src_mem_points_iff_contains (r : Rect) (h : r.InRange) (p : Pt) :
    p ∈ srcPoints r ↔ RectSrc.contains r p = true := by
  rw [points_src_eq_model, contains_src_eq_model r p ⟨h.w_le, h.h_le⟩]
  exact Rect.mem_points h

theorem src_points_row_major (r : Rect) : (srcPoints r).Pairwise Pt.rowMajorLt := by
  rw [points_src_eq_model]; exact Rect.points_rowMajor r

example : (⟨⟨-2, 3⟩, ⟨5, 4⟩⟩ : Rect).InRange := by decide
example : srcPoints ⟨⟨-1, 2⟩, ⟨2, 2⟩⟩ = [⟨-1, 2⟩, ⟨0, 2⟩, ⟨-1, 3⟩, ⟨0, 3⟩] := by decide

end EG.C16.Src
