/-
  C02 — property theorems (placeholder: no theorem yet, the property is not claimed).
-/
import EG.Basic.Core
namespace EG.C02
end EG.C02
