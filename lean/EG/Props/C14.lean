/-
  C14 — Text drawn with a MonoTextStyle places, for the i-th character of a line, the glyph bitmap
  that the font's glyph mapping designates for it in the cell at x offset i x (character width +
  spacing) ... (properties.jsonl, C14).

  Property theorems only (helper lemmas: EG/Lemmas/Font*.lean). Statements are about the model
  `EG.Model.Font` (src/mono_font/{mod,mapping,mono_text_style,draw_target}.rs arm for arm) and the
  tables `EG.Generated.FontTable` that tools/tr_fonts.py rewrites from the sources on every run.

  Strength: [P] = proved for all inputs; [F] = decided by kernel evaluation on the generated tables
  (292 fonts, 14 mappings) and lifted to all characters by [P] lemmas.
-/
import EG.Lemmas.FontTables
import EG.Lemmas.FontText
namespace EG.C14
open EG EG.Font EG.Generated

/-! ### The glyph a mapping designates ([P], every mapping string) -/

/-- `index c` is the first position of `c` in the list of mapped characters (`chars()`), or the
replacement index if `c` is not mapped. -/
theorem index_spec (m : StrMapping) (c : Nat) :
    m.index c = if c ∈ expand m.data then (expand m.data).idxOf c else m.replacement :=
  index_eq m c

/-- A mapped character designates a glyph below the glyph count, the character listed there is the
character itself, and no earlier position lists it. -/
theorem index_of_mapped (m : StrMapping) (c : Nat) (h : c ∈ expand m.data) :
    ∃ hlt : m.index c < (expand m.data).length,
      (expand m.data)[m.index c] = c ∧ ∀ k (hk : k < m.index c), (expand m.data)[k]'(by omega) ≠ c :=
  index_of_mem m c h

example : (⟨[0, 97, 102, 0, 49, 52], 0⟩ : StrMapping).index 50 = 7 := by decide

/-- Characters missing from the mapping (control characters, non-BMP, anything) get the replacement index. -/
theorem index_of_unmapped (m : StrMapping) (c : Nat) (h : c ∉ expand m.data) :
    m.index c = m.replacement :=
  index_of_not_mem m c h

example : (⟨[0, 97, 102, 0, 49, 52], 3⟩ : StrMapping).index 0x1F600 = 3 := by decide

/-- Each mapped character has its own index: two different mapped characters never share one. -/
theorem mapped_chars_own_index (m : StrMapping) (c₁ c₂ : Nat) (h₁ : c₁ ∈ expand m.data)
    (h₂ : c₂ ∈ expand m.data) (h : m.index c₁ = m.index c₂) : c₁ = c₂ :=
  index_injective_on_mapped m c₁ c₂ h₁ h₂ h

/-- A `\0 s e` range that does not cross the surrogate gap stands for the characters `s..=e` in
order: position `k` of the range holds `s + k` (consecutive characters, consecutive indices). -/
theorem range_is_interval (s e : Nat) (h : s ≤ e) (hg : e ≤ 0xD7FF ∨ 0xD7FF < s) :
    charRange s e = List.range' s (e + 1 - s) :=
  charRange_plain s e h hg

example : charRange 0x20 0x7f = List.range' 0x20 96 := range_is_interval _ _ (by decide) (by decide)

/-! ### The 14 built-in mappings ([F] on the generated strings) -/

/-- The translated tables have exactly the sizes counted in the source. -/
theorem tables_complete : fontTable.length = fontsSeen ∧ mappingTable.length = mappingsSeen :=
  ⟨fontTable_length, mappingTable_length⟩

/-- Every built-in mapping lists no character twice: glyph indices `0 .. count-1` and mapped characters
correspond one to one. -/
theorem builtin_mappings_nodup : ∀ m ∈ mappingTable, (expand m.data).Nodup := fun m hm =>
  expand_nodup_of_segsOK m.data (mappingTable_ok m hm).1

theorem builtin_index_bijective : ∀ m ∈ mappingTable, ∀ k (hk : k < (expand m.data).length),
    (mappingOfRec m).index ((expand m.data)[k]) = k := fun m hm k hk =>
  index_getElem_of_nodup (mappingOfRec m) (builtin_mappings_nodup m hm) k hk

/-- The replacement index of every built-in mapping designates an existing glyph, the glyph of `?`. -/
theorem builtin_replacement_is_question_mark : ∀ m ∈ mappingTable,
    m.replacement < (expand m.data).length ∧ (expand m.data)[m.replacement]? = some 63 := fun m hm =>
  ⟨(mappingTable_ok m hm).2.1, (mappingTable_ok m hm).2.2.1⟩

/-! ### The 292 built-in fonts ([F] on the generated table, lifted by [P] lemmas) -/

/-- Glyph count = glyphs per row x rows (equality, not only `<=`: a mapping range that is one character
short or an atlas with a surplus row fails here; see `FontOK`), positive character size, atlas file
length = bytes per row (rows padded to whole bytes) x height. -/
theorem builtin_fonts_atlas_fits : ∀ r ∈ fontTable, FontOK r := fontTable_ok

/-- [P] For every font: a glyph index below `glyphs_per_row * rows` has its cell completely inside
the font image. -/
theorem cell_inside_image (f : MonoFont) (gi : Nat) (hcw : 0 < f.cw) (hch : 0 < f.ch)
    (h : gi < (f.imgW / f.cw) * (f.imgH / f.ch)) : f.areaDrawable (f.glyphAreaOfIndex gi) = true :=
  cell_inside_of_lt f gi hcw hch h

example : (⟨64, 36, 4, 6, 0, 4, 6, 1, 3, 1, fun _ => 0⟩ : MonoFont).areaDrawable
    ((⟨64, 36, 4, 6, 0, 4, 6, 1, 3, 1, fun _ => 0⟩ : MonoFont).glyphAreaOfIndex 95) = true := by decide

/-- [P] Different glyph indices have different cells. -/
theorem cells_distinct (f : MonoFont) (i j : Nat) (hcw : 0 < f.cw) (hch : 0 < f.ch) (hw : f.cw ≤ f.imgW)
    (h : f.glyphAreaOfIndex i = f.glyphAreaOfIndex j) : i = j :=
  glyphArea_injective f i j hcw hch hw h

/-- For every built-in font and every character whatsoever (mapped, control, non-BMP) the cell of the
designated glyph lies completely inside the font image. -/
theorem builtin_cells_inside (r : FontRec) (hr : r ∈ fontTable) (c : Nat) :
    (fontOfRec r).areaDrawable ((fontOfRec r).glyphArea c) = true :=
  builtin_glyph_drawable r hr c

/-- Characters missing from the mapping render the replacement glyph: their cell is the cell of the
replacement index (for every mapping string and font geometry). -/
theorem unmapped_renders_replacement (f : MonoFont) (m : StrMapping) (hf : f.index = m.index) (c : Nat)
    (h : c ∉ expand m.data) : f.glyphArea c = f.glyphAreaOfIndex m.replacement := by
  unfold MonoFont.glyphArea; rw [hf, index_of_not_mem m c h]

example : (27 : Nat) ∉ expand [0, 32, 127] := by decide

/-! ### Layout ([P], every font, string, spacing, position) -/

/-- `line_elements`: item `2i` is the `i`-th character at x offset `i * (cw + spacing)`, item `2i+1`
the spacing element directly after that cell (not after the last character), and `Done` sits at the
end of the last cell: text width `n*cw + (n-1)*spacing` (this is the position `draw_string` returns). -/
theorem line_elements_pos (f : MonoFont) (pos : Pt) (text : List Nat) :
    (∀ i (h : i < text.length), (lineElements f pos text)[2 * i]? =
        some (⟨pos.x + ((i * (f.cw + f.spacing) : Nat) : Int), pos.y⟩, .char text[i])) ∧
    (∀ i, i + 1 < text.length → (lineElements f pos text)[2 * i + 1]? =
        some (⟨pos.x + ((i * (f.cw + f.spacing) : Nat) : Int) + (f.cw : Int), pos.y⟩, .spacing)) ∧
    (lineElements f pos text).length = (if text.length = 0 then 1 else 2 * text.length) ∧
    (lineElements f pos text).find? (fun e => e.2 == Elem.done) =
        some (⟨pos.x + (textWidth f text.length : Int), pos.y⟩, .done) := by
  rw [lineElements_eq_lineSpec]
  refine ⟨fun i h => lineSpec_char f text pos i h, fun i h => lineSpec_spacing f text pos i h,
    lineSpec_length f text pos, ?_⟩
  rw [lineSpec_done]
  have := endPos_x f pos text.length
  congr 2
  rw [Pt.ext_iff']
  exact this

/-! ### Pixels ([P]) -/

/-- One glyph, any colour variant: drawing the cell `a` of the atlas at `p` writes, for every pixel
`(dx, dy)` of the cell in row-major order, `p + (dx, dy)` with the text colour if the atlas bit is on
and the background colour if it is off — and nothing where the variant has no such colour. -/
theorem glyph_call_writes (B : Rect) (m : Mode) (atlas : Pt → Bool) (p : Pt) (a : Rect)
    (h : (⟨p, a.size⟩ : Rect).InRange) :
    (m.lower (BCall.fillContiguous ⟨p, a.size⟩ (cellBits atlas a))).flatMap (Call.lowerDefault B) =
      cellWrites m atlas p a :=
  glyph_lowerDefault B m atlas p a h

example : (⟨⟨-3, 7⟩, (⟨⟨8, 16⟩, ⟨4, 6⟩⟩ : Rect).size⟩ : Rect).InRange := by decide

/-- The draw_iter-only target and the native-fill target end with the same pixel map, for every
call list (so everything below holds for both). -/
theorem r1_eq_r2 (B : Rect) (calls : List Call) : runDefault B calls = runNative B calls :=
  runDefault_eq_runNative B calls

section DrawnString
variable (B : Rect) (f : MonoFont) (atlas : Pt → Bool) (st : Style) (m : Mode) (hm : st.mode = some m)
  (text : List Nat) (position : Pt) (bl : Baseline)
  (hd : ∀ c ∈ text, f.areaDrawable (f.glyphArea c) = true)
  (hr : TextInRange f ⟨position.x, position.y - f.baselineOffset bl⟩ text.length)
  (hdr : DecoInRange f ⟨position.x, position.y - f.baselineOffset bl⟩ (textWidth f text.length))
include hm hd hr hdr

/-- **glyph_cell_pixels.** In the final pixel map of `draw_string`, pixel `(dx, dy)` of the cell of the
`i`-th character `c` — at x offset `i * (cw + spacing)`, y = position minus the baseline offset — is what
the colour rule makes of the atlas bit `(dx, dy)` of the glyph cell designated for `c`: on -> text colour,
off -> background colour, `none` (untouched) when that colour is not set; wherever no drawn decoration
covers the pixel. (For an unmapped `c` the designated cell is the replacement glyph's.) -/
theorem glyph_cell_pixels (i c dx dy : Nat) (hi : text[i]? = some c) (hdx : dx < f.cw) (hdy : dy < f.ch)
    (hB : B.contains ⟨position.x + ((i * (f.cw + f.spacing) : Nat) : Int) + (dx : Int),
                      position.y - f.baselineOffset bl + (dy : Int)⟩ = true)
    (hnd : NotDecorated f st (textWidth f text.length) ⟨position.x, position.y - f.baselineOffset bl⟩
            ⟨position.x + ((i * (f.cw + f.spacing) : Nat) : Int) + (dx : Int),
             position.y - f.baselineOffset bl + (dy : Int)⟩) :
    runDefault B (f.drawString atlas st text position bl).1
        ⟨position.x + ((i * (f.cw + f.spacing) : Nat) : Int) + (dx : Int),
         position.y - f.baselineOffset bl + (dy : Int)⟩ =
      m.colourOf (atlas ⟨(f.glyphArea c).tl.x + (dx : Int), (f.glyphArea c).tl.y + (dy : Int)⟩) := by
  have hnd' := not_mem_decoWrites _ _ _ _ _ hnd
  cases hc : m.colourOf (atlas ⟨(f.glyphArea c).tl.x + (dx : Int), (f.glyphArea c).tl.y + (dy : Int)⟩) with
  | some col =>
    exact text_pixel_map B f atlas st m hm text position bl hd hr hdr _ col hB
      (Or.inl ⟨i, c, hi, dy, hdy, dx, hdx, rfl, hc⟩) hnd'
  | none =>
    apply untouched_pixel_map B f atlas st m hm text position bl hd hr hdr _ _ hnd'
    intro col h
    have := cell_pixel_unique f atlas m ⟨position.x, position.y - f.baselineOffset bl⟩ text i c dx dy hi hdx col h
    rw [hc] at this; cases this

/-- **Spacing.** The `spacing` columns after every character but the last get the background colour if
one is set and are otherwise untouched. -/
theorem spacing_pixels (i dx dy : Nat) (hi : i + 1 < text.length) (hdx : dx < f.spacing) (hdy : dy < f.ch)
    (hB : B.contains ⟨position.x + ((i * (f.cw + f.spacing) : Nat) : Int) + (f.cw : Int) + (dx : Int),
                      position.y - f.baselineOffset bl + (dy : Int)⟩ = true)
    (hnd : NotDecorated f st (textWidth f text.length) ⟨position.x, position.y - f.baselineOffset bl⟩
            ⟨position.x + ((i * (f.cw + f.spacing) : Nat) : Int) + (f.cw : Int) + (dx : Int),
             position.y - f.baselineOffset bl + (dy : Int)⟩) :
    runDefault B (f.drawString atlas st text position bl).1
        ⟨position.x + ((i * (f.cw + f.spacing) : Nat) : Int) + (f.cw : Int) + (dx : Int),
         position.y - f.baselineOffset bl + (dy : Int)⟩ = m.bgColour := by
  have hnd' := not_mem_decoWrites _ _ _ _ _ hnd
  cases hc : m.bgColour with
  | some col =>
    exact text_pixel_map B f atlas st m hm text position bl hd hr hdr _ col hB
      (Or.inr ⟨i, hi, dy, hdy, dx, hdx, rfl, hc⟩) hnd'
  | none =>
    apply untouched_pixel_map B f atlas st m hm text position bl hd hr hdr _ _ hnd'
    intro col h
    have := gap_pixel_unique f atlas m ⟨position.x, position.y - f.baselineOffset bl⟩ text i dx dy hdx col h
    rw [hc] at this; cases this

/-- Nothing outside the box `text width x character height` is touched, except by decorations. -/
theorem outside_untouched (q : Pt)
    (h : q.y < position.y - f.baselineOffset bl ∨ position.y - f.baselineOffset bl + (f.ch : Int) ≤ q.y ∨
         q.x < position.x ∨ position.x + (textWidth f text.length : Int) ≤ q.x)
    (hnd : NotDecorated f st (textWidth f text.length) ⟨position.x, position.y - f.baselineOffset bl⟩ q) :
    runDefault B (f.drawString atlas st text position bl).1 q = none :=
  untouched_pixel_map B f atlas st m hm text position bl hd hr hdr q
    (fun col => outside_not_in_text f atlas m _ text q h col) (not_mem_decoWrites _ _ _ _ _ hnd)

/-- **decorations_cover (underline).** Every pixel of the rectangle (text width) x (underline height) at
the font's underline offset has the underline colour in the final map. -/
theorem underline_covers (c : Color) (hu : st.underline.effective st.textColor = some c)
    (hw : 0 < textWidth f text.length) (q : Pt) (hB : B.contains q = true)
    (hq : (decoRect f.ulOff f.ulH ⟨position.x, position.y - f.baselineOffset bl⟩ (textWidth f text.length)).contains q = true) :
    runDefault B (f.drawString atlas st text position bl).1 q = some c :=
  underline_pixel_map B f atlas st m hm text position bl hd hr hdr c hu hw q hB hq

/-- **decorations_cover (strikethrough).** Likewise at the strikethrough offset (where the underline, drawn
after it, does not cover the same pixel). -/
theorem strikethrough_covers (c : Color) (hst : st.strikethrough.effective st.textColor = some c)
    (hw : 0 < textWidth f text.length) (q : Pt) (hB : B.contains q = true)
    (hq : (decoRect f.stOff f.stH ⟨position.x, position.y - f.baselineOffset bl⟩ (textWidth f text.length)).contains q = true)
    (hnu : st.underline.effective st.textColor = none ∨
      (decoRect f.ulOff f.ulH ⟨position.x, position.y - f.baselineOffset bl⟩ (textWidth f text.length)).contains q = false) :
    runDefault B (f.drawString atlas st text position bl).1 q = some c :=
  strikethrough_pixel_map B f atlas st m hm text position bl hd hr hdr c hst hw q hB hq hnu

end DrawnString

/-! Non-vacuity: a font with spacing 1 and an atlas of 4 glyphs per row, two characters, text colour
only, strikethrough in a custom colour, underline in the text colour, alphabetic baseline. -/
section Example
private def exFont : MonoFont := ⟨16, 8, 4, 4, 1, 3, 5, 1, 2, 1, fun c => c % 8⟩
private def exStyle : Style := ⟨some 7, none, .textColor, .custom 9⟩
private def exBox : Rect := ⟨⟨0, 0⟩, ⟨100, 100⟩⟩
private def exAtlas : Pt → Bool := fun p => p.x % 2 == 0


/-- second character (i = 1), cell pixel (2, 1): an on bit gets the text colour -/
example : runDefault exBox (exFont.drawString exAtlas exStyle [5, 2] ⟨3, 20⟩ .alphabetic).1 ⟨10, 18⟩ = some 7 :=
  glyph_cell_pixels exBox exFont exAtlas exStyle (.fg 7) (by decide) [5, 2] ⟨3, 20⟩ .alphabetic (by decide) (by decide) (by decide)
    1 2 2 1 (by decide) (by decide) (by decide) (by decide) (by decide)

/-- the gap column between the two characters stays untouched (no background colour) -/
example : runDefault exBox (exFont.drawString exAtlas exStyle [5, 2] ⟨3, 20⟩ .alphabetic).1 ⟨7, 18⟩ = none :=
  spacing_pixels exBox exFont exAtlas exStyle (.fg 7) (by decide) [5, 2] ⟨3, 20⟩ .alphabetic (by decide) (by decide) (by decide)
    0 0 1 (by decide) (by decide) (by decide) (by decide) (by decide)

/-- the underline (text colour) covers the last column of the text width, the strikethrough the first -/
example : runDefault exBox (exFont.drawString exAtlas exStyle [5, 2] ⟨3, 20⟩ .alphabetic).1 ⟨11, 22⟩ = some 7 :=
  underline_covers exBox exFont exAtlas exStyle (.fg 7) (by decide) [5, 2] ⟨3, 20⟩ .alphabetic (by decide) (by decide) (by decide)
    7 (by decide) (by decide) ⟨11, 22⟩ (by decide) (by decide)
example : runDefault exBox (exFont.drawString exAtlas exStyle [5, 2] ⟨3, 20⟩ .alphabetic).1 ⟨3, 19⟩ = some 9 :=
  strikethrough_covers exBox exFont exAtlas exStyle (.fg 7) (by decide) [5, 2] ⟨3, 20⟩ .alphabetic (by decide) (by decide) (by decide)
    9 (by decide) (by decide) ⟨3, 19⟩ (by decide) (by decide) (by decide)
example : runDefault exBox (exFont.drawString exAtlas exStyle [5, 2] ⟨3, 20⟩ .alphabetic).1 ⟨12, 18⟩ = none :=
  outside_untouched exBox exFont exAtlas exStyle (.fg 7) (by decide) [5, 2] ⟨3, 20⟩ .alphabetic (by decide) (by decide) (by decide)
    ⟨12, 18⟩ (by decide) (by decide)
end Example

/-- Built-in fonts: the drawability hypothesis of the pixel theorems holds for every string. -/
theorem builtin_text_drawable (r : FontRec) (hr : r ∈ fontTable) (text : List Nat) :
    ∀ c ∈ text, (fontOfRec r).areaDrawable ((fontOfRec r).glyphArea c) = true :=
  fun c _ => builtin_glyph_drawable r hr c

/-- With neither text nor background colour only decorations are drawn, over `n * (cw + spacing)`
(for the built-in fonts, whose spacing is 0, that is the text width). -/
theorem transparent_text_only_decorations (f : MonoFont) (atlas : Pt → Bool) (st : Style) (hm : st.mode = none)
    (text : List Nat) (position : Pt) (bl : Baseline) :
    (f.drawString atlas st text position bl).1 =
      if 0 < (f.cw + f.spacing) * text.length
      then f.drawDecorations st ((f.cw + f.spacing) * text.length) ⟨position.x, position.y - f.baselineOffset bl⟩
      else [] := by
  rw [drawString_transparent f atlas st hm]

example : (⟨none, none, .custom 3, .none⟩ : Style).mode = none := by decide

theorem builtin_spacing_zero : ∀ r ∈ fontTable, FontDecoOK r := fontTable_deco_ok

-- [V] the atlas bitmap content itself (which bits are on in which cell of the 292 raw files) is a parameter of the theorems; the correspondence feeds the real bits read with `font.image.pixel()`: carried by correspondence + oracle only
-- (closed) ranges of a mapping string that cross the surrogate gap (none in the 14 built-in strings; `range_is_interval` excludes them) are characterised in Props/C14/Surrogate.lean (`range_crossing_surrogate_gap`, `range_crossing_position`, `range_members`, `range_no_duplicates`: any range between two `char`s); tied by the `font.indexs` custom-string ops (a `\0 U+D7FE U+E001` range among them)
-- [V] `as u32` / `as i32` truncation of glyph indices and cell coordinates beyond 2^31 and i32 overflow of the running x position (theorems assume `TextInRange`): carried by correspondence + oracle only

end EG.C14
