/-
  C14 — Text drawn with a MonoTextStyle places, for the i-th character of a line, the glyph bitmap
  that the font's glyph mapping designates for it in the cell at x offset i x (character width +
  spacing) ... (properties.jsonl, C14).

  Property theorems only (helper lemmas: EG/Lemmas/Font*.lean). Statements are about the model
  `EG.Model.Font` (src/mono_font/{mod,mapping,mono_text_style,draw_target}.rs arm for arm) and the
  tables `EG.Generated.FontTable` that tools/tr_fonts.py rewrites from the sources on every run.

  Strength: [P] = proved for all inputs; [F] = decided by kernel evaluation on the generated tables
  (292 fonts, 14 mappings) and lifted to all characters by [P] lemmas.
-/
import EG.Lemmas.FontTables
namespace EG.C14
open EG EG.Font EG.Generated

/-! ### The glyph a mapping designates ([P], every mapping string) -/

/-- `index c` is the first position of `c` in the list of mapped characters (`chars()`), or the
replacement index if `c` is not mapped. -/
theorem index_spec (m : StrMapping) (c : Nat) :
    m.index c = if c ∈ expand m.data then (expand m.data).idxOf c else m.replacement :=
  index_eq m c

/-- A mapped character designates a glyph below the glyph count, the character listed there is the
character itself, and no earlier position lists it. -/
theorem index_of_mapped (m : StrMapping) (c : Nat) (h : c ∈ expand m.data) :
    ∃ hlt : m.index c < (expand m.data).length,
      (expand m.data)[m.index c] = c ∧ ∀ k (hk : k < m.index c), (expand m.data)[k]'(by omega) ≠ c :=
  index_of_mem m c h

example : (⟨[0, 97, 102, 0, 49, 52], 0⟩ : StrMapping).index 50 = 7 := by decide

/-- Characters missing from the mapping (control characters, non-BMP, anything) get the replacement index. -/
theorem index_of_unmapped (m : StrMapping) (c : Nat) (h : c ∉ expand m.data) :
    m.index c = m.replacement :=
  index_of_not_mem m c h

example : (⟨[0, 97, 102, 0, 49, 52], 3⟩ : StrMapping).index 0x1F600 = 3 := by decide

/-- Each mapped character has its own index: two different mapped characters never share one. -/
theorem mapped_chars_own_index (m : StrMapping) (c₁ c₂ : Nat) (h₁ : c₁ ∈ expand m.data)
    (h₂ : c₂ ∈ expand m.data) (h : m.index c₁ = m.index c₂) : c₁ = c₂ :=
  index_injective_on_mapped m c₁ c₂ h₁ h₂ h

/-- A `\0 s e` range that does not cross the surrogate gap stands for the characters `s..=e` in
order: position `k` of the range holds `s + k` (consecutive characters, consecutive indices). -/
theorem range_is_interval (s e : Nat) (h : s ≤ e) (hg : e ≤ 0xD7FF ∨ 0xD7FF < s) :
    charRange s e = List.range' s (e + 1 - s) :=
  charRange_plain s e h hg

example : charRange 0x20 0x7f = List.range' 0x20 96 := range_is_interval _ _ (by decide) (by decide)

/-! ### The 14 built-in mappings ([F] on the generated strings) -/

/-- The translated tables have exactly the sizes counted in the source. -/
theorem tables_complete : fontTable.length = fontsSeen ∧ mappingTable.length = mappingsSeen :=
  ⟨fontTable_length, mappingTable_length⟩

/-- Every built-in mapping lists no character twice: glyph indices `0 .. count-1` and mapped characters
correspond one to one. -/
theorem builtin_mappings_nodup : ∀ m ∈ mappingTable, (expand m.data).Nodup := fun m hm =>
  expand_nodup_of_segsOK m.data (mappingTable_ok m hm).1

theorem builtin_index_bijective : ∀ m ∈ mappingTable, ∀ k (hk : k < (expand m.data).length),
    (mappingOfRec m).index ((expand m.data)[k]) = k := fun m hm k hk =>
  index_getElem_of_nodup (mappingOfRec m) (builtin_mappings_nodup m hm) k hk

/-- The replacement index of every built-in mapping designates an existing glyph, the glyph of `?`. -/
theorem builtin_replacement_is_question_mark : ∀ m ∈ mappingTable,
    m.replacement < (expand m.data).length ∧ (expand m.data)[m.replacement]? = some 63 := fun m hm =>
  ⟨(mappingTable_ok m hm).2.1, (mappingTable_ok m hm).2.2.1⟩

/-! ### The 292 built-in fonts ([F] on the generated table, lifted by [P] lemmas) -/

/-- Glyph count <= glyphs per row x rows, positive character size, atlas file length = bytes per row
(rows padded to whole bytes) x height. -/
theorem builtin_fonts_atlas_fits : ∀ r ∈ fontTable, FontOK r := fontTable_ok

/-- [P] For every font: a glyph index below `glyphs_per_row * rows` has its cell completely inside
the font image. -/
theorem cell_inside_image (f : MonoFont) (gi : Nat) (hcw : 0 < f.cw) (hch : 0 < f.ch)
    (h : gi < (f.imgW / f.cw) * (f.imgH / f.ch)) : f.areaDrawable (f.glyphAreaOfIndex gi) = true :=
  cell_inside_of_lt f gi hcw hch h

example : (⟨64, 36, 4, 6, 0, 4, 6, 1, 3, 1, fun _ => 0⟩ : MonoFont).areaDrawable
    ((⟨64, 36, 4, 6, 0, 4, 6, 1, 3, 1, fun _ => 0⟩ : MonoFont).glyphAreaOfIndex 95) = true := by decide

/-- [P] Different glyph indices have different cells. -/
theorem cells_distinct (f : MonoFont) (i j : Nat) (hcw : 0 < f.cw) (hch : 0 < f.ch) (hw : f.cw ≤ f.imgW)
    (h : f.glyphAreaOfIndex i = f.glyphAreaOfIndex j) : i = j :=
  glyphArea_injective f i j hcw hch hw h

/-- For every built-in font and every character whatsoever (mapped, control, non-BMP) the cell of the
designated glyph lies completely inside the font image. -/
theorem builtin_cells_inside (r : FontRec) (hr : r ∈ fontTable) (c : Nat) :
    (fontOfRec r).areaDrawable ((fontOfRec r).glyphArea c) = true :=
  builtin_glyph_drawable r hr c

end EG.C14
