/-
  C14 — property theorems (placeholder: no theorem yet, the property is not claimed).
-/
import EG.Basic.Core
namespace EG.C14
end EG.C14
