/-
  C16 — Rectangle operations agree with the set of points they describe.

  Property theorems only (helper lemmas live in EG/Lemmas). All statements are about the model
  `EG.Model.Rect` (a literal transcription of core/src/primitives/rectangle/{mod,points}.rs) and
  hold for every rectangle / pair of rectangles; where the Rust code would saturate or panic
  (`u32 -> i32` conversion, `i32` overflow of `top_left + size`) the statements carry the explicit
  decidable range guard `Rect.InRange`.
-/
import EG.Lemmas.RectPoints
namespace EG.C16
open EG EG.Rect

/-! ### `contains`, `bottom_right`: top-left plus size as a set of points -/

theorem contains_iff_topleft_size (r : Rect) (p : Pt) :
    r.contains p = true ↔
      r.tl.x ≤ p.x ∧ p.x < r.tl.x + r.size.w ∧ r.tl.y ≤ p.y ∧ p.y < r.tl.y + r.size.h :=
  Rect.contains_iff

/-- (Definitional: `rfl`, restates the model's text of `bottom_right`; the content is in
`bottom_right_is_max` / `bottom_right_none_iff_empty`.) -/
theorem bottom_right_spec (r : Rect) :
    r.bottomRight = if 0 < r.size.w ∧ 0 < r.size.h
      then some ⟨r.tl.x + r.size.w - 1, r.tl.y + r.size.h - 1⟩ else none := rfl

/-- `bottom_right` is the last point `contains` accepts (and `None` iff there is none). -/
theorem bottom_right_is_max (r : Rect) (br : Pt) (h : r.bottomRight = some br) :
    r.contains br = true ∧ ∀ p, r.contains p = true → p.x ≤ br.x ∧ p.y ≤ br.y := by
  unfold bottomRight at h
  split at h
  · cases h
    refine ⟨by rw [Rect.contains_iff]; simp only; omega, ?_⟩
    intro p hp; rw [Rect.contains_iff] at hp; simp only; omega
  · cases h

theorem bottom_right_none_iff_empty (r : Rect) :
    r.bottomRight = none ↔ ∀ p, r.contains p = false := by
  rw [Rect.bottomRight_eq_none_iff]
  constructor
  · intro h p; exact Rect.contains_false_of_zero h
  · intro h
    have := h r.tl
    cases hc : r.contains r.tl with
    | true => rw [hc] at this; cases this
    | false =>
      have hn : ¬ (r.contains r.tl = true) := by simp [hc]
      rw [Rect.contains_iff] at hn; omega

/-! ### `intersection` -/

/-- `intersection` returns exactly the common points of both rectangles. -/
theorem mem_intersection (a b : Rect) (p : Pt) :
    (a.intersection b).contains p = true ↔ (a.contains p = true ∧ b.contains p = true) :=
  Rect.mem_intersection a b p

/-- The same point set in either argument order. -/
theorem intersection_comm_points (a b : Rect) (p : Pt) :
    (a.intersection b).contains p = (b.intersection a).contains p := by
  rw [Bool.eq_iff_iff, mem_intersection, mem_intersection, and_comm]

/-- Contained in both operands. -/
theorem intersection_subset (a b : Rect) (p : Pt) (h : (a.intersection b).contains p = true) :
    a.contains p = true ∧ b.contains p = true := (mem_intersection a b p).mp h

/-- Zero sized if there is no common point. -/
theorem intersection_zero_of_disjoint (a b : Rect)
    (h : ∀ p, ¬ (a.contains p = true ∧ b.contains p = true)) :
    (a.intersection b).isZeroSized = true := Rect.intersection_zero_of_disjoint a b h

/-- With `points()`: the points of the intersection are the points of `a` that lie in `b`. -/
theorem points_intersection (a b : Rect) (hi : (a.intersection b).InRange) (ha : a.InRange) (p : Pt) :
    p ∈ (a.intersection b).points ↔ (p ∈ a.points ∧ b.contains p = true) := by
  rw [Rect.mem_points hi, Rect.mem_points ha, mem_intersection]

/-! ### `envelope` — the smallest rectangle containing both (operands treated as at least 1x1,
the documented convention)

`envelope_contains` / `envelope_least` are about `atLeastOne` operands: a zero width or height counts as
1. For non-empty operands `atLeastOne` is the identity and the statement is the property's. For empty
operands the result is NOT the smallest rectangle containing both point sets; `envelope_zero_sized`
states what the code returns there. -/

theorem envelope_contains (a b : Rect) (ha : a.size.w ≤ 2147483647 ∧ a.size.h ≤ 2147483647)
    (hb : b.size.w ≤ 2147483647 ∧ b.size.h ≤ 2147483647) (p : Pt)
    (hp : a.atLeastOne.contains p = true ∨ b.atLeastOne.contains p = true) :
    (a.envelope b).contains p = true := Rect.envelope_contains a b ha hb p hp

theorem envelope_least (a b c : Rect) (ha : a.size.w ≤ 2147483647 ∧ a.size.h ≤ 2147483647)
    (hb : b.size.w ≤ 2147483647 ∧ b.size.h ≤ 2147483647)
    (hc : ∀ p, (a.atLeastOne.contains p = true ∨ b.atLeastOne.contains p = true) → c.contains p = true)
    (p : Pt) (hp : (a.envelope b).contains p = true) : c.contains p = true :=
  Rect.envelope_least a b c ha hb hc p hp

/-- What the code returns, for all operands, without `atLeastOne`: the corners are the component-wise
minimum of the top-left points and the maximum of `top_left + max(size, 1)` (one past the bottom-right
anchor points). -/
theorem envelope_closed_form (a b : Rect) (ha : a.size.w ≤ 2147483647 ∧ a.size.h ≤ 2147483647)
    (hb : b.size.w ≤ 2147483647 ∧ b.size.h ≤ 2147483647) :
    a.envelope b =
      ⟨⟨min a.tl.x b.tl.x, min a.tl.y b.tl.y⟩,
       ⟨(max (a.tl.x + max (a.size.w : Int) 1) (b.tl.x + max (b.size.w : Int) 1) - min a.tl.x b.tl.x).toNat,
        (max (a.tl.y + max (a.size.h : Int) 1) (b.tl.y + max (b.size.h : Int) 1) - min a.tl.y b.tl.y).toNat⟩⟩ :=
  Rect.envelope_eq a b ha hb

/-- **Zero sized operands** (the case the two theorems above cover only through `atLeastOne`): the
envelope of two rectangles of size 0x0 — two EMPTY point sets — is not empty. The code returns the
rectangle spanned by the two top-left points inclusive, `|dx|+1` by `|dy|+1` (1x1 when they coincide):
it is not "the smallest rectangle containing both" point sets (the empty rectangle would be), it is the
smallest one containing both top-left points. -/
theorem envelope_zero_sized (a b : Rect) (ha : a.size = ⟨0, 0⟩) (hb : b.size = ⟨0, 0⟩) :
    a.envelope b = Rect.withCorners a.tl b.tl ∧
    (a.envelope b).size = ⟨(a.tl.x - b.tl.x).natAbs + 1, (a.tl.y - b.tl.y).natAbs + 1⟩ ∧
    (a.envelope b).contains a.tl = true ∧ (a.envelope b).contains b.tl = true ∧
    (∀ c : Rect, c.contains a.tl = true → c.contains b.tl = true →
      ∀ p, (a.envelope b).contains p = true → c.contains p = true) := by
  have ha' : a.size.w ≤ 2147483647 ∧ a.size.h ≤ 2147483647 := by rw [ha]; decide
  have hb' : b.size.w ≤ 2147483647 ∧ b.size.h ≤ 2147483647 := by rw [hb]; decide
  have haw : a.size.w = 0 := by rw [ha]
  have hah : a.size.h = 0 := by rw [ha]
  have hbw : b.size.w = 0 := by rw [hb]
  have hbh : b.size.h = 0 := by rw [hb]
  have he := Rect.envelope_eq a b ha' hb'
  refine ⟨?_, ?_, ?_, ?_, ?_⟩
  · rw [he]
    simp only [withCorners, haw, hah, hbw, hbh, Rect.mk.injEq, Sz.mk.injEq]
    refine ⟨trivial, ?_, ?_⟩ <;> omega
  · rw [he]
    simp only [haw, hah, hbw, hbh, Sz.mk.injEq]
    refine ⟨?_, ?_⟩ <;> omega
  · rw [he, Rect.contains_iff]; simp only [haw, hah, hbw, hbh]; omega
  · rw [he, Rect.contains_iff]; simp only [haw, hah, hbw, hbh]; omega
  · intro c hca hcb p hp
    rw [he, Rect.contains_iff] at hp
    simp only [haw, hah, hbw, hbh] at hp
    rw [Rect.contains_iff] at hca hcb ⊢
    omega

/-- For every pair (any sizes, zero or not) the envelope contains both top-left points. -/
theorem envelope_contains_top_lefts (a b : Rect) (ha : a.size.w ≤ 2147483647 ∧ a.size.h ≤ 2147483647)
    (hb : b.size.w ≤ 2147483647 ∧ b.size.h ≤ 2147483647) :
    (a.envelope b).contains a.tl = true ∧ (a.envelope b).contains b.tl = true := by
  constructor
  · apply Rect.envelope_contains a b ha hb a.tl; left
    rw [Rect.contains_iff]; simp only [atLeastOne]; omega
  · apply Rect.envelope_contains a b ha hb b.tl; right
    rw [Rect.contains_iff]; simp only [atLeastOne]; omega

example : (⟨⟨5, 5⟩, ⟨0, 0⟩⟩ : Rect).size = ⟨0, 0⟩ ∧ (⟨⟨20, 20⟩, ⟨0, 0⟩⟩ : Rect).size = ⟨0, 0⟩ := ⟨rfl, rfl⟩
example : (⟨⟨-7, 3⟩, ⟨320, 0⟩⟩ : Rect).size.w ≤ 2147483647 ∧ (⟨⟨-7, 3⟩, ⟨320, 0⟩⟩ : Rect).size.h ≤ 2147483647 := by decide
-- two empty rectangles 15 apart: a 16x16 envelope; an empty operand far from a non-empty one enlarges the result
example : (⟨⟨5, 5⟩, ⟨0, 0⟩⟩ : Rect).envelope ⟨⟨20, 20⟩, ⟨0, 0⟩⟩ = ⟨⟨5, 5⟩, ⟨16, 16⟩⟩ := by decide
example : (⟨⟨5, 5⟩, ⟨0, 0⟩⟩ : Rect).envelope ⟨⟨5, 5⟩, ⟨0, 0⟩⟩ = ⟨⟨5, 5⟩, ⟨1, 1⟩⟩ := by decide
example : (⟨⟨0, 0⟩, ⟨0, 0⟩⟩ : Rect).envelope ⟨⟨10, 10⟩, ⟨2, 2⟩⟩ = ⟨⟨0, 0⟩, ⟨12, 12⟩⟩ := by decide

/-! ### `points`, `rows`, `columns` -/

/-- `points()` yields exactly the points `contains()` accepts ... -/
theorem mem_points_iff_contains (r : Rect) (h : r.InRange) (p : Pt) :
    p ∈ r.points ↔ r.contains p = true := Rect.mem_points h

/-- ... in row-major order (strictly increasing, so each exactly once) ... -/
theorem points_row_major (r : Rect) : r.points.Pairwise Pt.rowMajorLt := Rect.points_rowMajor r

theorem points_nodup (r : Rect) : r.points.Nodup := Rect.points_nodup r

/-- ... `width * height` of them. -/
theorem points_length (r : Rect) (h : r.InRange) : r.points.length = r.size.w * r.size.h :=
  Rect.points_length h

/-- The iterator state machine equals the product of `rows()` and `columns()`. -/
theorem points_eq_rows_columns (r : Rect) :
    r.points = if r.isZeroSized then [] else r.rows.flatMap (fun y => r.columns.map (fun x => ⟨x, y⟩)) :=
  Rect.points_eq_spec r

theorem mem_rows (r : Rect) (h : r.InRange) (y : Int) :
    y ∈ r.rows ↔ r.tl.y ≤ y ∧ y < r.tl.y + r.size.h := by
  have := Rect.rowsEnd_eq h
  unfold rowsEnd at this
  unfold rows; rw [mem_irange, this]

theorem mem_columns (r : Rect) (h : r.InRange) (x : Int) :
    x ∈ r.columns ↔ r.tl.x ≤ x ∧ x < r.tl.x + r.size.w := by
  have := Rect.columnsEnd_eq h
  unfold columnsEnd at this
  unfold columns; rw [mem_irange, this]

/-! ### `center`, `with_center`, `with_corners` -/

/-- `with_center(center(), size)` is the identity. -/
theorem with_center_center (r : Rect) : Rect.withCenter r.center r.size = r := by
  cases r with | mk tl size =>
  cases tl; cases size
  simp only [withCenter, center, centerOffset, Rect.mk.injEq, Pt.mk.injEq, and_true]
  omega

/-- The centre of `with_center(c, s)` is `c`. -/
theorem center_with_center (c : Pt) (s : Sz) : (Rect.withCenter c s).center = c := by
  cases c
  simp only [withCenter, center, centerOffset, Pt.mk.injEq]
  omega

/-- The centre is the middle point: equally far from both sides, the extra pixel of even sizes
on the right / bottom. -/
theorem center_is_middle (r : Rect) (h : 0 < r.size.w ∧ 0 < r.size.h) :
    let c := r.center
    (c.x - r.tl.x = (r.tl.x + r.size.w - 1) - c.x ∨ c.x - r.tl.x + 1 = (r.tl.x + r.size.w - 1) - c.x) ∧
    (c.y - r.tl.y = (r.tl.y + r.size.h - 1) - c.y ∨ c.y - r.tl.y + 1 = (r.tl.y + r.size.h - 1) - c.y) := by
  simp only [center, centerOffset]
  omega

/-- `with_corners` is the rectangle spanned by the two corners (in any order). -/
theorem with_corners_spec (a b : Pt) (p : Pt) :
    (Rect.withCorners a b).contains p = true ↔
      min a.x b.x ≤ p.x ∧ p.x ≤ max a.x b.x ∧ min a.y b.y ≤ p.y ∧ p.y ≤ max a.y b.y :=
  Rect.contains_withCorners

theorem with_corners_comm (a b : Pt) : Rect.withCorners a b = Rect.withCorners b a := by
  simp only [withCorners, Rect.mk.injEq, Pt.mk.injEq, Sz.mk.injEq]
  omega

theorem with_corners_top_left_bottom_right (r : Rect) (br : Pt) (h : r.bottomRight = some br) :
    Rect.withCorners r.tl br = r := by
  unfold bottomRight at h
  split at h
  · cases h
    cases r with | mk tl size =>
    cases tl; cases size
    simp only [withCorners, Rect.mk.injEq, Pt.mk.injEq, Sz.mk.injEq] at *
    omega
  · cases h

/-! ### `anchor_point`, `resized*` -/

/-- Anchor points of a rectangle (size treated as at least 1): left/top is the top-left
coordinate, right/bottom the bottom-right one, centre the middle rounded down. -/
theorem anchor_point_spec (r : Rect) (h : r.size.w ≤ 2147483647 ∧ r.size.h ≤ 2147483647) (a : Anchor) :
    (r.anchorPoint a).x = (match a.ax with
      | .left => r.tl.x
      | .center => r.tl.x + (max (r.size.w : Int) 1 - 1) / 2
      | .right => r.tl.x + max (r.size.w : Int) 1 - 1) ∧
    (r.anchorPoint a).y = (match a.ay with
      | .top => r.tl.y
      | .center => r.tl.y + (max (r.size.h : Int) 1 - 1) / 2
      | .bottom => r.tl.y + max (r.size.h : Int) 1 - 1) := by
  unfold anchorPoint
  constructor
  · cases a.ax
    · exact Rect.anchorX_left r
    · exact Rect.anchorX_center h.1
    · exact Rect.anchorX_right h.1
  · cases a.ay
    · exact Rect.anchorY_top r
    · exact Rect.anchorY_center h.2
    · exact Rect.anchorY_bottom h.2

/-- Resizing sets the size and keeps an edge or corner anchor fixed exactly and a centre anchor
within one pixel (per axis). -/
theorem resized_keeps_anchor (r : Rect) (s : Sz) (a : Anchor)
    (hr : r.size.w ≤ 2147483647 ∧ r.size.h ≤ 2147483647) (hs : s.w ≤ 2147483647 ∧ s.h ≤ 2147483647) :
    (r.resized s a).size = s ∧
    (a.ax ≠ .center → ((r.resized s a).anchorPoint a).x = (r.anchorPoint a).x) ∧
    (a.ay ≠ .center → ((r.resized s a).anchorPoint a).y = (r.anchorPoint a).y) ∧
    (((r.resized s a).anchorPoint a).x - (r.anchorPoint a).x).natAbs ≤ 1 ∧
    (((r.resized s a).anchorPoint a).y - (r.anchorPoint a).y).natAbs ≤ 1 := by
  obtain ⟨ax, ay⟩ := a
  simp only [resized, resizedWidth, resizedHeight, anchorPoint, anchorX, anchorY,
    Rect.satAsI32_of_le hr.1, Rect.satAsI32_of_le hr.2, Rect.satAsI32_of_le hs.1, Rect.satAsI32_of_le hs.2]
  refine ⟨trivial, ?_, ?_, ?_, ?_⟩
  · cases ax <;> simp <;> omega
  · cases ay <;> simp <;> omega
  · cases ax <;> simp only [tdiv2] <;> (repeat' split) <;> omega
  · cases ay <;> simp only [tdiv2] <;> (repeat' split) <;> omega

/-- `resized_width` / `resized_height` are the two axes of `resized`. (Definitional: `simp` on the
model's text, where `resized` is written as the composition of the two; the content about resizing is
`resized_keeps_anchor`. The tie of the three Rust methods to each other is the oracle class
`resized-axis-mix` + the correspondence.) -/
theorem resized_axes (r : Rect) (s : Sz) (a : Anchor) :
    (r.resized s a).tl.x = (r.resizedWidth s.w a.ax).tl.x ∧
    (r.resized s a).tl.y = (r.resizedHeight s.h a.ay).tl.y := by
  simp [resized, resizedWidth, resizedHeight]

/-! ### `offset` -/

/-- Offsetting by `n ≥ 0` moves every side by `n` — also for rectangles with a zero width and/or
height (repaired in /repo: the old code grew a zero sized side about its top left corner). -/
theorem offset_grow_moves_sides (r : Rect) (n : Int) (hn : 0 ≤ n)
    (hb : (r.size.w : Int) + 2 * n ≤ 4294967295 ∧ (r.size.h : Int) + 2 * n ≤ 4294967295) :
    (r.offset n).tl.x = r.tl.x - n ∧ (r.offset n).tl.y = r.tl.y - n ∧
    ((r.offset n).size.w : Int) = r.size.w + 2 * n ∧ ((r.offset n).size.h : Int) = r.size.h + 2 * n := by
  unfold offset
  have h0 : n ≥ 0 := hn
  simp only [h0, if_true, Sz.satAdd, Sz.newEqual, satAddU32, Pt.sub_x, Pt.sub_y]
  have h1 : r.size.w + n.toNat * 2 ≤ 4294967295 := by omega
  have h2 : r.size.h + n.toNat * 2 ≤ 4294967295 := by omega
  simp only [h1, h2, ↓reduceIte]
  refine ⟨trivial, trivial, ?_, ?_⟩ <;> omega

/-- Offsetting by `n` moves every side by `n`, whenever the result has a non-negative size on both
axes (for `n < 0` a rectangle that is too small has no such result: `offset_collapse`). A zero sized
input side is only excluded for `n < 0`, where nothing can be removed from it. -/
theorem offset_moves_sides (r : Rect) (n : Int)
    (hr : 0 ≤ n ∨ (0 < r.size.w ∧ 0 < r.size.h))
    (hn : 0 < (r.size.w : Int) + 2 * n ∧ 0 < (r.size.h : Int) + 2 * n)
    (hb : (r.size.w : Int) + 2 * n ≤ 4294967295 ∧ (r.size.h : Int) + 2 * n ≤ 4294967295) :
    (r.offset n).tl.x = r.tl.x - n ∧ (r.offset n).tl.y = r.tl.y - n ∧
    ((r.offset n).size.w : Int) = r.size.w + 2 * n ∧ ((r.offset n).size.h : Int) = r.size.h + 2 * n := by
  by_cases h0 : n ≥ 0
  · exact offset_grow_moves_sides r n h0 hb
  · unfold offset
    have hr' : 0 < r.size.w ∧ 0 < r.size.h := by rcases hr with h | h; exact absurd h h0; exact h
    simp only [h0, if_false, withCenter, center, centerOffset, Sz.satSub, Sz.newEqual]
    omega

/-- The two axes are independent: `offset(n)` moves the left and right side by `n` whenever the resulting WIDTH
is positive (and, for `n < 0`, the width was positive), whatever happens on the other axis - e.g.
`(5,5) 10x1 .offset(-1)` collapses vertically but still becomes 8 wide starting at x = 6. -/
theorem offset_moves_sides_x (r : Rect) (n : Int)
    (hr : 0 ≤ n ∨ 0 < r.size.w) (hn : 0 < (r.size.w : Int) + 2 * n) (hb : (r.size.w : Int) + 2 * n ≤ 4294967295) :
    (r.offset n).tl.x = r.tl.x - n ∧ ((r.offset n).size.w : Int) = r.size.w + 2 * n := by
  unfold offset
  by_cases h0 : n ≥ 0
  · simp only [h0, if_true, Sz.satAdd, Sz.newEqual, satAddU32, Pt.sub_x]
    have h1 : r.size.w + n.toNat * 2 ≤ 4294967295 := by omega
    simp only [h1, ↓reduceIte]
    exact ⟨trivial, by omega⟩
  · have hr' : 0 < r.size.w := by rcases hr with h | h; exact absurd h h0; exact h
    simp only [h0, if_false, withCenter, center, centerOffset, Sz.satSub, Sz.newEqual]
    omega

/-- The same for the top and bottom side. -/
theorem offset_moves_sides_y (r : Rect) (n : Int)
    (hr : 0 ≤ n ∨ 0 < r.size.h) (hn : 0 < (r.size.h : Int) + 2 * n) (hb : (r.size.h : Int) + 2 * n ≤ 4294967295) :
    (r.offset n).tl.y = r.tl.y - n ∧ ((r.offset n).size.h : Int) = r.size.h + 2 * n := by
  unfold offset
  by_cases h0 : n ≥ 0
  · simp only [h0, if_true, Sz.satAdd, Sz.newEqual, satAddU32, Pt.sub_y]
    have h1 : r.size.h + n.toNat * 2 ≤ 4294967295 := by omega
    simp only [h1, ↓reduceIte]
    exact ⟨trivial, by omega⟩
  · have hr' : 0 < r.size.h := by rcases hr with h | h; exact absurd h h0; exact h
    simp only [h0, if_false, withCenter, center, centerOffset, Sz.satSub, Sz.newEqual]
    omega

example : (⟨⟨5, 5⟩, ⟨10, 1⟩⟩ : Rect).offset (-1) = ⟨⟨6, 5⟩, ⟨8, 0⟩⟩ := by decide

/-- A negative offset larger than the rectangle collapses it to zero size along that axis
(saturating), it never wraps. (Definitional: unfolds the model's `saturating_sub`, `Nat` subtraction;
it says nothing about where the collapsed rectangle sits. The content about `offset` is
`offset_moves_sides` / `offset_grow_moves_sides`.) -/
theorem offset_collapse (r : Rect) (n : Int) (hn : n < 0) :
    (r.offset n).size.w = r.size.w - (-n).toNat * 2 ∧ (r.offset n).size.h = r.size.h - (-n).toNat * 2 := by
  unfold offset
  have : ¬ n ≥ 0 := by omega
  simp [this, withCenter, Sz.satSub, Sz.newEqual]

/-! ### Non-vacuity: concrete instances of the hypotheses used above -/

example : (⟨⟨-2, 3⟩, ⟨5, 4⟩⟩ : Rect).InRange := by decide
example : (⟨⟨-2, 3⟩, ⟨5, 4⟩⟩ : Rect).points.length = 20 := by decide
example : ((⟨⟨0, 0⟩, ⟨7, 8⟩⟩ : Rect).intersection ⟨⟨2, 3⟩, ⟨10, 7⟩⟩) = ⟨⟨2, 3⟩, ⟨5, 5⟩⟩ := by decide
example : ((⟨⟨0, 0⟩, ⟨7, 8⟩⟩ : Rect).envelope ⟨⟨2, 3⟩, ⟨10, 7⟩⟩) = ⟨⟨0, 0⟩, ⟨12, 10⟩⟩ := by decide
example : (⟨⟨20, 20⟩, ⟨10, 20⟩⟩ : Rect).resized ⟨20, 10⟩ ⟨.center, .center⟩ = ⟨⟨15, 25⟩, ⟨20, 10⟩⟩ := by decide
example : (⟨⟨5, 5⟩, ⟨4, 6⟩⟩ : Rect).offset (-1) = ⟨⟨6, 6⟩, ⟨2, 4⟩⟩ := by decide
-- the zero sized cases the old `with_center(center(), size)` form got wrong: (5,5) 2x2 / (5,4) 2x5
example : (⟨⟨5, 5⟩, ⟨0, 0⟩⟩ : Rect).offset 1 = ⟨⟨4, 4⟩, ⟨2, 2⟩⟩ := by decide
example : (⟨⟨5, 5⟩, ⟨0, 3⟩⟩ : Rect).offset 1 = ⟨⟨4, 4⟩, ⟨2, 5⟩⟩ := by decide

end EG.C16
