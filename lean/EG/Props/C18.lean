/-
  C18 — curved primitives. This root file holds no theorem of its own: the property theorems are in
  the files of `EG/Props/C18/` (every file there is built and audited by `./check C18`):
    Circle.lean       half-pixel band of `Circle::contains`, symmetry, contiguous rows/columns, touches
                      the four sides of its bounding box, circle = ellipse with equal axes
    Ellipse.lean      half-pixel band of `Ellipse::contains`, symmetry, contiguous rows/columns
    RoundedRect.lean  `confine` fits the radii, zero radii = rectangle, half-side radii = ellipse,
                      corner band, contiguous rows/columns
    Sector.lean       sectors / arcs: in the circle, full sweep = circle / inside ring, plane-sector
                      membership given the hook's normals
  Sub-claims that are not proved are the `-- [V]` lines of those files.
-/
import EG.Basic.Core
namespace EG.C18
end EG.C18
