/-
  C18 — property theorems (placeholder: no theorem yet, the property is not claimed).
-/
import EG.Basic.Core
namespace EG.C18
end EG.C18
