/-
  C07 — rendering commutes with translation: thin lines and one-pixel polylines.
  Corollaries of the thin-line theorems (EG/Props/C17.lean) and the polyline theorem
  (EG/Props/C19/Polyline.lean); a one-pixel stroked line draws exactly `points()`
  (`thick_width1_eq_points`), so its picture shifts with the line.
-/
import EG.Props.C17
import EG.Props.C19.Polyline
namespace EG.C07.Line
open EG

/-- `Line::points()` of the translated line is the shifted point list (same order). -/
theorem line_points_translate (l : Line) (d : Pt) :
    Line.points (l.translate d) = (Line.points l).map (· + d) :=
  C17.line_points_translate l d

/-- A width-1 stroked line draws the shifted pixels: `pixels()` of the translated line is the
shifted `pixels()` of the line. -/
theorem thin_stroke_translate (l : Line) (d : Pt) :
    Thick.thickPoints (l.translate d) 1 = (Thick.thickPoints l 1).map (fun ps => ps.map (· + d)) := by
  rw [C17.thick_width1_eq_points, C17.thick_width1_eq_points, C17.line_points_translate]
  rfl

/-- Membership form: `p` is on the line iff `p + d` is on the translated line. -/
theorem mem_line_points_translate (l : Line) (d p : Pt) :
    p + d ∈ Line.points (l.translate d) ↔ p ∈ Line.points l := by
  rw [C17.line_points_translate, List.mem_map]
  constructor
  · rintro ⟨q, hq, h⟩
    have : q = p := by
      rw [Pt.ext_iff'] at h ⊢
      simp only [Pt.add_x, Pt.add_y] at h
      omega
    exact this ▸ hq
  · intro h; exact ⟨p, h, rfl⟩

/-- A polyline moved with `translate` (its translate field) yields the shifted points. -/
theorem polyline_points_translate (tr d : Pt) (vs : List Pt) :
    Polyline.points ((⟨tr, vs⟩ : Polyline).translateBy d) = (Polyline.points ⟨tr, vs⟩).map (· + d) :=
  C19.polyline_points_translate tr d vs

-- Stroked lines wider than one pixel: EG/Props/C07/ThickLine.lean (every width, no guard); thick polylines and stroked triangles (joins, miter/bevel classification): EG/Props/C07/Joins.lean, JoinsDisplayScale.lean.

end EG.C07.Line
