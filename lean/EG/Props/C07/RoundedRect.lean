/-
  C07 — rendering commutes with translation: rounded rectangles and styled rounded rectangles,
  for ALL corner radii (equal or not, confined or not), sizes, stroke widths, alignments and colour
  options. The argument is at the scanline level (EG/Lemmas/RoundedRectTranslate.lean): the corner
  quadrants, `RoundedRectangleContains` and the scanline iterators of the moved shape are the moved
  ones, so it needs neither the exact pixel-map theorem of C06 nor its `FillInStroke` /
  fitting-radii guard (the known C06 finding about confined radii is a statement about WHAT is
  painted; it is painted at the shifted place all the same).

  * `contains`, `points()`, bounding box, styled bounding box, stroke / fill area move by `d`;
  * the call list of `draw()` of the moved shape is the call list of the original moved by `d`;
  * `pixels()` of the moved shape is the moved pixel sequence (same order, same colours);
  * hence the picture on both recording targets (`runNative` = R2, `runDefault` = R1) on the target
    box moved along.
  Guards (decidable): the stroke and fill area rectangles lie in the `i32` range before and after
  the move (`RoundedRect.InRange`; there `rows()` / `columns()` do not saturate).
-/
import EG.Lemmas.RoundedRectTranslate
import EG.Lemmas.CallTranslate
namespace EG.C07.RoundedRect
open EG EG.Tgt

/-- The `i32`-range guard of a styled rounded rectangle: stroke and fill area in range. -/
def Guard (st : Style) (r : RoundedRect) : Prop :=
  (r.strokeArea st).InRange ∧ (r.fillArea st).InRange
instance (st : Style) (r : RoundedRect) : Decidable (Guard st r) := by
  unfold Guard; exact inferInstance

/-! ### the primitive -/

theorem rrect_bounding_box_translate (r : RoundedRect) (d : Pt) :
    (r.translate d).boundingBox = r.boundingBox.translate d := rfl

/-- `contains` of the translated rounded rectangle at the shifted point. -/
theorem rrect_contains_translate (r : RoundedRect) (d p : Pt) (h : r.InRange)
    (h' : (r.translate d).InRange) : (r.translate d).contains (p + d) = r.contains p :=
  RoundedRect.translate_contains r d h h' p

/-- `points()` of the translated rounded rectangle is the shifted list (same order). -/
theorem rrect_points_translate (r : RoundedRect) (d : Pt) (h : r.InRange)
    (h' : (r.translate d).InRange) : (r.translate d).points = r.points.map (· + d) := by
  have hb : r.boundingBox.InRange := h
  have hb' : (r.boundingBox.translate d).InRange := h'
  rw [RoundedRect.points_eq_filter _ h', RoundedRect.points_eq_filter _ h,
    rrect_bounding_box_translate, Rect.points_translate _ _ hb hb', List.filter_map]
  congr 1
  apply List.filter_congr
  intro p _
  simp only [Function.comp]
  exact rrect_contains_translate r d p h h'

example : (⟨⟨⟨-3, 2⟩, ⟨9, 7⟩⟩, ⟨⟨3, 2⟩, ⟨1, 4⟩, ⟨0, 0⟩, ⟨9, 9⟩⟩⟩ : RoundedRect).InRange ∧
    ((⟨⟨⟨-3, 2⟩, ⟨9, 7⟩⟩, ⟨⟨3, 2⟩, ⟨1, 4⟩, ⟨0, 0⟩, ⟨9, 9⟩⟩⟩ : RoundedRect).translate ⟨-9, 4⟩).InRange := by
  decide

/-! ### the styled rounded rectangle -/

/-- Styled bounding box, stroke area and fill area of the moved shape are the moved ones (no guard). -/
theorem styled_rrect_areas_translate (st : Style) (r : RoundedRect) (d : Pt) :
    (r.translate d).styledBoundingBox st = (r.styledBoundingBox st).translate d ∧
    (r.translate d).strokeArea st = (r.strokeArea st).translate d ∧
    (r.translate d).fillArea st = (r.fillArea st).translate d :=
  ⟨RoundedRect.translate_styledBoundingBox st r d, RoundedRect.translate_strokeArea st r d,
    RoundedRect.translate_fillArea st r d⟩

/-- **`draw()` of the moved styled rounded rectangle makes exactly the calls of the original, moved
by `d`** — all corner radii. -/
theorem styled_rrect_calls_translate (st : Style) (r : RoundedRect) (d : Pt)
    (h : Guard st r) (h' : Guard st (r.translate d)) :
    (r.translate d).drawStyled st = (r.drawStyled st).map (Call.translate d) :=
  RoundedRect.drawStyled_translate st r d h.1 h.2 h'.1 h'.2

/-- **`pixels()` of the moved styled rounded rectangle = the moved `pixels()`**, same order. -/
theorem styled_rrect_pixels_translate (st : Style) (r : RoundedRect) (d : Pt)
    (h : Guard st r) (h' : Guard st (r.translate d)) :
    (r.translate d).styledPixels st = Writes.translate d (r.styledPixels st) :=
  RoundedRect.styledPixels_translate st r d h.1 h.2 h'.1 h'.2

/-- Every call of `draw()` is a `fill_solid` of a scanline rectangle inside the `i32` range. -/
theorem styled_rrect_calls_in_range (st : Style) (r : RoundedRect) (h : Guard st r) :
    ∀ c ∈ r.drawStyled st, ∃ a col, c = Call.fillSolid a col ∧ a.InRange := by
  have hscan : ∀ (s : Scanline) (col : Color), s.WF → ∀ c ∈ s.draw col,
      ∃ a col, c = Call.fillSolid a col ∧ a.InRange := by
    intro s col hwf c hc
    unfold Scanline.draw at hc
    split at hc
    · cases hc
    · rw [List.mem_singleton] at hc
      exact ⟨_, col, hc, hwf⟩
  intro c hc
  unfold RoundedRect.drawStyled at hc
  split at hc
  · unfold drawLines at hc
    simp only [List.mem_flatMap] at hc
    obtain ⟨l, hl, hc⟩ := hc
    have hwf := RoundedRect.lines_wf h.1 h.2 l hl
    unfold StyledScanline.drawStroke at hc
    rw [List.mem_append] at hc
    rcases hc with hc | hc
    · exact hscan _ _ hwf.1 c hc
    · exact hscan _ _ hwf.2.2 c hc
  · unfold drawLines at hc
    simp only [List.mem_flatMap] at hc
    obtain ⟨l, hl, hc⟩ := hc
    have hwf := RoundedRect.lines_wf h.1 h.2 l hl
    unfold StyledScanline.drawStrokeAndFill at hc
    rw [List.mem_append, List.mem_append] at hc
    rcases hc with (hc | hc) | hc
    · exact hscan _ _ hwf.1 c hc
    · exact hscan _ _ hwf.2.1 c hc
    · exact hscan _ _ hwf.2.2 c hc
  · unfold drawFillLines at hc
    simp only [List.mem_flatMap] at hc
    obtain ⟨s, hs, hc⟩ := hc
    exact hscan _ _ (RoundedRect.scanline_wf h.2 s hs) c hc
  · cases hc

/-- **The picture**: `draw()` of the moved rounded rectangle on the target box moved along leaves
the picture of the original shifted by `d`, natively (R2) and through the trait defaults (R1) —
all corner radii, widths, alignments, colour options. -/
theorem styled_rrect_map_translate (st : Style) (r : RoundedRect) (d : Pt)
    (h : Guard st r) (h' : Guard st (r.translate d)) (B : Rect) :
    runNative (B.translate d) ((r.translate d).drawStyled st) =
      PMap.shift d (runNative B (r.drawStyled st)) ∧
    runDefault (B.translate d) ((r.translate d).drawStyled st) =
      PMap.shift d (runDefault B (r.drawStyled st)) := by
  have hok : ∀ c ∈ r.drawStyled st, c.MoveOK B d := by
    intro c hc
    obtain ⟨a, col, rfl, ha⟩ := styled_rrect_calls_in_range st r h c hc
    have hc' : Call.translate d (Call.fillSolid a col) ∈ (r.translate d).drawStyled st := by
      rw [styled_rrect_calls_translate st r d h h']
      exact List.mem_map.mpr ⟨_, hc, rfl⟩
    obtain ⟨a', col', e, ha'⟩ := styled_rrect_calls_in_range st _ h' _ hc'
    simp only [Call.translate, Call.fillSolid.injEq] at e
    unfold Call.MoveOK
    exact Rect.MoveOK.of_inRange ha (by rw [e.1]; exact ha')
  rw [styled_rrect_calls_translate st r d h h']
  exact ⟨runNative_map_translate B d _ hok, runDefault_map_translate B d _ hok⟩

example : Guard ⟨some 1, some 2, 3, .center⟩ ⟨⟨⟨-3, 2⟩, ⟨9, 7⟩⟩, ⟨⟨3, 2⟩, ⟨1, 4⟩, ⟨0, 0⟩, ⟨9, 9⟩⟩⟩ ∧
    Guard ⟨some 1, some 2, 3, .center⟩
      ((⟨⟨⟨-3, 2⟩, ⟨9, 7⟩⟩, ⟨⟨3, 2⟩, ⟨1, 4⟩, ⟨0, 0⟩, ⟨9, 9⟩⟩⟩ : RoundedRect).translate ⟨64, -33⟩) := by
  decide
-- the witness of the C06 known finding (`not_fill_in_stroke_all`: `confine` rescales the fill area's
-- radii and the fill area bulges out of the stroke area) satisfies the guards: it is covered here
example : Guard ⟨some 7, some 9, 1, .inside⟩ ⟨⟨⟨0, 0⟩, ⟨3, 20⟩⟩, ⟨⟨3, 20⟩, ⟨0, 0⟩, ⟨0, 0⟩, ⟨0, 0⟩⟩⟩ ∧
    Guard ⟨some 7, some 9, 1, .inside⟩
      ((⟨⟨⟨0, 0⟩, ⟨3, 20⟩⟩, ⟨⟨3, 20⟩, ⟨0, 0⟩, ⟨0, 0⟩, ⟨0, 0⟩⟩⟩ : RoundedRect).translate ⟨-2, -11⟩) := by decide

-- [V] styled rounded rectangle: coordinates for which the stroke / fill area rectangle leaves the `i32` range (guard `Guard` false; saturation / overflow there is C08's topic): carried by correspondence + oracle only
-- [V] rounded rectangle, `translate_mut`: that Rust's `&mut self` field assignment is the functional field update of the model is language semantics, carried by the oracle only (`C07:translate-mut-differs` compares both methods on the real code); PROVED on the model of the in-place body as the source writes it (EG/Model/TranslateMut.lean), for all inputs: `rounded_rectangle_translate_mut` (Props/C07/TranslateMut.lean)

end EG.C07.RoundedRect
