/-
  C07 — rendering commutes with translation: triangles (fill, hit test, one-pixel outline).
  Re-exports of the theorems proved with the triangle model (EG/Props/C19/Triangle.lean,
  EG/Lemmas/TriangleTranslate.lean).
-/
import EG.Props.C19.Triangle
namespace EG.C07.Triangle
open EG

/-- `points()` of the translated triangle is the shifted list (same order). -/
theorem triangle_points_translate (t : Triangle) (d : Pt) (h1 : t.boundingBox.InRange)
    (h2 : (t.translate d).boundingBox.InRange) :
    (t.translate d).points = t.points.map (· + d) := C19.triangle_translate t d h1 h2

/-- `contains()` commutes with translation, for all vertex triples and all points. -/
theorem triangle_contains_translate (t : Triangle) (d p : Pt) :
    (t.translate d).contains (p + d) = t.contains p := C19.triangle_contains_translate t d p

/-- The pixels of a one-pixel outline move with the triangle. -/
theorem triangle_outline_translate (t : Triangle) (c : Nat) (d p : Pt) (h1 : t.boundingBox.InRange)
    (h2 : (t.translate d).boundingBox.InRange) :
    p + d ∈ ((t.translate d).outlinePixels c).map (·.1) ↔ p ∈ (t.outlinePixels c).map (·.1) :=
  C19.outline_translate t c d p h1 h2

example : (⟨⟨0, 0⟩, ⟨5, 1⟩, ⟨4, 6⟩⟩ : Triangle).boundingBox.InRange ∧
    ((⟨⟨0, 0⟩, ⟨5, 1⟩, ⟨4, 6⟩⟩ : Triangle).translate ⟨-7, 3⟩).boundingBox.InRange := by decide

end EG.C07.Triangle
