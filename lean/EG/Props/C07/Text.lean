/-
  C07 (Text) — rendering commutes with translation: `text.translate(d)` has the same lines at positions
  moved by `d`; `draw` returns the position moved by `d`; `bounding_box()` moves by `d` (also the
  zero-sized box of an empty text); the calls on the target are the calls of the original moved by `d`;
  `translate_mut` = `translate`.
  Models: EG.Model.TextLayout (`Transform for Text`), EG.Model.Font (`draw_string`),
  EG.Model.CallTranslate. Helper lemmas: EG/Lemmas/TextLayoutTranslate.lean.

  -- [V] text: calls (hence picture) of the translated text when exactly one of text / background colour is set (the colour adapter lowers glyph cells to `draw_iter` over `area.points()`; moving `Rectangle::points` needs the i32-range side conditions): carried by correspondence + oracle only; proved: positions, returned position, box, calls on the binary target for every style, target calls when both or neither colour is set
  -- [V] text: `translate_mut` has the same effect as `translate` (mutation through `&mut self` is not modelled; `translate_mut_eq_translate` is definitional in the model): carried by correspondence + oracle only
-/
import EG.Lemmas.TextLayoutTranslate
namespace EG.C07.Text
open EG EG.Font EG.TextLayout

/-- `translate_mut` does what `translate` does, and only the position changes.
DEFINITIONAL (every component is `rfl`): the model defines `Text.translateMut` and `Text.translate`
by the same expression (`position += by` / `position + by`, text.rs:92-105), so this states how the
model was written, not a property of the code; mutation through `&mut self` is not modelled.
"`translate_mut` has the same effect as `translate`" is carried by the oracle on the real code
(`C07:text-translate-mut-ne-translate`, the `mut=` field of `text.layout`), see the [V] line below. Not to be counted as a
proved sub-claim. -/
theorem translate_mut_eq_translate (t : TextLayout.Text) (d : Pt) :
    t.translateMut d = t.translate d ∧ (t.translate d).position = t.position + d ∧
    (t.translate d).text = t.text ∧ (t.translate d).style = t.style ∧ (t.translate d).ts = t.ts :=
  ⟨rfl, rfl, rfl, rfl, rfl⟩

/-- Same line contents, every line position moved by `d` (every alignment, baseline, line height). -/
theorem text_translate_lines (f : MonoFont) (t : TextLayout.Text) (d : Pt) :
    lines f (t.translate d) = (lines f t).map (fun lp => (lp.1, lp.2 + d)) :=
  lines_translate f t d

/-- `draw` returns the position moved by `d`. -/
theorem text_translate_next (f : MonoFont) (atlas : Pt → Bool) (t : TextLayout.Text) (d : Pt) :
    (draw f atlas (t.translate d)).2 = (draw f atlas t).2 + d :=
  draw_next_translate f atlas t d

/-- The bounding box moves by `d` (non-empty or not). -/
theorem text_translate_bounding_box (f : MonoFont) (t : TextLayout.Text) (d : Pt) :
    boundingBox f (t.translate d) = (boundingBox f t).translate d :=
  boundingBox_translate f t d

/-- The calls `draw_string_binary` makes (glyph cells and spacing fills on the binary target) move by `d`,
for every style and font. -/
theorem text_translate_cells (f : MonoFont) (atlas : Pt → Bool) (hasBg : Bool) (text : List Nat) (p d : Pt) :
    (f.drawStringBinary atlas hasBg text (p + d)).1 =
      (f.drawStringBinary atlas hasBg text p).1.map (bcallTranslate d) := by
  simp only [drawStringBinary_closed, binCalls_translate]

/-- The calls on the target (glyph fills, spacing fills, strikethrough and underline rectangles) of the
translated text are the calls of the original moved by `d` — when text and background colour are both
set or both unset (decorations only / nothing). -/
theorem text_translate_calls (f : MonoFont) (atlas : Pt → Bool) (t : TextLayout.Text) (d : Pt)
    (h : (t.style.textColor = none ↔ t.style.bgColor = none)) :
    (draw f atlas (t.translate d)).1 = (draw f atlas t).1.map (Call.translate d) := by
  unfold draw
  rw [lines_translate]
  exact drawLines_calls_translate f atlas t.style t.ts.baseline d h _ _ _

example : ((⟨some 1, some 2, .textColor, .none⟩ : Style).textColor = none ↔
    (⟨some 1, some 2, .textColor, .none⟩ : Style).bgColor = none) := by decide

example : boundingBox ⟨64, 36, 4, 6, 0, 4, 6, 1, 3, 1, fun _ => 0⟩
    ((⟨[65, 66, 10, 67], ⟨0, 0⟩, ⟨some 1, none, .none, .none⟩, ⟨.center, .top, .percent 100⟩⟩ : TextLayout.Text).translate ⟨-7, 3⟩) =
    ⟨⟨-10, 3⟩, ⟨8, 12⟩⟩ := by decide

end EG.C07.Text
