/-
  C07 (Text) — rendering commutes with translation: `text.translate(d)` has the same lines at positions
  moved by `d`; `draw` returns the position moved by `d`; `bounding_box()` moves by `d` (also the
  zero-sized box of an empty text); the calls on the target are the calls of the original moved by `d`;
  `translate_mut` = `translate`.
  Models: EG.Model.TextLayout (`Transform for Text`), EG.Model.Font (`draw_string`),
  EG.Model.CallTranslate. Helper lemmas: EG/Lemmas/TextLayoutTranslate.lean, TextLayoutTranslateColor.lean
  (every style, picture), EG/Lemmas/CallTranslate.lean (moved calls => shifted picture).

  -- [V] text: coordinates for which the text's bounding box leaves the `i32` range while exactly one of text / background colour is set (guard `Rect.InRange` of the box false: `Rectangle::points` of a glyph cell saturates; C08's topic): carried by correspondence + oracle only; proved: positions, returned position, box, calls on the binary target for every style, target calls for every style (box in range; no guard when both or neither colour is set), picture on both targets
  -- [V] text, `translate_mut`: that Rust's `&mut self` field assignment is the functional field update of the model is language semantics, carried by the oracle only; PROVED on the model of the in-place body as the source writes it (EG/Model/TranslateMut.lean), for all inputs: `text_translate_mut` (Props/C07/TranslateMut.lean: `self.position += by` as two coordinate updates = `translate`); oracle class `C07:text-translate-mut-ne-translate`, the `mut=` field of `text.layout`
-/
import EG.Lemmas.TextLayoutTranslateColor
namespace EG.C07.Text
open EG EG.Font EG.TextLayout EG.Tgt

/-- `translate_mut` does what `translate` does, and only the position changes.
DEFINITIONAL (every component is `rfl`): the model defines `Text.translateMut` and `Text.translate`
by the same expression (`position += by` / `position + by`, text.rs:92-105), so this states how the
model was written, not a property of the code. The in-place body as the source writes it
(`self.position += by` = `self.x += ..; self.y += ..`) is modelled in EG/Model/TranslateMut.lean and
proved equal to `translate` in Props/C07/TranslateMut.lean (`text_translate_mut`); that a Rust `&mut`
assignment is that field update is carried by the oracle on the real code
(`C07:text-translate-mut-ne-translate`, the `mut=` field of `text.layout`), see the [V] line above. -/
theorem translate_mut_eq_translate (t : TextLayout.Text) (d : Pt) :
    t.translateMut d = t.translate d ∧ (t.translate d).position = t.position + d ∧
    (t.translate d).text = t.text ∧ (t.translate d).style = t.style ∧ (t.translate d).ts = t.ts :=
  ⟨rfl, rfl, rfl, rfl, rfl⟩

/-- Same line contents, every line position moved by `d` (every alignment, baseline, line height). -/
theorem text_translate_lines (f : MonoFont) (t : TextLayout.Text) (d : Pt) :
    lines f (t.translate d) = (lines f t).map (fun lp => (lp.1, lp.2 + d)) :=
  lines_translate f t d

/-- `draw` returns the position moved by `d`. -/
theorem text_translate_next (f : MonoFont) (atlas : Pt → Bool) (t : TextLayout.Text) (d : Pt) :
    (draw f atlas (t.translate d)).2 = (draw f atlas t).2 + d :=
  draw_next_translate f atlas t d

/-- The bounding box moves by `d` (non-empty or not). -/
theorem text_translate_bounding_box (f : MonoFont) (t : TextLayout.Text) (d : Pt) :
    boundingBox f (t.translate d) = (boundingBox f t).translate d :=
  boundingBox_translate f t d

/-- The calls `draw_string_binary` makes (glyph cells and spacing fills on the binary target) move by `d`,
for every style and font. -/
theorem text_translate_cells (f : MonoFont) (atlas : Pt → Bool) (hasBg : Bool) (text : List Nat) (p d : Pt) :
    (f.drawStringBinary atlas hasBg text (p + d)).1 =
      (f.drawStringBinary atlas hasBg text p).1.map (bcallTranslate d) := by
  simp only [drawStringBinary_closed, binCalls_translate]

/-- The calls on the target (glyph fills, spacing fills, strikethrough and underline rectangles) of the
translated text are the calls of the original moved by `d` — when text and background colour are both
set or both unset (decorations only / nothing). -/
theorem text_translate_calls (f : MonoFont) (atlas : Pt → Bool) (t : TextLayout.Text) (d : Pt)
    (h : (t.style.textColor = none ↔ t.style.bgColor = none)) :
    (draw f atlas (t.translate d)).1 = (draw f atlas t).1.map (Call.translate d) := by
  unfold draw
  rw [lines_translate]
  exact drawLines_calls_translate f atlas t.style t.ts.baseline d h _ _ _

example : ((⟨some 1, some 2, .textColor, .none⟩ : Style).textColor = none ↔
    (⟨some 1, some 2, .textColor, .none⟩ : Style).bgColor = none) := by decide

/-- **The calls on the target of the translated text are the calls of the original moved by `d`, for
EVERY style** — in particular when exactly one of text / background colour is set, where the colour
adapter lowers each glyph cell to `draw_iter` over `area.points()` (filtered by the glyph bits):
every cell lies inside the text's bounding box, so `Rectangle::points` of the moved cell are the
moved points once the box is in the `i32` range before and after the move. -/
theorem text_translate_calls_all_styles (f : MonoFont) (atlas : Pt → Bool) (t : TextLayout.Text) (d : Pt)
    (hR : (boundingBox f t).InRange) (hR' : (boundingBox f (t.translate d)).InRange) :
    (draw f atlas (t.translate d)).1 = (draw f atlas t).1.map (Call.translate d) :=
  draw_calls_translate f atlas t d hR hR'

/-- The colour adapter commutes with the move, per binary-target call and for every mode. -/
theorem text_translate_colour_adapter (m : Mode) (d : Pt) (b : BCall)
    (h : (bcallArea b).MoveOK d) :
    m.lower (bcallTranslate d b) = (m.lower b).map (Call.translate d) :=
  lower_translate m d b h

/-- **The picture**: the translated text on the target box moved along leaves the picture of the
original shifted by `d`, natively (R2) and through the trait defaults (R1), for every style.
(`FontBoxOK`: the strikethrough lies inside the character cell — true of all built-in fonts; the
colour / spacing hypothesis excludes the transparent style with a spaced font, whose decorations
span the trailing spacing and are wider than the box — observation (a) of DESIGN.md 14, outside
every property.) -/
theorem text_translate_picture (f : MonoFont) (atlas : Pt → Bool) (t : TextLayout.Text) (d : Pt) (B : Rect)
    (hok : FontBoxOK f)
    (hadv : t.style.textColor ≠ none ∨ t.style.bgColor ≠ none ∨ f.spacing = 0)
    (hR : (boundingBox f t).InRange) (hR' : (boundingBox f (t.translate d)).InRange) :
    runNative (B.translate d) (draw f atlas (t.translate d)).1 =
      PMap.shift d (runNative B (draw f atlas t).1) ∧
    runDefault (B.translate d) (draw f atlas (t.translate d)).1 =
      PMap.shift d (runDefault B (draw f atlas t).1) := by
  have hR2 := hR'
  rw [boundingBox_translate] at hR2
  have hlb : LowerBound (boundingBox f t) := by
    intro _
    unfold Rect.InRange inI32 at hR
    omega
  have hok' : ∀ c ∈ (draw f atlas t).1, c.MoveOK B d := fun c hc =>
    callIn_moveOK hR hR2 B (draw_in_boundingBox f atlas t hok hadv hlb c hc)
  rw [text_translate_calls_all_styles f atlas t d hR hR']
  exact ⟨runNative_map_translate B d _ hok', runDefault_map_translate B d _ hok'⟩

example : boundingBox ⟨64, 36, 4, 6, 0, 4, 6, 1, 3, 1, fun _ => 0⟩
    ((⟨[65, 66, 10, 67], ⟨0, 0⟩, ⟨some 1, none, .none, .none⟩, ⟨.center, .top, .percent 100⟩⟩ : TextLayout.Text).translate ⟨-7, 3⟩) =
    ⟨⟨-10, 3⟩, ⟨8, 12⟩⟩ := by decide

-- a text with the text colour only (`Foreground` adapter), moved across both axes: the guards hold
example :
    let f : MonoFont := ⟨64, 36, 4, 6, 0, 4, 6, 1, 3, 1, fun _ => 0⟩
    let t : TextLayout.Text := ⟨[65, 66, 10, 67], ⟨3, 2⟩, ⟨some 1, none, .none, .none⟩, ⟨.center, .top, .percent 100⟩⟩
    FontBoxOK f ∧ (t.style.textColor ≠ none ∨ t.style.bgColor ≠ none ∨ f.spacing = 0) ∧
      (boundingBox f t).InRange ∧ (boundingBox f (t.translate ⟨-7, -9⟩)).InRange := by decide

end EG.C07.Text
