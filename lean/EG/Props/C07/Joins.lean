/-
  C07 — rendering commutes with translation: the join code behind strokes wider than one pixel
  (thick polylines, stroked triangles). Models: EG.Model.{LinearEquation, Intersection, LineJoin,
  ThickSegment, ThickPolyline, ThickTriangle}; lemmas: EG.Lemmas.Joins*.

  What is proved here, for all inputs:
  * the line equation kernels (`distance`, `check_side`) are invariant under a common move;
  * the rounding of `intersection()` as repaired by /repo ab2e75b (ties up, `div_euclid`) is
    translation invariant, ties included; the rounding it replaced was not (regression witness);
  * `intersection()` moves with the lines (guard: the `i32` casts do not saturate, which needs
    coordinates beyond 2^31; the guard is necessary: witness);
  * `Line::extents` (the parallels iterator, all three stroke offsets) moves with the line;
  * hence `LineJoin::start / end / from_points` move with their points and the join KIND
    (miter / bevel / degenerate / colinear) does not depend on the position;
  * a polyline moved with its `translate` field draws the moved rectangles;
  * a stroked polyline whose VERTICES are moved has the moved bounding box and `draw` fills the
    moved rectangles in the same order (segment iterator, scanline intersections with merging,
    scanline iterator), under explicit guards that only exclude `i32` saturation / sentinels;
  * a styled triangle (any stroke width, alignment, fill) moved by `d` has the moved bounding box
    and `draw` issues the moved `fill_solid` calls with the same colours, under the same kind of
    guards (vertex sorting, `is_collapsed`, closed segment iterator, `edge_intersections`).
-/
import EG.Lemmas.JoinsJoin
import EG.Lemmas.JoinsPolyline
import EG.Lemmas.JoinsPolyScan
import EG.Lemmas.JoinsTriMove
import EG.Lemmas.JoinsPixels
namespace EG.C07.Joins
open EG EG.Joins

/-- `LinearEquation::distance` of a moved point from the moved line is the original distance. -/
theorem linear_equation_distance_translate (l : Line) (d p : Pt) :
    (LinearEquation.fromLine (l.translate d)).distance (p + d) = (LinearEquation.fromLine l).distance p :=
  distance_translate l d p

/-- `LinearEquation::check_side` is invariant under a common move of line and point. -/
theorem linear_equation_check_side_translate (l : Line) (d p : Pt) (side : Thick.LineSide) :
    (LinearEquation.fromLine (l.translate d)).checkSide (p + d) side =
      (LinearEquation.fromLine l).checkSide p side :=
  checkSide_translate l d p side

/-- The rounded quotient of `round_div` (before the cast) is translation invariant for every
numerator, every non-zero denominator and every shift, exact ties included. -/
theorem round_div_translate (n d t : Int) (hd : d ≠ 0) :
    roundDivRaw (n + t * d) d = roundDivRaw n d + t :=
  roundDivRaw_translate n d t hd

example : roundDivRaw (-1 + 1 * 2) 2 = roundDivRaw (-1) 2 + 1 := by decide   -- the tie -1/2, moved by 1

/-- Regression witness: the rounding used before ab2e75b (half away from zero on the absolute
coordinate) is NOT translation invariant: the tie `-1/2` rounds to `-1`, moved by `1` it is `1/2`
and rounds to `1`, not `0`. -/
theorem round_div_old_not_translation_invariant :
    ¬ ∀ n d t : Int, d ≠ 0 → roundDivOld (n + t * d) d = roundDivOld n d + t :=
  fun h => absurd (h (-1) 2 1 (by decide)) (by decide)

/-- The exact rounded intersection point (in `i64`, before the casts) moves with the lines. -/
theorem intersection_raw_point_translate (l1 l2 : Line) (d : Pt)
    (hd : (IntersectionParams.fromLines l1 l2).denominator ≠ 0) :
    (IntersectionParams.fromLines (l1.translate d) (l2.translate d)).rawPoint =
      (IntersectionParams.fromLines l1 l2).rawPoint + d :=
  rawPoint_translate l1 l2 d hd

/-- Full-strength statement: `intersection()` of two moved lines is the moved intersection. -/
def IntersectionTranslate : Prop :=
  ∀ (l1 l2 : Line) (d : Pt),
    (IntersectionParams.fromLines (l1.translate d) (l2.translate d)).intersection =
      (IntersectionParams.fromLines l1 l2).intersection.translate d

/-- `intersection()` commutes with translation whenever the `saturating_as::<i32>()` casts of the
result do not saturate (before and after the move). -/
theorem intersection_translate_partial (l1 l2 : Line) (d : Pt)
    (h : (IntersectionParams.fromLines l1 l2).NoSat d) :
    (IntersectionParams.fromLines (l1.translate d) (l2.translate d)).intersection =
      (IntersectionParams.fromLines l1 l2).intersection.translate d :=
  intersection_translate l1 l2 d h

example : (IntersectionParams.fromLines ⟨⟨0, 0⟩, ⟨-6, -6⟩⟩ ⟨⟨-6, -6⟩, ⟨-5, 3⟩⟩).NoSat ⟨-3, 4⟩ := by decide

/-- The guard is necessary: two nearly parallel lines with `i32` end points meet beyond `i32::MAX`,
the cast saturates and the saturated point does not move. -/
theorem intersection_translate_needs_no_saturation : ¬ IntersectionTranslate :=
  fun h => absurd (h ⟨⟨0, 0⟩, ⟨1, 0⟩⟩ ⟨⟨0, 2⟩, ⟨2147483647, 1⟩⟩ ⟨-1, 0⟩) (by decide)

/-- `nearly_colinear_has_error` depends on the deltas only. -/
theorem nearly_colinear_has_error_translate (l1 l2 : Line) (d : Pt) :
    (IntersectionParams.fromLines (l1.translate d) (l2.translate d)).nearlyColinearHasError =
      (IntersectionParams.fromLines l1 l2).nearlyColinearHasError :=
  nearlyColinearHasError_translate l1 l2 d

/-- `Line::extents(thickness, offset)` of a moved line: the moved edge lines (parallels iterator,
`StrokeOffset::None / Left / Right`), for every thickness. -/
theorem line_extents_translate (l : Line) (w : Nat) (off : Thick.StrokeOffset) (d : Pt) :
    extents (l.translate d) w off = (extents l w off).map (shiftLines · d) :=
  extents_translate l w off d

/-- `LineJoin::start` moves with its points. -/
theorem join_start_translate (s m : Pt) (w : Nat) (off : Thick.StrokeOffset) (d : Pt) :
    LineJoin.start (s + d) (m + d) w off = (LineJoin.start s m w off).map (·.translate d) :=
  start_translate s m w off d

/-- `LineJoin::end` moves with its points. -/
theorem join_end_translate (m e : Pt) (w : Nat) (off : Thick.StrokeOffset) (d : Pt) :
    LineJoin.stop (m + d) (e + d) w off = (LineJoin.stop m e w off).map (·.translate d) :=
  stop_translate m e w off d

/-- Full-strength statement: `LineJoin::from_points` moves with its points. -/
def JoinTranslate : Prop :=
  ∀ (start mid stop : Pt) (w : Nat) (off : Thick.StrokeOffset) (d : Pt),
    LineJoin.fromPoints (start + d) (mid + d) (stop + d) w off =
      (LineJoin.fromPoints start mid stop w off).map (·.translate d)

/-- `LineJoin::from_points` moves with its points: same kind, corners moved by `d`. Guard
`JoinNoSat`: each of the two rounded intersection points of this join is either discarded
(`nearly_colinear_has_error`) or its `i32` casts do not saturate, before and after the move. -/
theorem join_from_points_translate_partial (start mid stop : Pt) (w : Nat) (off : Thick.StrokeOffset)
    (d : Pt) (h : JoinNoSat start mid stop w off d) :
    LineJoin.fromPoints (start + d) (mid + d) (stop + d) w off =
      (LineJoin.fromPoints start mid stop w off).map (·.translate d) :=
  fromPoints_translate start mid stop w off d h

/-- The join kind (miter, bevel, degenerate, colinear; outer side) is independent of the position. -/
theorem join_kind_translate_partial (start mid stop : Pt) (w : Nat) (off : Thick.StrokeOffset) (d : Pt)
    (h : JoinNoSat start mid stop w off d) :
    (LineJoin.fromPoints (start + d) (mid + d) (stop + d) w off).map (·.kind) =
      (LineJoin.fromPoints start mid stop w off).map (·.kind) :=
  fromPoints_kind_translate start mid stop w off d h

-- nearly parallel long segments: both rounded points are discarded (`nearly_colinear_has_error`), so the guard holds whatever they are
example : JoinNoSat ⟨0, 0⟩ ⟨100000, 1⟩ ⟨200000, 3⟩ 3 .none ⟨-7, 5⟩ := by decide
-- the former C07 witness (polyline (0,0),(-6,-6),(-5,3), width 4, moved by (-3,4)) satisfies the guard
example : JoinNoSat ⟨0, 0⟩ ⟨-6, -6⟩ ⟨-5, 3⟩ 4 .none ⟨-3, 4⟩ := by decide
example : (LineJoin.fromPoints ⟨0, 0⟩ ⟨-6, -6⟩ ⟨-5, 3⟩ 4 .none).map (·.kind) = some .miter := by decide

/-- A stroked polyline (width >= 2, at least two vertices) moved with its `translate` field draws
the rectangles of the unmoved polyline, moved. -/
theorem polyline_translate_field_draw (t : Pt) (vs : List Pt) (w : Nat) (hw : 2 ≤ w)
    (hn : 1 < vs.length) :
    drawStyled ⟨t, vs⟩ w = (drawStyled ⟨Pt.zero, vs⟩ w).map (PolyDraw.translate · t) :=
  drawStyled_translate_field t vs w hw hn

example : (2 : Nat) ≤ 4 ∧ 1 < ([⟨0, 0⟩, ⟨-6, -6⟩, ⟨-5, 3⟩] : List Pt).length := by decide

/-- The segments (`ThickSegmentIter`) of a polyline with moved vertices are the moved segments. -/
theorem polyline_segments_moved_partial (vs : List Pt) (w : Nat) (d : Pt) (hn : 2 ≤ vs.length)
    (hns : PolyNoSat w d vs) :
    polySegments (vs.map (· + d)) w = (polySegments vs w).map (·.map (·.translate d)) :=
  segments_moved vs w d hn hns

/-- A thick segment moved by `d` paints, in row `y + d.y`, the scanline it painted in row `y`,
moved (`SR`: both empty, or exactly shifted). Unconditional. -/
theorem thick_segment_scanline_translate (s : ThickSegment) (d : Pt) (y : Int) :
    SR d ((s.translate d).intersection (y + d.y)) (s.intersection y) :=
  intersection_translate_segment s d y

/-- Full-strength statement: moving the vertices of a stroked polyline moves its bounding box. -/
def PolylineMovedVerticesBox : Prop :=
  ∀ (vs : List Pt) (w : Nat) (d : Pt), 0 < w → 2 ≤ vs.length →
    styledBoundingBox ⟨Pt.zero, vs.map (· + d)⟩ w = (styledBoundingBox ⟨Pt.zero, vs⟩ w).map (·.translate d)

/-- The bounding box of a stroked polyline with moved vertices is the moved box. Guards:
`PolyNoSat` (no saturating cast in a join), `BoxGuard` (the first segment's box absorbs the
`i32::MAX / MIN` start values of the fold, i.e. its corners are `i32` values). -/
theorem polyline_moved_vertices_box_partial (vs : List Pt) (w : Nat) (d : Pt) (hw : 0 < w)
    (hn : 2 ≤ vs.length) (hns : PolyNoSat w d vs) (hg : BoxGuard vs w d) :
    styledBoundingBox ⟨Pt.zero, vs.map (· + d)⟩ w = (styledBoundingBox ⟨Pt.zero, vs⟩ w).map (·.translate d) := by
  unfold styledBoundingBox
  rw [untranslatedBoundingBox_moved vs w d hw hn hns hg]
  cases untranslatedBoundingBox ⟨Pt.zero, vs⟩ w with
  | none => rfl
  | some r =>
    simp only [Option.map_some, Option.bind_eq_bind, Option.bind_some, pure, Option.some.injEq]
    rw [rect_translate_zero, rect_translate_zero]

/-- Full-strength statement: moving the vertices of a stroked polyline moves what `draw` paints. -/
def PolylineMovedVerticesDraw : Prop :=
  ∀ (vs : List Pt) (w : Nat) (d : Pt), 2 ≤ w → 2 ≤ vs.length →
    drawStyled ⟨Pt.zero, vs.map (· + d)⟩ w = (drawStyled ⟨Pt.zero, vs⟩ w).map (PolyDraw.translate · d)

/-- **`draw` of a stroked polyline (width >= 2) with moved vertices issues the moved `fill_solid`
rectangles, in the same order.** Guards as above plus `RowsGuard` (`Rectangle::rows()` of the
moved box does not saturate). -/
theorem polyline_moved_vertices_draw_partial (vs : List Pt) (w : Nat) (d : Pt) (hw : 2 ≤ w)
    (hn : 2 ≤ vs.length) (hns : PolyNoSat w d vs) (hg : BoxGuard vs w d) (hrows : RowsGuard vs w d) :
    drawStyled ⟨Pt.zero, vs.map (· + d)⟩ w = (drawStyled ⟨Pt.zero, vs⟩ w).map (PolyDraw.translate · d) := by
  obtain ⟨k, rfl⟩ : ∃ k, w = k + 2 := ⟨w - 2, by omega⟩
  unfold drawStyled
  simp only []
  rw [drawThickRects_moved vs (k + 2) d (by omega) hn hns hg hrows]
  cases drawThickRects ⟨Pt.zero, vs⟩ (k + 2) with
  | none => rfl
  | some rs =>
    simp only [Option.map_some, Option.bind_eq_bind, Option.bind_some, ne_eq, not_true_eq_false,
      ↓reduceIte, pure, PolyDraw.translate]

/-- `pixels()` of a stroked polyline (width >= 2) with moved vertices is the moved pixel sequence
(same pixels, same order). -/
theorem polyline_moved_vertices_pixels_partial (vs : List Pt) (w : Nat) (d : Pt) (hw : 2 ≤ w)
    (hn : 2 ≤ vs.length) (hns : PolyNoSat w d vs) (hg : BoxGuard vs w d) (hrows : RowsGuard vs w d) :
    pixels ⟨Pt.zero, vs.map (· + d)⟩ w = (pixels ⟨Pt.zero, vs⟩ w).map (·.map (· + d)) :=
  pixels_moved vs w d hw hn hns hg hrows

/-- `pixels()` of a stroked polyline (width >= 2) moved with its `translate` field is the moved
pixel sequence. -/
theorem polyline_translate_field_pixels (t : Pt) (vs : List Pt) (w : Nat) (hw : 2 ≤ w)
    (hn : 1 < vs.length) :
    pixels ⟨t, vs⟩ w = (pixels ⟨Pt.zero, vs⟩ w).map (·.map (· + t)) :=
  pixels_translate_field t vs w hw hn

-- the former C07 witness satisfies all guards: its picture moves with its vertices
example : 2 ≤ 4 ∧ 2 ≤ ([⟨0, 0⟩, ⟨-6, -6⟩, ⟨-5, 3⟩] : List Pt).length ∧
    PolyNoSat 4 ⟨-3, 4⟩ [⟨0, 0⟩, ⟨-6, -6⟩, ⟨-5, 3⟩] ∧ BoxGuard [⟨0, 0⟩, ⟨-6, -6⟩, ⟨-5, 3⟩] 4 ⟨-3, 4⟩ ∧
    RowsGuard [⟨0, 0⟩, ⟨-6, -6⟩, ⟨-5, 3⟩] 4 ⟨-3, 4⟩ := by decide

/-- `sorted_clockwise` commutes with translation (the doubled area is invariant). -/
theorem triangle_sorted_clockwise_translate (t : Tri) (d : Pt) :
    (t.translate d).sortedClockwise = t.sortedClockwise.translate d :=
  sortedClockwise_translate t d

/-- `is_collapsed` does not depend on the position. -/
theorem triangle_is_collapsed_translate_partial (t : Tri) (w : Nat) (off : Thick.StrokeOffset) (d : Pt)
    (h : TriNoSat t w off d) : (t.translate d).isCollapsed w off = t.isCollapsed w off :=
  isCollapsed_translate t w off d h

/-- Full-strength statement: moving a styled triangle moves its bounding box. -/
def TriangleBoxTranslate : Prop :=
  ∀ (t : Tri) (style : TriStyle) (d : Pt),
    triStyledBoundingBox (t.translate d) style = (triStyledBoundingBox t style).map (·.translate d)

/-- The styled bounding box of a moved triangle is the moved box (guards: no saturating cast in the
three joins of the clockwise-sorted triangle; the first segment box absorbs the fold sentinels). -/
theorem triangle_box_translate_partial (t : Tri) (style : TriStyle) (d : Pt)
    (hns : TriNoSat t.sortedClockwise style.strokeWidth style.strokeAlignment.toOffset d)
    (hg : TriBoxGuard t style d) :
    triStyledBoundingBox (t.translate d) style = (triStyledBoundingBox t style).map (·.translate d) :=
  triStyledBoundingBox_translate t style d hns hg

/-- Full-strength statement: moving a styled triangle moves what `draw` paints. -/
def TriangleDrawTranslate : Prop :=
  ∀ (t : Tri) (style : TriStyle) (d : Pt),
    triDraw (t.translate d) style = (triDraw t style).map (·.map (shiftCall · d))

/-- **`draw` of a moved styled triangle issues the moved `fill_solid` calls, same order, same
colours** - any stroke width, alignment and fill. Guards: `TriGuards` (no saturating cast in the
joins, `i32` corners, `rows()` of the moved box not saturating). -/
theorem triangle_draw_translate_partial (t : Tri) (style : TriStyle) (d : Pt)
    (hg : TriGuards t style d) :
    triDraw (t.translate d) style = (triDraw t style).map (·.map (shiftCall · d)) :=
  triDraw_translate t style d hg

/-- `pixels()` of a moved styled triangle is the moved pixel sequence, with the same colours. -/
theorem triangle_pixels_translate_partial (t : Tri) (style : TriStyle) (d : Pt)
    (hg : TriGuards t style d) :
    triPixels (t.translate d) style = (triPixels t style).map (·.map (shiftPx · d)) :=
  triPixels_translate t style d hg

-- the former C07 witness (triangle (-5,-4),(-5,-1),(-1,-4), width 3, Center, moved by (-7,-9)) satisfies the guards
example : TriGuards ⟨⟨-5, -4⟩, ⟨-5, -1⟩, ⟨-1, -4⟩⟩ ⟨some 2, some 1, 3, .center⟩ ⟨-7, -9⟩ := by decide

-- All guards of this file (`PointOK`, `JoinNoSat`, `PolyNoSat`, `TriNoSat`: no saturating i32 cast in a USED intersection
-- point; `BoxGuard`, `RowsGuard`, `TriBoxGuard`, `TriRowsGuard`: sentinels absorbed, `rows()` not saturating) are PROVED for
-- all display-scale inputs in Props/C07/JoinsDisplayScale.lean, which states the guard-free corollaries of the picture theorems.

end EG.C07.Joins
