/-
  C07 (image part) — `Image::translate(d)` draws the same picture shifted by `d`, the bounding box
  shifts by `d`, and `translate_mut` leaves the value `translate` returns.
  -- [V] image, `translate_mut`: that Rust's `&mut self` field assignment is the functional field update of the model is language semantics, carried by the oracle only; PROVED on the model of the in-place body as the source writes it (EG/Model/TranslateMut.lean), for all inputs: `image_translate_mut_fields` (Props/C07/TranslateMut.lean: `self.offset += by` as two coordinate updates = `translate`); oracle class `C07:image-translate-mut`
-/
import EG.Lemmas.ImageRawImage
namespace EG.C07
open EG EG.Img

/-- The translated image makes the same calls moved by `d` (every drawable, no hypothesis). -/
theorem image_translate_calls (i : Image) (d : Pt) :
    (i.translate d).draw = i.draw.map (translatedCall d) := Image.translate_draw i d

/-- **`image_translate`**: on a target moved along, the translated image leaves at `q + d` what the
original leaves at `q`. -/
theorem image_translate (i : Image) (hg : i.drawable.Good) (d : Pt) (hr : i.boundingBox.InRange)
    (hr' : (i.translate d).boundingBox.InRange) (B : Rect) (q : Pt) :
    runNative (B.translate d) (i.translate d).draw (q + d) = runNative B i.draw q :=
  Image.translate_run i hg d hr hr' B q
example : ((Image.new (.raw exIm) ⟨-4, 7⟩).translate ⟨-7, 4⟩).boundingBox.InRange := by decide

theorem image_translate_bounding_box (i : Image) (d : Pt) :
    (i.translate d).boundingBox = i.boundingBox.translate d := Image.translate_boundingBox i d

/-- DEFINITIONAL (`rfl`): the model defines `Image.translateMut` and `Image.translate` by the same
expression (`offset + by`, image/mod.rs `impl Transform`), so this states how the model was written;
the in-place body as the source writes it (`self.offset += by`) is modelled in
EG/Model/TranslateMut.lean and proved equal to `translate` in Props/C07/TranslateMut.lean
(`image_translate_mut_fields`); that a Rust `&mut` assignment is that field update is carried by the
oracle on the real code (`C07:image-translate-mut`). -/
theorem image_translate_mut (i : Image) (d : Pt) : i.translateMut d = i.translate d := rfl

end EG.C07
