/-
  C07 (image part) — `Image::translate(d)` draws the same picture shifted by `d`, the bounding box
  shifts by `d`, and `translate_mut` leaves the value `translate` returns.
-/
import EG.Lemmas.ImageRawImage
namespace EG.C07
open EG EG.Img

/-- The translated image makes the same calls moved by `d` (every drawable, no hypothesis). -/
theorem image_translate_calls (i : Image) (d : Pt) :
    (i.translate d).draw = i.draw.map (translatedCall d) := Image.translate_draw i d

/-- **`image_translate`**: on a target moved along, the translated image leaves at `q + d` what the
original leaves at `q`. -/
theorem image_translate (i : Image) (hg : i.drawable.Good) (d : Pt) (hr : i.boundingBox.InRange)
    (hr' : (i.translate d).boundingBox.InRange) (B : Rect) (q : Pt) :
    runNative (B.translate d) (i.translate d).draw (q + d) = runNative B i.draw q :=
  Image.translate_run i hg d hr hr' B q
example : ((Image.new (.raw exIm) ⟨-4, 7⟩).translate ⟨-7, 4⟩).boundingBox.InRange := by decide

theorem image_translate_bounding_box (i : Image) (d : Pt) :
    (i.translate d).boundingBox = i.boundingBox.translate d := Image.translate_boundingBox i d

theorem image_translate_mut (i : Image) (d : Pt) : i.translateMut d = i.translate d := rfl

end EG.C07
