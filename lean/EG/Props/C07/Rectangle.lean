/-
  C07 (Rectangle) — rendering commutes with translation, for `Rectangle` and the styled rectangle.

  Part 1: every `Rect` operation commutes with translation (general lemmas:
          EG/Lemmas/RectTranslate.lean).
  Part 2: the styled rectangle: areas, bounding box, the call list of `draw()`, the pixel list of
          `pixels()` and the pixel map left on a target (EG/Lemmas/StyledRectTranslate.lean,
          EG/Lemmas/PMapTranslate.lean).
  `translate_mut` (`self.top_left += by`) is modelled as a field update in EG/Model/TranslateMut.lean
  and proved equal to `translate` in Props/C07/TranslateMut.lean; that Rust's `&mut` assignment is
  that update is carried by the oracle (`C07:translate-mut-differs`).
-/
import EG.Lemmas.StyledRectTranslate
namespace EG.C07.Rectangle
open EG.Tgt
open EG EG.Rect EG.StyledRect

/-! ### Part 1: `Rectangle` -/

/-- `contains`: the moved rectangle contains the moved point iff the rectangle contains the point. -/
theorem rect_contains_translate (r : Rect) (d p : Pt) :
    (r.translate d).contains (p + d) = r.contains p := contains_translate r d p

/-- `points()`: the moved points, in the same order. -/
theorem rect_points_translate (r : Rect) (d : Pt) (h : r.InRange) (h' : (r.translate d).InRange) :
    (r.translate d).points = r.points.map (fun p => p + d) := points_translate r d h h'

theorem rect_bottom_right_translate (r : Rect) (d : Pt) :
    (r.translate d).bottomRight = r.bottomRight.map (fun p => p + d) := bottomRight_translate r d

theorem rect_center_translate (r : Rect) (d : Pt) : (r.translate d).center = r.center + d :=
  center_translate r d

theorem rect_offset_translate (r : Rect) (d : Pt) (n : Int) :
    (r.translate d).offset n = (r.offset n).translate d := offset_translate r d n

/-- `intersection`: the same point set moved; the rectangle value itself moves too, except that the
"no common point" arms return `Rectangle::zero()` (at the origin) before and after. -/
theorem rect_intersection_translate (a b : Rect) (d : Pt) :
    (∀ p, ((a.translate d).intersection (b.translate d)).contains (p + d) = (a.intersection b).contains p) ∧
    ((a.translate d).intersection (b.translate d) = (a.intersection b).translate d ∨
      ((a.translate d).intersection (b.translate d) = Rect.zero ∧ a.intersection b = Rect.zero)) :=
  ⟨intersection_translate_contains a b d, intersection_translate a b d⟩

theorem rect_translate_translate (r : Rect) (d e : Pt) :
    (r.translate d).translate e = r.translate (d + e) := translate_translate r d e

/-! ### Part 2: the styled rectangle -/

/-- `bounding_box()`, `stroke_area()`, `fill_area()` of the moved shape are the moved ones. -/
theorem styled_rect_bbox_translate (s : Style) (r : Rect) (d : Pt) :
    styledBoundingBox s (r.translate d) = (styledBoundingBox s r).translate d ∧
    strokeArea s (r.translate d) = (strokeArea s r).translate d ∧
    fillArea s (r.translate d) = (fillArea s r).translate d :=
  ⟨styledBoundingBox_translate s r d, strokeArea_translate s r d, fillArea_translate s r d⟩

/-- `draw()` of the moved rectangle makes exactly the calls of the original, moved by `d` — for
every rectangle, style and vector. -/
theorem styled_rect_calls_translate (s : Style) (r : Rect) (d : Pt) :
    drawCalls s (r.translate d) = (drawCalls s r).map (Call.translate d) :=
  drawCalls_translate s r d

/-- `pixels()` of the moved rectangle are the pixels of the original, moved by `d`. -/
theorem styled_rect_pixels_translate (s : Style) (r : Rect) (d : Pt)
    (h : (strokeArea s r).InRange) (h' : (strokeArea s (r.translate d)).InRange) :
    pixelsList s (r.translate d) = Writes.translate d (pixelsList s r) :=
  pixelsList_translate s r d h h'

/-- Hence the pixel map shifts: drawing the moved rectangle on a target with the moved box leaves
the map of the original shifted by `d`. -/
theorem styled_rect_map_translate (s : Style) (r : Rect) (d : Pt)
    (h : Guard s r) (h' : Guard s (r.translate d)) (B : Rect) :
    runNative (B.translate d) (drawCalls s (r.translate d)) =
      PMap.shift d (runNative B (drawCalls s r)) := by
  rw [drawCalls_translate, drawCalls_eq_solidCalls]
  apply runNative_solidCalls_translate
  intro ac hac
  refine ⟨drawSolids_inRange h ac hac, ?_⟩
  apply drawSolids_inRange h' (ac.1.translate d, ac.2)
  rw [drawSolids_translate]
  exact List.mem_map.mpr ⟨ac, hac, rfl⟩

/-- The same on one fixed target whose box contains both bounding boxes (the "unbounded" target
of the property text): the map of `x.translate(d)` is the map of `x` shifted by `d`. -/
theorem styled_rect_map_translate_fixed_box (s : Style) (r : Rect) (d : Pt)
    (h : Guard s r) (h' : Guard s (r.translate d)) (B : Rect)
    (hB : ∀ q, (styledBoundingBox s r).contains q = true → B.contains q = true)
    (hB' : ∀ q, (styledBoundingBox s (r.translate d)).contains q = true → B.contains q = true) :
    runNative B (drawCalls s (r.translate d)) = PMap.shift d (runNative B (drawCalls s r)) := by
  apply funext
  intro p
  rw [PMap.shift_at, runNative_drawCalls s _ h' B p, runNative_drawCalls s r h B (p - d)]
  have he : expectedColor s (r.translate d) p = expectedColor s r (p - d) := by
    unfold expectedColor
    simp only [fillArea_translate, strokeArea_translate, contains_translate']
  rw [he]
  cases hc : expectedColor s r (p - d) with
  | none => simp
  | some c =>
    have h1 : (strokeArea s r).contains (p - d) = true :=
      expectedColor_ne_none h.noSat (by rw [hc]; simp)
    have h2 : (strokeArea s (r.translate d)).contains p = true := by
      rw [strokeArea_translate, contains_translate']; exact h1
    rw [if_pos (hB' p h2), if_pos (hB (p - d) h1)]

/-! Non-vacuity -/
example : Guard ⟨some 7, some 9, 3, .center⟩ ⟨⟨-2, -1⟩, ⟨4, 5⟩⟩ ∧
    Guard ⟨some 7, some 9, 3, .center⟩ ((⟨⟨-2, -1⟩, ⟨4, 5⟩⟩ : Rect).translate ⟨-7, -9⟩) := by decide
example : (⟨⟨-2, -1⟩, ⟨4, 5⟩⟩ : Rect).InRange ∧ ((⟨⟨-2, -1⟩, ⟨4, 5⟩⟩ : Rect).translate ⟨64, -33⟩).InRange := by
  decide
example : drawCalls ⟨some 7, some 9, 1, .inside⟩ ((⟨⟨0, 0⟩, ⟨3, 4⟩⟩ : Rect).translate ⟨5, -3⟩) =
    [.fillSolid ⟨⟨6, -2⟩, ⟨1, 2⟩⟩ 7, .fillSolid ⟨⟨5, -3⟩, ⟨3, 1⟩⟩ 9, .fillSolid ⟨⟨5, 0⟩, ⟨3, 1⟩⟩ 9,
     .fillSolid ⟨⟨5, -2⟩, ⟨1, 2⟩⟩ 9, .fillSolid ⟨⟨7, -2⟩, ⟨1, 2⟩⟩ 9] := by decide

-- [V] rectangle, `translate_mut`: that Rust's `&mut self` field assignment is the functional field update of the model is language semantics, carried by the oracle only (`C07:translate-mut-differs` compares both methods on the real code); PROVED on the model of the in-place body as the source writes it (EG/Model/TranslateMut.lean), for all inputs: `rectangle_translate_mut` (Props/C07/TranslateMut.lean)
-- [V] Rust-level parametricity of `draw` in the target type: carried by correspondence + oracle only

end EG.C07.Rectangle
