/-
  C07 — rendering commutes with translation: STROKED LINES of any width.
  `ThickPoints` (the `ParallelsIterator` plus the Bresenham walker of the current parallel) keeps
  absolute coordinates only in its walker positions; everything else depends on the line's delta.
  Hence, for every line, stroke width, colour option and vector — no guard:
  * `pixels()` of the moved line is the moved pixel sequence (same order);
  * `draw()` makes the moved call (one `draw_iter`), so the picture on both recording targets is
    the shifted picture;
  * `Line::extents(w, None)` and the styled bounding box move by `d`.
  Models: EG.Model.ThickLine (`Thick.thickPoints`, `Thick.styledBoundingBox`; streams
  `thick.points`, `thick.bbox`); `Thick.styledPixels` / `Thick.drawStyled` (EG/Lemmas/
  ThickTranslate.lean) state what line/styled.rs does with the points. The model is total
  (`Thick.thickPoints_total`): the `Option` is never `none`.
-/
import EG.Lemmas.ThickTranslate
namespace EG.C07.ThickLine
open EG EG.Tgt

/-- **The pixels of a stroked line of any width move with the line**: same points, same order. -/
theorem thick_points_translate (l : Line) (w : Nat) (d : Pt) :
    Thick.thickPoints (l.translate d) w = (Thick.thickPoints l w).map (fun ps => ps.map (· + d)) :=
  Thick.thickPoints_translate l w d

/-- In the form "whatever the line yields": the moved line yields the moved list (and by
`Thick.thickPoints_total` the line always yields a list). -/
theorem thick_points_translate_some (l : Line) (w : Nat) (d : Pt) :
    ∃ ps, Thick.thickPoints l w = some ps ∧
      Thick.thickPoints (l.translate d) w = some (ps.map (· + d)) := by
  obtain ⟨ps, h⟩ := Thick.thickPoints_total l w
  exact ⟨ps, h, by rw [thick_points_translate, h]; rfl⟩

/-- `Line::extents(w, StrokeOffset::None)` of the moved line: the moved edge lines. -/
theorem line_extents_none_translate (l : Line) (w : Nat) (d : Pt) :
    Thick.extents (l.translate d) w =
      (Thick.extents l w).map (fun r => (r.1.translate d, r.2.translate d)) :=
  Thick.extents_translate l w d

/-- **The styled bounding box of the moved line is the moved box**, every line and width. -/
theorem styled_line_bbox_translate (l : Line) (w : Nat) (d : Pt) :
    Thick.styledBoundingBox (l.translate d) w = (Thick.styledBoundingBox l w).map (·.translate d) :=
  Thick.styledBoundingBox_translate l w d

/-- `pixels()` of the moved styled line = the moved `pixels()` (`sc` = the style's stroke colour). -/
theorem styled_line_pixels_translate (l : Line) (w : Nat) (sc : Option Color) (d : Pt) :
    Thick.styledPixels (l.translate d) w sc = (Thick.styledPixels l w sc).map (Writes.translate d) :=
  Thick.styledPixels_translate l w sc d

/-- **`draw()` of the moved styled line makes the moved call.** -/
theorem styled_line_calls_translate (l : Line) (w : Nat) (sc : Option Color) (d : Pt) :
    Thick.drawStyled (l.translate d) w sc =
      (Thick.drawStyled l w sc).map (fun calls => calls.map (Call.translate d)) :=
  Thick.drawStyled_translate l w sc d

/-- **The picture**: the styled line draws some call list; the moved line draws the moved list,
and on the target box moved along this leaves the picture of the original shifted by `d` —
natively (R2) and through the trait defaults (R1); every line, width, colour option, vector, box. -/
theorem styled_line_map_translate (l : Line) (w : Nat) (sc : Option Color) (d : Pt) (B : Rect) :
    ∃ calls, Thick.drawStyled l w sc = some calls ∧
      Thick.drawStyled (l.translate d) w sc = some (calls.map (Call.translate d)) ∧
      runNative (B.translate d) (calls.map (Call.translate d)) = PMap.shift d (runNative B calls) ∧
      runDefault (B.translate d) (calls.map (Call.translate d)) = PMap.shift d (runDefault B calls) := by
  obtain ⟨calls, h⟩ := Thick.drawStyled_total l w sc
  have hok : ∀ c ∈ calls, c.MoveOK B d := by
    intro c hc
    unfold Thick.drawStyled at h
    cases hp : Thick.styledPixels l w sc with
    | none => rw [hp] at h; cases h
    | some px =>
      rw [hp] at h
      simp only [Option.map_some, Option.some.injEq] at h
      rw [← h, List.mem_singleton] at hc
      rw [hc]
      exact Call.moveOK_drawIter B d px
  refine ⟨calls, h, ?_, runNative_map_translate B d calls hok, runDefault_map_translate B d calls hok⟩
  rw [styled_line_calls_translate, h]
  rfl

example : Thick.thickPoints ((⟨⟨2, 2⟩, ⟨6, 4⟩⟩ : Line).translate ⟨-5, -4⟩) 3 =
    (Thick.thickPoints ⟨⟨2, 2⟩, ⟨6, 4⟩⟩ 3).map (fun ps => ps.map (· + (⟨-5, -4⟩ : Pt))) := by decide
example : Thick.styledBoundingBox ((⟨⟨2, -3⟩, ⟨9, 1⟩⟩ : Line).translate ⟨-7, 3⟩) 5 =
    some ⟨⟨-6, -2⟩, ⟨10, 8⟩⟩ := by decide

-- [V] stroked line, `translate_mut`: that Rust's `&mut self` field assignment is the functional field update of the model is language semantics, carried by the oracle only (`C07:translate-mut-differs` compares both methods on the real code); PROVED on the model of the in-place body as the source writes it (EG/Model/TranslateMut.lean), for all inputs: `line_translate_mut` (Props/C07/TranslateMut.lean)
-- [V] stroked line: coordinates / widths for which the real `i32` arithmetic overflows (`thickness_threshold`, walker positions; the model's `Int` is unbounded, C08's topic): carried by correspondence + oracle only

end EG.C07.ThickLine
