/-
  C07 (Arc, Sector) — rendering commutes with translation: styled arcs and styled sectors.

  The plane sector (and the sector's bevel line) only ever see `delta = 2 p - center_2x`, the
  thresholds depend on the diameter and the style alone, and the iterated box moves with the shape:
  `pixels()` of the translated shape is the translated pixel sequence (same order, same colours),
  hence the picture on the moved target box is the moved picture, and the styled bounding box moves
  by the same vector — for every plane sector (all angles), bevel, diameter and style.
  Guard: the two iterated boxes stay inside the `i32` range (`Rect.InRange`, decidable).
  Models: EG.Model.StyledArc, EG.Model.StyledSector (streams `sector.sarc`, `sector.ssector`; the
  translated shape is run through model and code in every op with a non-zero offset).
-/
import EG.Lemmas.StyledArcSector
namespace EG.C07.Arc
open EG EG.Tgt

/-! ### arc -/

/-- The styled bounding box of the translated arc is the translated box (no guard). -/
theorem styled_arc_bbox_translate (st : Style) (a : Arc) (t : Pt) :
    (a.translate t).styledBoundingBox st = (a.styledBoundingBox st).translate t :=
  Arc.translate_styledBoundingBox st a t

/-- The stroke test at the moved point of the moved arc = the stroke test at the point. -/
theorem styled_arc_accepts_translate (st : Style) (a : Arc) (t p : Pt) :
    (a.translate t).strokeAccepts st (p + t) = a.strokeAccepts st p :=
  Arc.strokeAccepts_translate st a t p

/-- **`pixels()` of the translated styled arc = the translated `pixels()`**, same order. -/
theorem styled_arc_translate (st : Style) (a : Arc) (t : Pt)
    (h1 : (a.styledBoundingBox st).InRange) (h2 : ((a.translate t).styledBoundingBox st).InRange) :
    (a.translate t).styledPixels st = Writes.translate t (a.styledPixels st) :=
  Arc.styledPixels_translate st a t h1 h2

/-- The picture: `draw()` of the translated arc on the moved target box is the moved picture. -/
theorem styled_arc_draw_translate (st : Style) (a : Arc) (t : Pt) (B : Rect)
    (h1 : (a.styledBoundingBox st).InRange) (h2 : ((a.translate t).styledBoundingBox st).InRange) :
    runNative (B.translate t) ((a.translate t).drawStyled st) =
      PMap.shift t (runNative B (a.drawStyled st)) := by
  have e1 : runNative (B.translate t) ((a.translate t).drawStyled st) =
      PMap.empty.apply (clipWrites (B.translate t) ((a.translate t).styledPixels st)) :=
    runNative_drawIter _ _
  have e2 : runNative B (a.drawStyled st) = PMap.empty.apply (clipWrites B (a.styledPixels st)) :=
    runNative_drawIter _ _
  rw [e1, e2, styled_arc_translate st a t h1 h2, apply_clip_translate]

/-! ### sector -/

/-- The styled bounding box of the translated sector is the translated box (no guard). -/
theorem styled_sector_bbox_translate (st : Style) (s : Sector) (t : Pt) :
    (s.translate t).styledBoundingBox st = (s.styledBoundingBox st).translate t :=
  Sector.translate_styledBoundingBox st s t

/-- What `pixels()` yields at the moved point of the moved sector = the moved pixel. -/
theorem styled_sector_pixel_at_translate (st : Style) (s : Sector) (bevel : SectorBevel) (t p : Pt) :
    (s.translate t).pixelAt st bevel (p + t) = (s.pixelAt st bevel p).map (fun w => (w.1 + t, w.2)) :=
  Sector.pixelAt_translate st s bevel t p

/-- **`pixels()` of the translated styled sector = the translated `pixels()`**, same order. -/
theorem styled_sector_translate (st : Style) (s : Sector) (bevel : SectorBevel) (t : Pt)
    (h1 : (s.styledBoundingBox st).InRange) (h2 : ((s.translate t).styledBoundingBox st).InRange) :
    (s.translate t).styledPixels st bevel = Writes.translate t (s.styledPixels st bevel) :=
  Sector.styledPixels_translate st s bevel t h1 h2

/-- The picture: `draw()` of the translated sector on the moved target box is the moved picture. -/
theorem styled_sector_draw_translate (st : Style) (s : Sector) (bevel : SectorBevel) (t : Pt) (B : Rect)
    (h1 : (s.styledBoundingBox st).InRange) (h2 : ((s.translate t).styledBoundingBox st).InRange) :
    runNative (B.translate t) ((s.translate t).drawStyled st bevel) =
      PMap.shift t (runNative B (s.drawStyled st bevel)) := by
  have e1 : runNative (B.translate t) ((s.translate t).drawStyled st bevel) =
      PMap.empty.apply (clipWrites (B.translate t) ((s.translate t).styledPixels st bevel)) :=
    runNative_drawIter _ _
  have e2 : runNative B (s.drawStyled st bevel) =
      PMap.empty.apply (clipWrites B (s.styledPixels st bevel)) := runNative_drawIter _ _
  rw [e1, e2, styled_sector_translate st s bevel t h1 h2, apply_clip_translate]

example : (Arc.styledBoundingBox ⟨some 1, some 2, 3, .center⟩
      ⟨⟨-3, 2⟩, 7, ⟨.intersection, ⟨-1024, 0⟩, ⟨0, 1024⟩⟩⟩).InRange ∧
    (((⟨⟨-3, 2⟩, 7, ⟨.intersection, ⟨-1024, 0⟩, ⟨0, 1024⟩⟩⟩ : Arc).translate ⟨-9, 4⟩).styledBoundingBox
      ⟨some 1, some 2, 3, .center⟩).InRange := by decide
example : (Sector.styledBoundingBox ⟨some 1, some 2, 5, .outside⟩
      ⟨⟨-30, 2⟩, 12, ⟨.union, ⟨724, 724⟩, ⟨0, 1024⟩⟩⟩).InRange ∧
    (((⟨⟨-30, 2⟩, 12, ⟨.union, ⟨724, 724⟩, ⟨0, 1024⟩⟩⟩ : Sector).translate ⟨64, -33⟩).styledBoundingBox
      ⟨some 1, some 2, 5, .outside⟩).InRange := by decide

-- [V] arc / sector, default (f32) build only: the plane sector and the bevel of the translated shape are those of the original (micromath's f32 trigonometry is not modelled; the hooks are called with the angles alone). For the `fixed_point` build this is proved on the model in Props/C07/ArcAngles.lean (`Fx.planeSectorNew` / `Fx.styledSectorTrig` take the two raw angles and nothing else; `fx_styled_arc_translate`, `fx_styled_sector_translate`: angles -> pixels commutes with translation). Both builds: that `Transform::translate` copies the two angle fields (`..*self`) is Rust-level: carried by correspondence + oracle only
-- [V] arc / sector, `translate_mut`: that Rust's `&mut self` field assignment is the functional field update of the model is language semantics, carried by the oracle only (`C07:translate-mut-differs` compares both methods on the real code); PROVED on the model of the in-place body as the source writes it (EG/Model/TranslateMut.lean), for all inputs: `arc_translate_mut`, `sector_translate_mut` (Props/C07/TranslateMut.lean)
-- [V] arc / sector: coordinates for which the iterated box leaves the `i32` range (guards `Rect.InRange` false; saturation / overflow there is C08's topic): carried by correspondence + oracle only

end EG.C07.Arc
