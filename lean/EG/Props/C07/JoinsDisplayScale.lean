/-
  C07 — the saturation guards of the join theorems (Props/C07/Joins.lean) hold at display scale.

  `intersection_translate_partial`, `join_from_points_translate_partial`,
  `polyline_segments_moved_partial`, `triangle_is_collapsed_translate_partial` carry the guards
  `NoSat` / `JoinNoSat` / `PolyNoSat` / `TriNoSat`: "the `i32` casts of a USED rounded intersection
  point do not saturate, before and after the move". Here they are discharged for every input of
  the display-scale domain of C08: vertices within +-1024 (`VDS`), stroke widths up to 128, every
  stroke offset, every move `d` within +-2^30 (`MoveDS`; the moved object may leave the display).

  This is not a consequence of the C08 range theorems alone (the checked kernel of C08 contains the
  saturating cast, which never panics): two nearly parallel edges meet arbitrarily far away. It
  follows from `nearly_colinear_has_error`, which discards exactly those points: a point that is
  used lies within 2^27 + 1 of its edge's start point (`used_intersection_point_near_edge`,
  Lagrange's identity; Lemmas/JoinsDisplayScale.lean), and the edges of `Line::extents` start
  within `16 w + 37` of their segment (Lemmas/JoinsExtentsBound.lean).

  -- [V] the remaining guards of the picture-level theorems (`BoxGuard`, `RowsGuard`, `TriBoxGuard`, `TriRowsGuard` of Props/C07/Joins.lean: the first segment's box corners are i32 values other than the fold sentinels, `rows()` of the moved box does not saturate) hold for all display-scale inputs: carried by correspondence + oracle only (the corner bound they need, 2^27 + 4097, is `used_intersection_point_near_edge`; the segment / box plumbing is not done)
-/
import EG.Lemmas.JoinsExtentsBound
import EG.Lemmas.JoinsPolyMove
namespace EG.C07.Joins
open EG EG.Joins

/-- A rounded intersection point that is used (not discarded by `nearly_colinear_has_error`) lies
within 2^27 of the start point of the first edge, for edges with start points and deltas within
+-4096 (`EdgeDS`; display-scale edges: start points within +-3109, deltas within +-2050). -/
theorem used_intersection_point_near_edge {l1 l2 : Line} (h1 : EdgeDS l1) (h2 : EdgeDS l2)
    (hnc : (IntersectionParams.fromLines l1 l2).nearlyColinearHasError = false) :
    (-134217728 ≤ (IntersectionParams.fromLines l1 l2).rawPoint.x - l1.start.x ∧
      (IntersectionParams.fromLines l1 l2).rawPoint.x - l1.start.x ≤ 134217728) ∧
    (-134217728 ≤ (IntersectionParams.fromLines l1 l2).rawPoint.y - l1.start.y ∧
      (IntersectionParams.fromLines l1 l2).rawPoint.y - l1.start.y ≤ 134217728) :=
  rawPoint_near_start h1 h2 hnc
example : EdgeDS ⟨⟨-1100, 3⟩, ⟨948, 1030⟩⟩ ∧ EdgeDS ⟨⟨940, 1040⟩, ⟨-20, -1024⟩⟩ ∧
    (IntersectionParams.fromLines ⟨⟨-1100, 3⟩, ⟨948, 1030⟩⟩ ⟨⟨940, 1040⟩, ⟨-20, -1024⟩⟩).nearlyColinearHasError = false := by
  decide

/-- The guard of `intersection_translate_partial` in the form the joins use it (`PointOK`: the
point is discarded or `NoSat` holds) for display-scale edges and moves. -/
theorem intersection_point_ok_display_scale {l1 l2 : Line} (h1 : EdgeDS l1) (h2 : EdgeDS l2) {d : Pt}
    (hd : MoveDS d) : (IntersectionParams.fromLines l1 l2).PointOK d :=
  pointOK_display_scale h1 h2 hd
example : EdgeDS ⟨⟨-1100, 3⟩, ⟨948, 1030⟩⟩ ∧ EdgeDS ⟨⟨940, 1040⟩, ⟨-20, -1024⟩⟩ ∧ MoveDS ⟨-2048, 1000000⟩ := by decide

/-- `NoSat` ALONE is false on this domain - the discarding is essential: two edges with slopes
4096/4095 and 4095/4094 meet 2.7 * 10^11 pixels away; `nearly_colinear_has_error` is true there. -/
theorem no_sat_alone_fails_for_nearly_parallel_edges :
    EdgeDS ⟨⟨-4096, 4096⟩, ⟨-1, 8192⟩⟩ ∧ EdgeDS ⟨⟨4096, -4096⟩, ⟨8190, -1⟩⟩ ∧
    ¬ (IntersectionParams.fromLines ⟨⟨-4096, 4096⟩, ⟨-1, 8192⟩⟩ ⟨⟨4096, -4096⟩, ⟨8190, -1⟩⟩).NoSat ⟨0, 0⟩ ∧
    (IntersectionParams.fromLines ⟨⟨-4096, 4096⟩, ⟨-1, 8192⟩⟩ ⟨⟨4096, -4096⟩, ⟨8190, -1⟩⟩).nearlyColinearHasError = true := by
  decide

/-- The edge lines `Line::extents` returns for a display-scale segment are in `EdgeDS`. -/
theorem extents_in_edge_domain {l : Line} (hs : VDS l.start) (he : VDS l.stop) {w : Nat} (hw : w ≤ 128)
    {off : Thick.StrokeOffset} {L R : Line} (h : extents l w off = some (L, R)) : EdgeDS L ∧ EdgeDS R :=
  extents_edgeDS hs he hw h
example : VDS ⟨-1024, 7⟩ ∧ VDS ⟨1024, -1024⟩ ∧ (128 : Nat) ≤ 128 ∧
    (extents ⟨⟨-1024, 7⟩, ⟨1024, -1024⟩⟩ 128 .none).isSome = true := by decide

/-- **`JoinNoSat` holds at display scale.** -/
theorem join_no_sat_display_scale {start mid stop : Pt} (h1 : VDS start) (h2 : VDS mid) (h3 : VDS stop)
    {w : Nat} (hw : w ≤ 128) (off : Thick.StrokeOffset) {d : Pt} (hd : MoveDS d) :
    JoinNoSat start mid stop w off d :=
  joinNoSat_display_scale h1 h2 h3 hw off hd
example : VDS ⟨-1024, -1024⟩ ∧ VDS ⟨1024, -1023⟩ ∧ VDS ⟨-1024, -1022⟩ ∧ MoveDS ⟨300, -2000⟩ := by decide

/-- Hence `LineJoin::from_points` moves with its points at display scale, without any guard: same
kind, corners moved by `d`. -/
theorem join_from_points_translate_display_scale {start mid stop : Pt} (h1 : VDS start) (h2 : VDS mid)
    (h3 : VDS stop) {w : Nat} (hw : w ≤ 128) (off : Thick.StrokeOffset) {d : Pt} (hd : MoveDS d) :
    LineJoin.fromPoints (start + d) (mid + d) (stop + d) w off =
      (LineJoin.fromPoints start mid stop w off).map (·.translate d) :=
  fromPoints_translate start mid stop w off d (joinNoSat_display_scale h1 h2 h3 hw off hd)
example : VDS ⟨0, 0⟩ ∧ VDS ⟨-6, -6⟩ ∧ VDS ⟨-5, 3⟩ ∧ (4 : Nat) ≤ 128 ∧ MoveDS ⟨-3, 4⟩ := by decide

/-- **`PolyNoSat` holds at display scale** (every join of the polyline). -/
theorem poly_no_sat_display_scale {w : Nat} (hw : w ≤ 128) {d : Pt} (hd : MoveDS d) (vs : List Pt)
    (hv : ∀ v ∈ vs, VDS v) : PolyNoSat w d vs :=
  polyNoSat_display_scale hw hd vs hv
example : ∀ v ∈ ([⟨0, 0⟩, ⟨-6, -6⟩, ⟨-5, 3⟩, ⟨1024, -1024⟩] : List Pt), VDS v := by decide

/-- Hence the thick segments of a display-scale polyline with moved vertices are the moved
segments, without the saturation guard. -/
theorem polyline_segments_moved_display_scale (vs : List Pt) (w : Nat) (d : Pt) (hn : 2 ≤ vs.length)
    (hw : w ≤ 128) (hd : MoveDS d) (hv : ∀ v ∈ vs, VDS v) :
    polySegments (vs.map (· + d)) w = (polySegments vs w).map (·.map (·.translate d)) :=
  segments_moved vs w d hn (polyNoSat_display_scale hw hd vs hv)
example : 2 ≤ ([⟨0, 0⟩, ⟨-6, -6⟩, ⟨-5, 3⟩] : List Pt).length := by decide

/-- **`TriNoSat` holds at display scale**, also for the clockwise-sorted triangle the styled
triangle code works on (the first component of `TriGuards`). -/
theorem tri_no_sat_display_scale {t : Tri} (h1 : VDS t.v1) (h2 : VDS t.v2) (h3 : VDS t.v3) {w : Nat}
    (hw : w ≤ 128) (off : Thick.StrokeOffset) {d : Pt} (hd : MoveDS d) :
    TriNoSat t w off d ∧ TriNoSat t.sortedClockwise w off d := by
  obtain ⟨s1, s2, s3⟩ := sortedClockwise_VDS h1 h2 h3
  exact ⟨triNoSat_display_scale h1 h2 h3 hw off hd, triNoSat_display_scale s1 s2 s3 hw off hd⟩
example : VDS (⟨⟨-5, -4⟩, ⟨-5, -1⟩, ⟨-1, -4⟩⟩ : Tri).v1 ∧ VDS (⟨⟨-5, -4⟩, ⟨-5, -1⟩, ⟨-1, -4⟩⟩ : Tri).v2 ∧
    VDS (⟨⟨-5, -4⟩, ⟨-5, -1⟩, ⟨-1, -4⟩⟩ : Tri).v3 := by decide

/-- Hence `is_collapsed` of a display-scale triangle does not depend on its position, without guard. -/
theorem triangle_is_collapsed_translate_display_scale {t : Tri} (h1 : VDS t.v1) (h2 : VDS t.v2)
    (h3 : VDS t.v3) {w : Nat} (hw : w ≤ 128) (off : Thick.StrokeOffset) {d : Pt} (hd : MoveDS d) :
    (t.translate d).isCollapsed w off = t.isCollapsed w off :=
  isCollapsed_translate t w off d (triNoSat_display_scale h1 h2 h3 hw off hd)
example : (128 : Nat) ≤ 128 ∧ MoveDS ⟨-7, -9⟩ := by decide

end EG.C07.Joins
