/-
  C07 — the saturation guards of the join theorems (Props/C07/Joins.lean) hold at display scale.

  `intersection_translate_partial`, `join_from_points_translate_partial`,
  `polyline_segments_moved_partial`, `triangle_is_collapsed_translate_partial` carry the guards
  `NoSat` / `JoinNoSat` / `PolyNoSat` / `TriNoSat`: "the `i32` casts of a USED rounded intersection
  point do not saturate, before and after the move". Here they are discharged for every input of
  the display-scale domain of C08: vertices within +-1024 (`VDS`), stroke widths up to 128, every
  stroke offset, every move `d` within +-2^30 (`MoveDS`; the moved object may leave the display).

  This is not a consequence of the C08 range theorems alone (the checked kernel of C08 contains the
  saturating cast, which never panics): two nearly parallel edges meet arbitrarily far away. It
  follows from `nearly_colinear_has_error`, which discards exactly those points: a point that is
  used lies within 2^27 + 1 of its edge's start point (`used_intersection_point_near_edge`,
  Lagrange's identity; Lemmas/JoinsDisplayScale.lean), and the edges of `Line::extents` start
  within `16 w + 37` of their segment (Lemmas/JoinsExtentsBound.lean).

  The box guards of the picture-level theorems (`BoxGuard`, `RowsGuard`, `TriBoxGuard`,
  `TriRowsGuard`, hence `TriGuards`) hold on the same domain: every corner of a `LineJoin` is an end
  point of an edge line of `Line::extents` or a USED rounded intersection point, so it lies within
  2^27 + 4096 of the origin (`join_corners_near_display_scale`); the first segment box then absorbs
  the `i32::MAX / MIN` sentinels of the fold before and after the move and `rows()` of the moved box
  does not saturate (Lemmas/JoinsBoxDisplayScale.lean). Hence the picture theorems of
  Props/C07/Joins.lean have guard-free display-scale corollaries (`*_display_scale` below): draw
  calls, `pixels()` and bounding box of a stroked polyline with moved vertices and of a moved styled
  triangle.

  -- [V] stroked polylines / styled triangles outside the display-scale domain (a vertex beyond +-1024, a stroke wider than 128, a move beyond +-2^30): the guards `PolyNoSat` / `BoxGuard` / `RowsGuard` / `TriGuards` of Props/C07/Joins.lean are decidable per instance but not proved in general there (they are false for coordinates near the `i32` limits): carried by correspondence + oracle only

  -- [V] these theorems are about the integer MODEL: the real code's `i32` products (`dot_product`, `area_doubled`,
  -- `length_squared`) overflow once coordinates reach a few million (e.g. `thick.polyline 0 0 3 4194304 0 4194314 1000
  -- 4194330 0 4` panics in `dot_product` with overflow checks), so for the CODE the "moves within +-2^30" apply only to
  -- moves that keep every coordinate inside C08's checked range (|coordinate| <= 8192): carried by correspondence + oracle only
-/
import EG.Lemmas.JoinsBoxDisplayScale
import EG.Props.C07.Joins
namespace EG.C07.Joins
open EG EG.Joins

/-- A rounded intersection point that is used (not discarded by `nearly_colinear_has_error`) lies
within 2^27 of the start point of the first edge, for edges with start points and deltas within
+-4096 (`EdgeDS`; display-scale edges: start points within +-3109, deltas within +-2050). -/
theorem used_intersection_point_near_edge {l1 l2 : Line} (h1 : EdgeDS l1) (h2 : EdgeDS l2)
    (hnc : (IntersectionParams.fromLines l1 l2).nearlyColinearHasError = false) :
    (-134217728 ≤ (IntersectionParams.fromLines l1 l2).rawPoint.x - l1.start.x ∧
      (IntersectionParams.fromLines l1 l2).rawPoint.x - l1.start.x ≤ 134217728) ∧
    (-134217728 ≤ (IntersectionParams.fromLines l1 l2).rawPoint.y - l1.start.y ∧
      (IntersectionParams.fromLines l1 l2).rawPoint.y - l1.start.y ≤ 134217728) :=
  rawPoint_near_start h1 h2 hnc
example : EdgeDS ⟨⟨-1100, 3⟩, ⟨948, 1030⟩⟩ ∧ EdgeDS ⟨⟨940, 1040⟩, ⟨-20, -1024⟩⟩ ∧
    (IntersectionParams.fromLines ⟨⟨-1100, 3⟩, ⟨948, 1030⟩⟩ ⟨⟨940, 1040⟩, ⟨-20, -1024⟩⟩).nearlyColinearHasError = false := by
  decide

/-- The guard of `intersection_translate_partial` in the form the joins use it (`PointOK`: the
point is discarded or `NoSat` holds) for display-scale edges and moves. -/
theorem intersection_point_ok_display_scale {l1 l2 : Line} (h1 : EdgeDS l1) (h2 : EdgeDS l2) {d : Pt}
    (hd : MoveDS d) : (IntersectionParams.fromLines l1 l2).PointOK d :=
  pointOK_display_scale h1 h2 hd
example : EdgeDS ⟨⟨-1100, 3⟩, ⟨948, 1030⟩⟩ ∧ EdgeDS ⟨⟨940, 1040⟩, ⟨-20, -1024⟩⟩ ∧ MoveDS ⟨-2048, 1000000⟩ := by decide

/-- `NoSat` ALONE is false on this domain - the discarding is essential: two edges with slopes
4096/4095 and 4095/4094 meet 2.7 * 10^11 pixels away; `nearly_colinear_has_error` is true there. -/
theorem no_sat_alone_fails_for_nearly_parallel_edges :
    EdgeDS ⟨⟨-4096, 4096⟩, ⟨-1, 8192⟩⟩ ∧ EdgeDS ⟨⟨4096, -4096⟩, ⟨8190, -1⟩⟩ ∧
    ¬ (IntersectionParams.fromLines ⟨⟨-4096, 4096⟩, ⟨-1, 8192⟩⟩ ⟨⟨4096, -4096⟩, ⟨8190, -1⟩⟩).NoSat ⟨0, 0⟩ ∧
    (IntersectionParams.fromLines ⟨⟨-4096, 4096⟩, ⟨-1, 8192⟩⟩ ⟨⟨4096, -4096⟩, ⟨8190, -1⟩⟩).nearlyColinearHasError = true := by
  decide

/-- The edge lines `Line::extents` returns for a display-scale segment are in `EdgeDS`. -/
theorem extents_in_edge_domain {l : Line} (hs : VDS l.start) (he : VDS l.stop) {w : Nat} (hw : w ≤ 128)
    {off : Thick.StrokeOffset} {L R : Line} (h : extents l w off = some (L, R)) : EdgeDS L ∧ EdgeDS R :=
  extents_edgeDS hs he hw h
example : VDS ⟨-1024, 7⟩ ∧ VDS ⟨1024, -1024⟩ ∧ (128 : Nat) ≤ 128 ∧
    (extents ⟨⟨-1024, 7⟩, ⟨1024, -1024⟩⟩ 128 .none).isSome = true := by decide

/-- **`JoinNoSat` holds at display scale.** -/
theorem join_no_sat_display_scale {start mid stop : Pt} (h1 : VDS start) (h2 : VDS mid) (h3 : VDS stop)
    {w : Nat} (hw : w ≤ 128) (off : Thick.StrokeOffset) {d : Pt} (hd : MoveDS d) :
    JoinNoSat start mid stop w off d :=
  joinNoSat_display_scale h1 h2 h3 hw off hd
example : VDS ⟨-1024, -1024⟩ ∧ VDS ⟨1024, -1023⟩ ∧ VDS ⟨-1024, -1022⟩ ∧ MoveDS ⟨300, -2000⟩ := by decide

/-- Hence `LineJoin::from_points` moves with its points at display scale, without any guard: same
kind, corners moved by `d`. -/
theorem join_from_points_translate_display_scale {start mid stop : Pt} (h1 : VDS start) (h2 : VDS mid)
    (h3 : VDS stop) {w : Nat} (hw : w ≤ 128) (off : Thick.StrokeOffset) {d : Pt} (hd : MoveDS d) :
    LineJoin.fromPoints (start + d) (mid + d) (stop + d) w off =
      (LineJoin.fromPoints start mid stop w off).map (·.translate d) :=
  fromPoints_translate start mid stop w off d (joinNoSat_display_scale h1 h2 h3 hw off hd)
example : VDS ⟨0, 0⟩ ∧ VDS ⟨-6, -6⟩ ∧ VDS ⟨-5, 3⟩ ∧ (4 : Nat) ≤ 128 ∧ MoveDS ⟨-3, 4⟩ := by decide

/-- **`PolyNoSat` holds at display scale** (every join of the polyline). -/
theorem poly_no_sat_display_scale {w : Nat} (hw : w ≤ 128) {d : Pt} (hd : MoveDS d) (vs : List Pt)
    (hv : ∀ v ∈ vs, VDS v) : PolyNoSat w d vs :=
  polyNoSat_display_scale hw hd vs hv
example : ∀ v ∈ ([⟨0, 0⟩, ⟨-6, -6⟩, ⟨-5, 3⟩, ⟨1024, -1024⟩] : List Pt), VDS v := by decide

/-- Hence the thick segments of a display-scale polyline with moved vertices are the moved
segments, without the saturation guard. -/
theorem polyline_segments_moved_display_scale (vs : List Pt) (w : Nat) (d : Pt) (hn : 2 ≤ vs.length)
    (hw : w ≤ 128) (hd : MoveDS d) (hv : ∀ v ∈ vs, VDS v) :
    polySegments (vs.map (· + d)) w = (polySegments vs w).map (·.map (·.translate d)) :=
  segments_moved vs w d hn (polyNoSat_display_scale hw hd vs hv)
example : 2 ≤ ([⟨0, 0⟩, ⟨-6, -6⟩, ⟨-5, 3⟩] : List Pt).length := by decide

/-- **`TriNoSat` holds at display scale**, also for the clockwise-sorted triangle the styled
triangle code works on (the first component of `TriGuards`). -/
theorem tri_no_sat_display_scale {t : Tri} (h1 : VDS t.v1) (h2 : VDS t.v2) (h3 : VDS t.v3) {w : Nat}
    (hw : w ≤ 128) (off : Thick.StrokeOffset) {d : Pt} (hd : MoveDS d) :
    TriNoSat t w off d ∧ TriNoSat t.sortedClockwise w off d := by
  obtain ⟨s1, s2, s3⟩ := sortedClockwise_VDS h1 h2 h3
  exact ⟨triNoSat_display_scale h1 h2 h3 hw off hd, triNoSat_display_scale s1 s2 s3 hw off hd⟩
example : VDS (⟨⟨-5, -4⟩, ⟨-5, -1⟩, ⟨-1, -4⟩⟩ : Tri).v1 ∧ VDS (⟨⟨-5, -4⟩, ⟨-5, -1⟩, ⟨-1, -4⟩⟩ : Tri).v2 ∧
    VDS (⟨⟨-5, -4⟩, ⟨-5, -1⟩, ⟨-1, -4⟩⟩ : Tri).v3 := by decide

/-- Hence `is_collapsed` of a display-scale triangle does not depend on its position, without guard. -/
theorem triangle_is_collapsed_translate_display_scale {t : Tri} (h1 : VDS t.v1) (h2 : VDS t.v2)
    (h3 : VDS t.v3) {w : Nat} (hw : w ≤ 128) (off : Thick.StrokeOffset) {d : Pt} (hd : MoveDS d) :
    (t.translate d).isCollapsed w off = t.isCollapsed w off :=
  isCollapsed_translate t w off d (triNoSat_display_scale h1 h2 h3 hw off hd)
example : (128 : Nat) ≤ 128 ∧ MoveDS ⟨-7, -9⟩ := by decide

/-! ### the box guards, and the picture theorems without guards -/

/-- Every corner point of a join of display-scale vertices lies within 2^27 + 4096 of the origin
(`PtNear`): it is an end point of an edge line or a used intersection point. -/
theorem join_corners_near_display_scale {start mid stop : Pt} (h1 : VDS start) (h2 : VDS mid)
    (h3 : VDS stop) {w : Nat} (hw : w ≤ 128) {off : Thick.StrokeOffset} {j : LineJoin}
    (h : LineJoin.fromPoints start mid stop w off = some j) :
    (PtNear j.firstEdgeEnd.left ∧ PtNear j.firstEdgeEnd.right) ∧
      (PtNear j.secondEdgeStart.left ∧ PtNear j.secondEdgeStart.right) :=
  fromPoints_near h1 h2 h3 hw h
example : VDS ⟨0, 0⟩ ∧ VDS ⟨-6, -6⟩ ∧ VDS ⟨-5, 3⟩ ∧ (4 : Nat) ≤ 128 ∧
    (LineJoin.fromPoints ⟨0, 0⟩ ⟨-6, -6⟩ ⟨-5, 3⟩ 4 .none).isSome = true := by decide

/-- **`BoxGuard` holds at display scale.** -/
theorem box_guard_display_scale {vs : List Pt} {w : Nat} {d : Pt} (hn : 2 ≤ vs.length)
    (hv : ∀ v ∈ vs, VDS v) (hw : w ≤ 128) (hd : MoveDS d) : BoxGuard vs w d :=
  boxGuard_display_scale hn hv hw hd

/-- **`RowsGuard` holds at display scale** (non-zero width, at least two vertices). -/
theorem rows_guard_display_scale {vs : List Pt} {w : Nat} {d : Pt} (hw0 : 0 < w) (hn : 2 ≤ vs.length)
    (hv : ∀ v ∈ vs, VDS v) (hw : w ≤ 128) (hd : MoveDS d) : RowsGuard vs w d :=
  rowsGuard_display_scale hw0 hn hv hw hd
example : 2 ≤ ([⟨0, 0⟩, ⟨-6, -6⟩, ⟨-5, 3⟩, ⟨1024, -1024⟩] : List Pt).length ∧
    (∀ v ∈ ([⟨0, 0⟩, ⟨-6, -6⟩, ⟨-5, 3⟩, ⟨1024, -1024⟩] : List Pt), VDS v) ∧ (0 : Nat) < 128 ∧
    (128 : Nat) ≤ 128 ∧ MoveDS ⟨-1073741824, 1073741824⟩ := by decide

/-- The bounding box of a display-scale stroked polyline with moved vertices is the moved box —
no guard. -/
theorem polyline_moved_vertices_box_display_scale (vs : List Pt) (w : Nat) (d : Pt) (hw0 : 0 < w)
    (hw : w ≤ 128) (hn : 2 ≤ vs.length) (hv : ∀ v ∈ vs, VDS v) (hd : MoveDS d) :
    styledBoundingBox ⟨Pt.zero, vs.map (· + d)⟩ w = (styledBoundingBox ⟨Pt.zero, vs⟩ w).map (·.translate d) :=
  polyline_moved_vertices_box_partial vs w d hw0 hn (polyNoSat_display_scale hw hd vs hv)
    (boxGuard_display_scale hn hv hw hd)

/-- **`draw` of a display-scale stroked polyline (2 <= width <= 128) with moved vertices issues the
moved `fill_solid` rectangles, in the same order — no guard.** -/
theorem polyline_moved_vertices_draw_display_scale (vs : List Pt) (w : Nat) (d : Pt) (hw2 : 2 ≤ w)
    (hw : w ≤ 128) (hn : 2 ≤ vs.length) (hv : ∀ v ∈ vs, VDS v) (hd : MoveDS d) :
    drawStyled ⟨Pt.zero, vs.map (· + d)⟩ w = (drawStyled ⟨Pt.zero, vs⟩ w).map (PolyDraw.translate · d) :=
  polyline_moved_vertices_draw_partial vs w d hw2 hn (polyNoSat_display_scale hw hd vs hv)
    (boxGuard_display_scale hn hv hw hd) (rowsGuard_display_scale (by omega) hn hv hw hd)

/-- **`pixels()` of a display-scale stroked polyline (2 <= width <= 128) with moved vertices is the
moved pixel sequence — no guard.** -/
theorem polyline_moved_vertices_pixels_display_scale (vs : List Pt) (w : Nat) (d : Pt) (hw2 : 2 ≤ w)
    (hw : w ≤ 128) (hn : 2 ≤ vs.length) (hv : ∀ v ∈ vs, VDS v) (hd : MoveDS d) :
    pixels ⟨Pt.zero, vs.map (· + d)⟩ w = (pixels ⟨Pt.zero, vs⟩ w).map (·.map (· + d)) :=
  polyline_moved_vertices_pixels_partial vs w d hw2 hn (polyNoSat_display_scale hw hd vs hv)
    (boxGuard_display_scale hn hv hw hd) (rowsGuard_display_scale (by omega) hn hv hw hd)
example : (2 : Nat) ≤ 4 ∧ (4 : Nat) ≤ 128 ∧ 2 ≤ ([⟨0, 0⟩, ⟨-6, -6⟩, ⟨-5, 3⟩] : List Pt).length ∧
    (∀ v ∈ ([⟨0, 0⟩, ⟨-6, -6⟩, ⟨-5, 3⟩] : List Pt), VDS v) ∧ MoveDS ⟨-3, 4⟩ := by decide

/-- **`TriGuards` (all guards of the triangle picture theorems) hold at display scale.** -/
theorem tri_guards_display_scale {t : Tri} (h1 : VDS t.v1) (h2 : VDS t.v2) (h3 : VDS t.v3)
    {style : TriStyle} (hw : style.strokeWidth ≤ 128) {d : Pt} (hd : MoveDS d) : TriGuards t style d :=
  triGuards_display_scale h1 h2 h3 hw hd

/-- The styled bounding box of a moved display-scale triangle is the moved box — no guard. -/
theorem triangle_box_translate_display_scale (t : Tri) (style : TriStyle) (d : Pt) (h1 : VDS t.v1)
    (h2 : VDS t.v2) (h3 : VDS t.v3) (hw : style.strokeWidth ≤ 128) (hd : MoveDS d) :
    triStyledBoundingBox (t.translate d) style = (triStyledBoundingBox t style).map (·.translate d) :=
  triangle_box_translate_partial t style d (triGuards_display_scale h1 h2 h3 hw hd).ns
    (triGuards_display_scale h1 h2 h3 hw hd).box

/-- **`draw` of a moved display-scale styled triangle (any alignment and fill, stroke width up to
128) issues the moved `fill_solid` calls, same order, same colours — no guard.** -/
theorem triangle_draw_translate_display_scale (t : Tri) (style : TriStyle) (d : Pt) (h1 : VDS t.v1)
    (h2 : VDS t.v2) (h3 : VDS t.v3) (hw : style.strokeWidth ≤ 128) (hd : MoveDS d) :
    triDraw (t.translate d) style = (triDraw t style).map (·.map (shiftCall · d)) :=
  triangle_draw_translate_partial t style d (triGuards_display_scale h1 h2 h3 hw hd)

/-- **`pixels()` of a moved display-scale styled triangle is the moved pixel sequence, with the same
colours — no guard.** -/
theorem triangle_pixels_translate_display_scale (t : Tri) (style : TriStyle) (d : Pt) (h1 : VDS t.v1)
    (h2 : VDS t.v2) (h3 : VDS t.v3) (hw : style.strokeWidth ≤ 128) (hd : MoveDS d) :
    triPixels (t.translate d) style = (triPixels t style).map (·.map (shiftPx · d)) :=
  triangle_pixels_translate_partial t style d (triGuards_display_scale h1 h2 h3 hw hd)
example : VDS (⟨⟨-5, -4⟩, ⟨-5, -1⟩, ⟨-1, -4⟩⟩ : Tri).v1 ∧ VDS (⟨⟨-5, -4⟩, ⟨-5, -1⟩, ⟨-1, -4⟩⟩ : Tri).v2 ∧
    VDS (⟨⟨-5, -4⟩, ⟨-5, -1⟩, ⟨-1, -4⟩⟩ : Tri).v3 ∧
    (⟨some 2, some 1, 3, .center⟩ : TriStyle).strokeWidth ≤ 128 ∧ MoveDS ⟨-7, -9⟩ := by decide

end EG.C07.Joins
