/-
  C07 — rendering commutes with translation: styled circles and styled ellipses, for every
  diameter / size, stroke width (including wider than the shape), alignment and colour option.

  * the call list of `draw()` of the moved shape is the call list of the original moved by `d`
    (`Call.translate`): the scanline iterators of the moved stroke / fill areas yield the moved
    scanlines (EG/Lemmas/CircleTranslate.lean, EllipseTranslate.lean, ScanlineTranslate.lean);
  * `pixels()` of the moved shape is the moved pixel sequence (same order, same colours);
  * hence the picture on both recording targets (`runNative` = R2 native fills, `runDefault` = R1
    trait defaults): on the target box moved along, and on one fixed box containing both styled
    bounding boxes;
  * the styled bounding box, stroke area and fill area move by `d`.
  Guards (decidable): the bounding boxes of the stroke and the fill area lie in the `i32` range
  before and after the move (`InRange`; there `rows()` / `columns()` do not saturate).
-/
import EG.Props.C06.Circle
import EG.Props.C06.Ellipse
import EG.Lemmas.CircleTranslate
import EG.Lemmas.EllipseTranslate
namespace EG.C07.CurvedDraw
open EG EG.Tgt

/-- The `i32`-range guard of a styled circle: stroke and fill area bounding boxes in range. -/
def CircleGuard (st : PrimStyle) (c : Circle) : Prop :=
  (c.strokeArea st).InRange ∧ (c.fillArea st).InRange
instance (st : PrimStyle) (c : Circle) : Decidable (CircleGuard st c) := by
  unfold CircleGuard; exact inferInstance

/-- The `i32`-range guard of a styled ellipse. -/
def EllipseGuard (st : PrimStyle) (e : Ellipse) : Prop :=
  (e.strokeArea st).InRange ∧ (e.fillArea st).InRange
instance (st : PrimStyle) (e : Ellipse) : Decidable (EllipseGuard st e) := by
  unfold EllipseGuard; exact inferInstance

/-! ### circle -/

/-- Styled bounding box, stroke area and fill area of the moved circle are the moved ones (no guard). -/
theorem styled_circle_areas_translate (st : PrimStyle) (c : Circle) (d : Pt) :
    (c.translate d).styledBoundingBox st = (c.styledBoundingBox st).translate d ∧
    (c.translate d).strokeArea st = (c.strokeArea st).translate d ∧
    (c.translate d).fillArea st = (c.fillArea st).translate d :=
  ⟨Circle.translate_styledBoundingBox st c d, Circle.translate_strokeArea st c d,
    Circle.translate_fillArea st c d⟩

/-- **`draw()` of the moved styled circle makes exactly the calls of the original, moved by `d`.** -/
theorem styled_circle_calls_translate (st : PrimStyle) (c : Circle) (d : Pt)
    (h : CircleGuard st c) (h' : CircleGuard st (c.translate d)) :
    (c.translate d).drawStyled st = (c.drawStyled st).map (Call.translate d) :=
  Circle.drawStyled_translate st c d h.1 h.2 h'.1 h'.2

/-- **`pixels()` of the moved styled circle = the moved `pixels()`**, same order. -/
theorem styled_circle_pixels_translate (st : PrimStyle) (c : Circle) (d : Pt)
    (h : CircleGuard st c) (h' : CircleGuard st (c.translate d)) :
    (c.translate d).styledPixels st = Writes.translate d (c.styledPixels st) :=
  Circle.styledPixels_translate st c d h.1 h'.1

/-- **The picture**: `draw()` of the moved circle on the target box moved along leaves the picture
of the original shifted by `d`, natively (R2) and through the trait defaults (R1). -/
theorem styled_circle_map_translate (st : PrimStyle) (c : Circle) (d : Pt)
    (h : CircleGuard st c) (h' : CircleGuard st (c.translate d)) (B : Rect) :
    runNative (B.translate d) ((c.translate d).drawStyled st) =
      PMap.shift d (runNative B (c.drawStyled st)) ∧
    runDefault (B.translate d) ((c.translate d).drawStyled st) =
      PMap.shift d (runDefault B (c.drawStyled st)) := by
  have e' := C01.styled_circle_pixels_eq_draw st (c.translate d) (B.translate d) h'.1 h'.2
  have e := C01.styled_circle_pixels_eq_draw st c B h.1 h.2
  rw [e'.1, e'.2, e.1, e.2, styled_circle_pixels_translate st c d h h', apply_clip_translate]
  exact ⟨rfl, rfl⟩

/-- The same on one fixed target whose box contains the stroke areas' bounding boxes before and
after the move (the "unbounded" target of the property text). -/
theorem styled_circle_map_translate_fixed_box (st : PrimStyle) (c : Circle) (d : Pt)
    (h : CircleGuard st c) (h' : CircleGuard st (c.translate d)) (B : Rect)
    (hB : ∀ q, (c.strokeArea st).boundingBox.contains q = true → B.contains q = true)
    (hB' : ∀ q, ((c.translate d).strokeArea st).boundingBox.contains q = true → B.contains q = true) :
    runNative B ((c.translate d).drawStyled st) = PMap.shift d (runNative B (c.drawStyled st)) ∧
    runDefault B ((c.translate d).drawStyled st) = PMap.shift d (runDefault B (c.drawStyled st)) := by
  have main : runNative B ((c.translate d).drawStyled st) =
      PMap.shift d (runNative B (c.drawStyled st)) := by
    funext p
    rw [PMap.shift_at, C01.styled_circle_draw_map st _ B h'.1 h'.2 p,
      C01.styled_circle_draw_map st c B h.1 h.2 (p - d), Circle.styledExpected_translate]
    cases hc : Circle.styledExpected st c (p - d) with
    | none => simp
    | some col =>
      have hs : (c.strokeArea st).contains (p - d) = true := by
        rw [Circle.styledExpected_eq_some] at hc
        rcases hc with ⟨hf, _⟩ | ⟨hs, _⟩
        · exact Circle.fill_subset_stroke h.1 h.2 hf
        · exact hs
      have hs' : ((c.translate d).strokeArea st).contains p = true := by
        rw [Circle.translate_strokeArea, Circle.translate_contains]; exact hs
      rw [if_pos (hB' p (Circle.contains_imp_bbox hs')), if_pos (hB (p - d) (Circle.contains_imp_bbox hs))]
  rw [C01.circle_draw_default_eq_native, C01.circle_draw_default_eq_native]
  exact ⟨main, main⟩

example : CircleGuard ⟨some 1, some 2, 9, .center⟩ ⟨⟨-3, 2⟩, 7⟩ ∧
    CircleGuard ⟨some 1, some 2, 9, .center⟩ ((⟨⟨-3, 2⟩, 7⟩ : Circle).translate ⟨-9, 4⟩) := by decide
example : (Circle.translate ⟨⟨-1, -1⟩, 3⟩ ⟨2, -4⟩).drawStyled ⟨some 7, some 9, 1, .inside⟩ =
    [.fillSolid ⟨⟨2, -5⟩, ⟨1, 1⟩⟩ 9, .fillSolid ⟨⟨1, -4⟩, ⟨1, 1⟩⟩ 9, .fillSolid ⟨⟨2, -4⟩, ⟨1, 1⟩⟩ 7,
     .fillSolid ⟨⟨3, -4⟩, ⟨1, 1⟩⟩ 9, .fillSolid ⟨⟨2, -3⟩, ⟨1, 1⟩⟩ 9] := by decide

/-! ### ellipse -/

/-- Styled bounding box, stroke area and fill area of the moved ellipse are the moved ones (no guard). -/
theorem styled_ellipse_areas_translate (st : PrimStyle) (e : Ellipse) (d : Pt) :
    (e.translate d).styledBoundingBox st = (e.styledBoundingBox st).translate d ∧
    (e.translate d).strokeArea st = (e.strokeArea st).translate d ∧
    (e.translate d).fillArea st = (e.fillArea st).translate d :=
  ⟨Ellipse.translate_styledBoundingBox st e d, Ellipse.translate_strokeArea st e d,
    Ellipse.translate_fillArea st e d⟩

/-- **`draw()` of the moved styled ellipse makes exactly the calls of the original, moved by `d`.** -/
theorem styled_ellipse_calls_translate (st : PrimStyle) (e : Ellipse) (d : Pt)
    (h : EllipseGuard st e) (h' : EllipseGuard st (e.translate d)) :
    (e.translate d).drawStyled st = (e.drawStyled st).map (Call.translate d) :=
  Ellipse.drawStyled_translate st e d h.1 h.2 h'.1 h'.2

/-- **`pixels()` of the moved styled ellipse = the moved `pixels()`**, same order. -/
theorem styled_ellipse_pixels_translate (st : PrimStyle) (e : Ellipse) (d : Pt)
    (h : EllipseGuard st e) (h' : EllipseGuard st (e.translate d)) :
    (e.translate d).styledPixels st = Writes.translate d (e.styledPixels st) :=
  Ellipse.styledPixels_translate st e d h.1 h'.1

/-- **The picture**: `draw()` of the moved ellipse on the target box moved along leaves the
picture of the original shifted by `d`, natively (R2) and through the trait defaults (R1). -/
theorem styled_ellipse_map_translate (st : PrimStyle) (e : Ellipse) (d : Pt)
    (h : EllipseGuard st e) (h' : EllipseGuard st (e.translate d)) (B : Rect) :
    runNative (B.translate d) ((e.translate d).drawStyled st) =
      PMap.shift d (runNative B (e.drawStyled st)) ∧
    runDefault (B.translate d) ((e.translate d).drawStyled st) =
      PMap.shift d (runDefault B (e.drawStyled st)) := by
  have e' := C01.styled_ellipse_pixels_eq_draw st (e.translate d) (B.translate d) h'.1 h'.2
  have e0 := C01.styled_ellipse_pixels_eq_draw st e B h.1 h.2
  rw [e'.1, e'.2, e0.1, e0.2, styled_ellipse_pixels_translate st e d h h', apply_clip_translate]
  exact ⟨rfl, rfl⟩

/-- The same on one fixed target whose box contains the stroke areas' bounding boxes before and
after the move. -/
theorem styled_ellipse_map_translate_fixed_box (st : PrimStyle) (e : Ellipse) (d : Pt)
    (h : EllipseGuard st e) (h' : EllipseGuard st (e.translate d)) (B : Rect)
    (hB : ∀ q, (e.strokeArea st).boundingBox.contains q = true → B.contains q = true)
    (hB' : ∀ q, ((e.translate d).strokeArea st).boundingBox.contains q = true → B.contains q = true) :
    runNative B ((e.translate d).drawStyled st) = PMap.shift d (runNative B (e.drawStyled st)) ∧
    runDefault B ((e.translate d).drawStyled st) = PMap.shift d (runDefault B (e.drawStyled st)) := by
  have main : runNative B ((e.translate d).drawStyled st) =
      PMap.shift d (runNative B (e.drawStyled st)) := by
    funext p
    rw [PMap.shift_at, C01.styled_ellipse_draw_map st _ B h'.1 h'.2 p,
      C01.styled_ellipse_draw_map st e B h.1 h.2 (p - d), Ellipse.styledExpected_translate]
    cases hc : Ellipse.styledExpected st e (p - d) with
    | none => simp
    | some col =>
      have hs : (e.strokeArea st).contains (p - d) = true := by
        rw [Ellipse.styledExpected_eq_some] at hc
        rcases hc with ⟨hf, _⟩ | ⟨hs, _⟩
        · exact Ellipse.fill_subset_stroke h.1 h.2 hf
        · exact hs
      have hs' : ((e.translate d).strokeArea st).contains p = true := by
        rw [Ellipse.translate_strokeArea, Ellipse.translate_contains]; exact hs
      rw [if_pos (hB' p (Ellipse.contains_imp_bbox hs')), if_pos (hB (p - d) (Ellipse.contains_imp_bbox hs))]
  rw [C01.ellipse_draw_default_eq_native, C01.ellipse_draw_default_eq_native]
  exact ⟨main, main⟩

example : EllipseGuard ⟨some 1, some 2, 9, .center⟩ ⟨⟨-3, 2⟩, ⟨7, 3⟩⟩ ∧
    EllipseGuard ⟨some 1, some 2, 9, .center⟩ ((⟨⟨-3, 2⟩, ⟨7, 3⟩⟩ : Ellipse).translate ⟨64, -33⟩) := by
  decide

-- [V] styled circle / ellipse: coordinates for which a stroke / fill area bounding box leaves the `i32` range (guards `CircleGuard` / `EllipseGuard` false; saturation / overflow there is C08's topic): carried by correspondence + oracle only
-- [V] styled circle / ellipse, `translate_mut`: that Rust's `&mut self` field assignment is the functional field update of the model is language semantics, carried by the oracle only (`C07:translate-mut-differs` compares both methods on the real code); PROVED on the model of the in-place body as the source writes it (EG/Model/TranslateMut.lean), for all inputs: `circle_translate_mut`, `ellipse_translate_mut` (Props/C07/TranslateMut.lean)

end EG.C07.CurvedDraw
