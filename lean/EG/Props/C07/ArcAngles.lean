/-
  C07 (Arc, Sector; `fixed_point` build) — the plane sector and the bevel of the translated shape are
  those of the original, and rendering from the RAW ANGLES commutes with translation.

  Props/C07/Arc.lean proves translation for every plane sector and bevel handed in as parameters. For
  the fixed_point build the computation of the two from the angles is modelled
  (`Fx.planeSectorNew start sweep`, `Fx.sectorBevel start sweep`, `Fx.styledSectorTrig`): their ONLY
  arguments are the two raw angles — neither the position, nor the diameter, nor the style enters. That
  the translated shape has the same plane sector and bevel is therefore definitional on the model
  (`fx_arc_of_angles_translate`, `fx_sector_of_angles_translate` are proved by `rfl` after a case split
  on whether the trigonometry panics); the content of this file is the composition: the pipeline
  raw angles -> pixels commutes with translation, including WHETHER the checked build panics.

  What else the bevel depends on: the bevel LINE is (kind, normal, distance) with kind and normal from
  the angles alone and `distance = -outside_stroke_width * NORMAL_VECTOR_SCALE * 4` from the style
  alone (`bevel_line_eq`): not on the circle's position, and not on its diameter either. The plane
  sector used by the styled sector iterator is the shape's own (`offset` keeps it).
-/
import EG.Lemmas.Glue2ArcAngles
import EG.Props.C07.Arc
namespace EG.C07.ArcAngles
open EG EG.Tgt EG.Glue2

/-- **Arc from raw angles, translated**: same plane sector, same panic behaviour — the translated
arc is the arc built at the translated position (definitional: `Fx.planeSectorNew` sees the angles
only). -/
theorem fx_arc_of_angles_translate (tl : Pt) (d : Nat) (start sweep : Int) (t : Pt) :
    arcOfAngles (tl + t) d start sweep = (arcOfAngles tl d start sweep).map (fun a => a.translate t) :=
  arcOfAngles_translate tl d start sweep t

/-- **Sector from raw angles, translated**: same plane sector, same bevel, same panic behaviour. -/
theorem fx_sector_of_angles_translate (tl : Pt) (d : Nat) (start sweep : Int) (t : Pt) :
    sectorOfAngles (tl + t) d start sweep =
      (sectorOfAngles tl d start sweep).map (fun x => (x.1.translate t, x.2)) :=
  sectorOfAngles_translate tl d start sweep t

/-- Whether the trigonometry of the checked build panics does not depend on the position or the
diameter (it is a property of the two angles). -/
theorem fx_trig_panic_position_free (tl tl' : Pt) (d d' : Nat) (start sweep : Int) :
    (arcOfAngles tl d start sweep).isSome = (arcOfAngles tl' d' start sweep).isSome ∧
    (sectorOfAngles tl d start sweep).isSome = (sectorOfAngles tl' d' start sweep).isSome := by
  unfold arcOfAngles sectorOfAngles
  constructor
  · cases Fx.planeSectorNew start sweep <;> rfl
  · cases Fx.styledSectorTrig start sweep <;> rfl

/-- The plane sector and the bevel of a shape built from angles are functions of the angles: two
shapes with the same angles (any positions, any diameters) carry the same ones. -/
theorem fx_trig_same_for_same_angles (tl tl' : Pt) (d d' : Nat) (start sweep : Int)
    (s s' : Sector) (b b' : SectorBevel)
    (h : sectorOfAngles tl d start sweep = some (s, b))
    (h' : sectorOfAngles tl' d' start sweep = some (s', b')) : s.ps = s'.ps ∧ b = b' := by
  unfold sectorOfAngles at h h'
  cases ht : Fx.styledSectorTrig start sweep with
  | none => rw [ht] at h; cases h
  | some x =>
    rw [ht] at h h'
    simp only [Option.map_some, Option.some.injEq, Prod.mk.injEq] at h h'
    obtain ⟨rfl, rfl⟩ := h
    obtain ⟨rfl, rfl⟩ := h'
    exact ⟨rfl, rfl⟩
example : ∃ s b s' b', sectorOfAngles ⟨-3, 2⟩ 9 34315 (-205886) = some (s, b) ∧
    sectorOfAngles ⟨40, -7⟩ 21 34315 (-205886) = some (s', b') := by
  have h : (Fx.styledSectorTrig 34315 (-205886)).isSome = true := by decide
  obtain ⟨x, hx⟩ := Option.isSome_iff_exists.mp h
  exact ⟨_, _, _, _, by unfold sectorOfAngles; rw [hx]; rfl, by unfold sectorOfAngles; rw [hx]; rfl⟩

/-- **Styled arc from raw angles: `pixels()` of the translated arc is the translated `pixels()`**
(fixed_point build, angles -> pixels inside the model). -/
theorem fx_styled_arc_translate (st : Style) (tl : Pt) (d : Nat) (start sweep : Int) (t : Pt) (a : Arc)
    (h : arcOfAngles tl d start sweep = some a)
    (h1 : (a.styledBoundingBox st).InRange) (h2 : ((a.translate t).styledBoundingBox st).InRange) :
    arcOfAngles (tl + t) d start sweep = some (a.translate t) ∧
    (a.translate t).styledPixels st = Writes.translate t (a.styledPixels st) := by
  refine ⟨?_, C07.Arc.styled_arc_translate st a t h1 h2⟩
  rw [fx_arc_of_angles_translate, h]; rfl
example : ∃ a, arcOfAngles ⟨-3, 2⟩ 7 34315 (-205886) = some a ∧
    (a.styledBoundingBox ⟨some 1, some 2, 3, .center⟩).InRange ∧
    ((a.translate ⟨-9, 4⟩).styledBoundingBox ⟨some 1, some 2, 3, .center⟩).InRange := by
  have h : Fx.planeSectorNew 34315 (-205886) = some ⟨.intersection, ⟨-512, 886⟩, ⟨512, -886⟩⟩ := by decide
  refine ⟨⟨⟨-3, 2⟩, 7, ⟨.intersection, ⟨-512, 886⟩, ⟨512, -886⟩⟩⟩, ?_, by decide, by decide⟩
  unfold arcOfAngles; rw [h]; rfl

/-- **Styled sector from raw angles: `pixels()` of the translated sector is the translated
`pixels()`**, bevel included. -/
theorem fx_styled_sector_translate (st : Style) (tl : Pt) (d : Nat) (start sweep : Int) (t : Pt)
    (s : Sector) (bevel : SectorBevel) (h : sectorOfAngles tl d start sweep = some (s, bevel))
    (h1 : (s.styledBoundingBox st).InRange) (h2 : ((s.translate t).styledBoundingBox st).InRange) :
    sectorOfAngles (tl + t) d start sweep = some (s.translate t, bevel) ∧
    (s.translate t).styledPixels st bevel = Writes.translate t (s.styledPixels st bevel) := by
  refine ⟨?_, C07.Arc.styled_sector_translate st s bevel t h1 h2⟩
  rw [fx_sector_of_angles_translate, h]; rfl

/-- ... and the pictures: `draw()` of the translated shapes on the moved target box. -/
theorem fx_styled_draw_translate (st : Style) (tl : Pt) (d : Nat) (start sweep : Int) (t : Pt) (B : Rect) :
    (∀ a, arcOfAngles tl d start sweep = some a → (a.styledBoundingBox st).InRange →
      ((a.translate t).styledBoundingBox st).InRange →
      ∃ a', arcOfAngles (tl + t) d start sweep = some a' ∧
        runNative (B.translate t) (a'.drawStyled st) = PMap.shift t (runNative B (a.drawStyled st))) ∧
    (∀ s bevel, sectorOfAngles tl d start sweep = some (s, bevel) → (s.styledBoundingBox st).InRange →
      ((s.translate t).styledBoundingBox st).InRange →
      ∃ s', sectorOfAngles (tl + t) d start sweep = some (s', bevel) ∧
        runNative (B.translate t) (s'.drawStyled st bevel) =
          PMap.shift t (runNative B (s.drawStyled st bevel))) := by
  constructor
  · intro a h h1 h2
    exact ⟨a.translate t, (fx_styled_arc_translate st tl d start sweep t a h h1 h2).1,
      C07.Arc.styled_arc_draw_translate st a t B h1 h2⟩
  · intro s bevel h h1 h2
    exact ⟨s.translate t, (fx_styled_sector_translate st tl d start sweep t s bevel h h1 h2).1,
      C07.Arc.styled_sector_draw_translate st s bevel t B h1 h2⟩

/-- **What the bevel line depends on**: kind and normal are the angle-computed bevel's, the distance
is `-outside_stroke_width * NORMAL_VECTOR_SCALE * 4` — the style only. Neither the position nor the
diameter of the circle enters; the plane sector the iterator uses is the shape's own. -/
theorem bevel_line_eq (st : Style) (s : Sector) (bevel : SectorBevel) :
    (s.styledPixelsIt st bevel).bevel =
      bevel.map (fun kn => (kn.1, ⟨kn.2, -(satAsI32 st.outsideStrokeWidth) * normalVectorScale * 4⟩)) ∧
    (s.styledPixelsIt st bevel).planeSector = s.ps := ⟨rfl, rfl⟩

/-- Hence the same line for any two sectors with the same style and angle-computed bevel. -/
theorem bevel_line_position_and_size_free (st : Style) (s s' : Sector) (bevel : SectorBevel) :
    (s.styledPixelsIt st bevel).bevel = (s'.styledPixelsIt st bevel).bevel := rfl

end EG.C07.ArcAngles
