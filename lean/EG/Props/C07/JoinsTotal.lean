/-
  C07 — the join theorems are not vacuous: the models they speak about are TOTAL.

  The statements of Props/C07/Joins.lean and JoinsDisplayScale.lean are equalities between `Option`s
  (`f (moved input) = (f input).map (move)`), and the guard `JoinNoSat` is `True` by definition when
  `Line::extents` returns `none`; `none` is the model's "a loop bound of the model was exceeded"
  value, and an equality `none = none` would say nothing. Here it is proved that `none` never occurs:
  * `Line::extents` returns a pair of edge lines for EVERY line, stroke width and stroke offset
    (`line_extents_is_some`; Lemmas/ExtentsTotal.lean: the parallels iterator returns at most
    `3 min(w, i32::MAX) + 2` parallels, the bounds of the model's loops are `4 w + 8`);
  * hence `LineJoin::start / end / from_points`, the thick segments of a polyline, `is_collapsed`;
  * the styled polyline model (`styledBoundingBox`, `drawStyled`, `pixels`) and the styled triangle
    model (`triStyledBoundingBox`, `triDraw`, `triPixels`) return `some` for every input
    (Lemmas/JoinsTotalPoly.lean, JoinsTotalTri.lean: the step budgets of the scanline iterators
    suffice), no guard needed;
  * so every translation theorem can be read "the original yields a value, and the moved input
    yields the moved value" (`*_some` below), and `JoinNoSat` always speaks about actual edge lines
    (`join_no_sat_never_vacuous`).
-/
import EG.Lemmas.JoinsTotalPoly
import EG.Lemmas.JoinsTotalTri
import EG.Props.C07.JoinsDisplayScale
namespace EG.C07.JoinsTotal
open EG EG.Joins EG.C07.Joins

/-- **`Line::extents(thickness, offset)` is total**: a pair of edge lines for every line, every
stroke width (also beyond `i32::MAX`, where the thickness saturates) and every stroke offset. -/
theorem line_extents_is_some (l : Line) (w : Nat) (off : Thick.StrokeOffset) :
    (extents l w off).isSome = true := by
  obtain ⟨r, h⟩ := extents_total l w off
  rw [h]; rfl

/-- `line_extents_translate` in the form "the line has edge lines, and the moved line has the moved
edge lines". -/
theorem line_extents_translate_some (l : Line) (w : Nat) (off : Thick.StrokeOffset) (d : Pt) :
    ∃ L R, extents l w off = some (L, R) ∧
      extents (l.translate d) w off = some (L.translate d, R.translate d) := by
  obtain ⟨⟨L, R⟩, h⟩ := extents_total l w off
  exact ⟨L, R, h, by rw [extents_translate, h]; rfl⟩

/-- `LineJoin::start` is total. -/
theorem join_start_is_some (s m : Pt) (w : Nat) (off : Thick.StrokeOffset) :
    (LineJoin.start s m w off).isSome = true := by
  obtain ⟨j, h⟩ := start_total s m w off
  rw [h]; rfl

/-- `LineJoin::end` is total. -/
theorem join_end_is_some (m e : Pt) (w : Nat) (off : Thick.StrokeOffset) :
    (LineJoin.stop m e w off).isSome = true := by
  obtain ⟨j, h⟩ := stop_total m e w off
  rw [h]; rfl

/-- **`LineJoin::from_points` is total.** -/
theorem join_from_points_is_some (s m e : Pt) (w : Nat) (off : Thick.StrokeOffset) :
    (LineJoin.fromPoints s m e w off).isSome = true := by
  obtain ⟨j, h⟩ := fromPoints_total s m e w off
  rw [h]; rfl

/-- **The guard `JoinNoSat` is never the vacuous `True`**: it always is the statement
`EdgesNoSat` about the four edge lines `Line::extents` actually returns. -/
theorem join_no_sat_never_vacuous (start mid stop : Pt) (w : Nat) (off : Thick.StrokeOffset) (d : Pt) :
    JoinNoSat start mid stop w off d ↔
      ∃ fl fr sl sr, extents ⟨start, mid⟩ w off = some (fl, fr) ∧
        extents ⟨mid, stop⟩ w off = some (sl, sr) ∧ EdgesNoSat fl fr sl sr d := by
  obtain ⟨⟨fl, fr⟩, h1⟩ := extents_total ⟨start, mid⟩ w off
  obtain ⟨⟨sl, sr⟩, h2⟩ := extents_total ⟨mid, stop⟩ w off
  unfold JoinNoSat
  rw [h1, h2]
  constructor
  · intro h; exact ⟨fl, fr, sl, sr, rfl, rfl, h⟩
  · rintro ⟨a, b, c, e, ha, hc, h⟩
    simp only [Option.some.injEq, Prod.mk.injEq] at ha hc
    obtain ⟨rfl, rfl⟩ := ha
    obtain ⟨rfl, rfl⟩ := hc
    exact h

/-- `join_from_points_translate_partial` read with totality: the join exists, and the join of the
moved points is the moved join (same kind, corners moved). -/
theorem join_from_points_translate_some (start mid stop : Pt) (w : Nat) (off : Thick.StrokeOffset)
    (d : Pt) (h : JoinNoSat start mid stop w off d) :
    ∃ j, LineJoin.fromPoints start mid stop w off = some j ∧
      LineJoin.fromPoints (start + d) (mid + d) (stop + d) w off = some (j.translate d) := by
  obtain ⟨j, hj⟩ := fromPoints_total start mid stop w off
  exact ⟨j, hj, by rw [fromPoints_translate start mid stop w off d h, hj]; rfl⟩
example : JoinNoSat ⟨0, 0⟩ ⟨-6, -6⟩ ⟨-5, 3⟩ 4 .none ⟨-3, 4⟩ := by decide

/-- At display scale (vertices within +-1024, widths up to 128, moves within +-2^30) without any
guard: the join exists and moves with its points. -/
theorem join_from_points_translate_display_scale_some {start mid stop : Pt} (h1 : VDS start)
    (h2 : VDS mid) (h3 : VDS stop) {w : Nat} (hw : w ≤ 128) (off : Thick.StrokeOffset) {d : Pt}
    (hd : MoveDS d) :
    ∃ j, LineJoin.fromPoints start mid stop w off = some j ∧
      LineJoin.fromPoints (start + d) (mid + d) (stop + d) w off = some (j.translate d) :=
  join_from_points_translate_some start mid stop w off d (joinNoSat_display_scale h1 h2 h3 hw off hd)
example : VDS ⟨-1024, 1024⟩ ∧ VDS ⟨1000, -6⟩ ∧ VDS ⟨-5, 3⟩ ∧ (128 : Nat) ≤ 128 ∧ MoveDS ⟨-3000, 4⟩ := by decide

/-! ### stroked polylines -/

/-- The thick segments of a stroked polyline exist, for every vertex list and width. -/
theorem polyline_segments_is_some (vs : List Pt) (w : Nat) : (polySegments vs w).isSome = true := by
  obtain ⟨s, h⟩ := polySegments_total vs w
  rw [h]; rfl

/-- **`bounding_box()` of a stroked polyline is total.** -/
theorem polyline_bounding_box_is_some (pl : Polyline) (w : Nat) : (styledBoundingBox pl w).isSome = true := by
  obtain ⟨r, h⟩ := styledBoundingBox_total pl w
  rw [h]; rfl

/-- **`draw` of a stroked polyline is total**: the step budget of the scanline iterator of the model
is never exhausted. -/
theorem polyline_draw_is_some (pl : Polyline) (w : Nat) : (drawStyled pl w).isSome = true := by
  obtain ⟨r, h⟩ := drawStyled_total pl w
  rw [h]; rfl

/-- **`pixels()` of a stroked polyline is total.** -/
theorem polyline_pixels_is_some (pl : Polyline) (w : Nat) : (pixels pl w).isSome = true := by
  obtain ⟨r, h⟩ := pixels_total pl w
  rw [h]; rfl

/-- `polyline_translate_field_draw` with totality: the polyline draws some rectangles, and moved by
its `translate` field it draws them moved. -/
theorem polyline_translate_field_draw_some (t : Pt) (vs : List Pt) (w : Nat) (hw : 2 ≤ w)
    (hn : 1 < vs.length) :
    ∃ dr, drawStyled ⟨Pt.zero, vs⟩ w = some dr ∧ drawStyled ⟨t, vs⟩ w = some (PolyDraw.translate dr t) := by
  obtain ⟨dr, h⟩ := drawStyled_total ⟨Pt.zero, vs⟩ w
  exact ⟨dr, h, by rw [polyline_translate_field_draw t vs w hw hn, h]; rfl⟩
example : (2 : Nat) ≤ 40 ∧ 1 < ([⟨0, 0⟩, ⟨-600, -6⟩, ⟨-5, 300⟩] : List Pt).length := by decide

/-- `polyline_translate_field_pixels` with totality. -/
theorem polyline_translate_field_pixels_some (t : Pt) (vs : List Pt) (w : Nat) (hw : 2 ≤ w)
    (hn : 1 < vs.length) :
    ∃ ps, pixels ⟨Pt.zero, vs⟩ w = some ps ∧ pixels ⟨t, vs⟩ w = some (ps.map (· + t)) := by
  obtain ⟨ps, h⟩ := pixels_total ⟨Pt.zero, vs⟩ w
  exact ⟨ps, h, by rw [polyline_translate_field_pixels t vs w hw hn, h]; rfl⟩
example : (2 : Nat) ≤ 128 ∧ 1 < ([⟨0, 0⟩, ⟨-6, -6⟩] : List Pt).length := by decide

/-- **A display-scale stroked polyline (2 <= width <= 128, vertices within +-1024) has a bounding
box, draws some rectangles and yields some pixels; with its vertices moved by `d` (within +-2^30) it
has the moved box, draws the moved rectangles in the same order and yields the moved pixels** — no
guard, nothing vacuous. -/
theorem polyline_moved_vertices_display_scale_some (vs : List Pt) (w : Nat) (d : Pt) (hw2 : 2 ≤ w)
    (hw : w ≤ 128) (hn : 2 ≤ vs.length) (hv : ∀ v ∈ vs, VDS v) (hd : MoveDS d) :
    ∃ bb dr ps, styledBoundingBox ⟨Pt.zero, vs⟩ w = some bb ∧ drawStyled ⟨Pt.zero, vs⟩ w = some dr ∧
      pixels ⟨Pt.zero, vs⟩ w = some ps ∧
      styledBoundingBox ⟨Pt.zero, vs.map (· + d)⟩ w = some (bb.translate d) ∧
      drawStyled ⟨Pt.zero, vs.map (· + d)⟩ w = some (PolyDraw.translate dr d) ∧
      pixels ⟨Pt.zero, vs.map (· + d)⟩ w = some (ps.map (· + d)) := by
  obtain ⟨bb, h1⟩ := styledBoundingBox_total ⟨Pt.zero, vs⟩ w
  obtain ⟨dr, h2⟩ := drawStyled_total ⟨Pt.zero, vs⟩ w
  obtain ⟨ps, h3⟩ := pixels_total ⟨Pt.zero, vs⟩ w
  refine ⟨bb, dr, ps, h1, h2, h3, ?_, ?_, ?_⟩
  · rw [polyline_moved_vertices_box_display_scale vs w d (by omega) hw hn hv hd, h1]; rfl
  · rw [polyline_moved_vertices_draw_display_scale vs w d hw2 hw hn hv hd, h2]; rfl
  · rw [polyline_moved_vertices_pixels_display_scale vs w d hw2 hw hn hv hd, h3]; rfl
example : (2 : Nat) ≤ 128 ∧ (128 : Nat) ≤ 128 ∧ 2 ≤ ([⟨0, 0⟩, ⟨-600, -6⟩, ⟨-5, 1024⟩] : List Pt).length ∧
    (∀ v ∈ ([⟨0, 0⟩, ⟨-600, -6⟩, ⟨-5, 1024⟩] : List Pt), VDS v) ∧ MoveDS ⟨-3000, 4⟩ := by decide

/-! ### styled triangles -/

/-- `is_collapsed` is total. -/
theorem triangle_is_collapsed_is_some (t : Tri) (w : Nat) (off : Thick.StrokeOffset) :
    (t.isCollapsed w off).isSome = true := by
  obtain ⟨c, h⟩ := isCollapsed_total t w off
  rw [h]; rfl

/-- **`bounding_box()` of a styled triangle is total.** -/
theorem triangle_bounding_box_is_some (t : Tri) (style : TriStyle) :
    (triStyledBoundingBox t style).isSome = true := by
  obtain ⟨r, h⟩ := triStyledBoundingBox_total t style
  rw [h]; rfl

/-- **`draw` of a styled triangle is total.** -/
theorem triangle_draw_is_some (t : Tri) (style : TriStyle) : (triDraw t style).isSome = true := by
  obtain ⟨r, h⟩ := triDraw_total t style
  rw [h]; rfl

/-- **`pixels()` of a styled triangle is total**: the loop bound of `StyledPixelsIterator::next` in
the model is never exhausted. -/
theorem triangle_pixels_is_some (t : Tri) (style : TriStyle) : (triPixels t style).isSome = true := by
  obtain ⟨r, h⟩ := triPixels_total t style
  rw [h]; rfl

/-- **A display-scale styled triangle (any alignment and fill, stroke width up to 128) has a
bounding box, issues some `fill_solid` calls and yields some pixels; moved by `d` it has the moved
box, issues the moved calls with the same colours in the same order and yields the moved pixels** —
no guard, nothing vacuous. -/
theorem triangle_translate_display_scale_some (t : Tri) (style : TriStyle) (d : Pt) (h1 : VDS t.v1)
    (h2 : VDS t.v2) (h3 : VDS t.v3) (hw : style.strokeWidth ≤ 128) (hd : MoveDS d) :
    ∃ bb calls px, triStyledBoundingBox t style = some bb ∧ triDraw t style = some calls ∧
      triPixels t style = some px ∧
      triStyledBoundingBox (t.translate d) style = some (bb.translate d) ∧
      triDraw (t.translate d) style = some (calls.map (shiftCall · d)) ∧
      triPixels (t.translate d) style = some (px.map (shiftPx · d)) := by
  obtain ⟨bb, e1⟩ := triStyledBoundingBox_total t style
  obtain ⟨calls, e2⟩ := triDraw_total t style
  obtain ⟨px, e3⟩ := triPixels_total t style
  refine ⟨bb, calls, px, e1, e2, e3, ?_, ?_, ?_⟩
  · rw [triangle_box_translate_display_scale t style d h1 h2 h3 hw hd, e1]; rfl
  · rw [triangle_draw_translate_display_scale t style d h1 h2 h3 hw hd, e2]; rfl
  · rw [triangle_pixels_translate_display_scale t style d h1 h2 h3 hw hd, e3]; rfl
example : VDS (⟨⟨-1024, -4⟩, ⟨-5, 1000⟩, ⟨900, -4⟩⟩ : Tri).v1 ∧ VDS (⟨⟨-1024, -4⟩, ⟨-5, 1000⟩, ⟨900, -4⟩⟩ : Tri).v2 ∧
    VDS (⟨⟨-1024, -4⟩, ⟨-5, 1000⟩, ⟨900, -4⟩⟩ : Tri).v3 ∧
    (⟨some 2, some 1, 100, .outside⟩ : TriStyle).strokeWidth ≤ 128 ∧ MoveDS ⟨-7, -9⟩ := by decide

end EG.C07.JoinsTotal
