/-
  C07 — rendering commutes with translation: circle and ellipse geometry.
  `contains`, `bounding_box` and `points()` of the translated shape are the shifted ones
  (`center_2x` moves by `2d`, so the doubled distance to the centre is unchanged).
-/
import EG.Props.C05.Circle
import EG.Props.C05.Ellipse
import EG.Lemmas.RectTranslate
namespace EG.C07.Curved
open EG

theorem circle_bounding_box_translate (c : Circle) (d : Pt) :
    (c.translate d).boundingBox = c.boundingBox.translate d := rfl

/-- `contains` of the translated circle at the shifted point. -/
theorem circle_contains_translate (c : Circle) (d p : Pt) :
    (c.translate d).contains (p + d) = c.contains p := by
  unfold Circle.contains
  have h : (c.translate d).center2x - (⟨(p + d).x * 2, (p + d).y * 2⟩ : Pt) =
      c.center2x - (⟨p.x * 2, p.y * 2⟩ : Pt) := by
    rw [Pt.ext_iff']
    simp only [Circle.center2x, Circle.translate, Pt.sub_x, Pt.sub_y, Pt.add_x, Pt.add_y]
    constructor <;> omega
  rw [h]
  rfl

/-- `points()` of the translated circle is the shifted list (same order). -/
theorem circle_points_translate (c : Circle) (d : Pt) (h : c.InRange) (h' : (c.translate d).InRange) :
    (c.translate d).points = c.points.map (· + d) := by
  rw [C05.circle_points_eq_filter_contains _ h', C05.circle_points_eq_filter_contains _ h,
    circle_bounding_box_translate, Rect.points_translate _ _ h h', List.filter_map]
  congr 1
  apply List.filter_congr
  intro p _
  simp only [Function.comp]
  exact circle_contains_translate c d p

theorem ellipse_bounding_box_translate (e : Ellipse) (d : Pt) :
    (e.translate d).boundingBox = e.boundingBox.translate d := rfl

/-- `contains` of the translated ellipse at the shifted point. -/
theorem ellipse_contains_translate (e : Ellipse) (d p : Pt) :
    (e.translate d).contains (p + d) = e.contains p := by
  unfold Ellipse.contains
  have h : (⟨(p + d).x * 2, (p + d).y * 2⟩ : Pt) - (e.translate d).center2x =
      (⟨p.x * 2, p.y * 2⟩ : Pt) - e.center2x := by
    rw [Pt.ext_iff']
    simp only [Ellipse.center2x, Ellipse.center2xOf, Ellipse.translate, Pt.sub_x, Pt.sub_y, Pt.add_x, Pt.add_y]
    constructor <;> omega
  rw [h]
  rfl

/-- `points()` of the translated ellipse is the shifted list (same order). -/
theorem ellipse_points_translate (e : Ellipse) (d : Pt) (h : e.InRange) (h' : (e.translate d).InRange) :
    (e.translate d).points = e.points.map (· + d) := by
  rw [C05.ellipse_points_eq_filter_contains _ h', C05.ellipse_points_eq_filter_contains _ h,
    ellipse_bounding_box_translate, Rect.points_translate _ _ h h', List.filter_map]
  congr 1
  apply List.filter_congr
  intro p _
  simp only [Function.comp]
  exact ellipse_contains_translate e d p

example : (⟨⟨-3, 2⟩, 7⟩ : Circle).InRange ∧ ((⟨⟨-3, 2⟩, 7⟩ : Circle).translate ⟨-9, 4⟩).InRange := by decide

-- The pictures of styled circles / ellipses under translation: EG/Props/C07/CurvedDraw.lean; styled rounded rectangles
-- (all corner radii): EG/Props/C07/RoundedRect.lean; styled arcs / sectors: EG/Props/C07/Arc.lean.

end EG.C07.Curved
