/-
  C07 — `translate_mut` leaves in `*self` exactly the value `translate` returns, for every
  primitive, `Text` and `Image`, for all inputs.

  `translate` and `translate_mut` are written differently in the Rust source: `translate` builds a
  new value (`Self { top_left: self.top_left + by, ..*self }`), `translate_mut` assigns fields in
  place (`self.top_left += by`, i.e. `self.x += other.x; self.y += other.y`), the rounded rectangle
  delegates to its rectangle's `translate_mut`, the line updates two fields one after the other, the
  triangle maps over its vertex array (and its `translate` is "copy, then `translate_mut`"). The
  models of the in-place bodies are in EG/Model/TranslateMut.lean (one field update per statement).
  Every translation theorem of C07 (Props/C07/*.lean) is stated for `translate`; with the equalities
  below it holds verbatim for a value moved with `translate_mut`.
  Not proved here (Rust semantics): that an assignment through `&mut self` is the functional update
  of that field; the oracle compares both methods on the real code (`C07:translate-mut-differs`).
-/
import EG.Model.TranslateMut
namespace EG.C07.TranslateMut
open EG

/-- `Point += Point` is `Point + Point`. -/
theorem point_add_assign (p d : Pt) : Mut.ptAddAssign p d = p + d := rfl

/-- **Rectangle**: `translate_mut` = `translate`. -/
theorem rectangle_translate_mut (r : Rect) (d : Pt) : Mut.rectangle r d = r.translate d := rfl

/-- **Rounded rectangle**: `translate_mut` (delegating to the rectangle's `translate_mut`) =
`translate` (which calls the rectangle's `translate` and copies the corners). -/
theorem rounded_rectangle_translate_mut (r : RoundedRect) (d : Pt) :
    Mut.roundedRectangle r d = r.translate d := rfl

/-- **Circle**: `translate_mut` = `translate`. -/
theorem circle_translate_mut (c : Circle) (d : Pt) : Mut.circle c d = c.translate d := rfl

/-- **Ellipse**: `translate_mut` = `translate`. -/
theorem ellipse_translate_mut (e : Ellipse) (d : Pt) : Mut.ellipse e d = e.translate d := rfl

/-- **Arc**: `translate_mut` = `translate` (the angles are untouched by both). -/
theorem arc_translate_mut (a : Arc) (d : Pt) : Mut.arc a d = a.translate d := rfl

/-- **Sector**: `translate_mut` = `translate`. -/
theorem sector_translate_mut (s : Sector) (d : Pt) : Mut.sector s d = s.translate d := rfl

/-- **Line** (also the stroked line: the style is not part of the primitive): `translate_mut`
(two successive field updates) = `translate`. -/
theorem line_translate_mut (l : Line) (d : Pt) : Mut.line l d = l.translate d := rfl

/-- **Triangle**: `translate_mut` (`for_each(|v| *v += by)`) = `translate`, on both triangle types
of the models. -/
theorem triangle_translate_mut (t : Triangle) (d : Pt) : Mut.triangle t d = t.translate d := rfl
theorem styled_triangle_translate_mut (t : Joins.Tri) (d : Pt) : Mut.tri t d = t.translate d := rfl

/-- **Polyline**: `translate_mut` = `translate` (both add to the `translate` field only). -/
theorem polyline_translate_mut (pl : Polyline) (d : Pt) : Mut.polyline pl d = pl.translateBy d := rfl

/-- **Text**: `translate_mut` = `translate` (position only; string, character style and text style
are untouched by both). -/
theorem text_translate_mut (t : TextLayout.Text) (d : Pt) : Mut.text t d = t.translate d := rfl

/-- **Image**: `translate_mut` = `translate`. -/
theorem image_translate_mut_fields (i : Img.Image) (d : Pt) : Mut.image i d = i.translate d := rfl

/-- Twice `translate_mut` is one `translate` by the sum (the form in which a caller that keeps
mutating a shape meets C07): stated for the rectangle and the line. -/
theorem rectangle_translate_mut_twice (r : Rect) (d e : Pt) :
    Mut.rectangle (Mut.rectangle r d) e = r.translate (d + e) := by
  show (⟨r.tl + d + e, r.size⟩ : Rect) = ⟨r.tl + (d + e), r.size⟩
  congr 1
  rw [Pt.ext_iff']
  simp only [Pt.add_x, Pt.add_y]
  omega
theorem line_translate_mut_twice (l : Line) (d e : Pt) :
    Mut.line (Mut.line l d) e = l.translate (d + e) := by
  show (⟨l.start + d + e, l.stop + d + e⟩ : Line) = ⟨l.start + (d + e), l.stop + (d + e)⟩
  congr 1 <;> (rw [Pt.ext_iff']; simp only [Pt.add_x, Pt.add_y]; omega)

end EG.C07.TranslateMut
