/-
  C03 — clipped / cropped / translated / colour-converted targets and the trait defaults are exact.

  Property theorems only (helper lemmas live in EG/Lemmas/Adapters*.lean, Target*.lean). All
  statements are about the models `EG.Model.Adapters`, `EG.Model.CroppedIter`, `EG.Model.Target`
  (literal transcriptions of src/draw_target/{clipped,cropped,translated,color_converted}.rs,
  src/iterator/contiguous.rs and the trait defaults of core/src/draw_target/mod.rs), tied to the
  real code by the `adapters.run` correspondence stream (call log and pixel map of both recording
  roots, reported boxes). Where `Rectangle::points` would saturate (`u32 -> i32`, `i32` overflow of
  `top_left + size`) statements carry the explicit decidable guard `Rect.InRange`.
-/
import EG.Lemmas.AdaptersStack
namespace EG.C03
open EG EG.Rect EG.Tgt

/-! ### The cropping colour iterator -/

/-- `iterator::contiguous::Cropped` (state machine with initial skip and per-row skip) yields
exactly the colours of rows `y0 .. y0+h`, columns `x0 .. x0+w` of the row-major stream of an area
of width `W` — for every size, crop area and stream of ANY length (a short stream is cut at the
right place). `crop = Rectangle::new(Point::zero(), size).intersection(crop_area)`. -/
theorem cropped_iter_toList (cs : List Color) (size : Sz) (cropArea : Rect) :
    croppedList cs size cropArea =
      (List.range (CropIt.cropOf size cropArea).size.h).flatMap (fun j =>
        (cs.drop (((CropIt.cropOf size cropArea).tl.y.toNat + j) * size.w
          + (CropIt.cropOf size cropArea).tl.x.toNat)).take (CropIt.cropOf size cropArea).size.w) :=
  croppedList_eq_spec cs size cropArea

/-- The `as usize` casts of the crop's top-left corner in `Cropped::new` never see a negative
value. -/
theorem cropped_iter_casts_safe (size : Sz) (cropArea : Rect) :
    0 ≤ (CropIt.cropOf size cropArea).tl.x ∧ 0 ≤ (CropIt.cropOf size cropArea).tl.y :=
  CropIt.cropOf_tl_nonneg size cropArea

/-- `row_skip = size.width.saturating_sub(crop.width)`: the crop is at most as wide as the area
unless it is zero-height (then nothing is yielded). The exception is real — `intersection`
returns a zero-sized operand unchanged — and was a `u32` underflow panic of checked builds before
the repair 0e0d76a (witness in corpus/C03.ops). -/
theorem cropped_iter_row_skip (size : Sz) (cropArea : Rect) :
    (CropIt.cropOf size cropArea).size.w ≤ size.w ∨ (CropIt.cropOf size cropArea).size.h = 0 :=
  CropIt.cropOf_w_le size cropArea

example : (CropIt.cropOf ⟨1, 1⟩ ⟨⟨0, 0⟩, ⟨2, 0⟩⟩).size.w = 2 := by decide

/-! ### The trait defaults set exactly the row-major points of the area paired with the stream -/

/-- Row-major numbering of `Rectangle::points()`: point number `j * w + i` is `top_left + (i, j)`. -/
theorem points_index (r : Rect) (hr : r.InRange) (i j : Nat) (hi : i < r.size.w) (hj : j < r.size.h) :
    r.points[j * r.size.w + i]? = some ⟨r.tl.x + i, r.tl.y + j⟩ := by
  rw [points_eq_spec]; exact pointsSpec_getElem? hr i j hi hj

example : (Rect.mk ⟨-3, 2⟩ ⟨4, 3⟩).InRange := by decide

/-- Default `fill_contiguous`: the writes offered to `draw_iter` are the row-major points of the
area zipped with the stream (any area, any stream length). -/
theorem default_fill_contiguous_writes (B area : Rect) (cs : List Color) :
    Call.lowerDefault B (.fillContiguous area cs) = area.points.zip cs := rfl

/-- ... so the point with row-major index `k = (y - top) * w + (x - left)` ends up with colour
number `k` of the stream if the stream is that long, and every other point keeps its content. -/
theorem default_fill_contiguous_exact (B area : Rect) (hr : area.InRange) (cs : List Color)
    (m : PMap) (p : Pt) :
    m.apply (Call.lowerDefault B (.fillContiguous area cs)) p =
      if area.contains p = true ∧ area.indexOf p < cs.length then cs[area.indexOf p]? else m p := by
  rw [PMap.apply_eq, Call.lowerDefault_eq_lowerNative]
  simp only [Call.lowerNative]
  rw [lastWrite_pointsSpec_zip (Or.inr hr)]
  by_cases hp : area.contains p = true
  · by_cases hl : area.indexOf p < cs.length
    · simp [hp, hl]
    · simp [hp, hl]
  · simp [hp]

/-- Default `fill_solid` sets exactly the points of the area. -/
theorem default_fill_solid_exact (B area : Rect) (hr : area.InRange) (c : Color) (m : PMap) (p : Pt) :
    m.apply (Call.lowerDefault B (.fillSolid area c)) p =
      if area.contains p = true then some c else m p := by
  rw [PMap.apply_eq, Call.lowerDefault_eq_lowerNative]
  simp only [Call.lowerNative]
  rw [lastWrite_pointsSpec_const (Or.inr hr)]
  by_cases hp : area.contains p = true <;> simp [hp]

/-- Default `clear` sets exactly the points of the target's bounding box. -/
theorem default_clear_exact (B : Rect) (hr : B.InRange) (c : Color) (m : PMap) (p : Pt) :
    m.apply (Call.lowerDefault B (.clear c)) p = if B.contains p = true then some c else m p := by
  rw [PMap.apply_eq, Call.lowerDefault_eq_lowerNative]
  simp only [Call.lowerNative]
  rw [lastWrite_pointsSpec_const (Or.inr hr)]
  by_cases hp : B.contains p = true <;> simp [hp]

/-- The defaults offer the points in row-major order, each once. -/
theorem default_fill_order (B area : Rect) (cs : List Color) :
    ((Call.lowerDefault B (.fillContiguous area cs)).map Prod.fst).Pairwise Pt.rowMajorLt := by
  show ((area.points.zip cs).map Prod.fst).Pairwise Pt.rowMajorLt
  exact (points_rowMajor area).sublist (map_fst_zip_sublist _ _)

/-! ### Meaning of calls, range guards

`c.sem T p` is the colour the call `c` (documented meaning) last writes to `p` on a target that
reports box `T` (`none`: `p` not touched). `r.Ok` = the rectangle is zero sized or `Rect.InRange`
(no `u32 -> i32` saturation, no `i32` overflow of `top_left + size`); `c.Ok T` asks that of the
area of the call (of `T` for `clear`). These guards are decidable. -/

example : (Call.fillContiguous ⟨⟨-1, 2⟩, ⟨3, 2⟩⟩ [1, 2, 3, 4]).Ok ⟨⟨0, 0⟩, ⟨4, 4⟩⟩ := by decide
example : (Call.fillContiguous ⟨⟨-1, 2⟩, ⟨3, 2⟩⟩ [7, 8, 9, 10]).sem ⟨⟨0, 0⟩, ⟨4, 4⟩⟩ ⟨-1, 3⟩ = some 10 := by
  decide

/-! ### Clipped -/

/-- Reported box of a clipped target: exactly the common points of clip area and parent box. -/
theorem clipped_bbox (clip B : Rect) (p : Pt) :
    ((Adapter.clipped clip).bbox B).contains p = true ↔ (clip.contains p = true ∧ B.contains p = true) :=
  Rect.mem_intersection clip B p

/-- **Clipped, per call** (`draw_iter`, `fill_contiguous` with full, short and long streams — both
the `intersection == area` shortcut and the re-cut colour stream —, `fill_solid`, `clear`): what
the parent receives means, at every point `q`: inside `clip ∩ parent box` exactly what the call
means, outside nothing. The only guard is on the call itself (its area is empty or in `i32`
range); clipping never leaves the range (`Adapter.clipped_lower_ok`). -/
theorem clipped_exact (clip B : Rect) (c : Call) (h1 : c.Ok (clip.intersection B)) (q : Pt) :
    ((Adapter.clipped clip).lower B c).sem B q =
      if clip.contains q = true ∧ B.contains q = true then c.sem (clip.intersection B) q else none := by
  have h2 := Adapter.clipped_lower_ok (clip.intersection B) B c h1
  simp only [Adapter.lower] at h2 ⊢
  rw [Adapter.clipped_sem _ _ _ h1 h2]
  by_cases h : (clip.intersection B).contains q = true
  · rw [if_pos h, if_pos ((Rect.mem_intersection clip B q).mp h)]
  · rw [if_neg h, if_neg (fun h' => h ((Rect.mem_intersection clip B q).mpr h'))]

example : (Call.fillContiguous ⟨⟨-1, 0⟩, ⟨3, 2⟩⟩ [1, 2, 3, 4]).Ok
      ((Rect.mk ⟨0, 0⟩ ⟨2, 2⟩).intersection ⟨⟨-2, -2⟩, ⟨6, 5⟩⟩) := by decide

/-- **No pixel outside `clip ∩ parent box` ever reaches the parent**: every write the parent is
offered (list level, before the parent's own clipping; the same list for a `draw_iter`-only
parent by `default_writes_eq_native`) lies in the clip area and in the parent's box. -/
theorem clipped_nothing_outside (clip B : Rect) (c : Call) (h1 : c.Ok (clip.intersection B)) :
    ∀ w ∈ ((Adapter.clipped clip).lower B c).lowerNative B,
      clip.contains w.1 = true ∧ B.contains w.1 = true := by
  intro w hw
  exact (Rect.mem_intersection clip B w.1).mp
    (Adapter.clipped_inside _ B c (Adapter.clipped_lower_ok (clip.intersection B) B c h1) w hw)

theorem clipped_nothing_outside_default (clip B : Rect) (c : Call) (h1 : c.Ok (clip.intersection B)) :
    ∀ w ∈ ((Adapter.clipped clip).lower B c).lowerDefault B,
      clip.contains w.1 = true ∧ B.contains w.1 = true := by
  rw [Call.lowerDefault_eq_lowerNative]; exact clipped_nothing_outside clip B c h1

/-- Range guard for a history drawn through a clipped target: the parent's box and the areas of
the calls are empty or in `i32` range (nothing is asked of the clip area). -/
def ClippedOk (B : Rect) (calls : List Call) : Prop := B.Ok ∧ ∀ c ∈ calls, c.Ok B

theorem ClippedOk.call_ok {clip B : Rect} {calls : List Call} (h : ClippedOk B calls) :
    ∀ c ∈ calls, c.Ok (clip.intersection B) := by
  intro c hc
  have := h.2 c hc
  cases c with
  | clear col => exact Rect.ok_intersection_right clip B h.1
  | _ => exact this

/-- **Clipped, whole histories**: after any sequence of operations through the clipped target the
parent's pixel map is, inside `clip ∩ parent box`, exactly the map the parent has after the same
operations applied to it directly, and empty outside (parent with native fills). -/
theorem clipped_history_exact (clip B : Rect) (calls : List Call) (h : ClippedOk B calls) (q : Pt) :
    runNative B (calls.map ((Adapter.clipped clip).lower B)) q =
      if clip.contains q = true ∧ B.contains q = true then runNative B calls q else none := by
  have hR : (clip.intersection B).Ok := Rect.ok_intersection_right clip B h.1
  have hs := stack_run_native B [Adapter.clipped clip] calls (by
    intro c hc
    exact ⟨h.call_ok c hc, Adapter.clipped_lower_ok _ B c (h.call_ok c hc)⟩) q
  simp only [runStackNative, lowerStack] at hs
  rw [hs]
  simp only [stackXf, stackBox, Xf.act, Xf.comp, Xf.id, Adapter.xf, Adapter.bbox, Pt.sub_zero,
    Bool.and_true]
  by_cases hB : B.contains q = true
  · by_cases hc : clip.contains q = true
    · have hRq := (Rect.mem_intersection clip B q).mpr ⟨hc, hB⟩
      simp only [hB, hc, hRq, ↓reduceIte, and_self]
      have hq0 : q - (Pt.zero + Pt.zero) = q := by rw [Pt.ext_iff']; simp [Pt.zero]
      rw [runNative_eq_runDirect, if_pos hB,
        runDirect_box_irrelevant _ B calls _ hR h.1 (by rw [hq0, hRq, hB])]
      rw [hq0]; simp
    · have hRq : ¬ (clip.intersection B).contains q = true :=
        fun h' => hc ((Rect.mem_intersection clip B q).mp h').1
      simp [hB, hc, hRq]
  · simp [hB]

/-- The same for a parent that only implements `draw_iter` (trait defaults). -/
theorem clipped_history_exact_default (clip B : Rect) (calls : List Call) (h : ClippedOk B calls)
    (q : Pt) :
    runDefault B (calls.map ((Adapter.clipped clip).lower B)) q =
      if clip.contains q = true ∧ B.contains q = true then runDefault B calls q else none := by
  rw [runDefault_eq_runNative, runDefault_eq_runNative]; exact clipped_history_exact clip B calls h q

instance (B : Rect) (calls : List Call) : Decidable (ClippedOk B calls) := by
  unfold ClippedOk; exact inferInstance

example : ClippedOk ⟨⟨-2, -2⟩, ⟨6, 5⟩⟩
    [.fillContiguous ⟨⟨-1, 0⟩, ⟨3, 2⟩⟩ [1, 2, 3, 4], .clear 9, .fillSolid ⟨⟨1, 1⟩, ⟨4, 4⟩⟩ 5,
     .drawIter [(⟨5, 5⟩, 1), (⟨0, 0⟩, 2), (⟨0, 0⟩, 3)]] := by decide

/-! ### Translated, cropped, colour converted -/

/-- Reported box of a translated target: the parent's box shifted back by the offset. -/
theorem translated_bbox (d : Pt) (B : Rect) (p : Pt) :
    ((Adapter.translated d).bbox B).contains p = B.contains (p + d) := by
  simp only [Adapter.bbox, Adapter.translate_contains]
  congr 1; rw [Pt.ext_iff']; simp only [Pt.sub_x, Pt.sub_y, Pt.neg_x, Pt.neg_y, Pt.add_x, Pt.add_y]; omega

theorem translated_bbox_eq (d : Pt) (B : Rect) :
    (Adapter.translated d).bbox B = ⟨⟨B.tl.x - d.x, B.tl.y - d.y⟩, B.size⟩ := by
  simp only [Adapter.bbox, Rect.translate, Rect.mk.injEq, and_true]
  rw [Pt.ext_iff']; simp only [Pt.add_x, Pt.add_y, Pt.neg_x, Pt.neg_y]; omega

/-- **Translated, per call**: the parent point `q` receives what the call means at `q - offset`
(all four methods; `clear` clears the parent). -/
theorem translated_exact (d : Pt) (B : Rect) (c : Call) (h1 : c.Ok ((Adapter.translated d).bbox B))
    (h2 : ((Adapter.translated d).lower B c).Ok B) (q : Pt) :
    ((Adapter.translated d).lower B c).sem B q = c.sem ((Adapter.translated d).bbox B) (q - d) :=
  Adapter.translated_sem d B c h1 h2 q

example : (Call.fillSolid ⟨⟨-1, 0⟩, ⟨3, 2⟩⟩ 4).Ok ((Adapter.translated ⟨5, -7⟩).bbox ⟨⟨1, 1⟩, ⟨6, 5⟩⟩) ∧
    ((Adapter.translated ⟨5, -7⟩).lower ⟨⟨1, 1⟩, ⟨6, 5⟩⟩ (Call.fillSolid ⟨⟨-1, 0⟩, ⟨3, 2⟩⟩ 4)).Ok
      ⟨⟨1, 1⟩, ⟨6, 5⟩⟩ := by decide

/-- Reported box of a cropped target: the size of `area ∩ parent box`, at the origin. -/
theorem cropped_bbox (area B : Rect) :
    (Adapter.cropped area).bbox B = ⟨⟨0, 0⟩, (area.intersection B).size⟩ := rfl

/-- **Cropped, per call**: the origin of the cropped target is the top-left corner of
`area ∩ parent box`; drawing is shifted by it and (as documented) not clipped; `clear` fills the
cropped target's box. -/
theorem cropped_exact (area B : Rect) (c : Call) (h1 : c.Ok ((Adapter.cropped area).bbox B))
    (h2 : ((Adapter.cropped area).lower B c).Ok B) (q : Pt) :
    ((Adapter.cropped area).lower B c).sem B q =
      c.sem ((Adapter.cropped area).bbox B) (q - (area.intersection B).tl) :=
  Adapter.cropped_sem _ B c h1 h2 q

example : (Call.clear 4).Ok ((Adapter.cropped ⟨⟨2, 2⟩, ⟨9, 9⟩⟩).bbox ⟨⟨1, 1⟩, ⟨6, 5⟩⟩) ∧
    ((Adapter.cropped ⟨⟨2, 2⟩, ⟨9, 9⟩⟩).lower ⟨⟨1, 1⟩, ⟨6, 5⟩⟩ (Call.clear 4)).Ok ⟨⟨1, 1⟩, ⟨6, 5⟩⟩ := by
  decide

theorem converted_bbox (f : Color → Color) (B : Rect) : (Adapter.converted f).bbox B = B := rfl

/-- **Colour converted, per call**: every colour that reaches the parent is `f` (the `Into`
conversion) of the colour drawn, at the same point; nothing else changes. -/
theorem converted_exact (f : Color → Color) (B : Rect) (c : Call) (h1 : c.Ok B) (q : Pt) :
    ((Adapter.converted f).lower B c).sem B q = (c.sem B q).map f :=
  Adapter.converted_sem f B c h1 q

/-- ... and the colour stream handed to the parent is the element-wise image (every colour goes
through the conversion exactly once, also those the parent ends up not using). -/
theorem converted_stream (f : Color → Color) (B area : Rect) (cs : List Color) :
    (Adapter.converted f).lower B (.fillContiguous area cs) = .fillContiguous area (cs.map f) := rfl

/-! ### Nestings compose like the corresponding transformations -/

/-- A transformation `x : Xf` = (reachable region `G` in parent coordinates, shift `d`, colour map
`f`) acts on meanings by `x.act m q = if G q then (m (q - d)).map f else none`. The four adapters: -/
theorem adapter_xf (B : Rect) (q : Pt) (m : Pt → Option Color) :
    (∀ r, ((Adapter.clipped r).xf B).act m q =
      if r.contains q = true ∧ B.contains q = true then m q else none) ∧
    (∀ r, ((Adapter.cropped r).xf B).act m q = m (q - (r.intersection B).tl)) ∧
    (∀ d, ((Adapter.translated d).xf B).act m q = m (q - d)) ∧
    (∀ f, ((Adapter.converted f).xf B).act m q = (m q).map f) := by
  refine ⟨?_, ?_, ?_, ?_⟩
  · intro r
    simp only [Adapter.xf, Xf.act, Pt.sub_zero]
    by_cases h : (r.intersection B).contains q = true
    · rw [if_pos h, if_pos ((Rect.mem_intersection r B q).mp h)]; simp
    · rw [if_neg h, if_neg (fun h' => h ((Rect.mem_intersection r B q).mpr h'))]
  · intro r; simp [Adapter.xf, Xf.act]
  · intro d; simp [Adapter.xf, Xf.act]
  · intro f; simp [Adapter.xf, Xf.act, Pt.sub_zero]

/-- The transformation of a nesting is the composition, root-most adapter outermost: regions
intersect (each expressed in root coordinates), shifts add, colour maps compose. -/
theorem stack_xf_nil (B : Rect) : stackXf B [] = Xf.id := rfl
theorem stack_xf_cons (B : Rect) (a : Adapter) (rest : Stack) :
    stackXf B (a :: rest) = (a.xf B).comp (stackXf (a.bbox B) rest) := rfl
theorem xf_comp_act (outer inner : Xf) (m : Pt → Option Color) (q : Pt) :
    (outer.comp inner).act m q = outer.act (inner.act m) q := Xf.act_comp outer inner m q
theorem xf_comp_fields (outer inner : Xf) (q : Pt) (c : Color) :
    (outer.comp inner).G q = (outer.G q && inner.G (q - outer.d)) ∧
    (outer.comp inner).d = outer.d + inner.d ∧
    (outer.comp inner).f c = outer.f (inner.f c) := ⟨rfl, rfl, rfl⟩

/-- The reported box of a nesting is obtained level by level. -/
theorem stack_box_cons (B : Rect) (a : Adapter) (rest : Stack) :
    stackBox B (a :: rest) = stackBox (a.bbox B) rest := rfl

/-- A nesting built on top of a nesting is the composition of the two (boxes, lowered calls and
transformations). -/
theorem stack_append (B : Rect) (s1 s2 : Stack) :
    stackXf B (s1 ++ s2) = (stackXf B s1).comp (stackXf (stackBox B s1) s2) ∧
    stackBox B (s1 ++ s2) = stackBox (stackBox B s1) s2 ∧
    ∀ c, lowerStack B (s1 ++ s2) c = lowerStack B s1 (lowerStack (stackBox B s1) s2 c) :=
  ⟨stackXf_append B s1 s2, stackBox_append B s1 s2, lowerStack_append B s1 s2⟩

/-- Instances of the composition law: two translations add, -/
theorem translated_translated (B : Rect) (d1 d2 : Pt) (m : Pt → Option Color) (q : Pt) :
    (stackXf B [.translated d1, .translated d2]).act m q = m (q - (d1 + d2)) := by
  simp only [stackXf, Xf.act_comp, Xf.act_id, (adapter_xf _ _ _).2.2.1]
  rw [Pt.sub_add]

/-- two clip areas intersect (with each other and the root's box), -/
theorem clipped_clipped (B r1 r2 : Rect) (m : Pt → Option Color) (q : Pt) :
    (stackXf B [.clipped r1, .clipped r2]).act m q =
      if r1.contains q = true ∧ r2.contains q = true ∧ B.contains q = true then m q else none := by
  simp only [stackXf, Xf.act_comp, Xf.act_id, (adapter_xf _ _ _).1, Adapter.bbox]
  by_cases h1 : r1.contains q = true <;> by_cases hB : B.contains q = true <;>
    by_cases h2 : r2.contains q = true <;> simp [h1, h2, hB, Rect.mem_intersection]

/-- a clip area given in translated coordinates is the translated region in root coordinates, -/
theorem translated_clipped (B r : Rect) (d : Pt) (m : Pt → Option Color) (q : Pt) :
    (stackXf B [.translated d, .clipped r]).act m q =
      if r.contains (q - d) = true ∧ B.contains q = true then m (q - d) else none := by
  simp only [stackXf, Xf.act_comp, Xf.act_id, (adapter_xf _ _ _).1, (adapter_xf _ _ _).2.2.1]
  have : ((Adapter.translated d).bbox B).contains (q - d) = B.contains q := by
    rw [translated_bbox]; congr 1; rw [Pt.ext_iff']; simp only [Pt.add_x, Pt.add_y, Pt.sub_x, Pt.sub_y]; omega
  rw [this]

/-- and colour conversions compose, the root-most one applied last. -/
theorem converted_converted (B : Rect) (f g : Color → Color) (m : Pt → Option Color) (q : Pt) :
    (stackXf B [.converted f, .converted g]).act m q = (m q).map (fun c => f (g c)) := by
  simp only [stackXf, Xf.act_comp, Xf.act_id, (adapter_xf _ _ _).2.2.2]
  cases m q <;> rfl

/-- **Nestings, per call** (any depth: induction over the stack): the call the root receives
means the composed transformation of what the call means on the top of the nesting. -/
theorem stack_exact (B : Rect) (s : Stack) (c : Call) (h : stackOk B s c) (q : Pt) :
    (lowerStack B s c).sem B q = (stackXf B s).act (c.sem (stackBox B s)) q :=
  stack_sem B s c h q

/-- For nestings of clipped and colour-converted targets only (no coordinate shift) the guard of
`stack_exact` reduces to the user's inputs: root box and call area empty or in `i32` range. -/
theorem stack_guard_of_no_shift (B : Rect) (s : Stack) (c : Call)
    (hs : ∀ a ∈ s, a.noShift = true) (hB : B.Ok) (hc : c.Ok B) : stackOk B s c :=
  stackOk_of_noShift B s c hs hB hc

example : (∀ a ∈ [Adapter.clipped ⟨⟨0, 0⟩, ⟨2, 2⟩⟩, Adapter.converted (fun c => c + 1)], a.noShift = true) := by
  intro a ha; simp only [List.mem_cons, List.not_mem_nil, or_false] at ha
  rcases ha with rfl | rfl <;> rfl

/-- **Nestings, whole histories, both kinds of root**: the root's final pixel map is the composed
transformation of the direct meaning of the history, cut to the root's box. -/
theorem stack_history_exact (B : Rect) (s : Stack) (calls : List Call)
    (h : ∀ c ∈ calls, stackOk B s c) (q : Pt) :
    runStackNative B s calls q =
      (if B.contains q = true then (stackXf B s).act (runDirect (stackBox B s) calls) q else none) ∧
    runStackDefault B s calls q = runStackNative B s calls q := by
  refine ⟨stack_run_native B s calls h q, ?_⟩
  rw [stack_run_default B s calls h q, stack_run_native B s calls h q]

/-- **Nestings never offer the root a pixel outside the accumulated region** (which, below a
clipped adapter, is inside that adapter's clip area and its parent's box). -/
theorem stack_nothing_outside (B : Rect) (s : Stack) (c : Call) (h : stackOk B s c) :
    ∀ w ∈ (lowerStack B s c).lowerNative B, (stackXf B s).G w.1 = true :=
  stack_inside B s c h

/-- depth 3: clipped under cropped under translated+converted, a partly clipped short stream -/
example : stackOk ⟨⟨-3, -2⟩, ⟨7, 5⟩⟩
    [.clipped ⟨⟨-1, -1⟩, ⟨3, 3⟩⟩, .cropped ⟨⟨0, -2⟩, ⟨5, 3⟩⟩, .translated ⟨1, 0⟩]
    (.fillContiguous ⟨⟨-2, -1⟩, ⟨4, 3⟩⟩ [1, 2, 3, 4, 5, 6, 7]) := by decide

/-- ... on which the composed transformation really clips, shifts and keeps the pairing
(kernel-evaluated instance of `stack_exact`). -/
example : (lowerStack ⟨⟨-3, -2⟩, ⟨7, 5⟩⟩
    [.clipped ⟨⟨-1, -1⟩, ⟨3, 3⟩⟩, .cropped ⟨⟨0, -2⟩, ⟨5, 3⟩⟩, .translated ⟨1, 0⟩]
    (.fillContiguous ⟨⟨-2, -1⟩, ⟨4, 3⟩⟩ [1, 2, 3, 4, 5, 6, 7])) =
    .fillContiguous ⟨⟨-1, -1⟩, ⟨3, 2⟩⟩ [5, 6, 7] := by decide

-- [V] colour streams are finite lists; arbitrary `IntoIterator`s (infinite like `repeat`, non-fused, side-effecting) and the laziness of the real iterator chain (how many colours are pulled, and when) are outside the model: carried by correspondence + oracle only
-- (closed) the colour map `f` of a colour-converted target is instantiated with every `From` impl between built-in colour types (C13's generated table, 182 pairs) in Props/C03/Conversions.lean (`converted_exact_all`, `converted_colours_valid`, `converted_black_white`, `converted_nested_all`); the Rust-level remainder (the adapter calls exactly `.into()`; the correspondence runs own colour types with `c -> 3c+k+1` and the real `BinaryColor -> Rgb565`) is listed there
-- [V] `i32` overflow of translated coordinates / `u32 -> i32` saturation (excluded by the decidable guards `Rect.Ok`, `Call.Ok`, `stackOk`; totality at display scale is C08's subject): carried by correspondence + oracle only
-- (closed) error propagation through the adapters (C04's subject) is proved at model level in EG/Props/C04/Adapters.lean (`adapter_call_is_one_parent_call`) and the premise "the Rust methods are these tail calls (no `?`-and-continue, no work after the parent call, `clear` not overridden by `Clipped` / `Cropped`)" is now a checked fact: EG/Props/C03/GeneratedAdapters.lean (`all_adapter_methods_are_tail_calls`, `adapter_overrides_pinned`, `src_lower_eq_model` over the adapter bodies regenerated from the Rust text by tools/tr_adapt.py); what that tie itself trusts is listed there

end EG.C03
