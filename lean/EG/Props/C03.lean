/-
  C03 — clipped / cropped / translated / colour-converted targets and the trait defaults are exact.

  Property theorems only (helper lemmas live in EG/Lemmas/Adapters*.lean, Target*.lean). All
  statements are about the models `EG.Model.Adapters`, `EG.Model.CroppedIter`, `EG.Model.Target`
  (literal transcriptions of src/draw_target/{clipped,cropped,translated,color_converted}.rs,
  src/iterator/contiguous.rs and the trait defaults of core/src/draw_target/mod.rs), tied to the
  real code by the `adapters.run` correspondence stream (call log and pixel map of both recording
  roots, reported boxes). Where `Rectangle::points` would saturate (`u32 -> i32`, `i32` overflow of
  `top_left + size`) statements carry the explicit decidable guard `Rect.InRange`.
-/
import EG.Lemmas.AdaptersCroppedIter
import EG.Lemmas.TargetRectIndex
namespace EG.C03
open EG EG.Rect

/-! ### The cropping colour iterator -/

/-- `iterator::contiguous::Cropped` (state machine with initial skip and per-row skip) yields
exactly the colours of rows `y0 .. y0+h`, columns `x0 .. x0+w` of the row-major stream of an area
of width `W` — for every size, crop area and stream of ANY length (a short stream is cut at the
right place). `crop = Rectangle::new(Point::zero(), size).intersection(crop_area)`. -/
theorem cropped_iter_toList (cs : List Color) (size : Sz) (cropArea : Rect) :
    croppedList cs size cropArea =
      (List.range (CropIt.cropOf size cropArea).size.h).flatMap (fun j =>
        (cs.drop (((CropIt.cropOf size cropArea).tl.y.toNat + j) * size.w
          + (CropIt.cropOf size cropArea).tl.x.toNat)).take (CropIt.cropOf size cropArea).size.w) :=
  croppedList_eq_spec cs size cropArea

/-! ### The trait defaults set exactly the row-major points of the area paired with the stream -/

/-- Row-major numbering of `Rectangle::points()`: point number `j * w + i` is `top_left + (i, j)`. -/
theorem points_index (r : Rect) (hr : r.InRange) (i j : Nat) (hi : i < r.size.w) (hj : j < r.size.h) :
    r.points[j * r.size.w + i]? = some ⟨r.tl.x + i, r.tl.y + j⟩ := by
  rw [points_eq_spec]; exact pointsSpec_getElem? hr i j hi hj

example : (Rect.mk ⟨-3, 2⟩ ⟨4, 3⟩).InRange := by decide

/-- Default `fill_contiguous`: the writes offered to `draw_iter` are the row-major points of the
area zipped with the stream (any area, any stream length). -/
theorem default_fill_contiguous_writes (B area : Rect) (cs : List Color) :
    Call.lowerDefault B (.fillContiguous area cs) = area.points.zip cs := rfl

/-- ... so the point with row-major index `k = (y - top) * w + (x - left)` ends up with colour
number `k` of the stream if the stream is that long, and every other point keeps its content. -/
theorem default_fill_contiguous_exact (B area : Rect) (hr : area.InRange) (cs : List Color)
    (m : PMap) (p : Pt) :
    m.apply (Call.lowerDefault B (.fillContiguous area cs)) p =
      if area.contains p = true ∧ area.indexOf p < cs.length then cs[area.indexOf p]? else m p := by
  rw [PMap.apply_eq, Call.lowerDefault_eq_lowerNative]
  simp only [Call.lowerNative]
  rw [lastWrite_pointsSpec_zip (Or.inr hr)]
  by_cases hp : area.contains p = true
  · by_cases hl : area.indexOf p < cs.length
    · simp [hp, hl]
    · simp [hp, hl]
  · simp [hp]

/-- Default `fill_solid` sets exactly the points of the area. -/
theorem default_fill_solid_exact (B area : Rect) (hr : area.InRange) (c : Color) (m : PMap) (p : Pt) :
    m.apply (Call.lowerDefault B (.fillSolid area c)) p =
      if area.contains p = true then some c else m p := by
  rw [PMap.apply_eq, Call.lowerDefault_eq_lowerNative]
  simp only [Call.lowerNative]
  rw [lastWrite_pointsSpec_const (Or.inr hr)]
  by_cases hp : area.contains p = true <;> simp [hp]

/-- Default `clear` sets exactly the points of the target's bounding box. -/
theorem default_clear_exact (B : Rect) (hr : B.InRange) (c : Color) (m : PMap) (p : Pt) :
    m.apply (Call.lowerDefault B (.clear c)) p = if B.contains p = true then some c else m p := by
  rw [PMap.apply_eq, Call.lowerDefault_eq_lowerNative]
  simp only [Call.lowerNative]
  rw [lastWrite_pointsSpec_const (Or.inr hr)]
  by_cases hp : B.contains p = true <;> simp [hp]

/-- The defaults offer the points in row-major order, each once. -/
theorem default_fill_order (B area : Rect) (cs : List Color) :
    ((Call.lowerDefault B (.fillContiguous area cs)).map Prod.fst).Pairwise Pt.rowMajorLt := by
  show ((area.points.zip cs).map Prod.fst).Pairwise Pt.rowMajorLt
  exact (points_rowMajor area).sublist (map_fst_zip_sublist _ _)

end EG.C03
