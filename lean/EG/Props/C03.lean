/-
  C03 — property theorems (placeholder: no theorem yet, the property is not claimed).
-/
import EG.Basic.Core
namespace EG.C03
end EG.C03
