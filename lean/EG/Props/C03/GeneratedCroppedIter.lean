/-
  C03 — the REGENERATED colour iterator `iterator::contiguous::Cropped` equals the hand-written state machine.

  `Clipped::fill_contiguous` re-cuts the colour stream of a partly visible area with `Cropped::new(colors.into_iter(),
  area.size, &crop_area)` (src/iterator/contiguous.rs). `tools/tr_adapt.py` regenerates its `new` and its
  `Iterator::next` from the Rust text (`EG.Generated.AdaptSrc.contiguous_Cropped_new`, `contiguous_Cropped_next`: a
  `&mut self` method is (value, updated state); `iter.nth(..)`, `self.iter.next()`, `self.x += 1`, the early `return None`
  are translated statement by statement). Proved here, for all inputs:
    * `contiguous_Cropped_new_src_eq_model`: the generated constructor builds the state `CropIt.new` of the hand model
      (EG/Model/CroppedIter.lean); the `as usize` casts of the crop's corner never see a negative value
      (`CropIt.cropOf_tl_nonneg`), which is where the generated wrapping cast and the model's `toNat` could differ;
    * `contiguous_Cropped_next_src_eq_model`: one generated `next` = one `CropIt.next` (same item, same state after
      an item; `None` exactly when the model says `none`);
    * `contiguous_Cropped_collect_src_eq_model`: everything the generated iterator yields, on any fuel above the
      number of input colours, is `croppedList` — the list C03's clipped-target theorems are about
      (`cropped_iter_toList` gives its closed form).
-/
import EG.Generated.AdaptSrc
import EG.Props.C03
namespace EG.C03.GenCroppedIter
open EG EG.Rect EG.Generated EG.RectSrcPrelude EG.AdaptSrcPrelude

/-- The generated struct read as the hand model's state. -/
def toCropIt (s : AdaptSrc.contiguous_Cropped) : CropIt :=
  { rest := s.iter, x := s.x, y := s.y, w := s.size.w, h := s.size.h, rowSkip := s.row_skip }

theorem listiter_next_snd {α : Type} (l : List α) : (listiter_next l).2 = l.tail := by cases l <;> rfl

/-- **`Cropped::new`, regenerated = hand model.** -/
theorem contiguous_Cropped_new_src_eq_model (cs : List Color) (size : Sz) (cropArea : Rect) :
    toCropIt (AdaptSrc.contiguous_Cropped_new cs size cropArea) = CropIt.new cs size cropArea := by
  have h := CropIt.cropOf_tl_nonneg size cropArea
  have hc : Rect.intersection ⟨Pt.zero, size⟩ cropArea = CropIt.cropOf size cropArea := rfl
  unfold AdaptSrc.contiguous_Cropped_new CropIt.new
  simp only [Rectangle_intersection, Rectangle_new, point_zero, hc]
  generalize CropIt.cropOf size cropArea = c at h ⊢
  obtain ⟨hx, hy⟩ := h
  simp only [usize_add, usize_mul, usize_sub, usize_gt, i32_as_usize, u32_as_usize, Point_x, Point_y,
    Rectangle_top_left, Rectangle_size, Size_width, u32_saturating_sub, listiter_nth, hx, hy, if_true, gt_iff_lt,
    decide_eq_true_eq]
  split <;> simp [toCropIt, listiter_next_snd, *]

/-- **One `Iterator::next`, regenerated = hand model.** -/
theorem contiguous_Cropped_next_src_eq_model (s : AdaptSrc.contiguous_Cropped) :
    match CropIt.next (toCropIt s) with
    | some (c, it') => (AdaptSrc.contiguous_Cropped_next s).1 = some c ∧
        toCropIt (AdaptSrc.contiguous_Cropped_next s).2 = it'
    | none => (AdaptSrc.contiguous_Cropped_next s).1 = none := by
  obtain ⟨iter, x, y, ⟨w, h⟩, rs⟩ := s
  unfold AdaptSrc.contiguous_Cropped_next CropIt.next
  simp only [toCropIt, bool_or, u32_ge, u32_eq, u32_lt, u32_add, Size_width, Size_height, listiter_nth]
  by_cases h1 : y ≥ h ∨ w = 0
  · simp [h1]
  · by_cases h2 : x < w
    · cases iter <;> simp [h1, h2]
    · by_cases h3 : y + 1 < h
      · cases hd : iter.drop rs <;> simp [h1, h2, h3]
      · simp [h1, h2, h3]

/-- Collected on fuel: the generated iterator yields what the hand model's `toListFuel` yields. -/
theorem collect_fuel_src_eq_model (fuel : Nat) (s : AdaptSrc.contiguous_Cropped) :
    iter_collect_fuel AdaptSrc.contiguous_Cropped_next fuel s = (toCropIt s).toListFuel fuel := by
  induction fuel generalizing s with
  | zero => rfl
  | succ n ih =>
    have hs := contiguous_Cropped_next_src_eq_model s
    unfold iter_collect_fuel CropIt.toListFuel
    cases hm : CropIt.next (toCropIt s) with
    | none =>
      rw [hm] at hs
      simp only at hs
      rcases hn : AdaptSrc.contiguous_Cropped_next s with ⟨v, s'⟩
      rw [hn] at hs; simp only at hs; subst hs; rfl
    | some p =>
      obtain ⟨c, it'⟩ := p
      rw [hm] at hs
      simp only at hs
      rcases hn : AdaptSrc.contiguous_Cropped_next s with ⟨v, s'⟩
      rw [hn] at hs; simp only at hs
      obtain ⟨hv, hs'⟩ := hs
      subst hv; subst hs'
      simp only [ih]

/-- Enough fuel to drain the cropping iterator: more than the number of input colours (every item it yields
consumes at least one). -/
def CropFuel (fuel : Nat) (cs : List Color) : Prop := cs.length < fuel
instance (fuel : Nat) (cs : List Color) : Decidable (CropFuel fuel cs) := by unfold CropFuel; exact inferInstance
example : CropFuel 5 [1, 2, 3, 4] := by decide

/-- **Everything `Cropped::new(colors, size, &crop_area)` yields, regenerated = `croppedList`**, for any sufficient
fuel. -/
theorem contiguous_Cropped_collect_src_eq_model (cs : List Color) (size : Sz) (cropArea : Rect) (fuel : Nat)
    (hf : CropFuel fuel cs) :
    iter_collect_fuel AdaptSrc.contiguous_Cropped_next fuel (AdaptSrc.contiguous_Cropped_new cs size cropArea)
      = croppedList cs size cropArea := by
  rw [collect_fuel_src_eq_model, contiguous_Cropped_new_src_eq_model]
  have hx : (CropIt.new cs size cropArea).x ≤ (CropIt.new cs size cropArea).w := Nat.zero_le _
  have hl : (CropIt.new cs size cropArea).rest.length ≤ cs.length := by
    simp only [CropIt.new]; split <;> simp
  rw [CropIt.toListFuel_eq fuel _ hx (by unfold CropFuel at hf; omega)]
  exact (CropIt.toList_eq_spec _ hx).symm

end EG.C03.GenCroppedIter
