/-
  C03 / clipping over the REGENERATED `Rectangle::intersection`.

  C03's clipped-target theorems are stated with the hand-written `Rect.intersection` / `Rect.contains`.
  `EG/Props/C16/Generated.lean` proves those equal to `EG.Generated.RectSrc.intersection` / `.contains`, the
  definitions that `tools/tr_rect.py` regenerates from /repo's Rust text on every run, whenever the sizes fit
  `i32` (`FitsI32`: the condition of the `debug_assert!`s of `Point + Size`). This file restates the two
  rectangle-level facts the clipped adapter rests on about the regenerated functions, so that a change of the
  Rust body of `intersection`, `contains`, `bottom_right`, `overlaps` or `with_corners` breaks C03 as well.
-/
import EG.Props.C03
import EG.Props.C16.Generated
namespace EG.C03.GeneratedClip
open EG EG.Rect EG.Tgt EG.Generated EG.C16.Src

/-- Reported box of a clipped target = regenerated `self.clip_area.intersection(&parent.bounding_box())`. -/
theorem clipped_bbox_src (clip B : Rect) (h1 : FitsI32 clip.size) (h2 : FitsI32 B.size) :
    (Adapter.clipped clip).bbox B = RectSrc.intersection clip B := by
  rw [intersection_src_eq_model clip B h1 h2]; rfl

/-- ... and it holds exactly the common points, in terms of the regenerated `contains`. -/
theorem clipped_bbox_points_src (clip B : Rect) (h1 : FitsI32 clip.size) (h2 : FitsI32 B.size) (p : Pt) :
    RectSrc.contains ((Adapter.clipped clip).bbox B) p = true ↔
      (RectSrc.contains clip p = true ∧ RectSrc.contains B p = true) := by
  rw [clipped_bbox_src clip B h1 h2]; exact src_mem_intersection clip B h1 h2 p

/-- `clipped_exact` with the area and the membership tests of the regenerated functions. -/
theorem clipped_exact_src (clip B : Rect) (h1 : FitsI32 clip.size) (h2 : FitsI32 B.size) (c : Call)
    (hc : c.Ok (RectSrc.intersection clip B)) (q : Pt) :
    ((Adapter.clipped clip).lower B c).sem B q =
      if RectSrc.contains clip q = true ∧ RectSrc.contains B q = true
        then c.sem (RectSrc.intersection clip B) q else none := by
  rw [intersection_src_eq_model clip B h1 h2] at hc ⊢
  rw [contains_src_eq_model clip q h1, contains_src_eq_model B q h2]
  exact EG.C03.clipped_exact clip B c hc q

example : FitsI32 (Rect.mk ⟨0, 0⟩ ⟨2, 2⟩).size ∧ FitsI32 (Rect.mk ⟨-2, -2⟩ ⟨6, 5⟩).size := by decide
example : (Call.fillContiguous ⟨⟨-1, 0⟩, ⟨3, 2⟩⟩ [1, 2, 3, 4]).Ok
      (RectSrc.intersection (Rect.mk ⟨0, 0⟩ ⟨2, 2⟩) ⟨⟨-2, -2⟩, ⟨6, 5⟩⟩) := by decide

end EG.C03.GeneratedClip
