/-
  C03 (tie) — the pictures the adapter streams compare (`fmtPix (canonPix ..)` of the model driver
  against the harness's recorded map) are the pixel maps the C03 theorems are about: corollaries of
  Props/C06/CanonPix.lean, restated here so that C03's check audits them.
-/
import EG.Props.C06.CanonPix
namespace EG.C03.CanonPix
open EG EG.Tgt EG.Driver

/-- The canonical list is strictly sorted by (y, x) and has exactly the entries of the pixel map the
writes leave on an empty target. -/
theorem c03_canon_pix_is_pixel_map (ws : Writes) :
    (canonPix ws).Pairwise (fun a b => Pt.rowMajorLt a.1 b.1) ∧
      ∀ p c, (p, c) ∈ canonPix ws ↔ PMap.empty.apply ws p = some c :=
  ⟨EG.C06.CanonPix.canon_pix_sorted ws, fun p c => (EG.C06.CanonPix.canon_pix_is_pixel_map ws p c).1⟩

/-- An adapter stack and its reference print the same canonical picture iff they leave the same
pixel map. -/
theorem c03_canon_pix_eq_iff_same_map (ws ws' : Writes) :
    canonPix ws = canonPix ws' ↔ ∀ p, PMap.empty.apply ws p = PMap.empty.apply ws' p :=
  EG.C06.CanonPix.canon_pix_eq_iff_same_map ws ws'

end EG.C03.CanonPix
