/-
  C03 / conversions — the colour map of a colour-converted target, instantiated with EVERY conversion
  between built-in colour types.

  C03's theorems about `color_converted()` hold for an arbitrary colour map `f`. The real adapter is
  `ColorConverted<'_, T, C>` with `C: Into<T::Color>`: `f` is the `From` impl between the two colour
  types. C13 models every such impl between built-in types: `EG.Conv.resolvedTable` is the generated
  table of all `impl From<A> for B` of conversion.rs (`C13.table_complete`: the complete matrix, one
  per ordered pair of distinct types, `n (n - 1)` = 182 today), `Resolved.apply` its body. This file
  states the corollaries: for each of those conversions `x`, a target converted by `x` is exact
  (`converted_exact` with `f := x.apply`), hands its parent only values of the parent's colour type,
  maps black to black and white to white, and nests like function composition.
  Colours are the numbers their Rust values hold (C12's `ColorSpec.Valid`; for C03's model colours are
  raw values — Props/C09/Colours.lean shows the two views coincide).
-/
import EG.Props.C03
import EG.Props.C13
import EG.Lemmas.Glue2ConvValid
namespace EG.C03.Conversions
open EG EG.Rect EG.Tgt EG.Generated EG.ColorSpec EG.Conv

/-- How many conversions the statements below quantify over: one per ordered pair of distinct
built-in colour types (C13 `table_counts`, `table_complete`). -/
theorem conversions_count :
    resolvedTable.length = colorTable.length * (colorTable.length - 1) ∧
    resolvedTable.length = seenConvImpls := by
  have h1 := C13.table_counts
  have h2 := C13.table_complete
  exact ⟨by rw [h1.2.2.2.2.2.2.2.2, h2.1], by rw [h1.2.2.2.2.2.2.2.2, h1.1]⟩

/-- **Colour converted by any built-in conversion, per call**: every colour that reaches the parent
is `B::from(c)` of the colour `c` drawn, at the same point; nothing else changes. -/
theorem converted_exact_all : ∀ x ∈ resolvedTable, ∀ (B : Rect) (c : Call), c.Ok B → ∀ q,
    ((Adapter.converted x.apply).lower B c).sem B q = (c.sem B q).map x.apply :=
  fun x _ B c h1 q => C03.converted_exact x.apply B c h1 q
example : (Call.clear 4).Ok ⟨⟨1, 1⟩, ⟨6, 5⟩⟩ := by decide

/-- The colour stream handed to the parent is the element-wise image under the conversion. -/
theorem converted_stream_all : ∀ x ∈ resolvedTable, ∀ (B area : Rect) (cs : List Color),
    (Adapter.converted x.apply).lower B (.fillContiguous area cs) = .fillContiguous area (cs.map x.apply) :=
  fun x _ B area cs => C03.converted_stream x.apply B area cs

/-- The box the converted target reports is the parent's. -/
theorem converted_bbox_all : ∀ x ∈ resolvedTable, ∀ B, (Adapter.converted x.apply).bbox B = B :=
  fun _ _ _ => rfl

/-- **The parent only ever receives values of its own colour type** (whatever is drawn on the
converted target): every conversion result is `B::new(..)`, `BLACK` / `WHITE`, or `Off` / `On`. -/
theorem converted_colours_valid : ∀ x ∈ resolvedTable, ∀ (B : Rect) (c : Call), c.Ok B → ∀ q col,
    ((Adapter.converted x.apply).lower B c).sem B q = some col → x.b.Valid col := by
  intro x hx B c h1 q col h
  rw [converted_exact_all x hx B c h1 q] at h
  cases hc : c.sem B q with
  | none => rw [hc] at h; cases h
  | some v =>
    rw [hc, Option.map_some] at h
    cases h
    exact Glue2.apply_valid x hx v

/-- Black stays black and white stays white through every converted target (C13 `black_white`). -/
theorem converted_black_white : ∀ x ∈ resolvedTable, ∀ (B : Rect) (c : Call), c.Ok B → ∀ q,
    (c.sem B q = some (black x.a) → ((Adapter.converted x.apply).lower B c).sem B q = some (black x.b)) ∧
    (c.sem B q = some (white x.a) → ((Adapter.converted x.apply).lower B c).sem B q = some (white x.b)) := by
  intro x hx B c h1 q
  rw [converted_exact_all x hx B c h1 q]
  have hbw := C13.black_white x hx
  constructor
  · intro h; rw [h, Option.map_some, hbw.1]
  · intro h; rw [h, Option.map_some, hbw.2]

/-- Two nested colour-converted targets (`x` next to the root, `y` on top of it) act as the
composition `x ∘ y`, the root-most conversion applied last. -/
theorem converted_nested_all : ∀ x ∈ resolvedTable, ∀ y ∈ resolvedTable,
    ∀ (B : Rect) (m : Pt → Option Color) (q : Pt),
      (stackXf B [.converted x.apply, .converted y.apply]).act m q = (m q).map (fun c => x.apply (y.apply c)) :=
  fun x _ y _ B m q => C03.converted_converted B x.apply y.apply m q

/-- One concrete pair, evaluated: `BinaryColor -> Rgb565` (the pair the correspondence stream runs on
the real code) is in the table and sends `On` to `0xFFFF`, `Off` to `0`. -/
theorem binary_to_rgb565_witness : ∃ x ∈ resolvedTable, x.a.name = "BinaryColor" ∧ x.b.name = "Rgb565" ∧
    x.apply 1 = 0xFFFF ∧ x.apply 0 = 0 ∧
    (Adapter.converted x.apply).lower ⟨⟨0, 0⟩, ⟨4, 4⟩⟩ (.fillContiguous ⟨⟨1, 1⟩, ⟨2, 1⟩⟩ [1, 0]) =
      .fillContiguous ⟨⟨1, 1⟩, ⟨2, 1⟩⟩ [0xFFFF, 0] := by
  have hm : ((resolvedTable.find? (fun x => x.a.name == "BinaryColor" && x.b.name == "Rgb565")).isSome) = true := by
    decide +kernel
  obtain ⟨x, hx⟩ := Option.isSome_iff_exists.mp hm
  refine ⟨x, List.mem_of_find?_eq_some hx, ?_⟩
  have hp := List.find?_some hx
  revert hp
  have : ∀ y ∈ resolvedTable, (y.a.name == "BinaryColor" && y.b.name == "Rgb565") = true →
      y.a.name = "BinaryColor" ∧ y.b.name = "Rgb565" ∧ y.apply 1 = 0xFFFF ∧ y.apply 0 = 0 ∧
      (Adapter.converted y.apply).lower ⟨⟨0, 0⟩, ⟨4, 4⟩⟩ (.fillContiguous ⟨⟨1, 1⟩, ⟨2, 1⟩⟩ [1, 0]) =
        .fillContiguous ⟨⟨1, 1⟩, ⟨2, 1⟩⟩ [0xFFFF, 0] := by decide +kernel
  exact this x (List.mem_of_find?_eq_some hx)

-- [V] that the `From` impls between built-in types are the bodies C13 models (C13's tie: regenerated table, `conv.pairs`, correspondence stream): carried by correspondence + oracle only. (closed: that the real `ColorConverted` calls exactly `.into()` once on each colour - `colors.into_iter().map(|c| c.into())`, `color.into()` - is `ColorConverted_*_src_eq_model` of EG/Props/C03/GeneratedAdapters.lean, over the bodies regenerated from color_converted.rs)
end EG.C03.Conversions
