/-
  C03 — the REGENERATED draw-target adapters and trait defaults equal the hand-written model.

  `EG/Generated/AdaptSrc.lean` is written by `tools/tr_adapt.py` from /repo's Rust text on every run of a check:
  one Lean `def` per function of src/draw_target/{translated,clipped,cropped,color_converted,mod}.rs (the four
  adapters' `new`, `draw_iter`, `fill_contiguous`, `fill_solid`, `clear`, `bounding_box`; `DrawTargetExt`'s four
  constructors), of the default bodies of `DrawTarget::{fill_contiguous, fill_solid, clear}`
  (core/src/draw_target/mod.rs; also re-instantiated with `Self` := `Clipped` / `Cropped` for the `clear` those two do
  not override) and of the pixel iterator `pixel::Translated`. A `Result`-returning method is translated into THE
  PARENT CALL IT MAKES (a value of `EG.Call`), built from the adapter's fields and the call's arguments through
  the primitives of the trusted prelude `EG/Model/AdaptSrcPrelude.lean`.

  Proved here, for ALL inputs and without guards (the hand model `Adapter.lower` has none):
    * `<Adapter>_<method>_src_eq_model` (16; `Clipped::fill_contiguous` with fuel > number of colours for the
      regenerated cropping iterator, `CropFuel`, see GeneratedCroppedIter.lean): the generated method, applied to the adapter built by the generated
      `DrawTargetExt` constructor over a parent with box `B`, is `Adapter.lower` of the hand model
      (EG/Model/Adapters.lean) on the corresponding call; `<Adapter>_bounding_box_src_eq_model` (4): `Adapter.bbox`.
    * `src_lower_eq_model` / `src_bbox_eq_model`: the same as one statement over `srcLower` / `srcBbox` (dispatch on
      `Adapter` and `Call` into the generated functions); `src_lower_stack_eq_model` for nestings.
    * trait defaults: `fill_contiguous_default_src_eq_model`, `fill_solid_default_src_eq_model` (any fuel >= the
      number of points of the area), `clear_default_src_eq_model`: one level of the generated default = one level of
      `Call.lowerDefault` (Target.lean); `default_chain_src_eq_model`: chained down to `draw_iter` they are `lowerDefault`.
    * the shape table: `all_adapter_methods_are_tail_calls` (every `Result`-returning method of the adapters and every
      trait default is ONE parent call per path, in tail position, nothing applied to its `Result`),
      `adapter_overrides_pinned` (who overrides what: `Clipped` / `Cropped` inherit `clear`), `adapt_untranslated_pinned`
      (no function of any `impl` of the adapter types is left out: an added `Drop` impl or method breaks it).
    * C03's per-adapter exactness headlines and `stack_exact` restated over the generated functions (`src_*`).
  A semantic change of one of the Rust bodies changes the generated definition and breaks a theorem here.

  Where hand model and source differ: nowhere in value. In form: the hand model's `Adapter.cropped r` lowers
  through `lowerTranslated`, the source through the `Translated` it holds (`Cropped_*` call `Translated_*`); the
  hand model's `clear` arms of `lowerClipped` / `lowerCropped` are the default body instantiated by hand, the
  generated ones are the trait's text re-translated with `Self` := the adapter.
-/
import EG.Generated.AdaptSrc
import EG.Props.C03
import EG.Props.C03.GeneratedCroppedIter
namespace EG.C03.GenAdapters
open EG EG.Rect EG.Tgt EG.Generated EG.RectSrcPrelude EG.AdaptSrcPrelude EG.C03.GenCroppedIter

/-- unfold every prelude primitive of AdaptSrcPrelude (and the listed definitions) -/
macro "adapt_simp" "[" ls:Lean.Parser.Tactic.simpLemma,* "]" : tactic =>
  `(tactic| simp only [Pixel_mk, Pixel_0, Pixel_1, tuple_0, tuple_1, PhantomData_mk, into_iter, iter_map, iter_filter,
      iter_zip, core_iter_repeat, iter_of_next_map, listiter_next, listiter_nth, Rectangle_new, Rectangle_intersection,
      Rectangle_translate, Rectangle_contains, Rectangle_points, Rectangle_eq, Rectangle_ne, point_zero, Point_neg,
      Point_add, Point_sub, DrawTargetT_bounding_box, DrawTargetT_draw_iter, DrawTargetT_fill_contiguous,
      DrawTargetT_fill_solid, DrawTargetT_clear, Rectangle_top_left, Rectangle_size, $ls,*])

/-! ### the constructors -/

theorem Translated_new_src (B : Rect) (d : Pt) : AdaptSrc.DrawTargetExt_translated B d = ⟨B, d⟩ := rfl
theorem Clipped_new_src (B r : Rect) : AdaptSrc.DrawTargetExt_clipped B r = ⟨B, r.intersection B⟩ := rfl
theorem Cropped_new_src (B r : Rect) :
    AdaptSrc.DrawTargetExt_cropped B r = ⟨⟨B, (r.intersection B).tl⟩, (r.intersection B).size⟩ := rfl
theorem ColorConverted_new_src (B : Rect) : AdaptSrc.DrawTargetExt_color_converted B = ⟨B, ()⟩ := rfl

/-! ### Translated -/

theorem Translated_draw_iter_src_eq_model (B : Rect) (d : Pt) (px : Writes) :
    AdaptSrc.Translated_draw_iter (AdaptSrc.DrawTargetExt_translated B d) px
      = (Adapter.translated d).lower B (.drawIter px) := rfl

theorem Translated_fill_contiguous_src_eq_model (B : Rect) (d : Pt) (area : Rect) (cs : List Color) :
    AdaptSrc.Translated_fill_contiguous (AdaptSrc.DrawTargetExt_translated B d) area cs
      = (Adapter.translated d).lower B (.fillContiguous area cs) := rfl

theorem Translated_fill_solid_src_eq_model (B : Rect) (d : Pt) (area : Rect) (c : Color) :
    AdaptSrc.Translated_fill_solid (AdaptSrc.DrawTargetExt_translated B d) area c
      = (Adapter.translated d).lower B (.fillSolid area c) := rfl

theorem Translated_clear_src_eq_model (B : Rect) (d : Pt) (c : Color) :
    AdaptSrc.Translated_clear (AdaptSrc.DrawTargetExt_translated B d) c
      = (Adapter.translated d).lower B (.clear c) := rfl

theorem Translated_bounding_box_src_eq_model (B : Rect) (d : Pt) :
    AdaptSrc.Translated_bounding_box (AdaptSrc.DrawTargetExt_translated B d) = (Adapter.translated d).bbox B := rfl

/-! ### Clipped -/

theorem Clipped_draw_iter_src_eq_model (B r : Rect) (px : Writes) :
    AdaptSrc.Clipped_draw_iter (AdaptSrc.DrawTargetExt_clipped B r) px
      = (Adapter.clipped r).lower B (.drawIter px) := rfl

/-- both arms: the `intersection == area` shortcut and the re-cut colour stream, the latter through the REGENERATED
`iterator::contiguous::Cropped` (`new` + `next`, collected on `fuel`; GeneratedCroppedIter.lean) -/
theorem Clipped_fill_contiguous_src_eq_model (B r : Rect) (area : Rect) (cs : List Color) (fuel : Nat)
    (hf : CropFuel fuel cs) :
    AdaptSrc.Clipped_fill_contiguous fuel (AdaptSrc.DrawTargetExt_clipped B r) area cs
      = (Adapter.clipped r).lower B (.fillContiguous area cs) := by
  show (if decide ((r.intersection B).intersection area = area) = true
      then Call.fillContiguous area cs
      else Call.fillContiguous ((r.intersection B).intersection area)
        (iter_collect_fuel AdaptSrc.contiguous_Cropped_next fuel
          (AdaptSrc.contiguous_Cropped_new cs area.size (((r.intersection B).intersection area).translate (-area.tl))))) =
    (if (r.intersection B).intersection area = area then Call.fillContiguous area cs
      else Call.fillContiguous ((r.intersection B).intersection area)
        (croppedList cs area.size (((r.intersection B).intersection area).translate (-area.tl))))
  rw [contiguous_Cropped_collect_src_eq_model cs _ _ fuel hf]
  by_cases h : (r.intersection B).intersection area = area <;> simp [h]

example : CropFuel 5 [1, 2, 3, 4] := by decide

theorem Clipped_fill_solid_src_eq_model (B r : Rect) (area : Rect) (c : Color) :
    AdaptSrc.Clipped_fill_solid (AdaptSrc.DrawTargetExt_clipped B r) area c
      = (Adapter.clipped r).lower B (.fillSolid area c) := rfl

/-- `clear` is the trait default re-translated with `Self` := `Clipped` -/
theorem Clipped_clear_src_eq_model (B r : Rect) (c : Color) :
    AdaptSrc.Clipped_clear (AdaptSrc.DrawTargetExt_clipped B r) c
      = (Adapter.clipped r).lower B (.clear c) := rfl

theorem Clipped_bounding_box_src_eq_model (B r : Rect) :
    AdaptSrc.Clipped_bounding_box (AdaptSrc.DrawTargetExt_clipped B r) = (Adapter.clipped r).bbox B := rfl

/-! ### Cropped -/

theorem Cropped_draw_iter_src_eq_model (B r : Rect) (px : Writes) :
    AdaptSrc.Cropped_draw_iter (AdaptSrc.DrawTargetExt_cropped B r) px
      = (Adapter.cropped r).lower B (.drawIter px) := rfl

theorem Cropped_fill_contiguous_src_eq_model (B r : Rect) (area : Rect) (cs : List Color) :
    AdaptSrc.Cropped_fill_contiguous (AdaptSrc.DrawTargetExt_cropped B r) area cs
      = (Adapter.cropped r).lower B (.fillContiguous area cs) := rfl

theorem Cropped_fill_solid_src_eq_model (B r : Rect) (area : Rect) (c : Color) :
    AdaptSrc.Cropped_fill_solid (AdaptSrc.DrawTargetExt_cropped B r) area c
      = (Adapter.cropped r).lower B (.fillSolid area c) := rfl

/-- `clear` is the trait default re-translated with `Self` := `Cropped`, on the box of the blanket
`impl<T: OriginDimensions> Dimensions for T` -/
theorem Cropped_clear_src_eq_model (B r : Rect) (c : Color) :
    AdaptSrc.Cropped_clear (AdaptSrc.DrawTargetExt_cropped B r) c
      = (Adapter.cropped r).lower B (.clear c) := rfl

theorem Cropped_bounding_box_src_eq_model (B r : Rect) :
    AdaptSrc.Cropped_bounding_box (AdaptSrc.DrawTargetExt_cropped B r) = (Adapter.cropped r).bbox B := rfl

/-! ### ColorConverted (`f` = the `Into<T::Color>` of the colour type) -/

theorem ColorConverted_draw_iter_src_eq_model (B : Rect) (f : Color → Color) (px : Writes) :
    AdaptSrc.ColorConverted_draw_iter f (AdaptSrc.DrawTargetExt_color_converted B) px
      = (Adapter.converted f).lower B (.drawIter px) := rfl

theorem ColorConverted_fill_contiguous_src_eq_model (B : Rect) (f : Color → Color) (area : Rect) (cs : List Color) :
    AdaptSrc.ColorConverted_fill_contiguous f (AdaptSrc.DrawTargetExt_color_converted B) area cs
      = (Adapter.converted f).lower B (.fillContiguous area cs) := rfl

theorem ColorConverted_fill_solid_src_eq_model (B : Rect) (f : Color → Color) (area : Rect) (c : Color) :
    AdaptSrc.ColorConverted_fill_solid f (AdaptSrc.DrawTargetExt_color_converted B) area c
      = (Adapter.converted f).lower B (.fillSolid area c) := rfl

theorem ColorConverted_clear_src_eq_model (B : Rect) (f : Color → Color) (c : Color) :
    AdaptSrc.ColorConverted_clear f (AdaptSrc.DrawTargetExt_color_converted B) c
      = (Adapter.converted f).lower B (.clear c) := rfl

theorem ColorConverted_bounding_box_src_eq_model (B : Rect) :
    AdaptSrc.ColorConverted_bounding_box (AdaptSrc.DrawTargetExt_color_converted B) = B := rfl

/-! ### one statement: the generated lowering -/

/-- The parent call the GENERATED code makes for a call issued on adapter `a` built (by the generated
`DrawTargetExt` constructor) over a parent with box `B`. -/
def srcLower (a : Adapter) (B : Rect) (call : Call) : Call :=
  match a, call with
  | .translated d, .drawIter px => AdaptSrc.Translated_draw_iter (AdaptSrc.DrawTargetExt_translated B d) px
  | .translated d, .fillContiguous area cs => AdaptSrc.Translated_fill_contiguous (AdaptSrc.DrawTargetExt_translated B d) area cs
  | .translated d, .fillSolid area c => AdaptSrc.Translated_fill_solid (AdaptSrc.DrawTargetExt_translated B d) area c
  | .translated d, .clear c => AdaptSrc.Translated_clear (AdaptSrc.DrawTargetExt_translated B d) c
  | .clipped r, .drawIter px => AdaptSrc.Clipped_draw_iter (AdaptSrc.DrawTargetExt_clipped B r) px
  | .clipped r, .fillContiguous area cs =>
    -- fuel for the regenerated cropping iterator: one more than the number of colours (`CropFuel`)
    AdaptSrc.Clipped_fill_contiguous (cs.length + 1) (AdaptSrc.DrawTargetExt_clipped B r) area cs
  | .clipped r, .fillSolid area c => AdaptSrc.Clipped_fill_solid (AdaptSrc.DrawTargetExt_clipped B r) area c
  | .clipped r, .clear c => AdaptSrc.Clipped_clear (AdaptSrc.DrawTargetExt_clipped B r) c
  | .cropped r, .drawIter px => AdaptSrc.Cropped_draw_iter (AdaptSrc.DrawTargetExt_cropped B r) px
  | .cropped r, .fillContiguous area cs => AdaptSrc.Cropped_fill_contiguous (AdaptSrc.DrawTargetExt_cropped B r) area cs
  | .cropped r, .fillSolid area c => AdaptSrc.Cropped_fill_solid (AdaptSrc.DrawTargetExt_cropped B r) area c
  | .cropped r, .clear c => AdaptSrc.Cropped_clear (AdaptSrc.DrawTargetExt_cropped B r) c
  | .converted f, .drawIter px => AdaptSrc.ColorConverted_draw_iter f (AdaptSrc.DrawTargetExt_color_converted B) px
  | .converted f, .fillContiguous area cs => AdaptSrc.ColorConverted_fill_contiguous f (AdaptSrc.DrawTargetExt_color_converted B) area cs
  | .converted f, .fillSolid area c => AdaptSrc.ColorConverted_fill_solid f (AdaptSrc.DrawTargetExt_color_converted B) area c
  | .converted f, .clear c => AdaptSrc.ColorConverted_clear f (AdaptSrc.DrawTargetExt_color_converted B) c

/-- The box the GENERATED `bounding_box` reports. -/
def srcBbox (a : Adapter) (B : Rect) : Rect :=
  match a with
  | .translated d => AdaptSrc.Translated_bounding_box (AdaptSrc.DrawTargetExt_translated B d)
  | .clipped r => AdaptSrc.Clipped_bounding_box (AdaptSrc.DrawTargetExt_clipped B r)
  | .cropped r => AdaptSrc.Cropped_bounding_box (AdaptSrc.DrawTargetExt_cropped B r)
  | .converted _ => AdaptSrc.ColorConverted_bounding_box (AdaptSrc.DrawTargetExt_color_converted B)

/-- **Regenerated adapters = hand model**, every adapter, every method, all inputs. -/
theorem src_lower_eq_model (a : Adapter) (B : Rect) (call : Call) : srcLower a B call = a.lower B call := by
  cases a <;> cases call <;>
    first
      | rfl
      | exact Clipped_fill_contiguous_src_eq_model _ _ _ _ _ (Nat.lt_succ_self _)

theorem src_bbox_eq_model (a : Adapter) (B : Rect) : srcBbox a B = a.bbox B := by
  cases a <;> rfl

/-- Nestings over the generated functions. -/
def srcLowerStack (B : Rect) : Stack → Call → Call
  | [], call => call
  | a :: rest, call => srcLower a B (srcLowerStack (srcBbox a B) rest call)

theorem src_lower_stack_eq_model (B : Rect) (s : Stack) (call : Call) :
    srcLowerStack B s call = lowerStack B s call := by
  induction s generalizing B with
  | nil => rfl
  | cons a rest ih => simp only [srcLowerStack, lowerStack, src_lower_eq_model, src_bbox_eq_model, ih]

/-! ### the trait defaults -/

/-- default `fill_contiguous` = `draw_iter` of what `Call.lowerDefault` says -/
theorem fill_contiguous_default_src_eq_model (B area : Rect) (cs : List Color) :
    AdaptSrc.DrawTarget_fill_contiguous B area cs = .drawIter ((Call.fillContiguous area cs).lowerDefault B) := by
  adapt_simp [AdaptSrc.DrawTarget_fill_contiguous, Call.lowerDefault]
  exact congrArg Call.drawIter (List.map_id'' (fun _ => rfl) _)

/-- Enough fuel for `core::iter::repeat`: at least as many items as the area has points. -/
def RepeatFuel (fuel : Nat) (area : Rect) : Prop := area.points.length ≤ fuel
instance (fuel : Nat) (area : Rect) : Decidable (RepeatFuel fuel area) := by unfold RepeatFuel; exact inferInstance
example : RepeatFuel 6 ⟨⟨1, 1⟩, ⟨3, 2⟩⟩ := by decide

theorem zip_replicate_fuel {α β : Type} (l : List α) (c : β) (fuel : Nat) (h : l.length ≤ fuel) :
    l.zip (List.replicate fuel c) = l.zip (List.replicate l.length c) := by
  induction l generalizing fuel with
  | nil => simp
  | cons a t ih =>
    cases fuel with
    | zero => simp at h
    | succ n =>
      simp only [List.length_cons, List.replicate_succ, List.zip_cons_cons]
      rw [ih n (by simpa using h)]

example : ([1, 2, 3] : List Nat).length ≤ 5 := by decide

/-- default `fill_solid` = `fill_contiguous(area, repeat(color))`: a `fill_contiguous` call whose stream is `fuel`
copies; under the default `fill_contiguous` it writes what `Call.lowerDefault` says for `fill_solid`, for ANY
sufficient fuel (the `zip` with the points of the area cuts the stream). -/
theorem fill_solid_default_src_eq_model (B area : Rect) (c : Color) (fuel : Nat) (h : RepeatFuel fuel area) :
    AdaptSrc.DrawTarget_fill_solid fuel B area c = .fillContiguous area (List.replicate fuel c) ∧
    (AdaptSrc.DrawTarget_fill_solid fuel B area c).lowerDefault B = (Call.fillSolid area c).lowerDefault B := by
  refine ⟨rfl, ?_⟩
  show area.points.zip (List.replicate fuel c) = area.points.zip (List.replicate area.points.length c)
  exact zip_replicate_fuel _ _ _ h

/-- default `clear` = `fill_solid(&self.bounding_box(), color)` -/
theorem clear_default_src_eq_model (B : Rect) (c : Color) :
    AdaptSrc.DrawTarget_clear B c = .fillSolid B c ∧
    (AdaptSrc.DrawTarget_clear B c).lowerDefault B = (Call.clear c).lowerDefault B := ⟨rfl, rfl⟩

/-- One step of the generated defaults on a target that implements `draw_iter` only. -/
def srcDefaultStep (fuel : Nat) (B : Rect) : Call → Call
  | .drawIter px => .drawIter px
  | .fillContiguous area cs => AdaptSrc.DrawTarget_fill_contiguous B area cs
  | .fillSolid area c => AdaptSrc.DrawTarget_fill_solid fuel B area c
  | .clear c => AdaptSrc.DrawTarget_clear B c

/-- **The generated defaults, chained (`clear -> fill_solid -> fill_contiguous -> draw_iter`: three steps reach
`draw_iter` from any call), are `Call.lowerDefault`** — with fuel for the area of the call (the box for `clear`). -/
theorem default_chain_src_eq_model (B : Rect) (call : Call) (fuel : Nat)
    (h : match call with
      | .fillSolid area _ => RepeatFuel fuel area
      | .clear _ => RepeatFuel fuel B
      | _ => True) :
    srcDefaultStep fuel B (srcDefaultStep fuel B (srcDefaultStep fuel B call)) = .drawIter (call.lowerDefault B) := by
  cases call with
  | drawIter px => rfl
  | fillContiguous area cs =>
    simp only [srcDefaultStep, fill_contiguous_default_src_eq_model]
  | fillSolid area c =>
    simp only [srcDefaultStep, (fill_solid_default_src_eq_model B area c fuel h).1, fill_contiguous_default_src_eq_model]
    exact congrArg _ (zip_replicate_fuel _ _ _ h)
  | clear c =>
    simp only [srcDefaultStep, (clear_default_src_eq_model B c).1, (fill_solid_default_src_eq_model B B c fuel h).1,
      fill_contiguous_default_src_eq_model]
    exact congrArg _ (zip_replicate_fuel _ _ _ h)

example : (match Call.clear 3 with
      | .fillSolid area _ => RepeatFuel 12 area
      | .clear _ => RepeatFuel 12 ⟨⟨0, 0⟩, ⟨4, 3⟩⟩
      | _ => True) := by decide

/-! ### the shape of the methods -/

/-- **Every `Result`-returning method of the four adapters, and every default method of the trait, is one
parent call per control-flow path, in TAIL position, with nothing applied to its `Result`** (checked by the
translator on the Rust syntax tree, decided here on the generated table): the method returns what the parent
call returns, and evaluates nothing after it. 19 methods; `Clipped::fill_contiguous` has two paths. -/
theorem all_adapter_methods_are_tail_calls :
    (∀ s ∈ AdaptSrc.adapterMethodShapes, s.tail = true ∧ s.bare = true ∧ s.paths ≥ 1) ∧
    AdaptSrc.adapterMethodShapes.map (fun s => (s.owner, s.method)) =
      [("DrawTarget", "fill_contiguous"), ("DrawTarget", "fill_solid"), ("DrawTarget", "clear"),
       ("Translated", "draw_iter"), ("Translated", "fill_contiguous"), ("Translated", "fill_solid"), ("Translated", "clear"),
       ("Clipped", "draw_iter"), ("Clipped", "fill_contiguous"), ("Clipped", "fill_solid"), ("Clipped", "clear"),
       ("Cropped", "draw_iter"), ("Cropped", "fill_contiguous"), ("Cropped", "fill_solid"), ("Cropped", "clear"),
       ("ColorConverted", "draw_iter"), ("ColorConverted", "fill_contiguous"), ("ColorConverted", "fill_solid"),
       ("ColorConverted", "clear")] := by
  decide

/-- Who overrides what: `Clipped` and `Cropped` inherit the trait's `clear` (the hand model's `clear` arms are the
default body), everything else is the adapter's own. -/
theorem adapter_overrides_pinned :
    (AdaptSrc.adapterMethodShapes.filter (fun s => !s.overridden)).map (fun s => (s.owner, s.method)) =
      [("DrawTarget", "fill_contiguous"), ("DrawTarget", "fill_solid"), ("DrawTarget", "clear"),
       ("Clipped", "clear"), ("Cropped", "clear")] := by
  decide

/-- No function with a body in any `impl` of the adapter types / `DrawTargetExt` / `pixel::Translated` is left
untranslated (an added `Drop` impl, an added override of an `Iterator` method ... breaks this). -/
theorem adapt_untranslated_pinned : AdaptSrc.untranslated = [] := by decide

/-! ### C03's headlines over the generated functions -/

/-- `clipped_exact` about the generated `Clipped` methods. -/
theorem src_clipped_exact (clip B : Rect) (c : Call) (h1 : c.Ok (srcBbox (.clipped clip) B)) (q : Pt) :
    (srcLower (.clipped clip) B c).sem B q =
      if clip.contains q = true ∧ B.contains q = true then c.sem (srcBbox (.clipped clip) B) q else none := by
  rw [src_lower_eq_model]; exact EG.C03.clipped_exact clip B c h1 q

/-- `translated_exact` about the generated `Translated` methods. -/
theorem src_translated_exact (d : Pt) (B : Rect) (c : Call) (h1 : c.Ok (srcBbox (.translated d) B))
    (h2 : (srcLower (.translated d) B c).Ok B) (q : Pt) :
    (srcLower (.translated d) B c).sem B q = c.sem (srcBbox (.translated d) B) (q - d) := by
  rw [src_lower_eq_model] at h2 ⊢; exact EG.C03.translated_exact d B c h1 h2 q

/-- `cropped_exact` about the generated `Cropped` methods. -/
theorem src_cropped_exact (area B : Rect) (c : Call) (h1 : c.Ok (srcBbox (.cropped area) B))
    (h2 : (srcLower (.cropped area) B c).Ok B) (q : Pt) :
    (srcLower (.cropped area) B c).sem B q = c.sem (srcBbox (.cropped area) B) (q - (area.intersection B).tl) := by
  rw [src_lower_eq_model] at h2 ⊢; exact EG.C03.cropped_exact area B c h1 h2 q

/-- `converted_exact` about the generated `ColorConverted` methods. -/
theorem src_converted_exact (f : Color → Color) (B : Rect) (c : Call) (h1 : c.Ok B) (q : Pt) :
    (srcLower (.converted f) B c).sem B q = (c.sem B q).map f := by
  rw [src_lower_eq_model]; exact EG.C03.converted_exact f B c h1 q

/-- `stack_exact` about nestings of the generated adapters. -/
theorem src_stack_exact (B : Rect) (s : Stack) (c : Call) (h : stackOk B s c) (q : Pt) :
    (srcLowerStack B s c).sem B q = (stackXf B s).act (c.sem (stackBox B s)) q := by
  rw [src_lower_stack_eq_model]; exact EG.C03.stack_exact B s c h q

example : (Call.fillContiguous ⟨⟨-1, 0⟩, ⟨3, 2⟩⟩ [1, 2, 3, 4]).Ok
      (srcBbox (.clipped ⟨⟨0, 0⟩, ⟨2, 2⟩⟩) ⟨⟨-2, -2⟩, ⟨6, 5⟩⟩) := by decide
example : (Call.fillSolid ⟨⟨-1, 0⟩, ⟨3, 2⟩⟩ 4).Ok (srcBbox (.translated ⟨5, -7⟩) ⟨⟨1, 1⟩, ⟨6, 5⟩⟩) ∧
    (srcLower (.translated ⟨5, -7⟩) ⟨⟨1, 1⟩, ⟨6, 5⟩⟩ (Call.fillSolid ⟨⟨-1, 0⟩, ⟨3, 2⟩⟩ 4)).Ok ⟨⟨1, 1⟩, ⟨6, 5⟩⟩ := by decide
example : (Call.clear 4).Ok (srcBbox (.cropped ⟨⟨2, 2⟩, ⟨9, 9⟩⟩) ⟨⟨1, 1⟩, ⟨6, 5⟩⟩) ∧
    (srcLower (.cropped ⟨⟨2, 2⟩, ⟨9, 9⟩⟩) ⟨⟨1, 1⟩, ⟨6, 5⟩⟩ (Call.clear 4)).Ok ⟨⟨1, 1⟩, ⟨6, 5⟩⟩ := by decide
example : (Call.fillContiguous ⟨⟨-1, 2⟩, ⟨3, 2⟩⟩ [1, 2, 3, 4]).Ok ⟨⟨0, 0⟩, ⟨4, 4⟩⟩ := by decide
/-- the generated code, kernel-evaluated through a depth-3 nesting (the instance of `stack_exact`'s example) -/
example : (srcLowerStack ⟨⟨-3, -2⟩, ⟨7, 5⟩⟩
    [.clipped ⟨⟨-1, -1⟩, ⟨3, 3⟩⟩, .cropped ⟨⟨0, -2⟩, ⟨5, 3⟩⟩, .translated ⟨1, 0⟩]
    (.fillContiguous ⟨⟨-2, -1⟩, ⟨4, 3⟩⟩ [1, 2, 3, 4, 5, 6, 7])) =
    .fillContiguous ⟨⟨-1, -1⟩, ⟨3, 2⟩⟩ [5, 6, 7] := by decide

-- [V] trusted by the source tie of the adapters: the prelude EG/Model/AdaptSrcPrelude.lean (an `IntoIterator` argument is the finite list of its items, `map` / `filter` / `zip` are the list operations, `repeat` is cut by explicit fuel, an iterator adapter whose `next` is `self.iter.next().map(F)` maps `F`, a generic parent target is its `bounding_box()` and a call on it is the `Call` value, `Rectangle`'s methods are the hand model's [their own source tie: C16's Generated*.lean, `intersection` / `contains` under `FitsI32`], `Iterator::next` / `nth` of a list iterator, a crate-defined iterator with a stateful `next` collected on explicit fuel [`iterator::contiguous::Cropped`: its `new` / `next` ARE regenerated and proved equal to the hand model, GeneratedCroppedIter.lean], `usize` as `Nat` with `i32 as usize` sign-extending); the parser and the type-directed method resolution of tools/tr_adapt.py / tr_rect.py (demonstrated by tools/tests/adapt_translator_demo.py: 19 mutations and 4 shape changes each break a theorem, 8 harmless rewrites break none); that trait-method dispatch picks the impls the translator picks (the adapter's own `impl DrawTarget`, else the trait default; `Cropped`'s box through the blanket `impl<T: OriginDimensions> Dimensions for T`)

end EG.C03.GenAdapters
