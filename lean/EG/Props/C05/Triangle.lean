/-
  C05 (triangle part) — "For ... Triangle with non-zero area, points() yields exactly the integer
  points for which contains() is true: each once, in row-major order, all inside bounding_box().
  contains() is false for every other point, in particular for every point outside the bounding
  box."
  Model: `EG.Triangle.contains`, `EG.Triangle.points` (EG/Model/Triangle.lean =
  src/primitives/triangle/{mod,points,scanline_iterator,scanline_intersections}.rs as they are now,
  i.e. after the repair of the counter-clockwise sign test). Helper lemmas:
  EG/Lemmas/TriangleContains.lean, EG/Lemmas/TrianglePoints.lean.

  Everything is proved, for all vertex triples (unbounded integers): what `contains()` accepts
  (bounding box, non-zero area, closed three-half-plane test or a pixel of one of the three
  Bresenham edge lines of the sorted triangle), that it rejects everything outside the bounding box
  and everything when the area is zero, that it does not depend on the vertex order; and, for
  non-zero area and a bounding box within the `i32` range (`Rect.InRange`: `Rectangle::rows()` /
  `columns()` do not saturate), `points() = bounding_box().points().filter(contains)` as lists —
  hence each point once, in row-major order, all inside `bounding_box()`.
  No sub-claim of the triangle part is left to correspondence + oracle alone.
-/
import EG.Lemmas.TriangleContains
import EG.Lemmas.TrianglePoints
import EG.Lemmas.RectPoints
import EG.Lemmas.TriangleSpan
import EG.Lemmas.TriangleCover
import EG.Lemmas.TriangleExact
namespace EG.C05
open EG EG.Triangle

/-- `contains()` accepts exactly: inside the bounding box, non-zero area, and (the closed barycentric
test with its explicit sign checks, or the point is a pixel of one of the three Bresenham edge
lines `p1 p2`, `p1 p3`, `p2 p3` of the `(y, x)`-sorted triangle). -/
theorem triangle_contains_iff (t : Triangle) (p : Pt) :
    t.contains p = true ↔
      t.boundingBox.contains p = true ∧ t.areaDoubled ≠ 0 ∧
        (t.isInside p = true ∨ p ∈ t.edgePoints) :=
  Triangle.contains_iff t p

/-- The barycentric block is the closed mathematical triangle: the three edge functions
`(b - a) × (p - a)` of `v1 v2`, `v2 v3`, `v3 v1` are all `≥ 0` (positive orientation) or all `≤ 0`
(negative orientation) — no point on the extension of an edge slips through (defect #8, repaired). -/
theorem triangle_inside_iff_half_planes (t : Triangle) (p : Pt) (h : t.areaDoubled ≠ 0) :
    t.isInside p = true ↔
      (0 ≤ edgeFn t.v1 t.v2 p ∧ 0 ≤ edgeFn t.v2 t.v3 p ∧ 0 ≤ edgeFn t.v3 t.v1 p ∧
        0 < edgeFn t.v1 t.v2 t.v3) ∨
      (edgeFn t.v1 t.v2 p ≤ 0 ∧ edgeFn t.v2 t.v3 p ≤ 0 ∧ edgeFn t.v3 t.v1 p ≤ 0 ∧
        edgeFn t.v1 t.v2 t.v3 < 0) :=
  isInside_iff_half_planes t p h

example : (⟨⟨5, 5⟩, ⟨20, 6⟩, ⟨0, 0⟩⟩ : Triangle).areaDoubled ≠ 0 := by decide

/-- The witness of the repaired defect #8 is rejected now. -/
theorem triangle_contains_witness8 :
    (⟨⟨5, 5⟩, ⟨20, 6⟩, ⟨0, 0⟩⟩ : Triangle).contains ⟨6, 6⟩ = false := by decide

/-- `contains()` is false for every point outside the bounding box. -/
theorem triangle_contains_in_bbox (t : Triangle) (p : Pt) (h : t.contains p = true) :
    t.boundingBox.contains p = true :=
  Triangle.contains_in_bbox t p h

example : (⟨⟨0, 0⟩, ⟨5, 1⟩, ⟨4, 6⟩⟩ : Triangle).contains ⟨3, 2⟩ = true := by decide

theorem triangle_contains_false_outside_bbox (t : Triangle) (p : Pt)
    (h : t.boundingBox.contains p = false) : t.contains p = false := by
  cases hc : t.contains p with
  | false => rfl
  | true => rw [Triangle.contains_in_bbox t p hc] at h; cases h

example : (⟨⟨0, 0⟩, ⟨5, 1⟩, ⟨4, 6⟩⟩ : Triangle).boundingBox.contains ⟨6, 2⟩ = false := by decide

/-- A triangle with zero area (colinear or coincident vertices) contains no point: the code returns
`false` before the edge-line clause is looked at (while `points()` still yields the line `p1 p3`;
this is why the property is stated for non-zero area). -/
theorem triangle_contains_colinear_false (t : Triangle) (p : Pt) (h : t.areaDoubled = 0) :
    t.contains p = false :=
  Triangle.contains_colinear_false t p h

example : (⟨⟨5, 10⟩, ⟨15, 20⟩, ⟨10, 15⟩⟩ : Triangle).areaDoubled = 0 := by decide

/-- `contains()` gives the same verdict for all six vertex orders. -/
theorem triangle_contains_order_independent (t t' : Triangle) (h : t' ∈ orders t) (p : Pt) :
    t'.contains p = t.contains p :=
  contains_of_mem_orders h p

example : (⟨⟨3, 1⟩, ⟨0, 0⟩, ⟨5, 7⟩⟩ : Triangle) ∈ orders ⟨⟨0, 0⟩, ⟨5, 7⟩, ⟨3, 1⟩⟩ := by decide

/-- Every point of `points()` lies inside `bounding_box()`. -/
theorem triangle_points_in_bbox (t : Triangle) (h : t.boundingBox.InRange) (p : Pt)
    (hp : p ∈ t.points) : t.boundingBox.contains p = true :=
  points_in_bbox t h p hp

example : (⟨⟨0, 0⟩, ⟨5, 1⟩, ⟨4, 6⟩⟩ : Triangle).boundingBox.InRange ∧
    (⟨3, 2⟩ : Pt) ∈ (⟨⟨0, 0⟩, ⟨5, 1⟩, ⟨4, 6⟩⟩ : Triangle).points := by decide

/-- `points()` is strictly increasing in row-major order: each point once, rows top to bottom,
columns left to right. -/
theorem triangle_points_row_major_once (t : Triangle) (h : t.boundingBox.InRange) :
    t.points.Pairwise Pt.rowMajorLt ∧ t.points.Nodup :=
  ⟨points_rowMajor t h, points_nodup t h⟩
example : (⟨⟨0, 0⟩, ⟨5, 1⟩, ⟨4, 6⟩⟩ : Triangle).boundingBox.InRange := by decide

/-- The edge-line half of the equation: for non-zero area a pixel of one of the three Bresenham
edge lines is accepted by `contains()` AND yielded by `points()`. -/
theorem triangle_edge_pixels_in_both (t : Triangle) (h : t.boundingBox.InRange)
    (a : t.areaDoubled ≠ 0) (p : Pt) (hp : p ∈ t.edgePoints) :
    t.contains p = true ∧ p ∈ t.points := by
  have hmem : p ∈ t.points := by
    unfold edgePoints at hp
    obtain ⟨l, hl, hpl⟩ := List.mem_flatMap.mp hp
    exact edge_pixel_mem_points t h (by rw [usedLines_of_nonzero a]; exact hl) hpl
  exact ⟨(Triangle.contains_iff t p).mpr ⟨points_in_bbox t h p hmem, a, Or.inr hp⟩, hmem⟩

example : (⟨⟨0, 0⟩, ⟨5, 1⟩, ⟨4, 6⟩⟩ : Triangle).boundingBox.InRange ∧
    (⟨⟨0, 0⟩, ⟨5, 1⟩, ⟨4, 6⟩⟩ : Triangle).areaDoubled ≠ 0 ∧
    (⟨5, 1⟩ : Pt) ∈ (⟨⟨0, 0⟩, ⟨5, 1⟩, ⟨4, 6⟩⟩ : Triangle).edgePoints := by decide

/-- **Everything `contains()` accepts is yielded by `points()`** (bounding box within the `i32`
range): a point passing the closed barycentric test lies on or between two Bresenham edge lines in
its row, a point of an edge line is covered anyway. -/
theorem triangle_contains_imp_points (t : Triangle) (h : t.boundingBox.InRange) (p : Pt)
    (hc : t.contains p = true) : p ∈ t.points := by
  obtain ⟨_, ha, hin | hedge⟩ := (Triangle.contains_iff t p).mp hc
  · apply Triangle.closed_triangle_covered t h ha p
    rcases (isInside_iff_half_planes t p ha).mp hin with ⟨h1, h2, h3, _⟩ | ⟨h1, h2, h3, _⟩
    · exact Or.inl ⟨h1, h2, h3⟩
    · exact Or.inr ⟨h1, h2, h3⟩
  · exact (triangle_edge_pixels_in_both t h ha p hedge).2

example : (⟨⟨0, 0⟩, ⟨5, 1⟩, ⟨4, 6⟩⟩ : Triangle).boundingBox.InRange ∧
    (⟨⟨0, 0⟩, ⟨5, 1⟩, ⟨4, 6⟩⟩ : Triangle).contains ⟨3, 2⟩ = true := by decide

/-- Hence for non-zero area the points of the bounding box that `contains()` accepts form a
sub-list of `points()` — nothing that `contains()` accepts is missing. -/
theorem triangle_filter_contains_subset_points (t : Triangle) (h : t.boundingBox.InRange) (p : Pt)
    (hp : p ∈ t.boundingBox.points.filter t.contains) : p ∈ t.points :=
  triangle_contains_imp_points t h p (List.mem_filter.mp hp).2
example : (⟨3, 2⟩ : Pt) ∈ (⟨⟨0, 0⟩, ⟨5, 1⟩, ⟨4, 6⟩⟩ : Triangle).boundingBox.points.filter
    (⟨⟨0, 0⟩, ⟨5, 1⟩, ⟨4, 6⟩⟩ : Triangle).contains := by decide

/-- Every point yielded by `points()` is accepted by `contains()`: a point between two edge
pixels of its row that is not itself an edge pixel passes the closed barycentric test. -/
theorem triangle_points_imp_contains (t : Triangle) (h : t.boundingBox.InRange)
    (ha : t.areaDoubled ≠ 0) (p : Pt) (hp : p ∈ t.points) : t.contains p = true :=
  contains_of_mem_points t h ha p hp

example : (⟨⟨0, 0⟩, ⟨5, 1⟩, ⟨4, 6⟩⟩ : Triangle).boundingBox.InRange ∧
    (⟨⟨0, 0⟩, ⟨5, 1⟩, ⟨4, 6⟩⟩ : Triangle).areaDoubled ≠ 0 ∧
    (⟨3, 2⟩ : Pt) ∈ (⟨⟨0, 0⟩, ⟨5, 1⟩, ⟨4, 6⟩⟩ : Triangle).points := by decide

/-- **`points()` is `bounding_box().points()` filtered by `contains()`**, as lists: same points,
same (row-major) order, same multiplicity — for every triangle with non-zero area. -/
theorem triangle_points_eq_filter_contains (t : Triangle) (h : t.boundingBox.InRange)
    (ha : t.areaDoubled ≠ 0) : t.points = t.boundingBox.points.filter t.contains :=
  points_eq_filter_contains t h ha

example : (⟨⟨-4, 3⟩, ⟨5, -1⟩, ⟨2, 9⟩⟩ : Triangle).boundingBox.InRange ∧
    (⟨⟨-4, 3⟩, ⟨5, -1⟩, ⟨2, 9⟩⟩ : Triangle).areaDoubled ≠ 0 := by decide

/-- The exclusion "with non-zero area" is needed: a colinear triangle yields its line `p1 p3` while
`contains()` rejects every point. -/
theorem triangle_zero_area_points_not_contained :
    (⟨⟨2, 2⟩, ⟨4, 2⟩, ⟨4, 2⟩⟩ : Triangle).points = [⟨2, 2⟩, ⟨3, 2⟩, ⟨4, 2⟩] ∧
    (⟨⟨2, 2⟩, ⟨4, 2⟩, ⟨4, 2⟩⟩ : Triangle).contains ⟨3, 2⟩ = false := by decide

end EG.C05
