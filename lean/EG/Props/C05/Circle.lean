/-
  C05 (circle part) — `points()` yields exactly the integer points for which `contains()` is true:
  each once, in row-major order, all inside `bounding_box()`; `contains()` is false for every other
  point, in particular outside the bounding box.

  Model: `EG.Model.Circle` (src/primitives/circle/{mod,points}.rs arm for arm; the scanline iterator
  is not fused and may return an early `None` — `row_hits_interval` shows it never does).
  `Circle.InRange` = the bounding box does not saturate / overflow `i32` (decidable guard).
-/
import EG.Lemmas.CircleStyled
namespace EG.C05
open EG EG.Circle

/-- `row_hits_interval`: in every row of the bounding box the scanline iterator finds a hit (so its
early `None` never fires); the scanline "first hit .. mirrored" is non-empty, inside the columns,
centred (the first hit's mirror is the last hit), and is exactly the set of `x` that `contains`
accepts in that row — for all `x`, also outside the box. -/
theorem circle_row_hits_interval (c : Circle) (y : Int) (h1 : c.tl.y ≤ y) (h2 : y < c.tl.y + c.d) :
    ∃ l u, mirroredRange (hit c.center2x c.threshold y) c.tl.x (c.tl.x + c.d) = some (l, u) ∧
      c.tl.x ≤ l ∧ l < u ∧ u ≤ c.tl.x + c.d ∧ l + u = c.tl.x + (c.tl.x + c.d) ∧
      (∀ x, c.contains ⟨x, y⟩ = true ↔ l ≤ x ∧ x < u) :=
  Circle.row_hits_interval h1 h2
example : (⟨⟨-3, 2⟩, 7⟩ : Circle).tl.y ≤ 4 ∧ (4 : Int) < (⟨⟨-3, 2⟩, 7⟩ : Circle).tl.y + 7 := by decide

/-- **`points()` is `bounding_box().points()` filtered by `contains()`**, as lists: same points,
same (row-major) order, same multiplicity. -/
theorem circle_points_eq_filter_contains (c : Circle) (h : c.InRange) :
    c.points = c.boundingBox.points.filter c.contains :=
  Circle.points_eq_filter h
example : (⟨⟨-3, 2⟩, 7⟩ : Circle).InRange := by decide

/-- `contains()` is false for every point outside the bounding box. -/
theorem circle_contains_inside_bbox (c : Circle) (p : Pt) (h : c.contains p = true) :
    c.boundingBox.contains p = true :=
  Circle.contains_imp_bbox h
example : (⟨⟨-3, 2⟩, 7⟩ : Circle).contains ⟨0, 5⟩ = true := by decide

theorem circle_contains_false_outside_bbox (c : Circle) (p : Pt)
    (h : c.boundingBox.contains p = false) : c.contains p = false := by
  cases hc : c.contains p with
  | false => rfl
  | true => rw [circle_contains_inside_bbox c p hc] at h; cases h
example : (⟨⟨-3, 2⟩, 7⟩ : Circle).boundingBox.contains ⟨4, 5⟩ = false := by decide

/-- `points()` yields exactly the points `contains()` accepts. -/
theorem circle_mem_points_iff (c : Circle) (h : c.InRange) (p : Pt) :
    p ∈ c.points ↔ c.contains p = true := by
  rw [circle_points_eq_filter_contains c h, List.mem_filter, Rect.mem_points h]
  constructor
  · exact fun hp => hp.2
  · exact fun hp => ⟨circle_contains_inside_bbox c p hp, hp⟩

/-- each point once -/
theorem circle_points_nodup (c : Circle) (h : c.InRange) : c.points.Nodup := by
  rw [circle_points_eq_filter_contains c h]
  exact (Rect.points_nodup _).filter _

/-- in row-major order -/
theorem circle_points_row_major (c : Circle) (h : c.InRange) : c.points.Pairwise Pt.rowMajorLt := by
  rw [circle_points_eq_filter_contains c h]
  exact (Rect.points_rowMajor _).filter _

/-- all inside `bounding_box()` -/
theorem circle_points_inside_bbox (c : Circle) (h : c.InRange) (p : Pt) (hp : p ∈ c.points) :
    c.boundingBox.contains p = true :=
  circle_contains_inside_bbox c p ((circle_mem_points_iff c h p).mp hp)
example : (⟨0, 1⟩ : Pt) ∈ (⟨⟨0, 0⟩, 3⟩ : Circle).points := by decide

/-- The (non-fused) scanline iterator never returns its early `None`: a `for` loop over it sees
one scanline for every row of the bounding box, in order. -/
theorem circle_scanlines_cover_all_rows (c : Circle) (h : c.InRange) :
    c.scanlines.toList.map (·.y) = irange c.tl.y (c.tl.y + c.d) := by
  rw [Circle.scanlines_toList_eq h, List.map_map]
  have : ∀ y ∈ irange c.tl.y (c.tl.y + c.d),
      ((fun s : Scanline => s.y) ∘ fun y => (c.scanlines.row y).getD default) y = id y := by
    intro y hy
    rw [mem_irange] at hy
    exact (Circle.row_scanOK h hy.1 hy.2).1
  rw [List.map_congr_left this, List.map_id]

-- [V] circles whose bounding box leaves the i32 range (guard `Circle.InRange` false; the real code saturates or panics on overflow there, C08's topic): carried by correspondence + oracle only
end EG.C05
