/-
  C05 (sector part) — `Sector::points()` yields exactly the integer points for which
  `Sector::contains()` is true: each once, in row-major order, all inside `bounding_box()`;
  `contains()` is false for every other point, in particular outside the bounding box.
  For all positions, diameters and ALL start/sweep angles: the plane sector
  (`PlaneSector::new(angle_start, angle_sweep)`: operation tag + two integer normal vectors) is an
  arbitrary parameter of the model, so nothing here depends on trigonometry.

  Model: `EG.Model.Sector` (src/primitives/sector/{mod,points}.rs, common/{plane_sector,
  linear_equation, distance_iterator}.rs arm for arm). `points()` iterates `bounding_box().points()`
  through `DistanceIterator` and `find`s the items passing the circle threshold and
  `plane_sector.contains(delta)`; `contains()` is `circle.contains(p) && plane_sector.contains(2p -
  center_2x)`. `Circle.InRange` = the bounding box does not saturate / overflow `i32`.

  -- [V] the plane sector handed to the model equals what `PlaneSector::new` computes from the two angles (f32 / fixed-point trigonometry is not modelled; the five integers come from the hook `verif_hooks::plane_sector`): carried by correspondence + oracle only
-/
import EG.Lemmas.Sector
namespace EG.C05
open EG

/-- **`points()` is `bounding_box().points()` filtered by `contains()`**, as lists: same points,
same (row-major) order, same multiplicity — every sector, every plane sector, no side condition. -/
theorem sector_points_eq_filter_contains (s : Sector) :
    s.points = s.boundingBox.points.filter s.contains :=
  Sector.points_eq_filter s

/-- `contains()` is false for every point outside the bounding box. -/
theorem sector_contains_inside_bbox (s : Sector) (p : Pt) (h : s.contains p = true) :
    s.boundingBox.contains p = true :=
  Sector.contains_imp_bbox h
example : (⟨⟨-3, 2⟩, 7, ⟨.intersection, ⟨-1024, 0⟩, ⟨0, 1024⟩⟩⟩ : Sector).contains ⟨2, 7⟩ = true := by decide

theorem sector_contains_false_outside_bbox (s : Sector) (p : Pt)
    (h : s.boundingBox.contains p = false) : s.contains p = false := by
  cases hc : s.contains p with
  | false => rfl
  | true => rw [sector_contains_inside_bbox s p hc] at h; cases h
example : (⟨⟨-3, 2⟩, 7, ⟨.union, ⟨-1024, 0⟩, ⟨0, 1024⟩⟩⟩ : Sector).boundingBox.contains ⟨4, 5⟩ = false := by
  decide

/-- `points()` yields exactly the points `contains()` accepts. -/
theorem sector_mem_points_iff (s : Sector) (h : s.toCircle.InRange) (p : Pt) :
    p ∈ s.points ↔ s.contains p = true := by
  rw [sector_points_eq_filter_contains s, List.mem_filter, Sector.boundingBox_eq, Rect.mem_points h]
  constructor
  · exact fun hp => hp.2
  · exact fun hp => ⟨by rw [← Sector.boundingBox_eq]; exact sector_contains_inside_bbox s p hp, hp⟩
example : (⟨⟨-3, 2⟩, 7, ⟨.intersection, ⟨-1024, 0⟩, ⟨0, 1024⟩⟩⟩ : Sector).toCircle.InRange := by decide

/-- each point once -/
theorem sector_points_nodup (s : Sector) : s.points.Nodup := by
  rw [sector_points_eq_filter_contains s]
  exact (Rect.points_nodup _).filter _

/-- in row-major order -/
theorem sector_points_row_major (s : Sector) : s.points.Pairwise Pt.rowMajorLt := by
  rw [sector_points_eq_filter_contains s]
  exact (Rect.points_rowMajor _).filter _

/-- all inside `bounding_box()`, and all accepted by `contains()` -/
theorem sector_points_inside_bbox (s : Sector) (p : Pt) (hp : p ∈ s.points) :
    s.contains p = true ∧ s.boundingBox.contains p = true := by
  rw [sector_points_eq_filter_contains s, List.mem_filter] at hp
  exact ⟨hp.2, sector_contains_inside_bbox s p hp.2⟩
example : (⟨2, 7⟩ : Pt) ∈ (⟨⟨-3, 2⟩, 7, ⟨.intersection, ⟨-1024, 0⟩, ⟨0, 1024⟩⟩⟩ : Sector).points := by decide

end EG.C05
