/-
  C05 / C18 / C06 — the REGENERATED model of `Ellipse` and `EllipseContains` equals the hand-written one.

  Second half of the tie of `tools/tr_curve.py` (see `GeneratedCircle.lean` for the setting): every function of
  src/primitives/ellipse/{mod,points}.rs that was translated into `EG/Generated/CurveSrc.lean` is proved equal to the
  hand model `EG/Model/{Ellipse,EllipseContains}.lean` FOR ALL inputs (`<name>_src_eq_model`), then C05's ellipse
  headline is restated over the generated functions (`src_ellipse_*`).

  Where the two differ (stated exactly):
  * `EllipseContains::{new, contains}` compute in `u64` after the repair (`b as u64 * a as u64`, `x = point.x.pow(2) as
    u64`): the prelude's `u64` operations are mathematical (like the hand model's `Nat`), `i32 as u64` sign-extends;
    the hand model writes `(p.x ^ 2).toNat`. Equal unconditionally, because a square is not negative.
  * the free `center_2x(top_left, size)` adds a `Size` to a `Point` (cast `as i32` behind a `debug_assert!`): equal to
    the hand model's mathematical sum when `width - 1, height - 1 <= i32::MAX` (guard `AxesFitI32`; needed by `center_2x`,
    `contains`, `Scanlines::new`, `Points::new`); `with_center`, `center`, `offset` need only the `u32` type bound of
    the size (`IsU32`).
  * `Scanlines::next` is `rows.find_map(..)`: the prelude's `range_i32_find_map` recurses on the number of rows left, the
    hand model's `ScanlinesIt.nextFuel` on explicit fuel (`rows left + 1`): `ellipse_find_map_loop_eq_nextFuel`.
-/
import EG.Props.C05.GeneratedCircle
import EG.Props.C05.Ellipse
namespace EG.C05.Src
open EG EG.RectSrcPrelude EG.CurveSrcPrelude EG.Generated EG.C16.Src

/-! ### vocabulary -/

def ellipseOf (e : CurveSrc.Ellipse) : EG.Ellipse := ⟨e.top_left, e.size⟩
def ecOf (e : CurveSrc.EllipseContains) : EG.EllipseContains := ⟨e.a, e.b, e.threshold⟩
/-- The regenerated `ellipse::points::Scanlines { rows, columns, center_2x, ellipse_contains }`. -/
def ellipseScanlinesItOf (s : CurveSrc.EllipseScanlines) : Ellipse.ScanlinesIt :=
  ⟨s.rows.start, s.rows.end_, s.columns.start, s.columns.end_, s.center_2x, ecOf s.ellipse_contains⟩
def ellipsePointsItOf (p : CurveSrc.EllipsePoints) : Ellipse.PointsIt :=
  ⟨ellipseScanlinesItOf p.scanlines, scanlineOf p.current_scanline⟩

/-- `width - 1, height - 1 <= i32::MAX`: the `debug_assert!`s of `Point + Size` in `center_2x` hold. -/
def AxesFitI32 (s : Sz) : Prop := s.w ≤ 2147483648 ∧ s.h ≤ 2147483648
instance (s : Sz) : Decidable (AxesFitI32 s) := by unfold AxesFitI32; exact inferInstance
example : AxesFitI32 ⟨7, 2147483648⟩ := by decide

macro "ellipse_simp" "[" ls:Lean.Parser.Tactic.simpLemma,* "]" loc:(Lean.Parser.Tactic.location)? : tactic =>
  `(tactic| curve_simp [CurveSrc.Ellipse_mk, CurveSrc.Ellipse_top_left, CurveSrc.Ellipse_size, CurveSrc.EllipseContains_mk,
      CurveSrc.EllipseContains_a, CurveSrc.EllipseContains_b, CurveSrc.EllipseContains_threshold,
      CurveSrc.EllipseScanlines_mk, CurveSrc.EllipseScanlines_rows, CurveSrc.EllipseScanlines_columns,
      CurveSrc.EllipseScanlines_center_2x, CurveSrc.EllipseScanlines_ellipse_contains, CurveSrc.EllipseScanlines_set_rows,
      CurveSrc.EllipsePoints_mk, CurveSrc.EllipsePoints_scanlines, CurveSrc.EllipsePoints_current_scanline,
      CurveSrc.EllipsePoints_set_scanlines, CurveSrc.EllipsePoints_set_current_scanline, $ls,*] $[$loc]?)

/-! ### `EllipseContains` -/

theorem EllipseContains_new_src_eq_model (s : Sz) :
    ecOf (CurveSrc.EllipseContains_new s) = EllipseContains.new s := by
  unfold CurveSrc.EllipseContains_new EllipseContains.new
  simp only [diameter_to_threshold_src_eq_model]
  ellipse_simp [ecOf, decide_eq_true_eq]

/-- `v.pow(2) as u64` for `v : i32`: the sign-extending cast of a square is its `toNat`. -/
theorem i32_sq_as_u64 (a : Int) : i32_as_u64 (i32_pow a 2) = (a ^ 2).toNat := by
  have h : 0 ≤ a ^ 2 := by
    have := int_mul_self_nonneg a
    simpa [Int.pow_succ] using this
  simp only [i32_as_u64, i32_pow, h, ↓reduceIte]

theorem EllipseContains_contains_src_eq_model (e : CurveSrc.EllipseContains) (p : Pt) :
    CurveSrc.EllipseContains_contains e p = (ecOf e).contains p := by
  unfold CurveSrc.EllipseContains_contains EllipseContains.contains
  simp only [i32_sq_as_u64]
  ellipse_simp [ecOf, decide_eq_true_eq]
  rfl

/-! ### `Ellipse` -/

theorem center_2x_src_eq_model (tl : Pt) (s : Sz) (h : AxesFitI32 s) :
    CurveSrc.center_2x tl s = Ellipse.center2xOf tl s := by
  unfold CurveSrc.center_2x
  have hf : FitsI32 (RectSrc.Size_saturating_sub s (RectSrc.Size_new 1 1)) := by
    unfold AxesFitI32 at h
    unfold FitsI32
    rw [Size_saturating_sub_src_eq_model]
    simp only [Sz.satSub, RectSrc.Size_new, Size_mk]
    omega
  simp only [Point_add_Size_src_eq_model _ _ hf]
  rfl

theorem Ellipse_new_src_eq_model (tl : Pt) (s : Sz) : ellipseOf (CurveSrc.Ellipse_new tl s) = ⟨tl, s⟩ := rfl

theorem Ellipse_with_center_src_eq_model (c : Pt) (s : Sz) (h : IsU32 s) :
    ellipseOf (CurveSrc.Ellipse_with_center c s) = Ellipse.withCenter c s := by
  unfold CurveSrc.Ellipse_with_center
  simp only [with_center_src_eq_model c s h]
  rfl

theorem Ellipse_bounding_box_src_eq_model (e : CurveSrc.Ellipse) :
    CurveSrc.Ellipse_Dimensions_bounding_box e = (ellipseOf e).boundingBox := rfl

theorem Ellipse_center_src_eq_model (e : CurveSrc.Ellipse) (h : IsU32 e.size) :
    CurveSrc.Ellipse_center e = (ellipseOf e).center := by
  unfold CurveSrc.Ellipse_center
  have hb : IsU32 (ellipseOf e).boundingBox.size := h
  rw [Ellipse_bounding_box_src_eq_model, center_src_eq_model _ hb]
  rfl

theorem Ellipse_center_2x_src_eq_model (e : CurveSrc.Ellipse) (h : AxesFitI32 e.size) :
    CurveSrc.Ellipse_center_2x e = (ellipseOf e).center2x :=
  center_2x_src_eq_model _ _ h

theorem Ellipse_contains_src_eq_model (e : CurveSrc.Ellipse) (p : Pt) (h : AxesFitI32 e.size) :
    CurveSrc.Ellipse_ContainsPoint_contains e p = (ellipseOf e).contains p := by
  unfold CurveSrc.Ellipse_ContainsPoint_contains Ellipse.contains
  simp only [EllipseContains_contains_src_eq_model, Ellipse_center_2x_src_eq_model e h]
  have := EllipseContains_new_src_eq_model e.size
  simp only [CurveSrc.Ellipse_size] at this ⊢
  rw [this]
  rfl

theorem Ellipse_offset_src_eq_model (e : CurveSrc.Ellipse) (o : Int) (h : IsU32 e.size) :
    ellipseOf (CurveSrc.Ellipse_OffsetOutline_offset e o) = (ellipseOf e).offset o := by
  unfold CurveSrc.Ellipse_OffsetOutline_offset Ellipse.offset
  by_cases ho : o ≥ 0
  · have e1 : i32_as_u32 o = o.toNat := by simp only [i32_as_u32]; rw [if_pos (by omega)]
    simp only [i32_ge, ho, decide_true, ↓reduceIte, e1]
    rfl
  · have e1 : i32_as_u32 (i32_neg o) = (-o).toNat := by simp only [i32_as_u32, i32_neg]; rw [if_pos (by omega)]
    simp only [i32_ge, ho, decide_false, Bool.false_eq_true, ↓reduceIte, e1]
    rw [Ellipse_with_center_src_eq_model _ _ (by
      unfold IsU32 at h ⊢
      rw [Size_saturating_sub_src_eq_model]
      simp only [Sz.satSub, CurveSrc.Ellipse_size]
      omega), Ellipse_center_src_eq_model e h]
    rfl

theorem Ellipse_translate_src_eq_model (e : CurveSrc.Ellipse) (d : Pt) :
    ellipseOf (CurveSrc.Ellipse_Transform_translate e d) = (ellipseOf e).translate d := rfl

/-! ### `ellipse::points::Scanlines` -/

theorem EllipseScanlines_new_src_eq_model (e : CurveSrc.Ellipse) (h : AxesFitI32 e.size) :
    ellipseScanlinesItOf (CurveSrc.EllipseScanlines_new e) = (ellipseOf e).scanlines := by
  unfold CurveSrc.EllipseScanlines_new Ellipse.scanlines
  simp only [rows_ends_src_eq_model, columns_ends_src_eq_model, Ellipse_center_2x_src_eq_model e h,
    Ellipse_bounding_box_src_eq_model, ellipseScanlinesItOf]
  have := EllipseContains_new_src_eq_model e.size
  simp only [CurveSrc.Ellipse_size] at this ⊢
  rw [this]
  rfl

/-- The closure of `find_map` in `Scanlines::next`, as the hand model's `row`. -/
def ellipseRowSrc (s : CurveSrc.EllipseScanlines) (y : Int) : Option CurveSrc.Scanline :=
  let scaled_y := i32_sub (i32_mul y 2) (Point_y (CurveSrc.EllipseScanlines_center_2x s))
  option_map (range_i32_find (range_i32_clone (CurveSrc.EllipseScanlines_columns s)) (fun x =>
      CurveSrc.EllipseContains_contains (CurveSrc.EllipseScanlines_ellipse_contains s)
        (RectSrc.Point_new (i32_sub (i32_mul x 2) (Point_x (CurveSrc.EllipseScanlines_center_2x s))) scaled_y)))
    (fun x => CurveSrc.Scanline_new y (range_i32_new x (i32_sub (RangeI32_end (CurveSrc.EllipseScanlines_columns s))
      (i32_sub x (RangeI32_start (CurveSrc.EllipseScanlines_columns s))))))

theorem ellipse_row_closure_src_eq_model (s : CurveSrc.EllipseScanlines) (y : Int) :
    (ellipseRowSrc s y).map scanlineOf = (ellipseScanlinesItOf s).row y := by
  obtain ⟨⟨ys, ye⟩, ⟨xs, xe⟩, c2x, ec⟩ := s
  unfold ellipseRowSrc Ellipse.ScanlinesIt.row
  simp only [EllipseContains_contains_src_eq_model]
  simp only [mirroredRange, rangeFind, option_map, range_i32_find, Option.map_map,
    ellipseScanlinesItOf, CurveSrc.EllipseScanlines_columns, CurveSrc.EllipseScanlines_center_2x,
    CurveSrc.EllipseScanlines_ellipse_contains]
  rfl

/-- The row state of the scanline iterator does not influence `row`. -/
theorem ellipse_row_indep (ys ys' ye xs xe : Int) (c2x : Pt) (ec : EllipseContains) (y : Int) :
    (⟨ys, ye, xs, xe, c2x, ec⟩ : Ellipse.ScanlinesIt).row y = (⟨ys', ye, xs, xe, c2x, ec⟩ : Ellipse.ScanlinesIt).row y := rfl

/-- `find_map` over the `n` rows left = the hand model's `nextFuel` on any larger fuel. -/
theorem ellipse_find_map_loop_eq_nextFuel (f : Int → Option CurveSrc.Scanline) (ye xs xe : Int) (c2x : Pt)
    (ec : EllipseContains)
    (hf : ∀ y, (f y).map scanlineOf = (⟨y, ye, xs, xe, c2x, ec⟩ : Ellipse.ScanlinesIt).row y) :
    ∀ (n fuel : Nat) (ys : Int), n = (ye - ys).toNat → n < fuel →
      (((range_i32_find_map_loop f n ys ye).1.map scanlineOf,
        (⟨(range_i32_find_map_loop f n ys ye).2.start, (range_i32_find_map_loop f n ys ye).2.end_, xs, xe, c2x, ec⟩ :
          Ellipse.ScanlinesIt)) = Ellipse.ScanlinesIt.nextFuel fuel ⟨ys, ye, xs, xe, c2x, ec⟩) := by
  intro n
  induction n with
  | zero =>
    intro fuel ys hn hfuel
    cases fuel with
    | zero => omega
    | succ m =>
      have : ¬ ys < ye := by omega
      simp only [range_i32_find_map_loop, Ellipse.ScanlinesIt.nextFuel, this, ↓reduceIte, Option.map_none]
  | succ k ih =>
    intro fuel ys hn hfuel
    cases fuel with
    | zero => omega
    | succ m =>
      have hlt : ys < ye := by omega
      have hrow := hf ys
      unfold range_i32_find_map_loop Ellipse.ScanlinesIt.nextFuel
      simp only [hlt, ↓reduceIte]
      rw [← hrow]
      cases hfy : f ys with
      | some v => simp only [Option.map_some]
      | none =>
        simp only [Option.map_none]
        exact ih m (ys + 1) (by omega) (by omega)

/-- **One regenerated `Scanlines::next` (`rows.find_map(..)`) = one `ScanlinesIt.next` of the hand model.** -/
theorem EllipseScanlines_Iterator_next_src_eq_model (s : CurveSrc.EllipseScanlines) :
    ((CurveSrc.EllipseScanlines_Iterator_next s).1.map scanlineOf,
      ellipseScanlinesItOf (CurveSrc.EllipseScanlines_Iterator_next s).2) = (ellipseScanlinesItOf s).next := by
  have hrow := ellipse_row_closure_src_eq_model s
  obtain ⟨⟨ys, ye⟩, ⟨xs, xe⟩, c2x, ec⟩ := s
  unfold CurveSrc.EllipseScanlines_Iterator_next Ellipse.ScanlinesIt.next
  change ((range_i32_find_map ⟨ys, ye⟩ (ellipseRowSrc ⟨⟨ys, ye⟩, ⟨xs, xe⟩, c2x, ec⟩)).1.map scanlineOf,
    ellipseScanlinesItOf ⟨(range_i32_find_map ⟨ys, ye⟩ (ellipseRowSrc ⟨⟨ys, ye⟩, ⟨xs, xe⟩, c2x, ec⟩)).2, ⟨xs, xe⟩, c2x, ec⟩)
    = _
  by_cases h : ys < ye
  · simp only [range_i32_find_map, h, ↓reduceIte, ellipseScanlinesItOf]
    exact ellipse_find_map_loop_eq_nextFuel _ ye xs xe c2x (ecOf ec) (fun y => by
      rw [hrow y]; rfl) _ _ ys rfl (by omega)
  · simp only [range_i32_find_map, h, ↓reduceIte, ellipseScanlinesItOf, Option.map_none]
    have : (ye - ys).toNat = 0 := by omega
    rw [this]
    simp only [Ellipse.ScanlinesIt.nextFuel, h, ↓reduceIte]

/-! ### `ellipse::Points` -/

theorem EllipsePoints_new_src_eq_model (e : CurveSrc.Ellipse) (h : AxesFitI32 e.size) :
    ellipsePointsItOf (CurveSrc.EllipsePoints_new e) = (ellipseOf e).pointsIt := by
  unfold CurveSrc.EllipsePoints_new Ellipse.pointsIt ellipsePointsItOf
  simp only [EllipseScanlines_new_src_eq_model e h, Scanline_new_empty_src_eq_model]

theorem Ellipse_points_src_eq_model (e : CurveSrc.Ellipse) :
    CurveSrc.Ellipse_PointsIter_points e = CurveSrc.EllipsePoints_new e := rfl

def ellipseNextView (r : Option Pt × CurveSrc.EllipsePoints) : Option (Pt × Ellipse.PointsIt) :=
  r.1.map (fun pt => (pt, ellipsePointsItOf r.2))

/-- **One regenerated `Points::next` = one `PointsIt.next` of the hand model.** -/
theorem EllipsePoints_Iterator_next_src_eq_model (p : CurveSrc.EllipsePoints) :
    ellipseNextView (CurveSrc.EllipsePoints_Iterator_next p) = (ellipsePointsItOf p).next := by
  obtain ⟨sl, cur⟩ := p
  unfold CurveSrc.EllipsePoints_Iterator_next Ellipse.PointsIt.next ellipseNextView
  have h1 := Scanline_Iterator_next_src_eq_model cur
  have h2 := EllipseScanlines_Iterator_next_src_eq_model sl
  simp only [CurveSrc.EllipsePoints_current_scanline, CurveSrc.EllipsePoints_set_current_scanline,
    CurveSrc.EllipsePoints_scanlines, CurveSrc.EllipsePoints_set_scanlines, ellipsePointsItOf]
  rw [← h1]
  cases hc : (CurveSrc.Scanline_Iterator_next cur).1 with
  | some pt => simp only [Option.map_some]
  | none =>
    simp only [Option.map_none]
    rw [← h2]
    cases hs : (CurveSrc.EllipseScanlines_Iterator_next sl).1 with
    | none => simp only [Option.map_none]
    | some s' =>
      simp only [Option.map_some]
      have h3 := Scanline_Iterator_next_src_eq_model s'
      rw [← h3]
      cases hn : (CurveSrc.Scanline_Iterator_next s').1 with
      | none => simp only [Option.map_none]
      | some pt => simp only [Option.map_some]

def srcEllipseCollect : Nat → CurveSrc.EllipsePoints → List Pt
  | 0, _ => []
  | steps + 1, p =>
    match CurveSrc.EllipsePoints_Iterator_next p with
    | (some pt, p') => pt :: srcEllipseCollect steps p'
    | (none, _) => []

theorem srcEllipseCollect_src_eq_model : ∀ (steps : Nat) (p : CurveSrc.EllipsePoints),
    srcEllipseCollect steps p = (ellipsePointsItOf p).toListFuel steps := by
  intro steps
  induction steps with
  | zero => intro p; rfl
  | succ n ih =>
    intro p
    have h := EllipsePoints_Iterator_next_src_eq_model p
    unfold srcEllipseCollect Ellipse.PointsIt.toListFuel
    rw [← h]
    unfold ellipseNextView
    cases hs : CurveSrc.EllipsePoints_Iterator_next p with
    | mk v p' =>
      cases v with
      | none => simp only [Option.map_none]
      | some pt => simp only [Option.map_some, ih p']

/-- `ellipse.points()` collected from the regenerated `PointsIter::points` + `next`. -/
def srcEllipsePoints (e : CurveSrc.Ellipse) : List Pt :=
  let it := CurveSrc.Ellipse_PointsIter_points e
  srcEllipseCollect ((ellipsePointsItOf it).budget + 1) it

/-- **The regenerated iterator yields the hand model's `Ellipse.points`.** -/
theorem ellipse_points_src_eq_model (e : CurveSrc.Ellipse) (h : AxesFitI32 e.size) :
    srcEllipsePoints e = (ellipseOf e).points := by
  unfold srcEllipsePoints Ellipse.points
  simp only [srcEllipseCollect_src_eq_model, Ellipse_points_src_eq_model, EllipsePoints_new_src_eq_model e h]

/-! ### C05's headline for ellipses, both sides regenerated -/

theorem axesFit_of_inRange {e : CurveSrc.Ellipse} (h : (ellipseOf e).InRange) : AxesFitI32 e.size := by
  unfold Ellipse.InRange Rect.InRange at h
  unfold AxesFitI32
  have h1 := h.2.2.1
  have h2 := h.2.2.2.1
  simp only [Ellipse.boundingBox, ellipseOf] at h1 h2
  omega

/-- **`points()` is `bounding_box().points()` filtered by `contains()`**, all three regenerated. -/
theorem src_ellipse_points_eq_filter_contains (e : CurveSrc.Ellipse) (h : (ellipseOf e).InRange) :
    srcEllipsePoints e = (srcPoints (CurveSrc.Ellipse_Dimensions_bounding_box e)).filter
      (CurveSrc.Ellipse_ContainsPoint_contains e) := by
  have hd := axesFit_of_inRange h
  rw [ellipse_points_src_eq_model e hd, points_src_eq_model, Ellipse_bounding_box_src_eq_model,
    ellipse_points_eq_filter_contains _ h]
  congr 1
  funext p
  exact (Ellipse_contains_src_eq_model e p hd).symm
example : (ellipseOf ⟨⟨-3, 2⟩, ⟨2, 10⟩⟩).InRange := by decide
example : srcEllipsePoints ⟨⟨-1, 2⟩, ⟨3, 2⟩⟩ = [⟨-1, 2⟩, ⟨0, 2⟩, ⟨1, 2⟩, ⟨-1, 3⟩, ⟨0, 3⟩, ⟨1, 3⟩] := by decide
/-- the thin 2x10 ellipse (empty first and last row: `find_map` skips them) through the regenerated iterator -/
example : (srcEllipsePoints ⟨⟨0, 0⟩, ⟨2, 10⟩⟩).length = 16 := by decide

theorem src_ellipse_mem_points_iff (e : CurveSrc.Ellipse) (h : (ellipseOf e).InRange) (p : Pt) :
    p ∈ srcEllipsePoints e ↔ CurveSrc.Ellipse_ContainsPoint_contains e p = true := by
  rw [ellipse_points_src_eq_model e (axesFit_of_inRange h), Ellipse_contains_src_eq_model e p (axesFit_of_inRange h)]
  exact ellipse_mem_points_iff _ h p

theorem src_ellipse_points_nodup (e : CurveSrc.Ellipse) (h : (ellipseOf e).InRange) : (srcEllipsePoints e).Nodup := by
  rw [ellipse_points_src_eq_model e (axesFit_of_inRange h)]; exact ellipse_points_nodup _ h

theorem src_ellipse_points_row_major (e : CurveSrc.Ellipse) (h : (ellipseOf e).InRange) :
    (srcEllipsePoints e).Pairwise Pt.rowMajorLt := by
  rw [ellipse_points_src_eq_model e (axesFit_of_inRange h)]; exact ellipse_points_row_major _ h

theorem src_ellipse_contains_inside_bbox (e : CurveSrc.Ellipse) (p : Pt) (hd : AxesFitI32 e.size)
    (h : CurveSrc.Ellipse_ContainsPoint_contains e p = true) :
    (CurveSrc.Ellipse_Dimensions_bounding_box e).contains p = true := by
  rw [Ellipse_contains_src_eq_model e p hd] at h
  exact ellipse_contains_inside_bbox _ p h
example : CurveSrc.Ellipse_ContainsPoint_contains ⟨⟨-3, 2⟩, ⟨7, 4⟩⟩ ⟨0, 4⟩ = true := by decide

end EG.C05.Src
