/-
  C05 (rectangle part) — `points()` yields exactly the integer points for which `contains()` is
  true: each once, in row-major order, all inside `bounding_box()`; `contains()` is false for
  every other point, in particular outside the bounding box.

  The rectangle is the one primitive of C05 whose theorems were proved for C16 (Props/C16.lean:
  `mem_points_iff_contains`, `points_row_major`, `points_nodup`, about `EG.Model.Rect`, the
  transcription of core/src/primitives/rectangle/{mod,points}.rs; `Rect.points` is the `Points`
  iterator state machine drained, `Rect.contains` the four comparisons of `contains()`). They are
  restated here in C05's words as corollaries citing the C16 theorems, so that the check of C05
  audits them. `Rectangle::bounding_box()` returns `*self` (rectangle/mod.rs:58-62), so "inside
  `bounding_box()`" is "inside the rectangle itself"; it is stated with an explicit
  `boundingBox` so that the sentence reads as in the property.
  `Rect.InRange` = `top_left + size` does not overflow `i32` (decidable guard, holds for every
  display-scale rectangle, zero sizes and negative positions included).
-/
import EG.Props.C16
namespace EG.C05
open EG EG.Rect

/-- `impl Dimensions for Rectangle { fn bounding_box(&self) -> Rectangle { *self } }`. -/
def rectBoundingBox (r : Rect) : Rect := r

/-- `points()` yields exactly the points `contains()` accepts (C16 `mem_points_iff_contains`). -/
theorem rect_mem_points_iff (r : Rect) (h : r.InRange) (p : Pt) :
    p ∈ r.points ↔ r.contains p = true :=
  C16.mem_points_iff_contains r h p
example : (⟨⟨-3, 2⟩, ⟨4, 0⟩⟩ : Rect).InRange ∧ (⟨⟨-3, 2⟩, ⟨4, 5⟩⟩ : Rect).InRange := by decide

/-- each point once (C16 `points_nodup`) -/
theorem rect_points_nodup (r : Rect) : r.points.Nodup := C16.points_nodup r

/-- in row-major order: strictly increasing in (y, x) (C16 `points_row_major`) -/
theorem rect_points_row_major (r : Rect) : r.points.Pairwise Pt.rowMajorLt := C16.points_row_major r

/-- all inside `bounding_box()` -/
theorem rect_points_inside_bbox (r : Rect) (h : r.InRange) (p : Pt) (hp : p ∈ r.points) :
    (rectBoundingBox r).contains p = true :=
  (rect_mem_points_iff r h p).mp hp
example : (⟨-2, 3⟩ : Pt) ∈ (⟨⟨-3, 2⟩, ⟨4, 5⟩⟩ : Rect).points := by decide

/-- `contains()` is false for every other point (a point `points()` does not yield) ... -/
theorem rect_contains_false_of_not_mem (r : Rect) (h : r.InRange) (p : Pt) (hp : p ∉ r.points) :
    r.contains p = false := by
  cases hc : r.contains p with
  | false => rfl
  | true => exact absurd ((rect_mem_points_iff r h p).mpr hc) hp
example : (⟨1, 3⟩ : Pt) ∉ (⟨⟨-3, 2⟩, ⟨4, 5⟩⟩ : Rect).points := by decide

/-- ... in particular for every point outside the bounding box (definitional for a rectangle: its
bounding box is the rectangle itself; stated only so that the sentence is complete). -/
theorem rect_contains_false_outside_bbox (r : Rect) (p : Pt)
    (h : (rectBoundingBox r).contains p = false) : r.contains p = false := h
example : (rectBoundingBox ⟨⟨-3, 2⟩, ⟨4, 5⟩⟩).contains ⟨1, 3⟩ = false := by decide

/-- The whole sentence in one statement: as lists, `points()` is the row-major enumeration of the
bounding box filtered by `contains()` (the form the other five shapes are stated in). -/
theorem rect_points_eq_filter_contains (r : Rect) (h : r.InRange) :
    r.points = (rectBoundingBox r).points.filter r.contains := by
  unfold rectBoundingBox
  symm
  rw [List.filter_eq_self]
  intro p hp
  exact (rect_mem_points_iff r h p).mp hp
example : (⟨⟨2147483000, -5⟩, ⟨647, 9⟩⟩ : Rect).InRange := by decide

end EG.C05
