/-
  C05 (rounded rectangle part) — `points()` yields exactly the integer points for which `contains()`
  is true: each once, in row-major order, all inside `bounding_box()`; `contains()` is false for
  every other point, in particular outside the bounding box. All corner radii: equal, unequal,
  larger than the rectangle (they are confined first), opposite corner boxes overlapping.

  Model: `EG.Model.RoundedRect` (src/primitives/rounded_rectangle/{mod,corner_radii,ellipse_quadrant,
  points}.rs arm for arm, as repaired: empty corner rows give empty scanlines, `Points` skips empty
  scanlines, `contains` checks the left and the right corner independently).
  `RoundedRect.InRange` = the bounding box does not saturate / overflow `i32` (decidable guard).
-/
import EG.Lemmas.RoundedRectShape
namespace EG.C05
open EG EG.RoundedRect

/-- **`points()` is `bounding_box().points()` filtered by `contains()`**, as lists: same points,
same (row-major) order, same multiplicity — for all radii. -/
theorem rrect_points_eq_filter_contains (r : RoundedRect) (h : r.InRange) :
    r.points = r.boundingBox.points.filter r.contains :=
  RoundedRect.points_eq_filter r h
example : (⟨⟨⟨-3, 2⟩, ⟨7, 5⟩⟩, ⟨⟨2, 3⟩, ⟨9, 1⟩, ⟨0, 0⟩, ⟨4, 4⟩⟩⟩ : RoundedRect).InRange := by decide

/-- `contains()` is false for every point outside the bounding box. -/
theorem rrect_contains_inside_bbox (r : RoundedRect) (h : r.InRange) (p : Pt)
    (hc : r.contains p = true) : r.boundingBox.contains p = true :=
  RoundedRect.contains_imp_bbox r h hc
example : (⟨⟨⟨-3, 2⟩, ⟨7, 5⟩⟩, ⟨⟨2, 3⟩, ⟨9, 1⟩, ⟨0, 0⟩, ⟨4, 4⟩⟩⟩ : RoundedRect).contains ⟨0, 4⟩ = true := by
  decide

theorem rrect_contains_false_outside_bbox (r : RoundedRect) (h : r.InRange) (p : Pt)
    (hb : r.boundingBox.contains p = false) : r.contains p = false := by
  cases hc : r.contains p with
  | false => rfl
  | true => rw [rrect_contains_inside_bbox r h p hc] at hb; cases hb
example : (⟨⟨⟨-3, 2⟩, ⟨7, 5⟩⟩, ⟨⟨2, 3⟩, ⟨9, 1⟩, ⟨0, 0⟩, ⟨4, 4⟩⟩⟩ : RoundedRect).boundingBox.contains ⟨4, 4⟩
    = false := by decide

/-- `points()` yields exactly the points `contains()` accepts. -/
theorem rrect_mem_points_iff (r : RoundedRect) (h : r.InRange) (p : Pt) :
    p ∈ r.points ↔ r.contains p = true := by
  rw [rrect_points_eq_filter_contains r h, List.mem_filter]
  unfold boundingBox
  rw [Rect.mem_points h]
  constructor
  · exact fun hp => hp.2
  · exact fun hp => ⟨rrect_contains_inside_bbox r h p hp, hp⟩

/-- each point once -/
theorem rrect_points_nodup (r : RoundedRect) (h : r.InRange) : r.points.Nodup := by
  rw [rrect_points_eq_filter_contains r h]
  exact (Rect.points_nodup _).filter _

/-- in row-major order -/
theorem rrect_points_row_major (r : RoundedRect) (h : r.InRange) :
    r.points.Pairwise Pt.rowMajorLt := by
  rw [rrect_points_eq_filter_contains r h]
  exact (Rect.points_rowMajor _).filter _

/-- all inside `bounding_box()` -/
theorem rrect_points_inside_bbox (r : RoundedRect) (h : r.InRange) (p : Pt) (hp : p ∈ r.points) :
    r.boundingBox.contains p = true :=
  rrect_contains_inside_bbox r h p ((rrect_mem_points_iff r h p).mp hp)
example : (⟨1, 0⟩ : Pt) ∈ (⟨⟨⟨0, 0⟩, ⟨4, 3⟩⟩, CornerRadii.new ⟨1, 1⟩⟩ : RoundedRect).points := by decide

/-- In every row `contains` accepts exactly the scanline `x_start .. x_end` of the `Scanlines`
iterator (the first hit of the left corner of the row, or the inner edge of its box if it has no
hit; one past the last hit of the right corner, or the inner edge of its box) — also when the
boxes of opposite corners overlap and `x_start > x_end`. -/
theorem rrect_row_is_scanline (r : RoundedRect) (h : r.InRange) (x y : Int) :
    r.contains ⟨x, y⟩ = true ↔
      (r.rect.tl.y ≤ y ∧ y < r.rect.tl.y + r.rect.size.h) ∧
        (r.scanlines.row y).xs ≤ x ∧ x < (r.scanlines.row y).xe :=
  RoundedRect.contains_iff_row r h x y

/-- The scanline iterator yields one scanline for every row of the bounding box, in order (it
never ends early; empty rows give empty scanlines, which `Points` skips). -/
theorem rrect_scanlines_cover_all_rows (r : RoundedRect) (h : r.InRange) :
    r.scanlines.toList.map (·.y) = irange r.rect.tl.y (r.rect.tl.y + r.rect.size.h) := by
  unfold scanlines
  rw [RRContains.toList_eq, (new_rows r h).1, (new_rows r h).2, List.map_map]
  have : ∀ y ∈ irange r.rect.tl.y (r.rect.tl.y + r.rect.size.h),
      ((fun s : Scanline => s.y) ∘ (RRContains.new r).row) y = id y := fun _ _ => rfl
  rw [List.map_congr_left this, List.map_id]

-- [V] rounded rectangles whose bounding box leaves the i32 range (guard `RoundedRect.InRange` false; the real code saturates or panics on overflow there, C08's topic): carried by correspondence + oracle only
end EG.C05
