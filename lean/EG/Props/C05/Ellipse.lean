/-
  C05 (ellipse part) — `points()` yields exactly the integer points for which `contains()` is true:
  each once, in row-major order, all inside `bounding_box()`; `contains()` is false for every other
  point, in particular outside the bounding box — for ALL sizes, including thin ellipses whose
  outer rows contain no point (the repaired `Scanlines::next` skips them with `rows.find_map`).

  Model: `EG.Model.Ellipse` (src/primitives/ellipse/{mod,points}.rs arm for arm) on the shared
  `EllipseContains`, unbounded naturals (the `u32` range of the products is C08's topic).
-/
import EG.Lemmas.EllipsePoints
namespace EG.C05
open EG EG.Ellipse

/-- Row interval lemma: a row either has no accepted point at all (then the scanline closure
returns `None` and the row is skipped), or the scanline "first hit .. mirrored" is non-empty,
inside the columns, centred and exactly the set of accepted `x` of that row. -/
theorem ellipse_row_hits_interval (e : Ellipse) (y : Int) :
    (mirroredRange (hit e.center2x (EllipseContains.new e.size) y) e.tl.x (e.tl.x + e.size.w) = none ∧
      ∀ x, e.contains ⟨x, y⟩ = false) ∨
    (∃ l u, mirroredRange (hit e.center2x (EllipseContains.new e.size) y) e.tl.x (e.tl.x + e.size.w) =
        some (l, u) ∧ e.tl.x ≤ l ∧ l < u ∧ u ≤ e.tl.x + e.size.w ∧
        l + u = e.tl.x + (e.tl.x + e.size.w) ∧ (∀ x, e.contains ⟨x, y⟩ = true ↔ l ≤ x ∧ x < u)) :=
  Ellipse.row_spec e y

/-- **`points()` is `bounding_box().points()` filtered by `contains()`**, as lists. -/
theorem ellipse_points_eq_filter_contains (e : Ellipse) (h : e.InRange) :
    e.points = e.boundingBox.points.filter e.contains :=
  Ellipse.points_eq_filter h
example : (⟨⟨-3, 2⟩, ⟨2, 10⟩⟩ : Ellipse).InRange := by decide
/-- the thin 2x10 ellipse (empty first and last row) really has points -/
example : (⟨⟨0, 0⟩, ⟨2, 10⟩⟩ : Ellipse).points.length = 16 := by decide

/-- `contains()` is false for every point outside the bounding box. -/
theorem ellipse_contains_inside_bbox (e : Ellipse) (p : Pt) (h : e.contains p = true) :
    e.boundingBox.contains p = true :=
  Ellipse.contains_imp_bbox h
example : (⟨⟨-3, 2⟩, ⟨7, 4⟩⟩ : Ellipse).contains ⟨0, 4⟩ = true := by decide

theorem ellipse_contains_false_outside_bbox (e : Ellipse) (p : Pt)
    (h : e.boundingBox.contains p = false) : e.contains p = false := by
  cases hc : e.contains p with
  | false => rfl
  | true => rw [ellipse_contains_inside_bbox e p hc] at h; cases h
example : (⟨⟨-3, 2⟩, ⟨7, 4⟩⟩ : Ellipse).boundingBox.contains ⟨4, 5⟩ = false := by decide

/-- `points()` yields exactly the points `contains()` accepts. -/
theorem ellipse_mem_points_iff (e : Ellipse) (h : e.InRange) (p : Pt) :
    p ∈ e.points ↔ e.contains p = true := by
  rw [ellipse_points_eq_filter_contains e h, List.mem_filter, Rect.mem_points h]
  constructor
  · exact fun hp => hp.2
  · exact fun hp => ⟨ellipse_contains_inside_bbox e p hp, hp⟩

/-- each point once -/
theorem ellipse_points_nodup (e : Ellipse) (h : e.InRange) : e.points.Nodup := by
  rw [ellipse_points_eq_filter_contains e h]
  exact (Rect.points_nodup _).filter _

/-- in row-major order -/
theorem ellipse_points_row_major (e : Ellipse) (h : e.InRange) : e.points.Pairwise Pt.rowMajorLt := by
  rw [ellipse_points_eq_filter_contains e h]
  exact (Rect.points_rowMajor _).filter _

/-- all inside `bounding_box()` -/
theorem ellipse_points_inside_bbox (e : Ellipse) (h : e.InRange) (p : Pt) (hp : p ∈ e.points) :
    e.boundingBox.contains p = true :=
  ellipse_contains_inside_bbox e p ((ellipse_mem_points_iff e h p).mp hp)
example : (⟨0, 1⟩ : Pt) ∈ (⟨⟨0, 0⟩, ⟨2, 10⟩⟩ : Ellipse).points := by decide

-- [V] ellipses whose bounding box leaves the i32 range (guard `Ellipse.InRange` false) or whose `EllipseContains` products leave the u32 range (C08's topic; the model uses unbounded naturals): carried by correspondence + oracle only
end EG.C05
