/-
  C05 / C18 / C06 — the REGENERATED model of `Circle` (and of `Scanline`'s iterator part) equals the hand-written one.

  `EG/Generated/CurveSrc.lean` is written by `tools/tr_curve.py` from /repo's Rust text on every run of a check
  (src/primitives/circle/{mod,points}.rs, src/primitives/common/scanline.rs, `PointExt::length_squared`; one Lean
  `def` per Rust function, arm for arm, one `structure` per Rust `struct`; Rust primitives are functions of the
  trusted preludes `EG/Model/RectSrcPrelude.lean` + `EG/Model/CurveSrcPrelude.lean`; `Rectangle` / `Point` / `Size`
  functions are the regenerated `RectSrc.*`, tied to `EG/Model/Rect.lean` in `Props/C16/Generated.lean`). This file
  proves `<name>_src_eq_model` for every translated circle function: generated definition = hand model
  (`EG/Model/Circle.lean`, `EG/Model/Scanline.lean`) FOR ALL inputs, then restates C05's circle headline over the
  generated functions (`src_circle_*`).

  Where the two differ (stated exactly):
  * the Rust structs are regenerated as Lean structures of their own (`CurveSrc.Circle`, `CurveSrc.Scanline` with its
    `Range<i32>` field, `CurveSrc.CircleScanlines` with two ranges, `CurveSrc.CirclePoints`); `circleOf`, `scanlineOf`,
    `scanlinesItOf`, `circlePointsItOf` are the (field by field) views as the hand model's records.
  * `center_2x` adds `Size::new(radius, radius)` to a `Point`: that `+` casts with `as i32` behind a `debug_assert!`;
    the hand model adds mathematically. They agree when `diameter - 1 <= i32::MAX` (guard `DiamFitsI32`, needed by
    `center_2x`, `contains`, `Scanlines::new`, `Points::new`); `with_center`, `center`, `offset` need the `u32` type
    bound only (`DiamIsU32`); everything else is unconditional.
  * `(delta.length_squared() as u32)`: the hand model writes `.toNat`, the generated text the wrapping cast
    `i32_as_u32`; equal because a sum of two squares is not negative (no guard).
  * a call of `next` returns (value, updated iterator); the hand model's `Scanline.next` / `PointsIt.next` return
    `Option (value × state)`: `*_next_src_eq_model` compare through `Option.map`.
-/
import EG.Generated.CurveSrc
import EG.Props.C16.GeneratedPoints
import EG.Props.C05.Circle
namespace EG.C05.Src
open EG EG.RectSrcPrelude EG.CurveSrcPrelude EG.Generated EG.C16.Src

/-! ### vocabulary -/

/-- The regenerated `struct Circle { top_left, diameter }` as the hand model's record. -/
def circleOf (c : CurveSrc.Circle) : EG.Circle := ⟨c.top_left, c.diameter⟩
/-- The regenerated `struct Scanline { y, x: Range<i32> }` as the hand model's flat record. -/
def scanlineOf (s : CurveSrc.Scanline) : EG.Scanline := ⟨s.y, s.x.start, s.x.end_⟩
/-- The regenerated `circle::points::Scanlines { rows, columns, center_2x, threshold }`. -/
def scanlinesItOf (s : CurveSrc.CircleScanlines) : Circle.ScanlinesIt :=
  ⟨s.rows.start, s.rows.end_, s.columns.start, s.columns.end_, s.center_2x, s.threshold⟩
/-- The regenerated `circle::Points { scanlines, current_scanline }`. -/
def circlePointsItOf (p : CurveSrc.CirclePoints) : Circle.PointsIt :=
  ⟨scanlinesItOf p.scanlines, scanlineOf p.current_scanline⟩

/-- `diameter - 1 <= i32::MAX`: the `debug_assert!` of `Point + Size` in `center_2x` holds. -/
def DiamFitsI32 (d : Nat) : Prop := d ≤ 2147483648
/-- `diameter <= u32::MAX`: the type bound that `Nat` lacks. -/
def DiamIsU32 (d : Nat) : Prop := d ≤ 4294967295
instance (d : Nat) : Decidable (DiamFitsI32 d) := by unfold DiamFitsI32; exact inferInstance
instance (d : Nat) : Decidable (DiamIsU32 d) := by unfold DiamIsU32; exact inferInstance
theorem DiamFitsI32.isU32 {d : Nat} (h : DiamFitsI32 d) : DiamIsU32 d := by
  unfold DiamFitsI32 at h; unfold DiamIsU32; omega
example : DiamFitsI32 7 := by decide
example : DiamIsU32 4000000000 := by decide

/-- unfold every primitive of the two preludes (and the listed definitions) -/
macro "curve_simp" "[" ls:Lean.Parser.Tactic.simpLemma,* "]" loc:(Lean.Parser.Tactic.location)? : tactic =>
  `(tactic| prelude_simp [i32_pow, u32_pow, u32_as_u64, i32_as_u64, u64_add, u64_sub, u64_mul, u64_div, u64_eq, u64_ne,
      u64_lt, u64_le, u64_gt, u64_ge, range_i32_clone, range_i32_find, option_map,
      CurveSrc.Circle_mk, CurveSrc.Circle_top_left, CurveSrc.Circle_diameter, CurveSrc.Scanline_mk, CurveSrc.Scanline_y,
      CurveSrc.Scanline_x, CurveSrc.Scanline_set_x, CurveSrc.Scanline_set_y, CurveSrc.CircleScanlines_mk,
      CurveSrc.CircleScanlines_rows, CurveSrc.CircleScanlines_columns, CurveSrc.CircleScanlines_center_2x,
      CurveSrc.CircleScanlines_threshold, CurveSrc.CircleScanlines_set_rows, CurveSrc.CirclePoints_mk,
      CurveSrc.CirclePoints_scanlines, CurveSrc.CirclePoints_current_scanline, CurveSrc.CirclePoints_set_scanlines,
      CurveSrc.CirclePoints_set_current_scanline, $ls,*] $[$loc]?)

/-! ### helpers: `diameter_to_threshold`, `length_squared`, `Scanline` -/

theorem diameter_to_threshold_src_eq_model (d : Nat) : CurveSrc.diameter_to_threshold d = diameterToThreshold d := by
  curve_simp [CurveSrc.diameter_to_threshold, diameterToThreshold, Nat.pow_two, decide_eq_true_eq]

theorem length_squared_src_eq_model (p : Pt) : CurveSrc.Point_PointExt_length_squared p = lengthSquared p := by
  curve_simp [CurveSrc.Point_PointExt_length_squared, lengthSquared, Int.pow_succ, Int.pow_zero, Int.one_mul]

theorem int_mul_self_nonneg (a : Int) : 0 ≤ a * a := by
  rcases Int.le_total 0 a with h | h
  · exact Int.mul_nonneg h h
  · have := Int.mul_nonneg (Int.neg_nonneg_of_nonpos h) (Int.neg_nonneg_of_nonpos h)
    rwa [Int.neg_mul_neg] at this

/-- `(length_squared() as u32)`: the wrapping cast of a sum of squares is its `toNat`. -/
theorem length_squared_as_u32 (p : Pt) : i32_as_u32 (lengthSquared p) = (lengthSquared p).toNat := by
  have h : 0 ≤ lengthSquared p := by
    unfold lengthSquared
    have := int_mul_self_nonneg p.x; have := int_mul_self_nonneg p.y; omega
  simp only [i32_as_u32, h, ↓reduceIte]

theorem Scanline_new_src_eq_model (y a b : Int) : scanlineOf (CurveSrc.Scanline_new y ⟨a, b⟩) = ⟨y, a, b⟩ := rfl
theorem Scanline_new_empty_src_eq_model (y : Int) :
    scanlineOf (CurveSrc.Scanline_new_empty y) = Scanline.newEmpty y := rfl
theorem Scanline_is_empty_src_eq_model (s : CurveSrc.Scanline) :
    CurveSrc.Scanline_is_empty s = (scanlineOf s).isEmpty := rfl

/-- One regenerated `Scanline::next` = one `Scanline.next` of the hand model (same point, same successor). -/
theorem Scanline_Iterator_next_src_eq_model (s : CurveSrc.Scanline) :
    (CurveSrc.Scanline_Iterator_next s).1.map (fun p => (p, scanlineOf (CurveSrc.Scanline_Iterator_next s).2))
      = (scanlineOf s).next := by
  obtain ⟨y, ⟨a, b⟩⟩ := s
  unfold CurveSrc.Scanline_Iterator_next Scanline.next
  by_cases h : a < b
  · curve_simp [RectSrc.Point_new, scanlineOf]
    simp [h]
  · curve_simp [RectSrc.Point_new, scanlineOf]
    simp [h]

/-- An exhausted scanline is left as it is. -/
theorem Scanline_Iterator_next_none (s : CurveSrc.Scanline) (h : (CurveSrc.Scanline_Iterator_next s).1 = none) :
    (CurveSrc.Scanline_Iterator_next s).2 = s := by
  obtain ⟨y, ⟨a, b⟩⟩ := s
  unfold CurveSrc.Scanline_Iterator_next at h ⊢
  by_cases hab : a < b
  · curve_simp [] at h; simp [hab] at h
  · curve_simp []; simp [hab]
example : (CurveSrc.Scanline_Iterator_next ⟨3, ⟨5, 5⟩⟩).1 = none := by decide

/-! ### `Circle` -/

theorem Circle_new_src_eq_model (tl : Pt) (d : Nat) : circleOf (CurveSrc.Circle_new tl d) = ⟨tl, d⟩ := rfl

theorem Circle_with_center_src_eq_model (c : Pt) (d : Nat) (h : DiamIsU32 d) :
    circleOf (CurveSrc.Circle_with_center c d) = Circle.withCenter c d := by
  unfold CurveSrc.Circle_with_center
  simp only [Size_new_equal_src_eq_model, with_center_src_eq_model c (Sz.newEqual d) ⟨h, h⟩]
  rfl

theorem Circle_bounding_box_src_eq_model (c : CurveSrc.Circle) :
    CurveSrc.Circle_Dimensions_bounding_box c = (circleOf c).boundingBox := rfl

theorem Circle_center_src_eq_model (c : CurveSrc.Circle) (h : DiamIsU32 c.diameter) :
    CurveSrc.Circle_center c = (circleOf c).center := by
  unfold CurveSrc.Circle_center
  have hb : IsU32 (circleOf c).boundingBox.size := ⟨h, h⟩
  rw [Circle_bounding_box_src_eq_model, center_src_eq_model _ hb]
  rfl

theorem Circle_center_2x_src_eq_model (c : CurveSrc.Circle) (h : DiamFitsI32 c.diameter) :
    CurveSrc.Circle_center_2x c = (circleOf c).center2x := by
  unfold CurveSrc.Circle_center_2x
  have hf : FitsI32 (RectSrc.Size_new (u32_saturating_sub (CurveSrc.Circle_diameter c) 1)
      (u32_saturating_sub (CurveSrc.Circle_diameter c) 1)) := by
    unfold DiamFitsI32 at h
    unfold FitsI32
    curve_simp [RectSrc.Size_new]
    omega
  simp only [Point_add_Size_src_eq_model _ _ hf]
  rfl

theorem Circle_threshold_src_eq_model (c : CurveSrc.Circle) :
    CurveSrc.Circle_threshold c = (circleOf c).threshold :=
  diameter_to_threshold_src_eq_model _

theorem Circle_contains_src_eq_model (c : CurveSrc.Circle) (p : Pt) (h : DiamFitsI32 c.diameter) :
    CurveSrc.Circle_ContainsPoint_contains c p = (circleOf c).contains p := by
  unfold CurveSrc.Circle_ContainsPoint_contains Circle.contains
  simp only [Circle_center_2x_src_eq_model c h, length_squared_src_eq_model, Circle_threshold_src_eq_model,
    length_squared_as_u32]
  rfl

theorem Circle_offset_src_eq_model (c : CurveSrc.Circle) (o : Int) (h : DiamIsU32 c.diameter) :
    circleOf (CurveSrc.Circle_OffsetOutline_offset c o) = (circleOf c).offset o := by
  unfold CurveSrc.Circle_OffsetOutline_offset Circle.offset
  by_cases ho : o ≥ 0
  · have e : i32_as_u32 o = o.toNat := by simp only [i32_as_u32]; rw [if_pos (by omega)]
    simp only [i32_ge, ho, decide_true, ↓reduceIte, e]
    rfl
  · have e : i32_as_u32 (i32_neg o) = (-o).toNat := by simp only [i32_as_u32, i32_neg]; rw [if_pos (by omega)]
    simp only [i32_ge, ho, decide_false, Bool.false_eq_true, ↓reduceIte, e]
    rw [Circle_with_center_src_eq_model _ _ (by
      unfold DiamIsU32 at h ⊢; curve_simp []; omega), Circle_center_src_eq_model c h]
    rfl

theorem Circle_translate_src_eq_model (c : CurveSrc.Circle) (d : Pt) :
    circleOf (CurveSrc.Circle_Transform_translate c d) = (circleOf c).translate d := rfl

/-! ### `circle::points::Scanlines` -/

theorem CircleScanlines_new_src_eq_model (c : CurveSrc.Circle) (h : DiamFitsI32 c.diameter) :
    scanlinesItOf (CurveSrc.CircleScanlines_new c) = (circleOf c).scanlines := by
  unfold CurveSrc.CircleScanlines_new Circle.scanlines
  simp only [rows_ends_src_eq_model, columns_ends_src_eq_model, Circle_center_2x_src_eq_model c h,
    Circle_threshold_src_eq_model, Circle_bounding_box_src_eq_model]
  rfl

/-- The predicate of `find` in `Scanlines::next` is the hand model's `hit`. -/
theorem circle_find_closure_src_eq_model (c2x : Pt) (thr : Nat) (y : Int) :
    (fun x => u32_lt (i32_as_u32 (CurveSrc.Point_PointExt_length_squared
      (RectSrc.Point_op_sub_Point (RectSrc.Point_op_mul_i32 (RectSrc.Point_new x y) 2) c2x))) thr)
      = Circle.hit c2x thr y := by
  funext x
  simp only [length_squared_src_eq_model, length_squared_as_u32]
  rfl

/-- **One regenerated `Scanlines::next` = one `ScanlinesIt.next` of the hand model** (same scanline or the same early
`None`, same successor state). -/
theorem CircleScanlines_Iterator_next_src_eq_model (s : CurveSrc.CircleScanlines) :
    ((CurveSrc.CircleScanlines_Iterator_next s).1.map scanlineOf,
      scanlinesItOf (CurveSrc.CircleScanlines_Iterator_next s).2) = (scanlinesItOf s).next := by
  obtain ⟨⟨ys, ye⟩, ⟨xs, xe⟩, c2x, thr⟩ := s
  unfold CurveSrc.CircleScanlines_Iterator_next Circle.ScanlinesIt.next
  by_cases h : ys < ye
  · simp only [range_i32_next, CurveSrc.CircleScanlines_set_rows, h, ↓reduceIte,
      CurveSrc.CircleScanlines_center_2x, CurveSrc.CircleScanlines_threshold, CurveSrc.CircleScanlines_columns,
      circle_find_closure_src_eq_model, scanlinesItOf]
    simp only [Circle.ScanlinesIt.row, mirroredRange, rangeFind, option_map, range_i32_find,
      Option.map_map]
    rfl
  · simp only [range_i32_next, CurveSrc.CircleScanlines_rows, CurveSrc.CircleScanlines_set_rows, h, ↓reduceIte,
      scanlinesItOf]
    rfl

/-! ### `circle::Points` -/

theorem CirclePoints_new_src_eq_model (c : CurveSrc.Circle) (h : DiamFitsI32 c.diameter) :
    circlePointsItOf (CurveSrc.CirclePoints_new c) = (circleOf c).pointsIt := by
  unfold CurveSrc.CirclePoints_new Circle.pointsIt circlePointsItOf
  simp only [CircleScanlines_new_src_eq_model c h, Scanline_new_empty_src_eq_model]

theorem Circle_points_src_eq_model (c : CurveSrc.Circle) :
    CurveSrc.Circle_PointsIter_points c = CurveSrc.CirclePoints_new c := rfl

/-- What one call of `Points::next` shows to the caller, in the hand model's vocabulary. -/
def circleNextView (r : Option Pt × CurveSrc.CirclePoints) : Option (Pt × Circle.PointsIt) :=
  r.1.map (fun pt => (pt, circlePointsItOf r.2))

/-- **One regenerated `Points::next` = one `PointsIt.next` of the hand model** (same point, same successor state;
`None` together). -/
theorem CirclePoints_Iterator_next_src_eq_model (p : CurveSrc.CirclePoints) :
    circleNextView (CurveSrc.CirclePoints_Iterator_next p) = (circlePointsItOf p).next := by
  obtain ⟨sl, cur⟩ := p
  unfold CurveSrc.CirclePoints_Iterator_next Circle.PointsIt.next circleNextView
  have h1 := Scanline_Iterator_next_src_eq_model cur
  have h2 := CircleScanlines_Iterator_next_src_eq_model sl
  simp only [CurveSrc.CirclePoints_current_scanline, CurveSrc.CirclePoints_set_current_scanline,
    CurveSrc.CirclePoints_scanlines, CurveSrc.CirclePoints_set_scanlines, circlePointsItOf]
  rw [← h1]
  cases hc : (CurveSrc.Scanline_Iterator_next cur).1 with
  | some pt => simp only [Option.map_some]
  | none =>
    simp only [Option.map_none]
    rw [← h2]
    cases hs : (CurveSrc.CircleScanlines_Iterator_next sl).1 with
    | none => simp only [Option.map_none]
    | some s' =>
      simp only [Option.map_some]
      have h3 := Scanline_Iterator_next_src_eq_model s'
      rw [← h3]
      cases hn : (CurveSrc.Scanline_Iterator_next s').1 with
      | none => simp only [Option.map_none]
      | some pt => simp only [Option.map_some]

/-- What a `for` loop collects from the regenerated iterator (`steps` calls of `next` at most). -/
def srcCircleCollect : Nat → CurveSrc.CirclePoints → List Pt
  | 0, _ => []
  | steps + 1, p =>
    match CurveSrc.CirclePoints_Iterator_next p with
    | (some pt, p') => pt :: srcCircleCollect steps p'
    | (none, _) => []

theorem srcCircleCollect_src_eq_model : ∀ (steps : Nat) (p : CurveSrc.CirclePoints),
    srcCircleCollect steps p = (circlePointsItOf p).toListFuel steps := by
  intro steps
  induction steps with
  | zero => intro p; rfl
  | succ n ih =>
    intro p
    have h := CirclePoints_Iterator_next_src_eq_model p
    unfold srcCircleCollect Circle.PointsIt.toListFuel
    rw [← h]
    unfold circleNextView
    cases hs : CurveSrc.CirclePoints_Iterator_next p with
    | mk v p' =>
      cases v with
      | none => simp only [Option.map_none]
      | some pt => simp only [Option.map_some, ih p']

/-- `circle.points()` collected from the regenerated `PointsIter::points` + `next`, on the hand model's step budget. -/
def srcCirclePoints (c : CurveSrc.Circle) : List Pt :=
  let it := CurveSrc.Circle_PointsIter_points c
  srcCircleCollect ((circlePointsItOf it).budget + 1) it

/-- **The regenerated iterator yields the hand model's `Circle.points`.** -/
theorem circle_points_src_eq_model (c : CurveSrc.Circle) (h : DiamFitsI32 c.diameter) :
    srcCirclePoints c = (circleOf c).points := by
  unfold srcCirclePoints Circle.points
  simp only [srcCircleCollect_src_eq_model, Circle_points_src_eq_model, CirclePoints_new_src_eq_model c h]

/-! ### C05's headline for circles, both sides regenerated -/

/-- The bounding box of a circle that is `InRange` has a diameter the guard accepts. -/
theorem diamFits_of_inRange {c : CurveSrc.Circle} (h : (circleOf c).InRange) : DiamFitsI32 c.diameter := by
  unfold Circle.InRange Rect.InRange at h
  unfold DiamFitsI32
  have := h.2.2.1
  simp only [Circle.boundingBox, circleOf] at this
  omega

/-- **`points()` is `bounding_box().points()` filtered by `contains()`** (same points, row-major, same multiplicity):
the regenerated circle iterator against the regenerated rectangle iterator and the regenerated `contains`. -/
theorem src_circle_points_eq_filter_contains (c : CurveSrc.Circle) (h : (circleOf c).InRange) :
    srcCirclePoints c = (srcPoints (CurveSrc.Circle_Dimensions_bounding_box c)).filter
      (CurveSrc.Circle_ContainsPoint_contains c) := by
  have hd := diamFits_of_inRange h
  rw [circle_points_src_eq_model c hd, points_src_eq_model, Circle_bounding_box_src_eq_model,
    circle_points_eq_filter_contains _ h]
  congr 1
  funext p
  exact (Circle_contains_src_eq_model c p hd).symm
example : (circleOf ⟨⟨-3, 2⟩, 7⟩).InRange := by decide
example : srcCirclePoints ⟨⟨-1, 2⟩, 3⟩ = [⟨0, 2⟩, ⟨-1, 3⟩, ⟨0, 3⟩, ⟨1, 3⟩, ⟨0, 4⟩] := by decide

theorem src_circle_mem_points_iff (c : CurveSrc.Circle) (h : (circleOf c).InRange) (p : Pt) :
    p ∈ srcCirclePoints c ↔ CurveSrc.Circle_ContainsPoint_contains c p = true := by
  rw [circle_points_src_eq_model c (diamFits_of_inRange h), Circle_contains_src_eq_model c p (diamFits_of_inRange h)]
  exact circle_mem_points_iff _ h p

theorem src_circle_points_nodup (c : CurveSrc.Circle) (h : (circleOf c).InRange) : (srcCirclePoints c).Nodup := by
  rw [circle_points_src_eq_model c (diamFits_of_inRange h)]; exact circle_points_nodup _ h

theorem src_circle_points_row_major (c : CurveSrc.Circle) (h : (circleOf c).InRange) :
    (srcCirclePoints c).Pairwise Pt.rowMajorLt := by
  rw [circle_points_src_eq_model c (diamFits_of_inRange h)]; exact circle_points_row_major _ h

/-- `contains()` (regenerated) is false outside the (regenerated) bounding box. -/
theorem src_circle_contains_inside_bbox (c : CurveSrc.Circle) (p : Pt) (hd : DiamFitsI32 c.diameter)
    (h : CurveSrc.Circle_ContainsPoint_contains c p = true) :
    (CurveSrc.Circle_Dimensions_bounding_box c).contains p = true := by
  rw [Circle_contains_src_eq_model c p hd] at h
  exact circle_contains_inside_bbox _ p h
example : CurveSrc.Circle_ContainsPoint_contains ⟨⟨-3, 2⟩, 7⟩ ⟨0, 5⟩ = true := by decide

/-- Every function of every `impl` of `Circle`, `circle::Points`, `circle::Scanlines` (and of `Scanline`, the ellipse
types) in the parsed files that is NOT translated. An added function (an override of `Iterator::nth` / `fold` for
`Points`, a second `contains`) shows up here and breaks this theorem. The pixel path (`StyledPixelsIterator::{new, next}`,
`StyledPixels::pixels`) is listed here: it is NOT regenerated (tied by the `styled.*` streams). -/
theorem curve_untranslated_pinned :
    CurveSrc.untranslated =
      [("impl Circle", ["distances"]),
       ("impl StyledPixels<PrimitiveStyle> for Circle", ["pixels"]),
       ("impl Transform for Circle", ["translate_mut"]),
       ("impl CircleStyledPixelsIterator", ["new"]),
       ("impl Iterator for CircleStyledPixelsIterator", ["next"]),
       ("impl StyledPixels<PrimitiveStyle> for Ellipse", ["pixels"]),
       ("impl Transform for Ellipse", ["translate_mut"]),
       ("impl EllipseStyledPixelsIterator", ["new"]),
       ("impl Iterator for EllipseStyledPixelsIterator", ["next"]),
       ("impl PrimitiveStyle", ["const_default", "is_transparent", "new", "with_fill", "with_stroke"]),
       ("impl Default for PrimitiveStyle", ["default"]),
       ("impl Scanline", ["bresenham_intersection", "extend", "to_rectangle", "touches", "try_extend", "try_take"])] := by decide

end EG.C05.Src
