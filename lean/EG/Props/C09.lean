/-
  C09 — property theorems (placeholder: no theorem yet, the property is not claimed).
-/
import EG.Basic.Core
namespace EG.C09
end EG.C09
