/-
  C09 — Raw images and sub-images reproduce their pixel data exactly.

  Property theorems only (helper lemmas: EG/Lemmas/ImageRaw*.lean). All statements are about the
  model `EG.Model.ImageRaw` (a literal transcription of src/image/{image_raw,sub_image,mod,
  image_drawable_ext}.rs over the raw model `EG.Model.Raw`) and hold for all image sizes, byte
  contents, draw offsets, sub-image areas and nesting depths, all seven raw widths and both data
  orders. Hypotheses:
    `im.WF`         the length check of `ImageRaw::new` passed, the depth is one of the 7 raw types,
                    width/height <= i32::MAX (the `as i32` casts of `pixel` wrap above that) and the
                    buffer holds at most usize::MAX pixels (else `nth`'s saturating add shows);
    `d.Good`        `d` is such an image or built from one by `sub_image` (`good_sub_image`);
    `Rect.InRange`  the placed box fits into `i32` coordinates (else the real code overflows).

  Not proved here:
  -- (closed) colours: identifying a colour with its raw value loses nothing — Props/C09/Colours.lean (from C12: raw -> colour -> raw is the identity on every raw value that fits the type's used bits, for every built-in colour type; raw values with unused bits set are masked); the Rust-level remainder is listed there
  -- [V] target independence of `draw` (Rust parametricity in the `DrawTarget`): the same call list reaches R1 and R2, carried by correspondence + oracle only
-/
import EG.Lemmas.ImageRawImage
import EG.Lemmas.ImageRawRows
namespace EG.C09
open EG EG.Raw EG.Img

/-! ### `ImageRaw::new` accepts exactly buffers of the required length; rows are padded -/

/-- `new` succeeds iff the buffer has `bytes_per_row * height` bytes (and then stores its arguments). -/
theorem new_ok_iff (bits : Nat) (o : Order) (data : List Nat) (size : Sz) (im : ImageRaw) :
    ImageRaw.new bits o data size = .ok im ↔
      (data.length = bytesPerRow size.w bits * size.h ∧ im = ⟨bits, o, data, size⟩) :=
  ImageRaw.new_ok_iff bits o data size im

/-- Otherwise it reports the expected size. -/
theorem new_error_iff (bits : Nat) (o : Order) (data : List Nat) (size : Sz) (e : Nat) :
    ImageRaw.new bits o data size = .error e ↔
      (data.length ≠ bytesPerRow size.w bits * size.h ∧ e = bytesPerRow size.w bits * size.h) :=
  ImageRaw.new_error_iff bits o data size e

/-- `new_const` panics (`none`) exactly when `new` fails. -/
theorem new_const_eq (bits : Nat) (o : Order) (data : List Nat) (size : Sz) :
    ImageRaw.newConst bits o data size =
      if data.length = bytesPerRow size.w bits * size.h then some ⟨bits, o, data, size⟩ else none :=
  ImageRaw.newConst_eq bits o data size

/-- A buffer accepted by `new` (of one of the seven raw types, with sizes that survive `as i32` and
at most `usize::MAX` pixels) is well formed: the hypothesis `WF` of the theorems below. -/
theorem wf_of_new (bits : Nat) (o : Order) (data : List Nat) (size : Sz) (im : ImageRaw)
    (h : ImageRaw.new bits o data size = .ok im) (hb : validBits bits = true)
    (hw : size.w ≤ 2147483647) (hh : size.h ≤ 2147483647) (hf : Fits bits data) : im.WF :=
  ImageRaw.wf_of_new h hb hw hh hf
example : ImageRaw.new 1 .le [0xAA, 0x00, 0x55, 0xFF, 0xAA, 0x80] ⟨9, 3⟩ = .ok exIm :=
  (ImageRaw.new_ok_iff _ _ _ _ _).mpr ⟨by decide, rfl⟩

/-- Rows are padded to whole bytes: `bytes_per_row` is the least number of bytes holding `w` pixels. -/
theorem bytes_per_row_is_ceiling (w bits : Nat) :
    w * bits ≤ 8 * bytesPerRow w bits ∧ 8 * bytesPerRow w bits < w * bits + 8 :=
  ImageRaw.bytesPerRow_spec w bits

/-- The padded row width is at least the width (no underflow in `row_skip`) ... -/
theorem width_le_data_width (im : ImageRaw) (hb : validBits im.bits = true) : im.size.w ≤ im.dataWidth :=
  ImageRaw.width_le_dataWidth hb
example : validBits exIm.bits = true := by decide

/-- ... and exceeds it by less than one byte worth of pixels (no padding for depths >= 8). -/
theorem data_width_padding (im : ImageRaw) (hb : validBits im.bits = true) :
    (im.bits < 8 → im.dataWidth = bytesPerRow im.size.w im.bits * (8 / im.bits) ∧
        im.dataWidth < im.size.w + 8 / im.bits) ∧
      (¬ im.bits < 8 → im.dataWidth = im.size.w) :=
  ⟨fun h => ⟨ImageRaw.dataWidth_sub_byte h, ImageRaw.dataWidth_lt hb h⟩, ImageRaw.dataWidth_whole_byte⟩

/-- An accepted buffer holds exactly `data_width * height` pixels. -/
theorem pixel_count (im : ImageRaw) (hw : im.WF) :
    pixelCount im.bits im.data.length = im.dataWidth * im.size.h := ImageRaw.pixelCount_eq hw
example : exIm.WF := exIm_wf
example : exIm24.WF := exIm24_wf

/-! ### `pixel` -/

/-- `pixel(p)` is `None` exactly outside the bounding box. -/
theorem pixel_none_iff (im : ImageRaw) (hw : im.WF) (p : Pt) :
    im.pixel p = none ↔ im.boundingBox.contains p = false := ImageRaw.pixel_none_iff hw p

/-- The same claim for every size a `u32` can hold (no `<= i32::MAX` guard) ... -/
def PixelNoneIffAllSizes : Prop :=
  ∀ (im : ImageRaw) (p : Pt), validBits im.bits = true →
    im.data.length = bytesPerRow im.size.w im.bits * im.size.h →
    (im.pixel p = none ↔ im.boundingBox.contains p = false)

/-- ... is false: `pixel` compares with `width as i32`, which wraps. Witness: the `2^31 x 1` one bit
image (`2^28` bytes), `pixel((0,0)) = None` although `(0,0)` is inside the bounding box. Replayed on
the real code by the op `image.wide 1 0 2147483648 1` (see corpus/C09.ops); far outside the display
scale, so `pixel_none_iff` carries the guard `WF.wI32`/`WF.hI32`. -/
theorem pixel_none_iff_all_sizes_false : ¬ PixelNoneIffAllSizes := by
  intro h
  have h1 := h ⟨1, .le, List.replicate 268435456 0, ⟨2147483648, 1⟩⟩ ⟨0, 0⟩ (by decide)
    (by rw [List.length_replicate]; decide)
  rw [ImageRaw.pixel_none_of_width_wraps _ rfl] at h1
  have h2 : (ImageRaw.boundingBox ⟨1, .le, List.replicate 268435456 0, ⟨2147483648, 1⟩⟩).contains ⟨0, 0⟩ = true := by
    rw [ImageRaw.contains_boundingBox]; simp only; omega
  rw [h2] at h1
  exact absurd (h1.mp rfl) (by decide)

/-- Inside, `pixel((x, y))` is raw pixel `x + y * data_width` of the buffer (rows start at
multiples of the padded width, i.e. on byte boundaries). -/
theorem pixel_eq_load (im : ImageRaw) (hw : im.WF) (p : Pt) :
    im.pixel p =
      if im.boundingBox.contains p = true then
        load im.bits im.order im.data (p.x.toNat + p.y.toNat * im.dataWidth)
      else none := ImageRaw.pixel_eq hw p

/-- **Rows are padded to whole bytes**: row `y` occupies the bytes
`data[y * bytes_per_row .. (y + 1) * bytes_per_row]` and pixel `(x, y)` is raw pixel `x` of that
slice — every depth, both data orders. -/
theorem pixel_row_aligned (im : ImageRaw) (hw : im.WF) (x y : Nat) (hx : x < im.size.w) (hy : y < im.size.h) :
    im.pixel ⟨x, y⟩ = load im.bits im.order (im.rowBytes y) x := ImageRaw.pixel_row_aligned hw hx hy
example : exIm.rowBytes 1 = [0x55, 0xFF] ∧ exIm24.rowBytes 1 = [7, 8, 9, 10, 11, 12] := by decide

example : exIm.pixel ⟨8, 1⟩ = some 1 ∧ exIm.pixel ⟨8, 0⟩ = some 0 ∧ exIm.pixel ⟨9, 0⟩ = none := by decide

/-! ### `ContiguousPixels` and the colour stream of `draw` -/

/-- The `ContiguousPixels` state machine yields exactly its closed form (the raw pixels at the
indices it still has to read, up to the first one beyond the buffer), from every reachable state. -/
theorem contiguous_pixels_closed_form (s : CP) (hs : s.Ok) : s.toList = s.rest := CP.toList_eq s hs
example : (CP.new exIm ⟨3, 2⟩ 17 13).Ok := ⟨by decide, by unfold Fits; decide, by decide⟩

/-- **`draw_stream`**: the whole image is drawn by one `fill_contiguous` of its bounding box whose
colour stream is `[pixel p | p row-major]`, exactly `width * height` colours. -/
theorem draw_stream (im : ImageRaw) (hw : im.WF) :
    ∃ cs, im.draw = [Call.fillContiguous im.boundingBox cs] ∧
      cs.map some = im.boundingBox.points.map im.pixel ∧
      cs.length = im.size.w * im.size.h := by
  rw [Rect.points_eq_spec]; exact ImageRaw.draw_eq hw

/-- `draw_sub_image` draws nothing unless the area is non-empty and inside the image ... -/
theorem draw_sub_image_rejects (im : ImageRaw) (a : Rect) (h : ¬ im.Accepts a) : im.drawSubImage a = [] :=
  ImageRaw.drawSubImage_reject h
example : ¬ exIm.Accepts ⟨⟨7, 1⟩, ⟨3, 1⟩⟩ := by decide

/-- ... and otherwise hands `fill_contiguous` exactly the `width * height` pixels of the area,
row-major (`sub_stream_length`: the stream is not one row too long). -/
theorem draw_sub_image_stream (im : ImageRaw) (hw : im.WF) (a : Rect) (h : im.Accepts a) :
    ∃ cs, im.drawSubImage a = [Call.fillContiguous ⟨Pt.zero, a.size⟩ cs] ∧
      cs.map some = (Rect.points ⟨Pt.zero, a.size⟩).map (fun p => im.pixel (a.tl + p)) ∧
      cs.length = a.size.w * a.size.h := by
  rw [Rect.points_eq_spec]; exact ImageRaw.drawSubImage_accept hw h
example : exIm.Accepts ⟨⟨6, 1⟩, ⟨3, 2⟩⟩ := by decide
example : exIm.drawSubImage ⟨⟨6, 1⟩, ⟨3, 2⟩⟩ = [Call.fillContiguous ⟨⟨0, 0⟩, ⟨3, 2⟩⟩ [0, 1, 1, 1, 0, 1]] := by
  decide

/-! ### sub-images -/

/-- `sub_image(area)` stores the area clipped to the parent's box ... -/
theorem sub_area_eq (d : Drawable) (area : Rect) :
    d.subImage area = .sub d (d.boundingBox.intersection area) ∧
      (d.subImage area).size = (d.boundingBox.intersection area).size := ⟨rfl, rfl⟩

/-- ... which contains exactly the common points of the parent's box and the area (zero sized if
there is none) and is therefore empty or inside the parent. -/
theorem sub_area_points (d : Drawable) (area : Rect) (p : Pt) :
    (d.boundingBox.intersection area).contains p = true ↔
      (d.boundingBox.contains p = true ∧ area.contains p = true) :=
  Rect.mem_intersection _ _ _

theorem sub_area_zero_of_disjoint (d : Drawable) (area : Rect)
    (h : ∀ p, ¬ (d.boundingBox.contains p = true ∧ area.contains p = true)) :
    (d.boundingBox.intersection area).isZeroSized = true :=
  Rect.intersection_zero_of_disjoint _ _ h
example : ∀ p, ¬ ((Drawable.raw exIm).boundingBox.contains p = true ∧
    (⟨⟨9, 0⟩, ⟨2, 2⟩⟩ : Rect).contains p = true) := by
  intro p h; rw [Rect.contains_iff, Rect.contains_iff] at h
  simp only [Drawable.boundingBox, Drawable.size, exIm, Pt.zero] at h; omega

/-- Everything built by `sub_image` from a well-formed raw image is `Good`. -/
theorem good_sub_image (d : Drawable) (h : d.Good) (area : Rect) : (d.subImage area).Good :=
  Drawable.good_subImage h area
example : (Drawable.raw exIm).Good := exIm_wf

/-- **`sub_stream`**: a drawable of any nesting depth draws, by one `fill_contiguous` of the box of
its size, exactly `width * height` colours: the picture `pixelSpec` row-major — or makes no call
at all when it is an empty sub-image. (`pixelSpec` of a sub-image is the parent's `pixelSpec`
shifted by the clipped area's corner, see `sub_pixel_spec`.) -/
theorem sub_stream (d : Drawable) (h : d.Good) :
    (∃ cs, d.draw = [Call.fillContiguous d.boundingBox cs] ∧
        cs.map some = d.boundingBox.points.map d.pixelSpec ∧
        cs.length = d.size.w * d.size.h) ∨
      (d.draw = [] ∧ d.boundingBox.isZeroSized = true) := by
  rw [Rect.points_eq_spec]; exact Drawable.draw_spec h

/-- **`sub_stream_length`**: whatever a good drawable (raw image, sub-image, nested sub-image)
hands to `fill_contiguous` has exactly `width * height` colours for the area it names — also when
more image data follows the last row of a sub-image. -/
theorem sub_stream_length (d : Drawable) (h : d.Good) (a : Rect) (cs : List Color)
    (hc : Call.fillContiguous a cs ∈ d.draw) :
    a = d.boundingBox ∧ cs.length = a.size.w * a.size.h := Drawable.stream_length h hc
example : Call.fillContiguous ⟨⟨0, 0⟩, ⟨3, 2⟩⟩ [0, 1, 1, 1, 0, 1] ∈
    ((Drawable.raw exIm).subImage ⟨⟨6, 1⟩, ⟨9, 2⟩⟩).draw := by decide

/-- The picture of a sub-image: the parent's pixels inside the clipped area, re-based to the origin. -/
theorem sub_pixel_spec (d : Drawable) (area : Rect) (p : Pt) :
    (d.subImage area).pixelSpec p =
      if (d.subImage area).boundingBox.contains p = true then
        d.pixelSpec ((d.boundingBox.intersection area).tl + p)
      else none := rfl

/-- In root coordinates: a good drawable shows the root image's `pixel`s at `origin + p`, and its
region lies inside the root image. -/
theorem pixel_spec_root (d : Drawable) (h : d.Good) (p : Pt) (hp : d.boundingBox.contains p = true) :
    d.pixelSpec p = d.root.pixel (d.origin + p) := Drawable.pixelSpec_root h p hp
example : ((Drawable.raw exIm).subImage ⟨⟨6, 1⟩, ⟨9, 9⟩⟩).boundingBox.contains ⟨2, 1⟩ = true := by decide

/-- **`nested_sub_image`**: nested sub-images compose — the inner area is clipped to the outer
sub-image's box and re-based by the outer (clipped) area's corner; `draw` forwards the re-based
area to the parent's `draw_sub_image`. -/
theorem nested_sub_image (d : Drawable) (a1 a2 : Rect) :
    ((d.subImage a1).subImage a2).draw =
        d.drawSubImage (((d.subImage a1).boundingBox.intersection a2).translate
          (d.boundingBox.intersection a1).tl) ∧
      ∀ p, ((d.subImage a1).subImage a2).boundingBox.contains p = true →
        ((d.subImage a1).subImage a2).pixelSpec p =
          d.pixelSpec ((d.boundingBox.intersection a1).tl +
            (((d.subImage a1).boundingBox.intersection a2).tl + p)) :=
  ⟨rfl, fun p hp => Image.nested_pixelSpec d a1 a2 p hp⟩
example : (((Drawable.raw exIm).subImage ⟨⟨1, 1⟩, ⟨8, 3⟩⟩).subImage ⟨⟨1, 0⟩, ⟨2, 2⟩⟩).boundingBox.contains
    ⟨1, 1⟩ = true := by decide

/-! ### `Image`: what ends up on the target -/

/-- **`draw_exact`** (native-fill target, which drains the colour iterator): drawing an image of
any good drawable at offset `o` on a target with box `B` sets target point `q` to the picture's
pixel at `q - o` iff `q` is in the image's bounding box (and in `B`), and touches nothing else. For
a raw image the picture is `pixel`. -/
theorem draw_exact (d : Drawable) (h : d.Good) (o : Pt) (hr : (Image.new d o).boundingBox.InRange)
    (B : Rect) (q : Pt) :
    runNative B (Image.new d o).draw q =
      if B.contains q = true ∧ (Image.new d o).boundingBox.contains q = true then d.pixelSpec (q - o)
      else none := by
  rw [Image.runNative_draw _ h hr]
  unfold Image.picture
  by_cases hb : B.contains q = true <;> by_cases hc : (Image.new d o).boundingBox.contains q = true <;>
    simp only [hb, hc, and_self, and_false, and_true, ↓reduceIte, Bool.false_eq_true] <;> rfl
example : (Image.new (.raw exIm) ⟨-4, 7⟩).boundingBox.InRange := by decide

/-- The same on a target that implements `draw_iter` only (trait defaults). -/
theorem draw_exact_default (d : Drawable) (h : d.Good) (o : Pt) (hr : (Image.new d o).boundingBox.InRange)
    (B : Rect) (q : Pt) :
    runDefault B (Image.new d o).draw q =
      if B.contains q = true ∧ (Image.new d o).boundingBox.contains q = true then d.pixelSpec (q - o)
      else none := by
  rw [Image.runDefault_eq_runNative _ h]; exact draw_exact d h o hr B q

/-- For a raw image: target point `o + p` gets `pixel(p)` for every `p` of the bounding box. -/
theorem draw_exact_raw (im : ImageRaw) (hw : im.WF) (o : Pt)
    (hr : (Image.new (.raw im) o).boundingBox.InRange) (B : Rect) (p : Pt) :
    runNative B (Image.new (.raw im) o).draw (p + o) =
      if B.contains (p + o) = true then im.pixel p else none := by
  rw [draw_exact (.raw im) hw o hr, pt_add_sub_cancel]
  simp only [Drawable.pixelSpec]
  by_cases hb : B.contains (p + o) = true
  · by_cases hc : (Image.new (.raw im) o).boundingBox.contains (p + o) = true
    · simp only [hb, hc, and_self, ↓reduceIte]
    · have : im.pixel p = none := by
        rw [ImageRaw.pixel_none_iff hw]
        rw [Image.boundingBox_new, Rect.contains_iff] at hc
        cases hq : im.boundingBox.contains p with
        | false => rfl
        | true =>
          rw [ImageRaw.contains_boundingBox] at hq
          simp only [Drawable.size, Pt.add_x, Pt.add_y] at hc
          omega
      simp only [hb, hc, and_false, ↓reduceIte, this, Bool.false_eq_true]
  · simp only [hb, false_and, ↓reduceIte, Bool.false_eq_true]

/-- **`sub_image_eq_cropped_image`**: drawing `parent.sub_image(area)` at `o` equals drawing an
image of the clipped area's size whose pixel `p` is the parent's picture at `clipped.top_left + p`. -/
theorem sub_image_eq_cropped_image (d : Drawable) (h : d.Good) (area : Rect) (o : Pt)
    (hr : (Image.new (d.subImage area) o).boundingBox.InRange) (B : Rect) (q : Pt) :
    runNative B (Image.new (d.subImage area) o).draw q =
      if B.contains q = true then
        (if (⟨o, (d.boundingBox.intersection area).size⟩ : Rect).contains q = true then
          d.pixelSpec ((d.boundingBox.intersection area).tl + (q - o))
        else none)
      else none := by
  rw [Image.runNative_draw _ (Drawable.good_subImage h area) hr, Image.picture_subImage]
example : (Image.new ((Drawable.raw exIm).subImage ⟨⟨6, 1⟩, ⟨9, 9⟩⟩) ⟨5, -1⟩).boundingBox.InRange := by decide

/-- **`with_center`**: the image is placed so that its bounding box is centred on the given point
(`Rectangle::with_center`, C16), and is otherwise an `Image::new` at that corner. -/
theorem with_center (d : Drawable) (c : Pt) :
    (Image.withCenter d c).boundingBox.center = c ∧
      (Image.withCenter d c).boundingBox = Rect.withCenter c d.size ∧
      Image.withCenter d c = Image.new d (Rect.withCenter c d.size).tl :=
  ⟨Image.withCenter_center d c, Image.withCenter_boundingBox d c, rfl⟩

end EG.C09
