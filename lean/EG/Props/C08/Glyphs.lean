/-
  C08 (glyph part) — range theorems of glyph rendering: `MonoFont::glyph` (index -> row / column
  -> sub-image area), the guard and skips of `ImageRaw::draw_sub_image` for the 1 bpp atlas,
  `line_elements` (the position advance), decoration rectangles, `draw_string` and
  `draw_whitespace` of `MonoTextStyle`. Checked model: `EG.Model.CheckedFont`; plain:
  `EG.Model.Font`. (`measure_string` and the layout of `Text` are in C08/Data.lean.)

  Domain: fonts with cell, spacing, baseline and decoration offsets up to 4096 and an atlas up to
  65535 x 65535 (`Chk.Font.FontOk`), glyph indices below 65536, positions within +-2^20 (the
  display scale has +-1024), texts of up to 65536 characters. ALL 292 built-in fonts are in the
  domain, with every character (`builtin_fonts_in_glyph_domain`).
-/
import EG.Lemmas.CheckedFont
import EG.Lemmas.CheckedDS
namespace EG.C08
open EG EG.Chk

/-! ### `MonoFont::glyph` -/

/-- `char_x = (glyph_index - row * glyphs_per_row) * character width` cannot overflow for ANY
glyph index: the difference is `glyph_index % glyphs_per_row`, so the product is at most the
atlas width (a `u32`). -/
theorem glyph_char_x_never_overflows {imgW cw : Nat} (hcw : 0 < cw) (hw : cw ≤ imgW) (gi : Nat) :
    gi / (imgW / cw) * (imgW / cw) ≤ gi ∧ (gi - gi / (imgW / cw) * (imgW / cw)) * cw ≤ imgW :=
  Chk.Font.glyph_char_x_fits hcw hw gi
example : (0 : Nat) < 6 ∧ (6 : Nat) ≤ 96 := by decide

/-- **`MonoFont::glyph`** for a font of the domain and a glyph index below 65536: the division,
both `u32` products, the difference and the casts to `i32`. -/
theorem glyph_area_checked_eq_plain {f : Font.MonoFont} (hf : Chk.Font.FontOk f) {c : Nat}
    (hi : f.index c ≤ 65535) : Chk.Font.glyphArea f c = some (f.glyphArea c) :=
  Chk.Font.glyphArea_ok hf hi
example : Chk.Font.FontOk ⟨96, 60, 6, 10, 0, 7, 9, 1, 5, 1, fun c => c - 32⟩ :=
  ⟨by decide, by decide, by decide, by decide, by decide, by decide, by decide, by decide⟩

/-- `char_y = row * character height` does overflow for a user font with one glyph per atlas row,
65536 rows and a character 65536 pixels high. -/
theorem glyph_char_y_overflows :
    Chk.Font.glyphAreaOfIndex ⟨8, 8, 8, 65536, 0, 0, 0, 0, 0, 0, fun c => c⟩ 65536 = none := by decide

/-! ### `ImageRaw::draw_sub_image` for a glyph cell, `Image::new(&glyph, p).draw(..)` -/

/-- The guard `x as u32 + width > image width || ..` is the plain `areaDrawable`, and behind it
`data_width()`, `initial_skip` and `row_skip` fit `usize`. -/
theorem glyph_sub_image_checked_eq_plain {f : Font.MonoFont} (hf : Chk.Font.FontOk f) {a : Rect}
    (hx : a.tl.x ≤ 1073741824) (hy : a.tl.y ≤ 1073741824) (hw : a.size.w ≤ 1073741824)
    (hh : a.size.h ≤ 1073741824) :
    ∃ r, Chk.Font.subImageSkips f.imgW f.imgH a = some r ∧ r.isSome = f.areaDrawable a :=
  Chk.Font.subImageSkips_ok hf hx hy hw hh
example : ((⟨⟨90, 50⟩, ⟨6, 10⟩⟩ : Rect).tl.x ≤ 1073741824) := by decide

/-- Drawing one glyph: the plain model's call list. -/
theorem glyph_draw_checked_eq_plain {f : Font.MonoFont} (hf : Chk.Font.FontOk f) (atlas : Pt → Bool)
    {c : Nat} (hi : f.index c ≤ 65535) (p : Pt) :
    Chk.Font.glyphCalls f atlas c p = some (f.glyphCalls atlas c p) := Chk.Font.glyphCalls_ok hf atlas hi p
example : (fun c : Nat => c - 32) 65 ≤ 65535 := by decide

/-! ### `line_elements`, `draw_string`, `draw_whitespace` -/

/-- **`line_elements`**: every `position.x += char_width` / `+= spacing_width` of a text of up to
65536 characters started within +-2^20. -/
theorem line_elements_checked_eq_plain {f : Font.MonoFont} (hf : Chk.Font.FontOk f) {pos : Pt}
    (hx : -1048576 ≤ pos.x ∧ pos.x ≤ 1048576) {text : List Nat} (hn : text.length ≤ 65536) :
    Chk.Font.lineElements f pos text = some (Font.lineElements f pos text) :=
  Chk.Font.lineElements_ok hf hx hn
example : (-1048576 : Int) ≤ -1024 ∧ ([72, 105] : List Nat).length ≤ 65536 := by decide

/-- **`draw_string`** of a `MonoTextStyle` (any colours and decorations, any baseline):
`position - baseline offset`, every glyph, every advance, the transparent arm's `u32` product,
the decoration width `(next.x - position.x) as u32`, both decoration rectangles, the returned
position. -/
theorem draw_string_checked_eq_plain {f : Font.MonoFont} (hf : Chk.Font.FontOk f) (atlas : Pt → Bool)
    (st : Font.Style) {text : List Nat} (hn : text.length ≤ 65536) (hi : Chk.Font.IndexOk f text)
    {position : Pt} (hp : DS.pt position) (bl : Font.Baseline) :
    Chk.Font.drawString f atlas st text position bl = some (f.drawString atlas st text position bl) := by
  obtain ⟨⟨_, _⟩, ⟨_, _⟩⟩ := hp
  exact Chk.Font.drawString_ok hf atlas st hn hi (by omega) (by omega) bl
example : DS.pt ⟨-1024, 1024⟩ := by decide

/-- The same for positions up to +-2^20. -/
theorem draw_string_wide {f : Font.MonoFont} (hf : Chk.Font.FontOk f) (atlas : Pt → Bool)
    (st : Font.Style) {text : List Nat} (hn : text.length ≤ 65536) (hi : Chk.Font.IndexOk f text)
    {position : Pt} (hx : -1048576 ≤ position.x ∧ position.x ≤ 1048576)
    (hy : -1048576 ≤ position.y ∧ position.y ≤ 1048576) (bl : Font.Baseline) :
    Chk.Font.drawString f atlas st text position bl = some (f.drawString atlas st text position bl) :=
  Chk.Font.drawString_ok hf atlas st hn hi hx hy bl
example : (-1048576 : Int) ≤ 1048576 := by decide

/-- ... and the `i32` range does end: one 6 px character drawn at `x = i32::MAX - 5` advances the
position past `i32::MAX`. -/
theorem draw_string_overflows_at_i32_max :
    Chk.Font.drawString ⟨96, 60, 6, 10, 0, 7, 9, 1, 5, 1, fun c => c - 32⟩ (fun _ => false)
      ⟨some 1, none, .none, .none⟩ [65] ⟨2147483642, 0⟩ .top = none := by decide

theorem draw_whitespace_checked_eq_plain {f : Font.MonoFont} (hf : Chk.Font.FontOk f) (st : Font.Style)
    {width : Nat} (hw : width ≤ 1048576) {position : Pt} (hp : DS.pt position) (bl : Font.Baseline) :
    Chk.Font.drawWhitespace f st width position bl = some (f.drawWhitespace st width position bl) := by
  obtain ⟨⟨_, _⟩, ⟨_, _⟩⟩ := hp
  exact Chk.Font.drawWhitespace_ok hf st hw (by omega) (by omega) bl
example : (1024 : Nat) ≤ 1048576 ∧ DS.pt ⟨0, 0⟩ := by decide

/-! ### The built-in fonts -/

/-- **All 292 built-in fonts are in the domain**, and the glyph index of every character — mapped
or replaced by `?` — is below 65536: the hypotheses `FontOk` and `IndexOk` of the theorems above
hold for every text in every built-in font. -/
theorem builtin_fonts_in_glyph_domain (r : Generated.FontRec) (hr : r ∈ Generated.fontTable) :
    Chk.Font.FontOk (Font.fontOfRec r) ∧ ∀ text, Chk.Font.IndexOk (Font.fontOfRec r) text :=
  ⟨(Chk.Font.builtin_fontOk r hr).1, fun _ c _ => (Chk.Font.builtin_fontOk r hr).2 c⟩
example : Generated.fontTable ≠ [] := by decide

end EG.C08
