/-
  C08 (sector / arc part) — range theorems of `PlaneSector::{contains, point_type}`,
  `DistanceIterator`, `Sector::{contains, offset, translate}`, `sector::Points`, `arc::Points` and
  the styled iterators of both shapes (thresholds `inside * 2048 - 1024`, `outside * 2048 + 1024`,
  bevel distance `-outside * 4096`, `LinearEquation::check_side` of the bevel line).
  Checked model: `EG.Model.CheckedSector`; plain: `EG.Model.Sector`, `StyledArc`, `StyledSector`.

  Trigonometry. As in the plain models a sector holds the value `PlaneSector::new` returned
  (operation tag + two integer normal vectors, each component within +-1024 =
  `NORMAL_VECTOR_SCALE`: hypothesis `Sec.ps`). For the `fixed_point` build `PlaneSector::new` and
  the bevel selection are integer code on I16F16 bits, modelled with `none` = panic in
  `EG.Model.FixedReal` / `FixedTrig` / `PlaneSectorNew`: `fixed_plane_sector_total`,
  `fixed_styled_sector_trig_total` below prove that they return for every start angle within
  +-11000000 bits (about +-9600 degrees) and EVERY sweep except `i32::MIN` bits, and that the
  normals they return satisfy `Sec.ps` — so in that build the chain raw angles -> pixels has no
  panic. For the default build micromath's f32 code is not modelled (stays `[V]`).

  Display scale: `DS.circle` (corner within +-1024, diameter up to 1024) is inside `Sec.base`
  (+-2048 / 2048), stroke widths up to 128 inside `Sec.width` (1024); `contains` / `points()` are
  proved on `Sec.circle` (+-4096 / 4097).
-/
import EG.Lemmas.CheckedDSMore
namespace EG.C08
open EG EG.Chk

/-! ### `PlaneSector`, `DistanceIterator` -/

/-- **`PlaneSector::contains`**: the two half-plane distances, `left . right`, the bisector and
`point . bisector`, for any normals within +-1024 and a doubled delta within +-32767. -/
theorem plane_sector_contains_checked_eq_plain {ps : PlaneSector} (hps : Sec.ps ps) {p : Pt} (hp : J.pt p) :
    Chk.PlaneSector.contains ps p = some (ps.contains p) := Chk.PlaneSector.contains_ok hps hp
example : Sec.ps ⟨.intersection, ⟨-1024, 0⟩, ⟨724, 724⟩⟩ ∧ J.pt ⟨32767, -32767⟩ := by decide

/-- **`PlaneSector::point_type`** with any thresholds except `i32::MIN` (they are negated). -/
theorem plane_sector_point_type_checked_eq_plain {ps : PlaneSector} (hps : Sec.ps ps) {p : Pt}
    (hp : J.pt p) {ti tout : Int} (hti : -2147483647 ≤ ti ∧ ti ≤ 2147483647)
    (hto : -2147483647 ≤ tout ∧ tout ≤ 2147483647) :
    Chk.PlaneSector.pointType ps p ti tout = some (ps.pointType p ti tout) :=
  Chk.PlaneSector.pointType_ok hps hp hti hto
example : Sec.ps ⟨.union, ⟨0, 1024⟩, ⟨0, -1024⟩⟩ ∧ J.pt ⟨-2559, 2559⟩ ∧ (128 * 2048 + 1024 : Int) ≤ 2147483647 := by
  decide

/-- The dot products are NOT the binding constraint: with normals of length 1024 they overflow
only for deltas beyond 2^20, while `DistanceIterator` squares the delta in `i32` first. -/
theorem plane_sector_distance_overflows_at_2_pow_21 :
    Chk.PlaneSector.distance ⟨1024, 0⟩ ⟨2097152, 0⟩ = none ∧
    (Chk.PlaneSector.distance ⟨1024, 0⟩ ⟨2097151, 0⟩).isSome = true := by constructor <;> decide

/-- One item of the `DistanceIterator`: `point * 2 - center_2x` and its squared length in `i32`. -/
theorem distance_item_checked_eq_plain {c p : Pt} (hcx : -16383 ≤ c.x ∧ c.x ≤ 16383)
    (hcy : -16383 ≤ c.y ∧ c.y ≤ 16383) (hp : (-8192 ≤ p.x ∧ p.x ≤ 8192) ∧ (-8192 ≤ p.y ∧ p.y ≤ 8192)) :
    Chk.DistIt.item c p = some (DistIt.item c p) := (Chk.DistIt.item_ok hcx hcy hp).1
example : (-16383 : Int) ≤ 2 * 2176 + 1279 ∧ (2 * 2176 + 1279 : Int) ≤ 16383 := by decide
/-- ... which is where the range ends: a doubled delta of 32768 per axis. -/
theorem distance_item_overflows : Chk.DistIt.item ⟨0, 0⟩ ⟨16384, 16384⟩ = none := by decide

/-- `Circle::distances()` of a stroke-area circle, and the invariant `DistOk` (points within
+-8192, doubled centre within +-16383) every later `next` / `find` preserves. -/
theorem circle_distances_checked_eq_plain {c : Circle} (h : DS.xcircle c) :
    Chk.Circle.distances c = some c.distances ∧ DistOk c.distances :=
  Chk.Circle.distances_ok (DS.xcircle_sec h)
example : DS.xcircle ⟨⟨-1152, -1152⟩, 1280⟩ := by decide

/-! ### `Sector`, `Arc`: `contains`, `offset`, `points()` -/

/-- **`Sector::contains`** for a stroke-area sector and any display-scale point. -/
theorem sector_contains_checked_eq_plain {s : Sector} (hc : DS.xcircle s.toCircle) (hps : Sec.ps s.ps)
    {p : Pt} (hp : DS.xpt p) : Chk.Sector.contains s p = some (s.contains p) :=
  Chk.Sector.contains_ok ⟨DS.xcircle_sec hc, hps⟩ (DS.xcoord_probe hp.1) (DS.xcoord_probe hp.2)
example : DS.xcircle (⟨⟨-1152, 2176⟩, 1280, ⟨.union, ⟨-1024, 0⟩, ⟨0, 1024⟩⟩⟩ : Sector).toCircle ∧
    DS.xpt ⟨2176, -1152⟩ := by decide

theorem sector_offset_checked_eq_plain {s : Sector} (hc : DS.xcircle s.toCircle) {o : Int} (ho : DS.offs o) :
    Chk.Sector.offset s o = some (s.offset o) :=
  Chk.Sector.offset_ok (DS.xpt_W hc.1) (DS.xsize_W hc.2) (DS.offs_W ho)
example : DS.xcircle (⟨⟨5, 5⟩, 3, PlaneSector.entire⟩ : Sector).toCircle ∧ DS.offs (-128) := by decide

theorem sector_translate_checked_eq_plain {s : Sector} (hc : DS.xcircle s.toCircle) {d : Pt} (hd : DS.xpt d) :
    Chk.Sector.translate s d = some (s.translate d) :=
  Chk.Sector.translate_ok (DS.xpt_W hc.1) (DS.xpt_W hd)
example : DS.xcircle (⟨⟨5, 5⟩, 3, PlaneSector.entire⟩ : Sector).toCircle ∧ DS.xpt ⟨-9, 9⟩ := by decide

/-- `sector::Points::new`, and the invariant of the iterator. -/
theorem sector_points_new_checked_eq_plain {s : Sector} (hc : DS.xcircle s.toCircle) (hps : Sec.ps s.ps) :
    Chk.Sector.pointsIt s = some s.pointsIt ∧ Chk.Sector.PtsItOk s.pointsIt :=
  Chk.Sector.pointsIt_ok ⟨DS.xcircle_sec hc, hps⟩
example : DS.xcircle (⟨⟨0, 0⟩, 1024, ⟨.intersection, ⟨0, 1024⟩, ⟨1024, 0⟩⟩⟩ : Sector).toCircle := by decide

/-- **`sector::Points::next`**: from a state satisfying the invariant the checked step (every
`DistanceIterator::next` `find` pulls, the threshold comparison, `PlaneSector::contains` under the
short-circuit `&&`) is the plain step and keeps the invariant; by induction `points()` of a
display-scale sector never overflows. -/
theorem sector_points_next_checked_eq_plain {it : Sector.PointsIt} (hi : Chk.Sector.PtsItOk it) :
    Chk.Sector.next it = some it.next ∧ ∀ p it', it.next = some (p, it') → Chk.Sector.PtsItOk it' :=
  Chk.Sector.next_ok hi
example : Chk.Sector.PtsItOk (⟨⟨0, 0⟩, 9, ⟨.intersection, ⟨0, 1024⟩, ⟨1024, 0⟩⟩⟩ : Sector).pointsIt :=
  (Chk.Sector.pointsIt_ok (by decide)).2

/-- `arc::Points::new` (`offset(-1)`, both thresholds) and `next`. -/
theorem arc_points_new_checked_eq_plain {a : Arc} (hc : DS.xcircle a.toCircle) (hps : Sec.ps a.ps) :
    Chk.Arc.pointsIt a = some a.pointsIt ∧ Chk.Arc.PtsItOk a.pointsIt :=
  Chk.Arc.pointsIt_ok ⟨DS.xcircle_sec hc, hps⟩
example : DS.xcircle (⟨⟨0, 0⟩, 1024, ⟨.intersection, ⟨0, 1024⟩, ⟨1024, 0⟩⟩⟩ : Arc).toCircle := by decide

theorem arc_points_next_checked_eq_plain {it : Arc.PointsIt} (hi : Chk.Arc.PtsItOk it) :
    Chk.Arc.next it = some it.next ∧ ∀ p it', it.next = some (p, it') → Chk.Arc.PtsItOk it' :=
  Chk.Arc.next_ok hi
example : Chk.Arc.PtsItOk (⟨⟨0, 0⟩, 9, ⟨.intersection, ⟨0, 1024⟩, ⟨1024, 0⟩⟩⟩ : Arc).pointsIt :=
  (Chk.Arc.pointsIt_ok (by decide)).2

/-! ### Styled sectors and arcs -/

/-- The stroke thresholds of a styled sector, for every width whose inside / outside part is
below 2^20 (the display scale has 128). -/
theorem sector_thresholds_checked_eq_plain {w : Int} (h : 0 ≤ w ∧ w ≤ 1048575) :
    Chk.Sector.thresholdInside w = some (w * normalVectorScale * 2 - normalVectorScale) ∧
    Chk.Sector.thresholdOutside w = some (w * normalVectorScale * 2 + normalVectorScale) :=
  ⟨Chk.Sector.thresholdInside_ok h, Chk.Sector.thresholdOutside_ok h⟩
example : (0 : Int) ≤ 128 ∧ (128 : Int) ≤ 1048575 := by decide
/-- ... sharp: at 2^20 `inside * 1024 * 2` leaves `i32`; the bevel distance `-outside * 1024 * 4`
reaches exactly `i32::MIN` at 2^19 and overflows one further. -/
theorem sector_thresholds_overflow :
    Chk.Sector.thresholdInside 1048576 = none ∧ Chk.Sector.thresholdOutside 1048576 = none ∧
    Chk.Sector.bevelThreshold 524288 = some (-2147483648) ∧ Chk.Sector.bevelThreshold 524289 = none := by
  refine ⟨?_, ?_, ?_, ?_⟩ <;> decide

/-- **`StyledPixelsIterator::new`** of a display-scale styled sector (any alignment, width up to
128, also wider than the shape; any bevel whose normal is within +-1024): stroke and fill area,
`distances()`, both circle thresholds, both stroke thresholds, the bevel distance. -/
theorem styled_sector_new_checked_eq_plain {st : Style} {s : Sector} {bevel : SectorBevel}
    (hw : DS.width st.width) (hc : DS.circle s.toCircle) (hps : Sec.ps s.ps)
    (hb : ∀ k n, bevel = some (k, n) → Sec.normal n) :
    Chk.Sector.styledPixelsIt st s bevel = some (s.styledPixelsIt st bevel) ∧
    Chk.Sector.StyledOk (s.styledPixelsIt st bevel) :=
  Chk.Sector.styledPixelsIt_ok (DS.width_sec hw) (DS.circle_base hc) hps hb
example : DS.width (⟨some 1, some 2, 128, .outside⟩ : Style).width ∧
    DS.circle (⟨⟨-1024, 1024⟩, 1024, ⟨.intersection, ⟨0, 1024⟩, ⟨1024, 0⟩⟩⟩ : Sector).toCircle := by decide

/-- **`StyledPixelsIterator::next`** of a styled sector: every turn of its loop — `find`,
`point_type`, the bevel test `check_side`, the comparison with the inner threshold — is the
plain one and keeps the invariant. -/
theorem styled_sector_next_checked_eq_plain {it : Sector.StyledPixelsIt} (hi : Chk.Sector.StyledOk it) :
    Chk.Sector.styledNext it = some it.next ∧ ∀ w it', it.next = some (w, it') → Chk.Sector.StyledOk it' :=
  Chk.Sector.styledNext_ok hi
example : Chk.Sector.StyledOk ((⟨⟨0, 0⟩, 9, ⟨.intersection, ⟨0, 1024⟩, ⟨1024, 0⟩⟩⟩ : Sector).styledPixelsIt
    ⟨some 1, some 2, 3, .center⟩ (some (.exterior, ⟨724, -724⟩))) :=
  (Chk.Sector.styledPixelsIt_ok (by decide) (by decide) (by decide)
    (by intro k n h; cases h; decide)).2

/-- `arc::styled::StyledPixelsIterator::{new, next}`. -/
theorem styled_arc_new_checked_eq_plain {st : Style} {a : Arc} (hw : DS.width st.width)
    (hc : DS.circle a.toCircle) (hps : Sec.ps a.ps) :
    Chk.Arc.styledPixelsIt st a = some (a.styledPixelsIt st) ∧ Chk.Arc.StyledOk (a.styledPixelsIt st) :=
  Chk.Arc.styledPixelsIt_ok (DS.width_sec hw) (DS.circle_base hc) hps
example : DS.width (⟨none, some 2, 128, .inside⟩ : Style).width ∧
    DS.circle (⟨⟨-1024, 1024⟩, 1024, ⟨.union, ⟨0, 1024⟩, ⟨1024, 0⟩⟩⟩ : Arc).toCircle := by decide

theorem styled_arc_next_checked_eq_plain {it : Arc.StyledPixelsIt} (hi : Chk.Arc.StyledOk it) :
    Chk.Arc.styledNext it = some it.next ∧ ∀ w it', it.next = some (w, it') → Chk.Arc.StyledOk it' :=
  Chk.Arc.styledNext_ok hi
example : Chk.Arc.StyledOk ((⟨⟨0, 0⟩, 9, ⟨.intersection, ⟨0, 1024⟩, ⟨1024, 0⟩⟩⟩ : Arc).styledPixelsIt
    ⟨none, some 2, 3, .center⟩) :=
  (Chk.Arc.styledPixelsIt_ok (by decide) (by decide) (by decide)).2

/-! ### The `fixed_point` build: `PlaneSector::new` and the bevel selection on I16F16 bits -/

/-- Table normals are within +-1024 per component. -/
theorem fixed_table_normal_in_range (d c : Int) : Sec.normal (Fx.tableNormal d c) := by
  have h1 := Fx.sinT_bound d
  have h2 := Fx.sinT_bound c
  unfold Sec.normal Fx.tableNormal Fx.t64 Fx.truncDiv
  simp only
  refine ⟨⟨?_, ?_⟩, ⟨?_, ?_⟩⟩ <;> split <;> omega

/-- **`PlaneSector::new` of the `fixed_point` build never panics at display scale** (restating
`EG.C18.fixed_plane_sector_defined` with the sweep bound removed): start angle within +-11000000
bits (about 26 turns, +-9600 degrees; the streams use +-720 degrees), ANY sweep except `i32::MIN`
bits — `abs`, `start + sweep`, `Real::from(180) * angle`, the table lookups and
`i32::from(.. * 1024)` all return — and the two normals it returns are within +-1024, the
hypothesis `Sec.ps` of the theorems above. -/
theorem fixed_plane_sector_total (start sweep : Int) (hs : -11000000 ≤ start ∧ start ≤ 11000000)
    (hw : -2147483647 ≤ sweep ∧ sweep ≤ 2147483647) :
    ∃ ps, Fx.planeSectorNew start sweep = some ps ∧ Sec.ps ps := by
  by_cases hfull : 411775 ≤ Fx.sweepAbs sweep
  · exact ⟨_, Fx.planeSectorNew_entire start sweep (by omega) (by omega) hfull, by decide⟩
  · have hsw : -411775 < sweep ∧ sweep < 411775 := by unfold Fx.sweepAbs at hfull; split at hfull <;> omega
    have hb : ∀ a : Int, -11800000 ≤ a → a ≤ 11800000 → Fx.AngleFits a := by
      intro a h1 h2; rw [Fx.angleFits_iff]; omega
    have hr : Fx.AngleFits (Fx.boundaryAngles start sweep).1 := by
      unfold Fx.boundaryAngles; split <;> exact hb _ (by simp only; omega) (by simp only; omega)
    have hl : Fx.AngleFits (Fx.boundaryAngles start sweep).2 := by
      unfold Fx.boundaryAngles; split <;> exact hb _ (by simp only; omega) (by simp only; omega)
    exact ⟨_, Fx.planeSectorNew_eq start sweep (by omega) (by omega) (by omega) (by omega) hr hl,
      ⟨fixed_table_normal_in_range _ _, fixed_table_normal_in_range _ _⟩⟩
example : (-11000000 : Int) ≤ 823550 ∧ (823550 : Int) ≤ 11000000 := by decide   -- 720 degrees in bits

/-- The bound on the start angle is needed: beyond +-11930464 bits `Real::from(180) * angle`
overflows I16F16. -/
theorem fixed_plane_sector_panics_beyond : Fx.planeSectorNew 11930465 1000 = none := by decide

/-- **The trigonometric part of `Styled<Sector>::pixels()` in the `fixed_point` build** —
`PlaneSector::new`, then `abs`, the halved sweep, `start + half`, `+- 90 degrees`,
`with_angle` of the bevel line — returns on the same domain, and the bevel normal is within
+-1024 (the hypothesis `hb` of `styled_sector_new_checked_eq_plain`). -/
theorem fixed_styled_sector_trig_total (start sweep : Int) (hs : -11000000 ≤ start ∧ start ≤ 11000000)
    (hw : -2147483647 ≤ sweep ∧ sweep ≤ 2147483647) :
    ∃ ps bevel, Fx.styledSectorTrig start sweep = some (ps, bevel) ∧ Sec.ps ps ∧
      ∀ k n, bevel = some (k, n) → Sec.normal n := by
  obtain ⟨ps, hps, hok⟩ := fixed_plane_sector_total start sweep hs hw
  have hb : ∀ a : Int, -11800000 ≤ a → a ≤ 11800000 → Fx.AngleFits a := by
    intro a h1 h2; rw [Fx.angleFits_iff]; omega
  have habs : Fx.angleAbs sweep = some (Fx.sweepAbs sweep) := by
    unfold Fx.angleAbs Fx.abs Fx.sweepAbs
    exact Fx.chk_of_fits (by split <;> omega)
  have e1 : Generated.bevelExteriorBits = 62910 := by decide
  have e2 : Generated.bevelInteriorLoBits = 348865 := by decide
  have e3 : Generated.bevelInteriorHiBits = 411775 := by decide
  have e4 : Generated.fracPi2Bits = 102944 := by decide
  unfold Fx.styledSectorTrig Fx.sectorBevel
  rw [hps, habs]
  simp only [Option.bind_eq_bind, Option.bind_some, e1, e2, e3, e4]
  by_cases hbev : (decide (Fx.sweepAbs sweep < 62910) ||
      (decide (Fx.sweepAbs sweep > 348865) && decide (Fx.sweepAbs sweep < 411775))) = true
  · have hsw : -411775 < sweep ∧ sweep < 411775 := by
      unfold Fx.sweepAbs at hbev
      simp only [Bool.or_eq_true, Bool.and_eq_true, decide_eq_true_eq] at hbev
      split at hbev <;> omega
    have hh : -205888 ≤ Fx.halfSweep sweep ∧ Fx.halfSweep sweep ≤ 205888 := by
      unfold Fx.halfSweep; simp only; split <;> (try split) <;> omega
    rw [if_pos hbev]
    have a1 : Fx.add start (Fx.halfSweep sweep) = some (start + Fx.halfSweep sweep) :=
      Fx.chk_of_fits (by omega)
    rw [a1]
    simp only [Option.bind_some]
    split
    · have a2 : Fx.add (start + Fx.halfSweep sweep) 102944 = some (start + Fx.halfSweep sweep + 102944) :=
        Fx.chk_of_fits (by omega)
      rw [a2]
      simp only [Option.bind_some]
      rw [Fx.withAngle_eq _ (hb _ (by omega) (by omega))]
      refine ⟨ps, _, rfl, hok, ?_⟩
      intro k n h
      simp only [Option.some.injEq, Prod.mk.injEq] at h
      rw [← h.2]
      exact fixed_table_normal_in_range _ _
    · have a2 : Fx.sub (start + Fx.halfSweep sweep) 102944 = some (start + Fx.halfSweep sweep - 102944) :=
        Fx.chk_of_fits (by omega)
      rw [a2]
      simp only [Option.bind_some]
      rw [Fx.withAngle_eq _ (hb _ (by omega) (by omega))]
      refine ⟨ps, _, rfl, hok, ?_⟩
      intro k n h
      simp only [Option.some.injEq, Prod.mk.injEq] at h
      rw [← h.2]
      exact fixed_table_normal_in_range _ _
  · rw [if_neg hbev]
    exact ⟨ps, none, rfl, hok, fun k n h => by cases h⟩
example : (-11000000 : Int) ≤ -823550 ∧ (-2147483647 : Int) ≤ 823550 := by decide

end EG.C08
