/-
  C08 (join kernels, link) — the checked join kernels return the values of the plain model the
  geometric theorems are about.

  C08/Lines.lean states "checked = plain" for `LinearEquation` / `IntersectionParams` / the miter
  test against `EG.Isect` (the plain form written next to the checked kernels in
  Model/CheckedLine.lean). The theorems of C02 / C07 / C17 / C19 and the driver of the thick
  streams use a second, independently written plain model, `EG.Joins`
  (Model/LinearEquation.lean, Intersection.lean, LineJoin.lean). This file closes the gap:

    1. `isect_*_eq_joins`: every function the two models both define is the same function, for
       ALL inputs (no range hypothesis) — Lemmas/IsectJoins.lean;
    2. `*_checked_eq_joins`: the range theorems of C08/Lines.lean restated directly against
       `EG.Joins` on the same domain `J.line` (start point and delta within +-32767, which
       contains every display-scale edge, see `ds_line_in_J`).
-/
import EG.Props.C08.Lines
import EG.Lemmas.IsectJoins
namespace EG.C08
open EG EG.Chk EG.IsectJoins

/-! ### 1. `EG.Isect` = `EG.Joins`, function by function, all inputs -/

theorem isect_rotate90_eq_joins (p : Pt) : EG.Isect.rotate90 p = Joins.rotate90 p := rotate90_eq p
theorem isect_dot_eq_joins (a b : Pt) : EG.Isect.dot a b = Joins.dot a b := dot_eq a b
theorem isect_det_eq_joins (a b : Pt) : EG.Isect.det a b = Joins.det a b := det_eq a b

/-- `LinearEquation::from_line`. -/
theorem isect_from_line_eq_joins (l : Line) :
    toJoins (EG.Isect.fromLine l) = Joins.LinearEquation.fromLine l := fromLine_eq l

/-- `LinearEquation::distance`. -/
theorem isect_distance_eq_joins (le : EG.Isect.LinearEquation) (p : Pt) :
    EG.Isect.distance le p = (toJoins le).distance p := distance_eq le p

/-- The determinant of `IntersectionParams::from_lines`. -/
theorem isect_denominator_eq_joins (l1 l2 : Line) :
    EG.Isect.denominator l1 l2 = (Joins.IntersectionParams.fromLines l1 l2).denominator :=
  denominator_eq l1 l2

/-- `nearly_colinear_has_error`. -/
theorem isect_nearly_colinear_eq_joins (l1 l2 : Line) :
    EG.Isect.nearlyColinearHasError l1 l2 =
      (Joins.IntersectionParams.fromLines l1 l2).nearlyColinearHasError :=
  nearlyColinearHasError_eq l1 l2

/-- The rounding closure `round_div` (`Isect` is handed `signum d` and `|d|`, `Joins` derives them). -/
theorem isect_round_div_eq_joins (n d : Int) :
    EG.Isect.roundDiv (EG.Isect.signum d) (if d < 0 then -d else d) n = Joins.roundDiv n d :=
  roundDiv_eq n d

/-- `IntersectionParams::intersection`. -/
theorem isect_intersection_eq_joins (l1 l2 : Line) :
    isectResult (EG.Isect.intersection (EG.Isect.fromLine l1) (EG.Isect.fromLine l2)
      (EG.Isect.denominator l1 l2)) = (Joins.IntersectionParams.fromLines l1 l2).intersection :=
  intersection_eq l1 l2

/-- The miter test is the comparison `Joins.LineJoin.fromExtents` performs. -/
theorem isect_miter_eq_joins (mid outerPoint : Pt) (width : Nat) :
    EG.Isect.miterWithinLimit (Line.delta ⟨mid, outerPoint⟩) width =
      decide ((Line.delta ⟨mid, outerPoint⟩).lengthSquared ≤ (((width * 2) * (width * 2) : Nat) : Int)) :=
  miterWithinLimit_eq mid outerPoint width

/-! ### 2. The checked kernels against `EG.Joins` directly -/

/-- `LinearEquation::from_line` in `i32` succeeds on `J.line` and yields the `Joins` equation. -/
theorem linear_equation_checked_eq_joins {l : Line} (h : J.line l) :
    (Chk.Isect.fromLine l).map toJoins = some (Joins.LinearEquation.fromLine l) := by
  rw [linear_equation_checked_eq_plain h]; rfl
example : J.line ⟨⟨-1152, 2176⟩, ⟨1100, -1100⟩⟩ := by decide

/-- `IntersectionParams::from_lines` in `i32`: both equations and the determinant of `Joins`. -/
theorem intersection_params_checked_eq_joins {l1 l2 : Line} (h1 : J.line l1) (h2 : J.line l2) :
    (Chk.Isect.fromLines l1 l2).map (fun r => (toJoins r.1, toJoins r.2.1, r.2.2)) =
      some ((Joins.IntersectionParams.fromLines l1 l2).le1, (Joins.IntersectionParams.fromLines l1 l2).le2,
        (Joins.IntersectionParams.fromLines l1 l2).denominator) := by
  rw [intersection_params_checked_eq_plain h1 h2]; rfl
example : J.line ⟨⟨-1024, -1024⟩, ⟨1024, -1024⟩⟩ ∧ J.line ⟨⟨1024, -1024⟩, ⟨0, 1024⟩⟩ := by decide

/-- `nearly_colinear_has_error` (`i64` square) = the `Joins` predicate. -/
theorem nearly_colinear_checked_eq_joins {l1 l2 : Line} (h1 : J.line l1) (h2 : J.line l2) :
    Chk.Isect.nearlyColinearHasError l1 l2 (Joins.IntersectionParams.fromLines l1 l2).denominator =
      some (Joins.IntersectionParams.fromLines l1 l2).nearlyColinearHasError := by
  rw [← denominator_eq, nearly_colinear_checked_eq_plain h1 h2, nearlyColinearHasError_eq]
example : J.line ⟨⟨-257, 65⟩, ⟨0, -256⟩⟩ ∧ J.line ⟨⟨0, -256⟩, ⟨255, 65⟩⟩ := by decide

/-- **`IntersectionParams::intersection`** (`i64` numerators, rounding, saturating cast) computed
by the checked kernel on the equations and determinant of `from_lines` = `Joins ... .intersection`,
the function `LineJoin::from_points` of the C02 / C07 / C19 model calls. -/
theorem intersection_checked_eq_joins {l1 l2 : Line} (h1 : J.line l1) (h2 : J.line l2) :
    (Chk.Isect.intersection (EG.Isect.fromLine l1) (EG.Isect.fromLine l2)
        (Joins.IntersectionParams.fromLines l1 l2).denominator).map isectResult =
      some (Joins.IntersectionParams.fromLines l1 l2).intersection := by
  rw [← denominator_eq, intersection_checked_eq_plain h1 h2, Option.map_some, intersection_eq]
example : J.line ⟨⟨-1024, -1024⟩, ⟨1024, -1024⟩⟩ ∧ J.line ⟨⟨1024, -1024⟩, ⟨0, 1024⟩⟩ := by decide
example : (Joins.IntersectionParams.fromLines ⟨⟨-1024, -1024⟩, ⟨1024, -1024⟩⟩ ⟨⟨1024, -1024⟩, ⟨0, 1024⟩⟩).intersection
    = .point ⟨1024, -1024⟩ .right := by decide

/-- `LinearEquation::distance` / `check_side` of a `Joins` equation. -/
theorem linear_equation_distance_checked_eq_joins {le : EG.Isect.LinearEquation} {p : Pt}
    (hn : (-16382 ≤ le.normal.x ∧ le.normal.x ≤ 16382) ∧ (-16382 ≤ le.normal.y ∧ le.normal.y ≤ 16382))
    (hp : (-8191 ≤ p.x ∧ p.x ≤ 8191) ∧ (-8191 ≤ p.y ∧ p.y ≤ 8191))
    (ho : -1073741824 ≤ le.originDistance ∧ le.originDistance ≤ 1073741824) :
    Chk.Isect.distance le p = some ((toJoins le).distance p) := by
  rw [linear_equation_distance_checked_eq_plain hn hp ho, distance_eq]
example : (EG.Isect.fromLine ⟨⟨-1024, -1024⟩, ⟨1024, 1024⟩⟩).originDistance ≤ 1073741824 := by decide

/-- The miter test of `Joins.LineJoin.fromExtents` (`miterLengthSquared ≤ miterLimit`) in `i64` / `u32`. -/
theorem miter_checked_eq_joins {mid outerPoint : Pt}
    (hx : -2147483647 ≤ (Line.delta ⟨mid, outerPoint⟩).x ∧ (Line.delta ⟨mid, outerPoint⟩).x ≤ 2147483647)
    (hy : -2147483647 ≤ (Line.delta ⟨mid, outerPoint⟩).y ∧ (Line.delta ⟨mid, outerPoint⟩).y ≤ 2147483647)
    {w : Nat} (hw : w ≤ 32767) :
    Chk.Isect.miterWithinLimit (Line.delta ⟨mid, outerPoint⟩) w =
      some (decide ((Line.delta ⟨mid, outerPoint⟩).lengthSquared ≤ (((w * 2) * (w * 2) : Nat) : Int))) := by
  rw [miter_checked_eq_plain hx hy hw, miterWithinLimit_eq]
example : -2147483647 ≤ (Line.delta ⟨⟨-1024, 3⟩, ⟨900, -77⟩⟩).x ∧ (Line.delta ⟨⟨-1024, 3⟩, ⟨900, -77⟩⟩).x ≤ 2147483647 ∧
    (128 : Nat) ≤ 32767 := by decide

end EG.C08
