/-
  C08 (line part) — range theorems of the Bresenham walk (`Line::points()`), the thick-line scalars
  (`ParallelsIterator`: `i64` threshold, `i32` accumulator), the intersection kernels
  (`LinearEquation::from_line`, `IntersectionParams`: `i32` normal vectors / origin distances /
  determinant, `i64` squared denominator, numerators and rounding) and the `i64` miter length.
  Checked models: `EG.Model.CheckedLine`; plain: `EG.Model.Bresenham`, `Line`, `ThickLine`, and
  `EG.Isect` (the plain form of the intersection code next to the checked kernels; it is the same
  function as the `EG.Joins` model of C02 / C07 / C17 / C19: C08/JoinsLink.lean).

  `DS.line l` = both end points within +-1024. The edges handed to `IntersectionParams` are the
  *extents* of thick segments (start points shifted by at most the stroke width); they are covered
  by `J.line` (start point and delta within +-32767), the largest uniform domain on which
  `origin_distance` fits `i32`.
-/
import EG.Lemmas.CheckedDS
import EG.Lemmas.CheckedThickIter
namespace EG.DS
/-- both end points within +-1024 -/
def line (l : Line) : Prop := pt l.start ∧ pt l.stop
instance (l : Line) : Decidable (line l) := by unfold line; exact inferInstance
end EG.DS

namespace EG.C08
open EG EG.Chk

theorem ds_line_W {l : Line} (h : DS.line l) : W.pt l.start ∧ W.pt l.stop :=
  ⟨DS.xpt_W (DS.pt_x h.1), DS.xpt_W (DS.pt_x h.2)⟩

theorem ds_line_16383 {l : Line} (h : DS.line l) :
    ((-16383 ≤ l.start.x ∧ l.start.x ≤ 16383) ∧ (-16383 ≤ l.start.y ∧ l.start.y ≤ 16383)) ∧
    ((-16383 ≤ l.stop.x ∧ l.stop.x ≤ 16383) ∧ (-16383 ≤ l.stop.y ∧ l.stop.y ≤ 16383)) := by
  obtain ⟨⟨⟨_, _⟩, ⟨_, _⟩⟩, ⟨⟨_, _⟩, ⟨_, _⟩⟩⟩ := h
  omega

theorem ds_line_J {l : Line} (h : DS.line l) : J.line l := by
  obtain ⟨⟨⟨_, _⟩, ⟨_, _⟩⟩, ⟨⟨_, _⟩, ⟨_, _⟩⟩⟩ := h
  unfold J.line J.pt J.coord
  simp only [Pt.sub_x, Pt.sub_y]
  omega

/-! ### Bresenham: `BresenhamParameters::new`, `major_length`, the whole walk of `Line::points()` -/

theorem bresenham_parameters_checked_eq_plain {l : Line} (h : DS.line l) :
    bresenhamParametersNew l = some (BresenhamParameters.new l) :=
  bresenhamParametersNew_ok (ds_line_W h).1 (ds_line_W h).2
example : DS.line ⟨⟨-1024, 1024⟩, ⟨1024, -1024⟩⟩ := by decide

theorem major_length_checked_eq_plain {l : Line} (h : DS.line l) :
    Chk.majorLength l = some (EG.majorLength l) := majorLength_ok (ds_line_W h).1 (ds_line_W h).2
example : DS.line ⟨⟨5, 5⟩, ⟨5, 5⟩⟩ := by decide

/-- `Line::points()` drained: `error_threshold`, both `error_step` doublings, every error update
and every point update of every step stay inside `i32`, and the points are those of the plain
walk (whose closed form is `Line.points_eq`). -/
theorem line_points_checked_eq_plain {l : Line} (h : DS.line l) :
    linePoints l = some (Line.points l) := linePoints_ok (ds_line_W h).1 (ds_line_W h).2
example : DS.line ⟨⟨-1024, -1024⟩, ⟨1024, 1023⟩⟩ := by decide

/-- The same for end points up to 2^28. -/
theorem line_points_wide {l : Line} (hs : W.pt l.start) (he : W.pt l.stop) :
    linePoints l = some (Line.points l) := linePoints_ok hs he
example : W.pt ⟨-268435456, 268435456⟩ := by decide

/-- The `i32` range does end: the walk steps once past the end point, so a line ending at
`i32::MAX` panics in a checked build before its last point is returned. -/
theorem line_points_overflow_at_i32_max : linePoints ⟨⟨2147483645, 0⟩, ⟨2147483647, 0⟩⟩ = none := by
  decide

/-! ### Thick lines: the scalars of `ParallelsIterator` -/

/-- `thickness_threshold` (`i64`) for thickness up to 32767 and deltas up to 32767 per axis: the
largest deltas whose `length_squared` fits `i32`. -/
theorem thick_threshold_checked_eq_plain {t : Int} (ht : 0 ≤ t ∧ t ≤ 32767) {d : Pt}
    (hx : -32767 ≤ d.x ∧ d.x ≤ 32767) (hy : -32767 ≤ d.y ∧ d.y ≤ 32767) :
    thickThreshold t d = some (plainThickThreshold t d) := thickThreshold_ok ht hx hy
example : (0 : Int) ≤ 128 ∧ (128 : Int) ≤ 32767 ∧ (-32767 : Int) ≤ 2048 := by decide

/-- `ParallelsIterator::new` on display-scale lines with any stroke width up to 128 (also wider
than the line is long, also the degenerate line): the checked scalars are the ones the plain
iterator stores, and they satisfy the range invariant. -/
theorem thick_new_checked_eq_plain {l : Line} (h : DS.line l) {w : Nat} (hw : DS.width w)
    {so : Thick.StrokeOffset} {it : Thick.ParallelsIterator}
    (hn : Thick.ParallelsIterator.new l (w : Int) so = some it) :
    thickScalars l (w : Int) = some (it.thicknessThreshold, it.thicknessAccumulator) ∧
    Thick.ParallelsIterator.ScalarsInRange it := by
  unfold DS.width at hw
  exact Thick.ParallelsIterator.new_in_range (ds_line_16383 h).1 (ds_line_16383 h).2 (by omega) hn
example : DS.line ⟨⟨0, 0⟩, ⟨0, 0⟩⟩ ∧ DS.width 128 ∧
    (Thick.ParallelsIterator.new ⟨⟨0, 0⟩, ⟨0, 0⟩⟩ 128 .none).isSome = true := by decide

/-- Every `ParallelsIterator::next` that yields a parallel is one successful checked accumulator
step — the `i64` square `acc^2` and the `i32` increment `acc += error_step` do not overflow —
and the invariant is kept: by induction, no step of a thick line started at display scale
overflows, however many parallels it takes. -/
theorem thick_next_checked_eq_plain {it : Thick.ParallelsIterator}
    (hr : Thick.ParallelsIterator.ScalarsInRange it) {r it'} (h : it.next = some (some r, it')) :
    (thickAccStep it.thicknessAccumulator it.thicknessThreshold
        it.perpendicularParameters.errorStep.minor = some (some it'.thicknessAccumulator) ∨
     thickAccStep it.thicknessAccumulator it.thicknessThreshold
        it.perpendicularParameters.errorStep.major = some (some it'.thicknessAccumulator)) ∧
    Thick.ParallelsIterator.ScalarsInRange it' :=
  Thick.ParallelsIterator.next_in_range hr h

/-- The accumulator step in isolation, with its exact hypotheses: any `i32` accumulator, a
threshold up to 2^60, steps below 2^30. -/
theorem thick_acc_step_checked_eq_plain {acc th step : Int}
    (ha : -2147483648 ≤ acc ∧ acc ≤ 2147483647) (hth : th ≤ 1152921504606846976)
    (hs : -1073741823 ≤ step ∧ step ≤ 1073741823) :
    thickAccStep acc th step = some (if acc * acc > th then none else some (acc + step)) :=
  thickAccStep_ok ha hth hs
example : (745472 : Int) * 745472 ≤ 1152921504606846976 := by decide

/-! ### Intersections of thick-line edges -/

theorem linear_equation_checked_eq_plain {l : Line} (h : J.line l) :
    Chk.Isect.fromLine l = some (EG.Isect.fromLine l) := (Chk.Isect.fromLine_ok h).1
example : J.line ⟨⟨-1152, 2176⟩, ⟨1100, -1100⟩⟩ := by decide

/-- `IntersectionParams::from_lines`: both equations and the `i32` determinant. -/
theorem intersection_params_checked_eq_plain {l1 l2 : Line} (h1 : J.line l1) (h2 : J.line l2) :
    Chk.Isect.fromLines l1 l2 =
      some (EG.Isect.fromLine l1, EG.Isect.fromLine l2, EG.Isect.denominator l1 l2) :=
  (Chk.Isect.fromLines_ok h1 h2).1
example : J.line ⟨⟨-1024, -1024⟩, ⟨1024, -1024⟩⟩ ∧ J.line ⟨⟨1024, -1024⟩, ⟨0, 1024⟩⟩ := by decide

/-- `nearly_colinear_has_error` (`i64` square of the denominator). -/
theorem nearly_colinear_checked_eq_plain {l1 l2 : Line} (h1 : J.line l1) (h2 : J.line l2) :
    Chk.Isect.nearlyColinearHasError l1 l2 (EG.Isect.denominator l1 l2) =
      some (EG.Isect.nearlyColinearHasError l1 l2) := by
  obtain ⟨_, b1, b2⟩ := Chk.Isect.fromLines_ok h1 h2
  rw [Chk.Isect.nearlyColinear_ok h1 h2 (by omega)]
  rfl
example : J.line ⟨⟨-257, 65⟩, ⟨0, -256⟩⟩ ∧ J.line ⟨⟨0, -256⟩, ⟨255, 65⟩⟩ := by decide

/-- `IntersectionParams::intersection` (`i64` numerators, rounding, saturating cast). -/
theorem intersection_checked_eq_plain {l1 l2 : Line} (h1 : J.line l1) (h2 : J.line l2) :
    Chk.Isect.intersection (EG.Isect.fromLine l1) (EG.Isect.fromLine l2) (EG.Isect.denominator l1 l2) =
      some (EG.Isect.intersection (EG.Isect.fromLine l1) (EG.Isect.fromLine l2)
        (EG.Isect.denominator l1 l2)) := by
  obtain ⟨_, n1, _, _⟩ := Chk.Isect.fromLine_ok h1
  obtain ⟨_, n2, _, _⟩ := Chk.Isect.fromLine_ok h2
  obtain ⟨_, b1, b2⟩ := Chk.Isect.fromLines_ok h1 h2
  exact Chk.Isect.intersection_ok n1 n2 (by omega) (by omega) (by omega)
example : J.line ⟨⟨-1024, -1024⟩, ⟨1024, -1024⟩⟩ ∧ J.line ⟨⟨1024, -1024⟩, ⟨0, 1024⟩⟩ := by decide

/-- `LinearEquation::distance` (the self-intersection test `check_side` of a join): points within
+-8191, normal vectors within +-16382, origin distance within +-2^30 (display-scale edges:
points within +-2176, normals within +-2048, origin distances below 2^24). -/
theorem linear_equation_distance_checked_eq_plain {le : EG.Isect.LinearEquation} {p : Pt}
    (hn : (-16382 ≤ le.normal.x ∧ le.normal.x ≤ 16382) ∧ (-16382 ≤ le.normal.y ∧ le.normal.y ≤ 16382))
    (hp : (-8191 ≤ p.x ∧ p.x ≤ 8191) ∧ (-8191 ≤ p.y ∧ p.y ≤ 8191))
    (ho : -1073741824 ≤ le.originDistance ∧ le.originDistance ≤ 1073741824) :
    Chk.Isect.distance le p = some (EG.Isect.distance le p) := Chk.Isect.distance_ok hn hp ho
example : (EG.Isect.fromLine ⟨⟨-1024, -1024⟩, ⟨1024, 1024⟩⟩).originDistance ≤ 1073741824 := by decide

/-- Display-scale lines are inside `J`. -/
theorem ds_line_in_J {l : Line} (h : DS.line l) : J.line l := ds_line_J h
example : DS.line ⟨⟨-1024, -1024⟩, ⟨1024, 1024⟩⟩ := by decide

/-- The bound of `J` is the exact limit of the `i32` origin distance: one pixel further out it
overflows. -/
theorem linear_equation_overflows_at_32768 :
    Chk.Isect.fromLine ⟨⟨32768, 32768⟩, ⟨65536, 0⟩⟩ = none := by decide

/-- The miter test: the `i64` length fits for all `i32` differences except (MIN, MIN);
`(width * 2).pow(2)` fits `u32` up to width 32767. -/
theorem miter_checked_eq_plain {d : Pt} (hx : -2147483647 ≤ d.x ∧ d.x ≤ 2147483647)
    (hy : -2147483647 ≤ d.y ∧ d.y ≤ 2147483647) {w : Nat} (hw : w ≤ 32767) :
    Chk.Isect.miterWithinLimit d w = some (EG.Isect.miterWithinLimit d w) :=
  Chk.Isect.miterWithinLimit_ok hx hy hw
example : (128 : Nat) ≤ 32767 := by decide

/-! ### Why the widenings were needed (display-scale witnesses for the old `i32` arithmetic) -/

/-- 2947525: 1024 px line, width 23. -/
theorem old_thick_threshold_exceeds_i32 :
    Old.thickThreshold 23 ⟨1024, 0⟩ = none ∧ (thickThreshold 23 ⟨1024, 0⟩).isSome = true :=
  Old.thickThreshold_overflows
/-- 2947525: `accumulator.pow(2)` in `i32` overflows from 46341 on; a 2048 x 2048 diagonal of width
128 reaches `2 * 128 * 2896`. -/
theorem old_thick_accumulator_square_exceeds_i32 : Old.thickAccSquare 46341 = none :=
  Old.thickAccSquare_overflows
/-- 5970db5: two perpendicular 257 px edges. -/
theorem old_denominator_square_exceeds_i32 :
    EG.Isect.denominator ⟨⟨0, 0⟩, ⟨257, 0⟩⟩ ⟨⟨257, 0⟩, ⟨257, 257⟩⟩ = 66049 ∧
    Old.denominatorSquare 66049 = none := Old.denominatorSquare_overflows
/-- 02cb64a: two edges of the triangle (-1024,-1024), (1024,-1024), (0,1024). -/
theorem old_intersection_numerator_exceeds_i32 :
    Old.xNumerator (EG.Isect.fromLine ⟨⟨-1024, -1024⟩, ⟨1024, -1024⟩⟩)
      (EG.Isect.fromLine ⟨⟨1024, -1024⟩, ⟨0, 1024⟩⟩) = none := Old.xNumerator_overflows
/-- 77b3eec: a miter point 40000 px from the joint. -/
theorem old_miter_length_exceeds_i32 :
    Old.miterLengthSquared ⟨40000, 30000⟩ = none ∧
    (Chk.Isect.miterWithinLimit ⟨40000, 30000⟩ 58).isSome = true := Old.miterLengthSquared_overflows

end EG.C08
