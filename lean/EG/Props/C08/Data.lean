/-
  C08 (data part) — range theorems of `ImageRaw::new` / `data_width` / `pixel`, the `Framebuffer`
  index arithmetic and `buffer_size`, and the text metrics (`LineHeight::to_absolute`,
  `measure_string`, line advance, alignment, `Text::bounding_box`).
  Checked models: `EG.Model.CheckedData`; plain: `EG.Model.ImageRaw`, `Framebuffer`, and `EG.TextM`
  (plain form of the text layout arithmetic for texts of `k` lines of `n` characters).
-/
import EG.Lemmas.CheckedDS
import EG.Lemmas.CheckedData
import EG.Lemmas.CheckedText
namespace EG.C08
open EG EG.Chk EG.Raw EG.Img

/-! ### `ImageRaw` -/

/-- `bytes_per_row` cannot overflow `usize` for ANY `u32` width and any of the 7 depths. -/
theorem image_bytes_per_row_checked_eq_plain {width bits : Nat} (hw : width ≤ 4294967295)
    (hb : bits ≤ 32) : Chk.bytesPerRow width bits = some (Img.bytesPerRow width bits) :=
  bytesPerRow_ok hw hb
example : (1024 : Nat) ≤ 4294967295 ∧ (24 : Nat) ≤ 32 := by decide

/-- `ImageRaw::new` (expected length + the length check) for display-scale sizes. -/
theorem image_new_checked_eq_plain {bits : Nat} (hb : bits ≤ 32) (o : Order) (data : List Nat)
    {size : Sz} (h : DS.sz size) : imageNew bits o data size = some (ImageRaw.new bits o data size) := by
  obtain ⟨hw, hh⟩ := h
  unfold DS.size at hw hh
  exact imageNew_ok hb o data (by omega) (by omega)
example : DS.sz ⟨1024, 0⟩ := by decide
/-- The same up to 2^28 x 2^28. -/
theorem image_new_wide {bits : Nat} (hb : bits ≤ 32) (o : Order) (data : List Nat) {size : Sz}
    (hw : size.w ≤ 268435456) (hh : size.h ≤ 268435456) :
    imageNew bits o data size = some (ImageRaw.new bits o data size) := imageNew_ok hb o data hw hh
example : (⟨268435456, 268435456⟩ : Sz).w ≤ 268435456 := by decide
/-- The `usize` range does end: `ImageRaw::new(data, Size::new(u32::MAX, u32::MAX))` for a 16 bpp
colour panics on `bytes_per_row * height` (64 bit `usize`) instead of returning
`Err(InvalidDataSize)`. Not display scale; replayed by `scale.chk.img.new`. -/
theorem image_new_overflows_for_u32_max : imageNew 16 .le [] ⟨4294967295, 4294967295⟩ = none := by
  decide

/-- `pixel(p)` for EVERY point `p` (no bound): points outside are rejected before any
arithmetic, for points inside `p.x + p.y * data_width` fits `usize` (and `data_width`'s `u32`
product does not overflow). Images up to 2^28 x 2^28. -/
theorem image_pixel_index_checked_eq_plain {im : ImageRaw} (hv : validBits im.bits = true)
    (hw : im.size.w ≤ 268435456) (hh : im.size.h ≤ 268435456) (p : Pt) :
    imagePixelIndex im p =
      some (if p.x < 0 ∨ p.y < 0 ∨ p.x ≥ asI32 im.size.w ∨ p.y ≥ asI32 im.size.h then none
            else some (p.x.toNat + p.y.toNat * im.dataWidth)) := imagePixelIndex_ok hv hw hh p
example : validBits (⟨1, .le, [], ⟨1024, 1024⟩⟩ : ImageRaw).bits = true := by decide

/-! ### `Framebuffer` -/

theorem fb_buffer_size_checked_eq_plain {width height bits : Nat} (hw : DS.size width)
    (hh : DS.size height) (hb : bits ≤ 32) :
    Chk.bufferSize width height bits = some (Fb.bufferSize width height bits) := by
  unfold DS.size at hw hh
  exact bufferSize_ok (by omega) (by omega) hb
example : DS.size 1024 := by decide

/-- `set_pixel(p, _)` for EVERY point `p`: outside the framebuffer it is a no-op reached without
arithmetic, inside the index `bytes_per_row * pixels_per_byte * y + x` (resp. `y * W + x`,
`(y * W + x) * bytes`) fits `usize`. Framebuffers up to 2^24 x 2^24. -/
theorem fb_index_checked_eq_plain {bits : Nat} (hv : validBits bits = true) {width height : Nat}
    (hw : width ≤ 16777216) (hh : height ≤ 16777216) (p : Pt) :
    fbIndex bits width height p =
      some (if 0 ≤ p.x ∧ 0 ≤ p.y ∧ p.x.toNat < width ∧ p.y.toNat < height
            then some (fbIndexPlain bits width p) else none) := fbIndex_ok hv hw hh p
example : validBits 4 = true ∧ (1024 : Nat) ≤ 16777216 := by decide

/-! ### Text metrics -/

open EG.TextM in
/-- `LineHeight::to_absolute`: `Pixels` is the identity; `Percent(p)` multiplies in `u32`. -/
theorem line_height_checked_eq_plain {lh : LineHeight} {base : Nat}
    (h : Chk.TextM.PercentFits base lh) :
    Chk.TextM.toAbsolute lh base = some (EG.TextM.toAbsolute lh base) := Chk.TextM.toAbsolute_ok h
example : Chk.TextM.PercentFits 1024 (.percent 400) := by unfold Chk.TextM.PercentFits; decide
/-- ... which overflows for percentages a `u32` can hold (not display scale). -/
theorem line_height_percent_overflows :
    Chk.TextM.toAbsolute (.percent 214748365) 20 = none := by decide

open EG.TextM in
/-- `measure_string` width `chars * (width + spacing) - spacing` in `u32`. -/
theorem measure_width_checked_eq_plain {m : Metrics} {n : Nat} (hn : n ≤ 4294967295)
    (h : n * (m.cw + m.sp) ≤ 4294967295) (hs : m.cw + m.sp ≤ 4294967295) :
    Chk.TextM.lineWidth m n = some (EG.TextM.lineWidth m n) := Chk.TextM.lineWidth_ok hn h hs
example : 65536 * ((⟨10, 20, 0, 15⟩ : EG.TextM.Metrics).cw + (⟨10, 20, 0, 15⟩ : EG.TextM.Metrics).sp) ≤ 4294967295 := by
  decide

open EG.TextM in
/-- `Text::lines()`: the alignment subtraction and the advance `position.y += line_height` of
every line (also the one after the last line) stay inside `i32`; line `i` is laid out at
`linePos .. i` (`pos.y + i * line_height`, shifted left by `width - 1` or half of it). -/
theorem text_lines_checked_eq_plain {m : Metrics} {lh : LineHeight} (bl : Baseline) (al : Alignment)
    {pos : Pt} {k n : Nat} (h : Chk.TextM.InDomain m lh pos k n) :
    Chk.TextM.lines m lh bl al n k pos =
      some ((List.range k).map (fun i => linePos m lh al pos n i)) := by
  have hH := h.lineHeight_le
  have hg := h.glyph
  have hl := h.lines
  have hwd := h.width
  exact Chk.TextM.lines_ok al h.lhv' hH (by omega) h.chars (by omega) h.cell k pos h.px
    (by have := h.py; constructor <;> omega)

open EG.TextM in
/-- `Text::bounding_box()` does not panic in the text domain: positions within +-2^20, line height
up to 2^20 px (after `to_absolute`), at most 1024 lines, line width up to 2^27 px, glyph height up
to 2^20. -/
theorem text_bounding_box_no_panic {m : Metrics} {lh : LineHeight} (bl : Baseline) (al : Alignment)
    {pos : Pt} {k n : Nat} (h : Chk.TextM.InDomain m lh pos k n) :
    (Chk.TextM.boundingBox m lh bl al pos k n).isSome = true := Chk.TextM.boundingBox_isSome bl al h

open EG.TextM in
/-- Display scale is inside the text domain: position within +-1024, line height up to 1024 px or
400 % of a glyph height up to 1024, up to 1024 lines of up to 65536 characters of up to 2048 px. -/
theorem text_domain_of_display_scale {m : Metrics} {lh : LineHeight} {pos : Pt} {k n : Nat}
    (hp : DS.pt pos) (hlh : match lh with | .pixels px => px ≤ 1024 | .percent p => p ≤ 400)
    (hk : k ≤ 1024) (hn : n ≤ 65536) (hc : m.cw + m.sp ≤ 2048) (hg : m.ch ≤ 1024 ∧ m.bl ≤ 1024) :
    Chk.TextM.InDomain m lh pos k n := by
  obtain ⟨⟨_, _⟩, ⟨_, _⟩⟩ := hp
  refine ⟨by omega, by omega, ?_, hk, by omega, ?_, by omega, by omega⟩
  · cases lh with
    | pixels px => simp only at hlh ⊢; omega
    | percent p =>
      simp only at hlh ⊢
      have : m.ch * p ≤ 1024 * 400 := Nat.mul_le_mul hg.1 hlh
      omega
  · have : n * (m.cw + m.sp) ≤ 65536 * 2048 := Nat.mul_le_mul hn hc
    omega
example : DS.pt ⟨-1024, 1024⟩ ∧ (400 : Nat) ≤ 400 ∧ (1024 : Nat) ≤ 1024 := by decide

/-- The advance does overflow outside: `LineHeight::Pixels(u32::MAX)` saturates to `i32::MAX`, and
`position.y += line_height` runs once per line, so a single line at `y = 1` panics. -/
theorem text_line_advance_overflows :
    Chk.TextM.lines ⟨6, 10, 0, 7⟩ (.pixels 4294967295) .top .left 1 1 ⟨0, 1⟩ = none := by decide

end EG.C08
