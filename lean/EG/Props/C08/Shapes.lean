/-
  C08 (circle / ellipse part) — range theorems of `Circle`, `Ellipse`, `EllipseContains`.
  Models: `EG.Model.CheckedShapes` (checked) against `EG.Model.Circle`, `Ellipse`, `EllipseContains`
  (plain). `EllipseContains` as repaired by commit 848fbcc (`u64` threshold and sums).
-/
import EG.Lemmas.CheckedDS
namespace EG.C08
open EG EG.Chk

/-! ### `Circle` -/

theorem circle_center_2x_checked_eq_plain {c : EG.Circle} (h : DS.xcircle c) :
    Chk.Circle.center2x c = some c.center2x := Circle.center2x_ok (DS.xpt_W h.1) (DS.xsize_W h.2)
example : DS.xcircle ⟨⟨-1152, 1024⟩, 1280⟩ := by decide

/-- `diameter_to_threshold` in `u32`: every diameter below 65536 (not only display scale). -/
theorem circle_threshold_checked_eq_plain {d : Nat} (h : d ≤ 65535) :
    Chk.diameterToThreshold d = some (EG.diameterToThreshold d) := diameterToThreshold_ok h
example : (1280 : Nat) ≤ 65535 := by decide
/-- ... and the bound is sharp. -/
theorem circle_threshold_overflows_at_65536 : Chk.diameterToThreshold 65536 = none := by decide

/-- `contains`: stroke-area circles (diameter up to 1280, corner down to -1152) probed at any point
of the derived domain. `delta.length_squared()` stays inside `i32`. -/
theorem circle_contains_checked_eq_plain {c : EG.Circle} (h : DS.xcircle c) {p : Pt} (hp : DS.xpt p) :
    Chk.Circle.contains c p = some (c.contains p) :=
  Circle.contains_ok (DS.xcoord_S h.1.1) (DS.xcoord_S h.1.2) (DS.xsize_S h.2)
    (DS.xcoord_probe hp.1) (DS.xcoord_probe hp.2)
example : DS.xcircle ⟨⟨-1152, -1152⟩, 1280⟩ ∧ DS.xpt ⟨2176, 2176⟩ := by decide

/-- The largest uniform domain proved: corners within +-4096, diameters up to 8192, probe points
within +-8192 (then `|center_2x - 2 p| <= 32767`, the largest value whose squared length fits). -/
theorem circle_contains_wide {c : EG.Circle} (hx : S.coord c.tl.x) (hy : S.coord c.tl.y) (hd : S.size c.d)
    {p : Pt} (hpx : S.probe p.x) (hpy : S.probe p.y) : Chk.Circle.contains c p = some (c.contains p) :=
  Circle.contains_ok hx hy hd hpx hpy
example : S.coord 4096 ∧ S.size 8192 ∧ S.probe (-8192) := by decide
/-- `length_squared` does overflow `i32` one step further out. -/
theorem length_squared_overflows : Chk.lengthSquared ⟨32768, 32768⟩ = none := by decide

theorem circle_offset_checked_eq_plain {c : EG.Circle} (h : DS.xcircle c) {o : Int} (ho : DS.offs o) :
    Chk.Circle.offset c o = some (c.offset o) :=
  Circle.offset_ok (DS.xpt_W h.1) (DS.xsize_W h.2) (DS.offs_W ho)
example : DS.xcircle ⟨⟨5, 5⟩, 3⟩ ∧ DS.offs (-128) := by decide

/-! ### `EllipseContains` (as repaired: `u32` squares, `u64` products) -/

/-- `EllipseContains::new` for all sizes below 65536: `w^2`, `h^2` fit `u32`, the `u64` product
`h^2 * w^2` cannot overflow. -/
theorem ellipse_contains_new_checked_eq_plain {s : Sz} (hw : s.w ≤ 65535) (hh : s.h ≤ 65535) :
    Chk.EllipseContains.new s = some (EG.EllipseContains.new s) := EllipseContains.new_ok hw hh
example : (⟨1280, 1⟩ : Sz).w ≤ 65535 ∧ (⟨1280, 1⟩ : Sz).h ≤ 65535 := by decide

/-- `EllipseContains::contains` for every value built by `new` (`a, b` are `u32`) and every point
whose coordinate squares fit `i32` (`|x|, |y| <= 46340`): `b x + a y < 2^64` always. -/
theorem ellipse_contains_checked_eq_plain {e : EG.EllipseContains} (ha : e.a ≤ 4294967295)
    (hb : e.b ≤ 4294967295) {p : Pt} (hx : -46340 ≤ p.x ∧ p.x ≤ 46340) (hy : -46340 ≤ p.y ∧ p.y ≤ 46340) :
    Chk.EllipseContains.contains e p = some (e.contains p) := EllipseContains.contains_ok ha hb hx hy
example : (EG.EllipseContains.new ⟨1280, 1000⟩).a ≤ 4294967295 ∧
    (EG.EllipseContains.new ⟨1280, 1000⟩).b ≤ 4294967295 := by decide
/-- The point bound is sharp: `46341^2` does not fit `i32`. -/
theorem ellipse_contains_point_square_overflows :
    Chk.EllipseContains.contains ⟨4, 9, 36⟩ ⟨46341, 0⟩ = none := by decide

/-! ### `Ellipse` -/

theorem ellipse_center_2x_checked_eq_plain {e : EG.Ellipse} (h : DS.xellipse e) :
    Chk.Ellipse.center2x e = some e.center2x := Ellipse.center2x_ok (DS.xpt_W h.1) (DS.xsz_W h.2)
example : DS.xellipse ⟨⟨-1152, 1024⟩, ⟨1280, 0⟩⟩ := by decide

/-- `Ellipse::contains` on the derived display-scale domain (stroke areas up to 1280 x 1280,
probe points anywhere in the derived coordinate range). -/
theorem ellipse_shape_contains_checked_eq_plain {e : EG.Ellipse} (h : DS.xellipse e) {p : Pt}
    (hp : DS.xpt p) : Chk.Ellipse.contains e p = some (e.contains p) :=
  Ellipse.contains_ok (DS.xcoord_S h.1.1) (DS.xcoord_S h.1.2) (DS.xsize_S h.2.1) (DS.xsize_S h.2.2)
    (DS.xcoord_probe hp.1) (DS.xcoord_probe hp.2)
example : DS.xellipse ⟨⟨-1152, -1152⟩, ⟨1280, 1279⟩⟩ ∧ DS.xpt ⟨2176, 2176⟩ := by decide

theorem ellipse_offset_checked_eq_plain {e : EG.Ellipse} (h : DS.xellipse e) {o : Int} (ho : DS.offs o) :
    Chk.Ellipse.offset e o = some (e.offset o) :=
  Ellipse.offset_ok (DS.xpt_W h.1) (DS.xsz_W h.2) (DS.offs_W ho)
example : DS.xellipse ⟨⟨5, 5⟩, ⟨3, 1024⟩⟩ ∧ DS.offs 128 := by decide

/-! ### Why the widening (commit 848fbcc) was needed -/

/-- `w^2 * h^2` of a 320 x 240 ellipse does not fit `u32`. -/
theorem old_ellipse_threshold_exceeds_u32 : ¬ (320 ^ 2 * 240 ^ 2 ≤ 4294967295) :=
  Old.ellipse_threshold_exceeds_u32

/-- The `u32` constructor panics for the 320 x 240 ellipse; the `u64` one does not. -/
theorem old_ellipse_new_panics_320x240 :
    Old.ellipseNew ⟨320, 240⟩ = none ∧ (Chk.EllipseContains.new ⟨320, 240⟩).isSome = true :=
  Old.ellipseNew_320x240

/-- The `u32` sum `b x + a y` overflows for a 256 x 255 ellipse (whose threshold still fits) at the
corner of its bounding box; the `u64` sum does not. -/
theorem old_ellipse_contains_panics_256x255 :
    (Old.ellipseNew ⟨256, 255⟩).isSome = true ∧
    Old.ellipseContains ⟨65536, 65025, 4261478400⟩ ⟨256, 255⟩ = none ∧
    (Chk.EllipseContains.contains ⟨65536, 65025, 4261478400⟩ ⟨256, 255⟩).isSome = true :=
  Old.ellipseContains_256x255

end EG.C08
