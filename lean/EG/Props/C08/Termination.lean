/-
  C08 (termination part) — every modelled iterator is a state machine whose `toList` is defined by
  structural recursion on explicit fuel. A fuelled drain terminates whatever the state machine
  does, so Lean accepting the definition says NOTHING about the iterator. What the theorems below
  state is "fuelled drain = closed form" (`*_terminates`) and the length of the closed form
  (`*_steps`). Termination of the modelled state machine follows from them only in combination
  with how the fuel is chosen in the model definitions: the fuel is (an upper bound of) the length
  of the closed form PLUS ONE (`Rect.points`: `rows * columns + 1`; `CropIt.toList`:
  `colours + 1`; `Polyline.points`: the sum of the segments' major lengths + 1; circle / ellipse
  scanlines: rows + 1). A drain that stopped because the fuel ran out has exactly `fuel` items;
  the closed form is shorter than the fuel; hence the drain stopped because `next` returned
  `None`, after at most `length` items. The names `*_terminates` are kept (STATUS / evidence list
  them); read them as "`*_drain_eq_closed_form` (fuel = length + 1, so `next` reaches `None`)".
  The harness enforces iteration budgets on the real iterators (`C08:iteration-budget-exceeded`).

  -- [V] the real iterators stay within these step bounds: carried by correspondence + oracle only (the per-topic streams compare the drained real iterators with the models item by item)
  Stroked lines, stroked polylines, styled triangles, rounded rectangles, sectors and arcs are in
  Props/C08/TerminationThick.lean (proved for all inputs: the drains reach `None`; step bounds: box
  area for lines / sectors / arcs / rounded rectangles, `rows * (vertices + 3) + vertices + 2` scanlines
  for polylines, `3 * (rows + 1)` scanlines for triangles, pixel count = total scanline length).
  -- [V] stroked polylines / styled triangles: the LENGTH of one scanline is bounded by the width of the bounding box only under C02's decidable box guards, so the pixel count of `pixels()` is proved to be the total length of at most `rows * (n + 3) + n + 2` resp. `3 * (rows + 1)` scanlines for ALL inputs, and `<= (rows * (n + 3) + n + 2) * box width` for polylines under `PolyBBoxGuard` (`polyline_pixels_le_box`); for triangles `<= 3 * (rows + 1) * box width` whenever the pixels lie in the box (`triangle_pixels_le_box_of_in_box`; instance under `TriStrokeGuard`: `triangle_stroke_pixels_le_box`); outside those guards no box-area bound is proved, and the triangle pixel iterator's run assumes `i32` vertices for 1 px / Inside strokes (`TriNeedsI32 -> TriI32`): carried by correspondence + oracle only
-/
import EG.Lemmas.RectPoints
import EG.Lemmas.LineProps
import EG.Lemmas.CircleStyled
import EG.Lemmas.EllipsePoints
import EG.Lemmas.RawIter
import EG.Lemmas.AdaptersCroppedIter
import EG.Lemmas.ImageRawDraw
import EG.Lemmas.Polyline
import EG.Lemmas.Scanline
namespace EG.C08
open EG

/-- `Rectangle::points()`, FUELLED DRAIN = CLOSED FORM: drained with fuel `rows * columns + 1` the
iterator yields the row-major product of `rows()` and `columns()`, for every rectangle (also
saturating ones). The statement is not "terminates" by itself; since the closed form has at most
`rows * columns` items (fewer than the fuel), the drain ended with `next = None`, not by running out
of fuel: that is the termination argument (see the file header) ... -/
theorem rect_points_terminates (r : Rect) : r.points = r.pointsSpec := Rect.points_eq_spec r

/-- ... i.e. `width * height` points when the box does not saturate. -/
theorem rect_points_steps (r : Rect) (h : r.InRange) : r.points.length = r.size.w * r.size.h :=
  Rect.points_length h
example : (⟨⟨-1024, -1024⟩, ⟨1024, 1024⟩⟩ : Rect).InRange := by decide

/-- `Line::points()`: exactly `max(|dx|, |dy|) + 1` points (= `points_remaining`, the fuel). -/
theorem line_points_steps (l : Line) : (Line.points l).length = (Line.dmaj l).toNat + 1 :=
  Line.points_length' l

/-- A scanline: `xe - xs` points. -/
theorem scanline_steps (s : Scanline) : s.toList = s.points ∧ s.points.length = (s.xe - s.xs).toNat :=
  ⟨Scanline.toList_eq s, Scanline.points_length s⟩

/-- `Circle::points()`, FUELLED DRAIN = CLOSED FORM + length bound: the scanline iterator is polled
once per row of the bounding box, and the points are those of the box that `contains` accepts: at
most `d * d`. Termination of the state machine follows because the model drains with fuel
`d * d + 1` (one more than this bound), see the file header. -/
theorem circle_points_terminates {c : Circle} (h : c.InRange) :
    c.points = c.boundingBox.points.filter c.contains ∧ c.points.length ≤ c.d * c.d := by
  have e := Circle.points_eq_filter h
  refine ⟨e, ?_⟩
  rw [e]
  have := List.length_filter_le c.contains c.boundingBox.points
  have hl : c.boundingBox.points.length = c.d * c.d := Rect.points_length h
  omega
example : (⟨⟨-1024, -1024⟩, 1024⟩ : Circle).InRange := by decide

/-- `Ellipse::points()`, FUELLED DRAIN = CLOSED FORM + length bounds: at most one scanline per row of
the bounding box (rows without a hit are skipped, commit db99a72), at most `w * h` points.
Termination of the state machine follows because the fuel of the model exceeds these bounds by
one, see the file header. -/
theorem ellipse_points_terminates {e : Ellipse} (h : e.InRange) :
    e.points = e.boundingBox.points.filter e.contains ∧ e.points.length ≤ e.size.w * e.size.h ∧
    e.scanlines.toList.length ≤ (e.scanlines.yEnd - e.scanlines.y).toNat := by
  have hp := Ellipse.points_eq_filter h
  refine ⟨hp, ?_, ?_⟩
  · rw [hp]
    have := List.length_filter_le e.contains e.boundingBox.points
    have hl : e.boundingBox.points.length = e.size.w * e.size.h := Rect.points_length h
    omega
  · rw [Ellipse.ScanlinesIt.toList_eq]; exact Ellipse.ScanlinesIt.rest_length_le _
example : (⟨⟨0, 0⟩, ⟨1024, 1⟩⟩ : Ellipse).InRange := by decide

/-- `RawDataIterator`: exactly `count - index` items (`count` = whole pixels in the buffer). -/
theorem raw_iterator_steps (it : Raw.Iter) (hb : Raw.validBits it.bits = true) :
    it.toList.length = it.count - it.index := Raw.Iter.toList_length it hb
example : Raw.validBits (Raw.Iter.new 4 .le [1, 2, 3]).bits = true := by decide

/-- `ContiguousPixels` (the colour stream of `ImageRaw::draw` / `draw_sub_image`): exactly
`width * height` colours for an area inside the image. -/
theorem contiguous_pixels_steps {im : Img.ImageRaw} (hw : im.WF) (ax ay : Nat) (sz : Sz)
    (hx : ax + sz.w ≤ im.size.w) (hy : ay + sz.h ≤ im.size.h)
    (hi : ay * im.dataWidth + ax ≤ Raw.pixelCount im.bits im.data.length) :
    ((Img.CP.new im sz (ay * im.dataWidth + ax) (im.dataWidth - sz.w)).toList).length = sz.w * sz.h :=
  Img.ImageRaw.stream_length hw ax ay sz hx hy hi

/-- `Cropped` (the iterator behind `DrawTargetExt::cropped` / `clipped` fills), FUELLED DRAIN =
CLOSED FORM: drained with fuel `colours + 1` it yields its closed form, a sublist of the colours it
was given (so at most `colours` items, fewer than the fuel: the drain ended with `next = None`). -/
theorem cropped_terminates (it : CropIt) (hx : it.x ≤ it.w) : it.toList = it.spec :=
  CropIt.toList_eq_spec it hx
example : (CropIt.new [1, 2, 3, 4] ⟨2, 2⟩ ⟨⟨0, 0⟩, ⟨1, 2⟩⟩).x ≤ (CropIt.new [1, 2, 3, 4] ⟨2, 2⟩ ⟨⟨0, 0⟩, ⟨1, 2⟩⟩).w := by
  decide

/-- `Polyline::points()`, FUELLED DRAIN = CLOSED FORM: drained with the budget "sum of the segments'
major lengths (+ 1)" it yields the union of the segment lines, each joint once (the empty polyline
yields nothing); the closed form is shorter than the budget, so the drain ended with `next = None`. -/
theorem polyline_points_terminates (pl : Polyline) : pl.points = pl.pointsSpec :=
  Polyline.points_eq_spec pl

end EG.C08
