/-
  C08 (rejection part) — "Out-of-range coordinates or indices given to `Framebuffer`,
  `ImageRaw::pixel`, raw `load`/`store` and sub-images are rejected without a panic."

  Two ingredients per API: (1) WHAT happens outside the domain (`None` / `Err` / no-op) — the
  theorems of C09, C10, C11, cited here for every index / point / area, without any bound;
  (2) that the arithmetic on the way does not overflow — the checked kernels of
  `EG.Model.CheckedData`, also for every index / point / area.
-/
import EG.Props.C09
import EG.Props.C10
import EG.Props.C11
import EG.Lemmas.CheckedData
namespace EG.C08
open EG EG.Chk EG.Raw EG.Img EG.Fb

/-! ### raw `load` / `store` -/

/-- `load` returns `None` exactly for the indices beyond the buffer — every `i : Nat`, so also
indices up to `usize::MAX` (C11) ... -/
theorem reject_load_oob {bits : Nat} (hb : validBits bits = true) (o : Order) (buf : List Nat) (i : Nat) :
    load bits o buf i = none ↔ pixelCount bits buf.length ≤ i := EG.C11.load_oob hb o buf i
example : validBits 24 = true := by decide

/-- ... and `store` returns `Err(OutOfBoundsError)` there and leaves the buffer unchanged (C11). -/
theorem reject_store_oob {bits : Nat} (hb : validBits bits = true) (o : Order) (v : Nat) (buf : List Nat)
    (i : Nat) (h : pixelCount bits buf.length ≤ i) : store bits o v buf i = (false, buf) :=
  (EG.C11.store_oob hb o v buf i).1 h
example : validBits 16 = true ∧ pixelCount 16 [1, 2, 3].length ≤ 18446744073709551615 := by decide

/-- The repaired multi-byte `load` (`index.checked_mul(n)`, then two `get`s) contains no operation
that can panic, and for EVERY index it computes what the plain model computes — in particular
`None` where `index * n` exceeds `usize::MAX`. -/
theorem load_checked_mul_eq_plain (n : Nat) (o : Order) {buf : List Nat} (hl : buf.length ≤ usizeMax)
    (i : Nat) : Chk.loadBytes n o buf i = Raw.loadBytes n o buf i := loadBytes_eq n o hl i
example : ([1, 2, 3] : List Nat).length ≤ usizeMax := by decide

theorem store_checked_mul_eq_plain (n : Nat) (o : Order) (v : Nat) {buf : List Nat}
    (hl : buf.length ≤ usizeMax) (i : Nat) :
    Chk.storeBytes n o v buf i = Raw.storeBytes n o v buf i := storeBytes_eq n o v hl i
example : ([1, 2, 3] : List Nat).length ≤ usizeMax := by decide

/-- `checked_mul` at the top of the index range: `None`, the load is rejected (not a panic). -/
theorem load_rejects_usize_max :
    checkedMulUsize 18446744073709551615 2 = none ∧
    Chk.loadBytes 2 .le [1, 2, 3, 4] 18446744073709551615 = none := by decide

/-- Before commit e95846b `index * 2` was an unchecked `usize` product: a panic from
`usize::MAX / 2 + 1` on. -/
theorem old_load_index_product_overflows : Old.loadStoreStart 9223372036854775808 2 = none := by decide

/-! ### `Framebuffer` -/

/-- `set_pixel` outside the framebuffer is a no-op, for every point (C10) ... -/
theorem reject_fb_set_pixel_outside (fb : Fb) {p : Pt} (c : Nat) (hp : ¬ fb.inside p) :
    fb.setPixel p c = fb := EG.C10.outside_noop fb c hp
example : ¬ (Fb.new 1 .le 9 3 4).inside ⟨-2147483648, 2147483647⟩ := by decide

/-- ... `pixel` is `None` exactly outside (C10) ... -/
theorem reject_fb_pixel_outside (fb : Fb) (hw : fb.Wf) (q : Pt) : fb.pixel q = none ↔ ¬ fb.inside q :=
  EG.C10.pixel_none_iff_outside fb hw q

/-- ... and the index arithmetic of `set_pixel` does not overflow for ANY point. -/
theorem reject_fb_no_overflow {bits : Nat} (hv : validBits bits = true) {width height : Nat}
    (hw : width ≤ 16777216) (hh : height ≤ 16777216) (p : Pt) :
    (fbIndex bits width height p).isSome = true := by
  rw [fbIndex_ok hv hw hh p]; rfl
example : validBits 1 = true := by decide

/-! ### `ImageRaw::pixel` -/

/-- `pixel` is `None` exactly outside the bounding box, for every point (C09) ... -/
theorem reject_image_pixel_outside (im : ImageRaw) (hw : im.WF) (p : Pt) :
    im.pixel p = none ↔ im.boundingBox.contains p = false := EG.C09.pixel_none_iff im hw p

/-- ... and its index arithmetic does not overflow for ANY point. -/
theorem reject_image_pixel_no_overflow {im : ImageRaw} (hv : validBits im.bits = true)
    (hw : im.size.w ≤ 268435456) (hh : im.size.h ≤ 268435456) (p : Pt) :
    (imagePixelIndex im p).isSome = true := by
  rw [imagePixelIndex_ok hv hw hh p]; rfl
example : validBits (⟨8, .le, [], ⟨3, 0⟩⟩ : ImageRaw).bits = true := by decide

/-! ### sub-images -/

/-- `draw_sub_image` draws nothing for an area that is zero sized or not inside the image (C09). -/
theorem reject_draw_sub_image (im : ImageRaw) (a : Rect) (h : ¬ im.Accepts a) : im.drawSubImage a = [] :=
  EG.C09.draw_sub_image_rejects im a h
example : ¬ (⟨1, .le, [0, 0, 0], ⟨5, 3⟩⟩ : ImageRaw).Accepts ⟨⟨2147483647, -2147483648⟩, ⟨4294967295, 1⟩⟩ := by
  decide

/-- `sub_image` clips the area to the parent's box (C09; stated there for the intersection with
the area as given) ... -/
theorem reject_sub_image_clips (d : Drawable) (area : Rect) :
    d.subImage area = .sub d (d.boundingBox.intersection area) := (EG.C09.sub_area_eq d area).1

/-- ... the crop that `SubImage::new` now applies first (`crop_area` / `crop_range`, commit
6bd8eba) keeps ALL arithmetic inside `i64` / `i32` for ANY `i32` coordinates and ANY `u32` sizes
of the area (parents up to `i32::MAX - 2` pixels) ... -/
theorem sub_image_crop_checked_eq_plain {ps : Sz} (hp : ps.w ≤ 2147483645 ∧ ps.h ≤ 2147483645)
    {area : Rect} (ht : inI32Pt area.tl) (hz : inU32Sz area.size) :
    Chk.subImageArea ps area = some (Img.subImageArea ps area) := subImageArea_ok hp ht hz
example : inI32Pt (⟨⟨2147483647, -2147483648⟩, ⟨4294967295, 4294967295⟩⟩ : Rect).tl ∧
    inU32Sz (⟨⟨2147483647, -2147483648⟩, ⟨4294967295, 4294967295⟩⟩ : Rect).size := by
  unfold inI32Pt inU32Sz; decide

/-- ... `crop_range` itself never leaves `i64` and never lengthens the range (so its final
`as u32` is lossless) ... -/
theorem crop_range_checked_eq_plain {start : Int} (hs : -2147483648 ≤ start ∧ start ≤ 2147483647)
    {length parent : Nat} (hl : length ≤ 4294967295) (hp : parent ≤ 4294967295) :
    Chk.cropRange start length parent = some (Img.cropRange start length parent) ∧
      (Img.cropRange start length parent).2 ≤ length := cropRange_ok hs hl hp
example : (-2147483648 : Int) ≤ 2147483647 ∧ (4294967295 : Nat) ≤ 4294967295 := by decide

/-- ... and the crop does not change which pixels the sub-image shows: the cropped area has
exactly the same points in common with the parent's box as the area as given. -/
theorem crop_preserves_intersection (ps : Sz) (area : Rect) (p : Pt) :
    (Img.subImageArea ps area).contains p = true ↔
      ((⟨Pt.zero, ps⟩ : Rect).intersection area).contains p = true :=
  Chk.crop_preserves_intersection ps area p

/-- Before the repair the intersection was computed with the area as given and panicked in
`Rectangle::bottom_right` for corners that are not representable. -/
theorem old_sub_image_overflows :
    Old.subImageArea ⟨5, 3⟩ ⟨⟨2147483647, 0⟩, ⟨2, 1⟩⟩ = none ∧
    Chk.subImageArea ⟨5, 3⟩ ⟨⟨2147483647, 0⟩, ⟨2, 1⟩⟩ = some Rect.zero := by decide

/-- The bound on the parent is sharp: for a parent `i32::MAX` pixels wide (only possible with zero
height) the cropped area `-1 .. 2^31` is wider than `i32::MAX` and `bottom_right` asserts. Far
outside display scale; replayed by `scale.chk.sub`. -/
theorem sub_image_parent_bound_sharp :
    Chk.subImageArea ⟨2147483647, 0⟩ ⟨⟨-1, -1⟩, ⟨4294967295, 4294967295⟩⟩ = none := by decide

/-! ### `draw_sub_image` called directly (streams `scale.reject drawsub`, `scale.chk.drawsub`)

`sub_image()` crops the area before it is stored; a DIRECT call of
`ImageDrawable::draw_sub_image(&image, &mut target, &area)` (public, although "not meant for user
code") hands any area to the guard of `ImageRaw::draw_sub_image`, resp. to the corner arithmetic
of `SubImage::draw_sub_image`. Both as repaired by /repo a083ac5 (`u64` sums; `checked_add`). -/

/-- **`ImageRaw::draw_sub_image` rejects without a panic**: for EVERY area — any `i32` corner, any
`u32` size — and an image up to 2^28 x 2^28 of any depth, the checked kernel returns, and decides
and skips like the plain guard (`plainSubImageSkips` = the condition and the arguments of
`Img.ImageRaw.drawSubImage`): nothing is drawn unless the area lies completely inside. -/
theorem draw_sub_image_total {im : ImageRaw} (hv : validBits im.bits = true)
    (hw : im.size.w ≤ 268435456) (hh : im.size.h ≤ 268435456) {area : Rect}
    (hx : -2147483648 ≤ area.tl.x ∧ area.tl.x ≤ 2147483647)
    (hy : -2147483648 ≤ area.tl.y ∧ area.tl.y ≤ 2147483647) (haw : area.size.w ≤ 4294967295)
    (hah : area.size.h ≤ 4294967295) :
    Chk.drawSubImageSkips im area = some (plainSubImageSkips im area) :=
  drawSubImageSkips_total hv hw hh hx hy haw hah
example : validBits 1 = true ∧ (5 : Nat) ≤ 268435456 ∧ (-2147483648 : Int) ≤ -2147483648 ∧
    (4294967295 : Nat) ≤ 4294967295 := by decide

/-- The plain decision is the guard of the plain image model: "nothing drawn" exactly when the
area is zero sized or not completely inside the image. -/
theorem draw_sub_image_draws_iff_inside (im : ImageRaw) (area : Rect) :
    (plainSubImageSkips im area).isSome = true ↔
      ¬ (area.isZeroSized = true ∨ area.tl.x < 0 ∨ area.tl.y < 0 ∨
        area.tl.x.toNat + area.size.w > im.size.w ∨ area.tl.y.toNat + area.size.h > im.size.h) := by
  unfold plainSubImageSkips
  split <;> simp_all

/-- **`SubImage::draw_sub_image` rejects without a panic** for every area and every own corner: a
translated corner that is not representable is rejected by `checked_add`, exactly as the plain
model (which adds in unbounded integers and then finds the corner negative or beyond the image)
decides. -/
theorem sub_image_draw_sub_image_total {im : ImageRaw} (hv : validBits im.bits = true)
    (hw : im.size.w ≤ 268435456) (hh : im.size.h ≤ 268435456) {own area : Rect}
    (hox : -2147483648 ≤ own.tl.x ∧ own.tl.x ≤ 2147483647) (hoy : -2147483648 ≤ own.tl.y ∧ own.tl.y ≤ 2147483647)
    (hx : -2147483648 ≤ area.tl.x ∧ area.tl.x ≤ 2147483647)
    (hy : -2147483648 ≤ area.tl.y ∧ area.tl.y ≤ 2147483647) (haw : area.size.w ≤ 4294967295)
    (hah : area.size.h ≤ 4294967295) :
    Chk.subDrawSubImageSkips im own area = some (plainSubImageSkips im (area.translate own.tl)) :=
  subDrawSubImageSkips_total hv hw hh hox hoy hx hy haw hah
example : validBits 24 = true ∧ (2147483647 : Int) ≤ 2147483647 := by decide

/-- Why the repair was needed: the old guard added in `u32` also for non-negative corners
(corner `(1, 0)`, width `u32::MAX`: `scale.reject drawsub 1 0 0 1 0 4294967295 1`; the same for
the height); the repaired guard rejects these areas. -/
theorem old_draw_sub_image_u32_sum_overflows :
    Chk.Old.drawSubImageSkips ⟨1, .le, [], ⟨5, 3⟩⟩ ⟨⟨1, 0⟩, ⟨4294967295, 1⟩⟩ = none ∧
    Chk.Old.drawSubImageSkips ⟨1, .le, [], ⟨5, 3⟩⟩ ⟨⟨0, 1⟩, ⟨1, 4294967295⟩⟩ = none ∧
    Chk.drawSubImageSkips ⟨1, .le, [], ⟨5, 3⟩⟩ ⟨⟨1, 0⟩, ⟨4294967295, 1⟩⟩ = some none ∧
    Chk.drawSubImageSkips ⟨1, .le, [], ⟨5, 3⟩⟩ ⟨⟨0, 1⟩, ⟨1, 4294967295⟩⟩ = some none :=
  old_drawSubImageSkips_overflows

/-- ... and `SubImage::draw_sub_image` translated the area with `Point + Point`
(`scale.reject drawsub 1 0 1 2147483647 0 0 0`). -/
theorem old_sub_image_forward_area_overflows :
    Chk.Old.subImageForwardArea ⟨⟨1, 1⟩, ⟨3, 2⟩⟩ ⟨⟨2147483647, 0⟩, ⟨0, 0⟩⟩ = none ∧
    Chk.subDrawSubImageSkips ⟨1, .le, [], ⟨5, 3⟩⟩ ⟨⟨1, 1⟩, ⟨3, 2⟩⟩ ⟨⟨2147483647, 0⟩, ⟨0, 0⟩⟩ = some none :=
  old_subImageForwardArea_overflows

/-- **Why the sign tests `x < 0 || y < 0` stand in front of the sums** (the seeded change of round
3 removed them from the old `u32` guard): then every non-zero-sized area that straddles or touches
the left edge from outside (`-width <= x <= -1`) overflows the `u32` sum — a panic instead of a
rejection. -/
theorem seeded_draw_sub_image_without_sign_test_panics (im : ImageRaw) {area : Rect}
    (hz : area.isZeroSized = false) (hx : -2147483648 ≤ area.tl.x ∧ area.tl.x < 0)
    (hw : -area.tl.x ≤ (area.size.w : Int)) : Chk.Seeded.drawSubImageRejects im area = none :=
  Seeded.drawSubImageRejects_panics im hz hx hw
example : (⟨⟨-1, 0⟩, ⟨1, 1⟩⟩ : Rect).isZeroSized = false ∧ (-(-1 : Int)) ≤ ((1 : Nat) : Int) := by decide

end EG.C08
