/-
  C08 (termination part, second half) — stroked lines, stroked polylines, styled triangles, rounded
  rectangles, sectors and arcs: the modelled iterators REACH `None`, within an explicit number of
  steps, for ALL inputs (no display-scale restriction, no `InRange` guard unless stated).

  Two kinds of model drains occur and both are covered:
  * drains that report an exhausted step budget as `none` ("stuck": `Thick.thickPoints`): the
    theorem is "the result is `some ps`" (the budget was not used up, i.e. `next` returned `None`
    after `ps.length` items) plus a bound on `ps.length`;
  * drains that would silently stop when their fuel runs out (`toListFuel .. 0 = []` of the
    scanline iterators, of rounded rectangles, sectors, arcs): the theorem is either the fuel-free
    statement `Run next it L` ("a `for` loop started in `it` sees exactly `L` and then `None`",
    EG/Lemmas/C01ThickStream.lean) or "drain = closed form" with the closed form shorter than the
    fuel, plus the bound on the length.
  The number of `next` calls of a `for` loop is the number of items plus one.
-/
import EG.Lemmas.Glue3Count
import EG.Lemmas.ThickTotal
import EG.Lemmas.ThickGeoMain
import EG.Lemmas.ThickBBoxFinal
import EG.Lemmas.ExtentsTotal
import EG.Lemmas.C01ThickPoly
import EG.Lemmas.C01ThickTri
import EG.Lemmas.TriTopRow
import EG.Lemmas.RoundedRectPoints
import EG.Lemmas.RoundedRectStyled
import EG.Lemmas.Sector
import EG.Lemmas.StyledArc
import EG.Lemmas.StyledArcSector
import EG.Lemmas.JoinsBBoxPolyMain
import EG.Props.C02.JoinsBBox
namespace EG.C08.TerminationThick
open EG EG.Joins EG.C01Thick

/-! ### stroked lines (`ThickPoints`, `line::StyledPixelsIterator`) -/

/-- A budgeted drain that returned a list stopped because `next` returned `None`: the list is
shorter than the budget (`drainFuel` answers `none` when the budget runs out). -/
theorem thick_drain_lt_budget : ∀ (fuel : Nat) (it : Thick.ThickPointsIt) (ps : List Pt),
    it.drainFuel fuel = some ps → ps.length < fuel := by
  intro fuel
  induction fuel with
  | zero => intro it ps h; simp [Thick.ThickPointsIt.drainFuel] at h
  | succ n ih =>
    intro it ps h
    rw [Thick.ThickPointsIt.drainFuel] at h
    cases hn : it.next with
    | none => rw [hn] at h; cases h
    | some r =>
      rw [hn] at h
      cases r with
      | none => simp only [Option.some.injEq] at h; subst h; simp
      | some q =>
        obtain ⟨p, it'⟩ := q
        dsimp only at h
        cases hr : Thick.ThickPointsIt.drainFuel n it' with
        | none => rw [hr] at h; cases h
        | some rest =>
          rw [hr] at h
          simp only [Option.some.injEq] at h
          subst h
          have := ih it' rest hr
          simp only [List.length_cons]; omega

/-- **`pixels()` of a stroked line terminates, within the area of its bounding box**: for every
line (zero length included) and every stroke width the model's drain is not stuck (neither the
inner `loop`s nor the step budget are exhausted: `next` returned `None`), the styled bounding box
exists, and the number of pixels - the number of `next` calls that return `Some` - is at most
`width * height` of that box (no pixel is yielded twice and every pixel lies in the box). -/
theorem thick_line_pixels_terminate (l : Line) (w : Nat) :
    ∃ ps bb, Thick.thickPoints l w = some ps ∧ Thick.styledBoundingBox l w = some bb ∧
      ps.length ≤ bb.size.w * bb.size.h := by
  obtain ⟨ps, hps⟩ := Thick.thickPoints_total l w
  obtain ⟨bb, hbb⟩ := thick_styledBoundingBox_total l w
  exact ⟨ps, bb, hps, hbb, Glue3.nodup_in_rect_length_le ps (Thick.thickPoints_nodup l w ps hps) bb
    (Thick.thickPoints_in_bbox l w ps hps bb hbb)⟩

example : (Thick.thickPoints ⟨⟨2, -3⟩, ⟨9, 1⟩⟩ 5).map (·.length) = some 46 ∧
    Thick.styledBoundingBox ⟨⟨2, -3⟩, ⟨9, 1⟩⟩ 5 = some ⟨⟨1, -5⟩, ⟨10, 8⟩⟩ := by decide

/-! ### sectors and arcs: `points()` and `pixels()` walk the bounding box with a filter -/

/-- **`Sector::points()` terminates within the box area**: the drain is the closed form "points of
the bounding box that `contains` accepts" (for every sector: any diameter, any plane sector), so at
most as many items as the box has points (`d * d` when the box is representable); the fuel of the
model is the box iterator's budget + 1, more than that. -/
theorem sector_points_terminate (s : Sector) :
    s.points = s.boundingBox.points.filter s.contains ∧
      s.points.length ≤ s.boundingBox.points.length ∧
      (s.boundingBox.InRange → s.points.length ≤ s.d * s.d) := by
  have e := Sector.points_eq_filter s
  have hl : s.points.length ≤ s.boundingBox.points.length := by
    rw [e]; exact List.length_filter_le _ _
  refine ⟨e, hl, fun h => ?_⟩
  have := Rect.points_length h
  have hw : s.boundingBox.size.w = s.d := rfl
  have hh : s.boundingBox.size.h = s.d := rfl
  rw [hw, hh] at this
  omega
example : (⟨⟨-1024, -1024⟩, 1024, PlaneSector.entire⟩ : Sector).boundingBox.InRange := by decide

/-- **`Arc::points()` terminates within the box area** (same shape of statement). -/
theorem arc_points_terminate (a : Arc) :
    a.points = a.boundingBox.points.filter a.accepts ∧
      a.points.length ≤ a.boundingBox.points.length ∧
      (a.boundingBox.InRange → a.points.length ≤ a.d * a.d) := by
  have e := Arc.points_eq_filter a
  have hl : a.points.length ≤ a.boundingBox.points.length := by
    rw [e]; exact List.length_filter_le _ _
  refine ⟨e, hl, fun h => ?_⟩
  have := Rect.points_length h
  have hw : a.boundingBox.size.w = a.d := rfl
  have hh : a.boundingBox.size.h = a.d := rfl
  rw [hw, hh] at this
  omega
example : (⟨⟨-1024, -1024⟩, 1024, PlaneSector.entire⟩ : Arc).boundingBox.InRange := by decide

/-- **`pixels()` of a styled arc terminates within the area of the styled bounding box**: the
drain is its closed form (`Arc.styledPixels_eq`: the filtered points of the outer edge's box), a
sub-sequence of the points of `styled_bounding_box()`; every style, every arc. -/
theorem styled_arc_pixels_terminate (st : Style) (a : Arc) :
    ((a.styledPixels st).map (·.1)).Sublist (a.styledBoundingBox st).points ∧
      (a.styledPixels st).length ≤ (a.styledBoundingBox st).points.length ∧
      ((a.styledBoundingBox st).InRange →
        (a.styledPixels st).length ≤ (a.styledBoundingBox st).size.w * (a.styledBoundingBox st).size.h) := by
  have hs := Arc.styledPixels_points_sublist st a
  have hl : (a.styledPixels st).length ≤ (a.styledBoundingBox st).points.length := by
    have := hs.length_le
    rwa [List.length_map] at this
  exact ⟨hs, hl, fun h => by rw [← Rect.points_length h]; exact hl⟩

/-- **`pixels()` of a styled sector terminates within the area of the styled bounding box** (every
style, sector and bevel; the inner `loop` of `next` consumes one box point per turn). -/
theorem styled_sector_pixels_terminate (st : Style) (s : Sector) (bevel : SectorBevel) :
    ((s.styledPixels st bevel).map (·.1)).Sublist (s.styledBoundingBox st).points ∧
      (s.styledPixels st bevel).length ≤ (s.styledBoundingBox st).points.length ∧
      ((s.styledBoundingBox st).InRange →
        (s.styledPixels st bevel).length ≤
          (s.styledBoundingBox st).size.w * (s.styledBoundingBox st).size.h) := by
  have hs := Sector.styledPixels_points_sublist st s bevel
  have hl : (s.styledPixels st bevel).length ≤ (s.styledBoundingBox st).points.length := by
    have := hs.length_le
    rwa [List.length_map] at this
  exact ⟨hs, hl, fun h => by rw [← Rect.points_length h]; exact hl⟩

/-! ### stroked polylines (`ScanlineIterator`, `ScanlineIntersections`, `StyledPixelsIterator`) -/

/-- The rows a `Rectangle` iterates (`rows()`: `y .. y.saturating_add(height)`) are at most `height`
many when the corner is an `i32`. -/
theorem rows_length_le (r : Rect) (h : -2147483648 ≤ r.tl.y) : r.rows.length ≤ r.size.h := by
  unfold Rect.rows
  rw [irange_length]
  unfold satAddI32 satAsI32
  split <;> split <;> (try split) <;> omega
example : (-2147483648 : Int) ≤ (⟨⟨3, -7⟩, ⟨4, 5⟩⟩ : Rect).tl.y := by decide

/-- The scanline iterator `ScanlineIterator::new` builds for a polyline has at most the rows of the
(untranslated) bounding box left and holds the polyline's vertices (or is the empty iterator). -/
theorem poly_new_mu (pl : Polyline) (w : Nat) (bb : Rect) (it : PolyScanlines)
    (hbb : untranslatedBoundingBox pl w = some bb) (hit : PolyScanlines.new pl w = some it) :
    PolyScanlines.mu it ≤ bb.rows.length * (pl.vertices.length + 3) + pl.vertices.length + 2 := by
  unfold PolyScanlines.new at hit
  simp only [hbb, Option.bind_eq_bind, Option.bind_some] at hit
  by_cases hr : bb.tl.y < bb.rowsEnd
  · simp only [hr, ↓reduceIte] at hit
    obtain ⟨ints, h, e1, e2, e3, e4⟩ := PolyIntersections.new_total pl.vertices w bb.tl.y
    simp only [h, Option.bind_some, pure, Option.some.injEq] at hit
    subst hit
    have hm := PolyIntersections.m_le ints
    unfold PolyScanlines.mu
    dsimp only
    rw [e1] 
    rw [e2] at hm
    have hrows : (bb.rowsEnd - (bb.tl.y + 1)).toNat ≤ bb.rows.length := by
      unfold Rect.rows Rect.rowsEnd; rw [irange_length]; unfold Rect.rowsEnd at hr; omega
    have := Nat.mul_le_mul_right (pl.vertices.length + 3) hrows
    omega
  · simp only [hr, ↓reduceIte, pure, Option.some.injEq] at hit
    subst hit
    have : PolyScanlines.mu PolyScanlines.empty = 1 := by decide
    rw [this]; omega

/-- **A stroked polyline (width > 1) terminates: `draw` and `pixels()`.** For every vertex list,
`translate` and width: the bounding box and the scanline iterator exist; a `for` loop over the
scanline iterator sees a list `L` of scanlines and then `None` (`Run`, fuel-free; it is what the
budgeted `toList` returns), with at most `rows * (n + 3) + n + 2` scanlines (`rows` = rows of the
bounding box, `n` = number of vertices: per row at most one scanline per segment, plus the flush of
the accumulated one); `draw` issues exactly one `fill_solid` per scanline of `L`; the pixel iterator
exists, a `for` loop over it sees exactly the points of the scanlines of `L` (moved by `translate`)
and then `None`, which is what `pixels()` of the model returns: `sum of the scanline lengths`
items, each scanline being walked point by point. -/
theorem polyline_terminates (pl : Polyline) (w : Nat) (hw : 2 ≤ w) :
    ∃ bb it L pit, untranslatedBoundingBox pl w = some bb ∧ PolyScanlines.new pl w = some it ∧
      Run PolyScanlines.next it L ∧ it.toList = some L ∧
      L.length ≤ bb.rows.length * (pl.vertices.length + 3) + pl.vertices.length + 2 ∧
      drawStyled pl w = some (.fillSolids (L.map (fun s => (moveS s pl.translate).toRectangle))) ∧
      PolyThickPixels.new pl w = some pit ∧
      Run PolyThickPixels.next pit ((L.flatMap Scanline.points).map (· + pl.translate)) ∧
      pixels pl w = some ((L.flatMap Scanline.points).map (· + pl.translate)) ∧
      ((L.flatMap Scanline.points).map (· + pl.translate)).length =
        (L.map (fun s => (s.xe - s.xs).toNat)).sum := by
  obtain ⟨bb, hbb⟩ := untranslatedBoundingBox_total pl w
  obtain ⟨it, hit, hok⟩ := PolyScanlines.new_total pl w
  obtain ⟨L, hL, hrun, hne⟩ := polyLines it hok
  have hLr : polyScanlineRun pl w = some L := by unfold polyScanlineRun; rw [hit]; exact hL
  obtain ⟨pit, hpit, hprun⟩ := polyPix_new pl w it hit L hrun hne
  have hlen : L.length ≤ PolyScanlines.mu it := by
    have hL' : listFuel PolyScanlines.next it.stepBudget it = some L := by
      rw [← polyScanlines_toListFuel_eq]; exact hL
    exact listFuel_length_le_mu PolyScanlines.Ok PolyScanlines.mu
      (fun s a s' hinv hn => ⟨(polyScanlines_next_yield s s' a hinv hn).1,
        (polyScanlines_next_yield s s' a hinv hn).2.1⟩) _ it L hok hL'
  have hmu := poly_new_mu pl w bb it hbb hit
  obtain ⟨L1, hL1, -, hd⟩ := drawStyled_eq_run pl w hw
  obtain ⟨L2, hL2, hp⟩ := pixels_eq_run pl w hw
  rw [hLr] at hL1 hL2
  obtain rfl := Option.some.inj hL1
  obtain rfl := Option.some.inj hL2
  have hpts : L.flatMap (fun s => (moveS s pl.translate).points) =
      (L.flatMap Scanline.points).map (· + pl.translate) := by
    rw [List.map_flatMap]
    apply Tgt.flatMap_congr_left
    intro s _
    rw [moveS_points]
  rw [hpts] at hp
  refine ⟨bb, it, L, pit, hbb, hit, hrun, hL, by omega, hd, hpit, hprun, hp, ?_⟩
  rw [List.length_map, List.length_flatMap]
  congr 1
  apply List.map_congr_left
  intro s _
  exact Scanline.points_length s
example : (2 : Nat) ≤ 5 := by decide

/-! ### styled triangles -/

/-- **A styled triangle terminates: `draw` and `pixels()`.** For every triangle and style (every
width, alignment, fill): the styled bounding box and the scanline iterator exist; a `for` loop over
the scanline iterator sees a list `L` of typed scanlines and then `None` (what `draw_styled` walks;
`toList` of the model returns it), with at most `3 * (rows + 1)` scanlines (`rows` = rows of the
styled bounding box: at most one fill and two stroke scanlines per row); and - `i32` vertices where
the stroke is 1 px wide or an Inside stroke - the pixel iterator exists, a `for` loop over it sees
the pixels of the coloured scanlines of `L` and then `None`, which is what the model's `pixels()`
returns: at most `sum of the scanline lengths` items. -/
theorem triangle_terminates (t : Tri) (style : TriStyle) :
    ∃ bb li L, triStyledBoundingBox t style = some bb ∧ triScanlines t style = some li ∧
      Run TriScanlines.nextLoop li L ∧ li.toList = some L ∧ L.length ≤ 3 * (bb.rows.length + 1) ∧
      ((TriNeedsI32 t style → TriI32 t) →
        ∃ pit, TriPixels.new t style = some pit ∧
          Run TriPixels.next pit (L.flatMap (typedPixels style.fillColor style.effectiveStrokeColor)) ∧
          triPixels t style = some (L.flatMap (typedPixels style.fillColor style.effectiveStrokeColor)) ∧
          (L.flatMap (typedPixels style.fillColor style.effectiveStrokeColor)).length ≤
            (L.map (fun x => (x.1.xe - x.1.xs).toNat)).sum) := by
  obtain ⟨bb, hbb⟩ := triStyledBoundingBox_total t style
  obtain ⟨li, hli⟩ := triScanlines_total t style
  obtain ⟨L, hL, hrun, hne⟩ := triLines li
  have hlen := triRun_length hrun
  have hmu := triMu_le li
  have hrows : (li.rowsEnd - li.rowsStart).toNat ≤ bb.rows.length := by
    have h := hli
    unfold triScanlines at h
    simp only [hbb, Option.bind_eq_bind, Option.bind_some] at h
    unfold TriScanlines.new at h
    by_cases hr : bb.tl.y < bb.rowsEnd
    · simp only [hr, ↓reduceIte] at h
      cases hi : TriIntersections.new t.sortedClockwise style.strokeWidth style.strokeAlignment.toOffset
          style.fillColor.isSome bb.tl.y with
      | none => rw [hi] at h; cases h
      | some ints =>
        rw [hi] at h
        simp only [Option.bind_eq_bind, Option.bind_some, pure, Option.some.injEq] at h
        subst h
        dsimp only
        unfold Rect.rows; rw [irange_length]; unfold Rect.rowsEnd at hr ⊢; omega
    · simp only [hr, ↓reduceIte, Option.some.injEq] at h
      subst h
      simp [TriScanlines.empty]
  refine ⟨bb, li, L, hbb, hli, hrun, hL, by omega, fun hi => ?_⟩
  have hf := triFirstNoneFinal t style hi
  obtain ⟨pit, hpit, hprun⟩ := triPix_new t style hf li hli L hrun
  obtain ⟨L', hL', -, hpx⟩ := triPixels_eq_run t style hf
  have hLr : triScanlineRun t style = some L := by unfold triScanlineRun; rw [hli]; exact hL
  rw [hLr] at hL'
  obtain rfl := Option.some.inj hL'
  exact ⟨pit, hpit, hprun, hpx, flatMap_length_le_sum L _ _ (typedPixels_length_le _ _)⟩
example : TriNeedsI32 ⟨⟨-3, 1⟩, ⟨6, -2⟩, ⟨2, 7⟩⟩ ⟨some 9, some 5, 3, .inside⟩ ∧ TriI32 ⟨⟨-3, 1⟩, ⟨6, -2⟩, ⟨2, 7⟩⟩ := by
  decide +kernel

/-- `draw` of a styled triangle issues at most one `fill_solid` per typed scanline: at most
`3 * (rows + 1)` calls, for every triangle and style. -/
theorem triangle_draw_calls_le (t : Tri) (style : TriStyle) :
    ∃ bb calls, triStyledBoundingBox t style = some bb ∧ triDraw t style = some calls ∧
      calls.length ≤ 3 * (bb.rows.length + 1) := by
  obtain ⟨bb, li, L, hbb, hli, -, hL, hlen, -⟩ := triangle_terminates t style
  refine ⟨bb, ?_⟩
  unfold triDraw
  by_cases ht : style.isTransparent = true
  · exact ⟨[], hbb, by simp [ht], Nat.zero_le _⟩
  · simp only [ht, Bool.false_eq_true, ↓reduceIte, hli, hL, Option.bind_eq_bind, Option.bind_some, pure]
    exact ⟨_, hbb, rfl, Nat.le_trans (List.length_filterMap_le _ _) hlen⟩

/-! ### rounded rectangles -/

/-- **`RoundedRectangle::points()` terminates**: for EVERY rounded rectangle the drain is the
closed form "the scanline of every row, in order" and has exactly `budget` items (the model's fuel
is `budget + 1`); the scanline iterator is polled once per row. For a representable rectangle these
are the points of the bounding box that `contains` accepts: at most `width * height`. -/
theorem rounded_rect_points_terminate (r : RoundedRect) :
    r.points = (irange (RRContains.new r).rowsStart (RRContains.new r).rowsEnd).flatMap
        (fun y => ((RRContains.new r).row y).points) ∧
      r.points.length = r.pointsIt.budget ∧
      (r.InRange → r.points = r.boundingBox.points.filter r.contains ∧
        r.points.length ≤ r.rect.size.w * r.rect.size.h) := by
  have e := RoundedRect.points_eq_rows r
  refine ⟨e, ?_, fun h => ?_⟩
  · have h1 := RoundedRect.PointsIt.rest_length r.pointsIt
    have h2 : r.points = r.pointsIt.rest := by
      unfold RoundedRect.points
      simp only
      rw [RoundedRect.PointsIt.toListFuel_eq _ _ (by rw [RoundedRect.PointsIt.rest_length]; omega)]
    rw [h2, h1]
  · have ef := RoundedRect.points_eq_filter r h
    refine ⟨ef, ?_⟩
    rw [ef]
    have := List.length_filter_le r.contains r.boundingBox.points
    have hl : r.boundingBox.points.length = r.rect.size.w * r.rect.size.h := Rect.points_length h
    omega
example : (⟨⟨⟨-1024, -1024⟩, ⟨1024, 1024⟩⟩, CornerRadii.new ⟨2000, 3⟩⟩ : RoundedRect).InRange := by decide

/-- **The styled scanlines of a rounded rectangle terminate**: one styled scanline per row of the
stroke area, for every pair of areas (the source of `draw_styled` and of `pixels()`). -/
theorem rounded_rect_styled_scanlines_terminate (S F : RoundedRect) :
    (RoundedRect.styledScanlines S F).toList =
        (irange (RoundedRect.styledScanlines S F).scanlines.rowsStart
          (RoundedRect.styledScanlines S F).scanlines.rowsEnd).map
          (fun y => (RoundedRect.styledScanlines S F).style ((RoundedRect.styledScanlines S F).scanlines.row y)) ∧
      (RoundedRect.styledScanlines S F).toList.length =
        ((RoundedRect.styledScanlines S F).scanlines.rowsEnd -
          (RoundedRect.styledScanlines S F).scanlines.rowsStart).toNat := by
  have e := RoundedRect.StyledScanlinesIt.toList_eq (RoundedRect.styledScanlines S F)
  refine ⟨e, ?_⟩
  rw [e, List.length_map, irange_length]

/-- **`pixels()` of a styled rounded rectangle terminates**: for every style and rounded rectangle
the drain is the closed form `pixelsSpec` of the styled scanlines (the three parts of every
scanline walked in order), with at most "sum of the part lengths" items - the model's fuel is that
sum + 1. -/
theorem rounded_rect_styled_pixels_terminate (st : Style) (r : RoundedRect) :
    r.styledPixels st = pixelsSpec st.stroke st.fill
        (RoundedRect.styledScanlines (r.strokeArea st) (r.fillArea st)).toList ∧
      (r.styledPixels st).length ≤ (r.styledPixelsIt st).budget := by
  have e : r.styledPixels st = pixelsSpec st.stroke st.fill
      (RoundedRect.styledScanlines (r.strokeArea st) (r.fillArea st)).toList := by
    unfold RoundedRect.styledPixels RoundedRect.styledPixelsIt
    rw [StyledPixelsIt.toList_new]
  refine ⟨e, ?_⟩
  rw [e]
  have := StyledPixelsIt.rest_length_le (r.styledPixelsIt st)
  have h2 : (r.styledPixelsIt st).rest = pixelsSpec st.stroke st.fill
      (RoundedRect.styledScanlines (r.strokeArea st) (r.fillArea st)).toList := by
    have h3 := StyledPixelsIt.toList_new
      (RoundedRect.styledScanlines (r.strokeArea st) (r.fillArea st)).toList st.stroke st.fill
    unfold StyledPixelsIt.toList at h3
    rw [StyledPixelsIt.toListFuel_eq _ _ (by
      have := StyledPixelsIt.rest_length_le (StyledPixelsIt.new
        (RoundedRect.styledScanlines (r.strokeArea st) (r.fillArea st)).toList st.stroke st.fill)
      omega)] at h3
    exact h3
  rw [h2] at this
  exact this

/-! ### pixel counts against the box area -/

theorem sum_map_le_length_mul {α : Type} (L : List α) (g : α → Nat) (w : Nat) (h : ∀ a ∈ L, g a ≤ w) :
    (L.map g).sum ≤ L.length * w := by
  induction L with
  | nil => simp
  | cons a L ih =>
    have h1 := h a List.mem_cons_self
    have h2 := ih (fun b hb => h b (List.mem_cons_of_mem _ hb))
    simp only [List.map_cons, List.sum_cons, List.length_cons, Nat.succ_mul]
    omega

/-- **`pixels()` of a styled rounded rectangle stays within the area of the stroke area's box**
(both areas representable): one styled scanline per row of the stroke area, each no longer than the
box is wide - `width * height` pixels at most, every style, radius and alignment. -/
theorem rounded_rect_styled_pixels_le_box_area (st : Style) (r : RoundedRect)
    (hS : (r.strokeArea st).InRange) (hF : (r.fillArea st).InRange) :
    (r.styledPixels st).length ≤ (r.strokeArea st).rect.size.w * (r.strokeArea st).rect.size.h := by
  obtain ⟨e, -⟩ := rounded_rect_styled_pixels_terminate st r
  rw [e]
  have h1 := StyledPixelsIt.pixelsSpec_length st.stroke st.fill
    (RoundedRect.styledScanlines (r.strokeArea st) (r.fillArea st)).toList
  have h2 := sum_map_le_length_mul
    (RoundedRect.styledScanlines (r.strokeArea st) (r.fillArea st)).toList
    (fun l => StyledPixelsIt.lenOf l.strokeLeft + StyledPixelsIt.lenOf l.fill + StyledPixelsIt.lenOf l.strokeRight)
    (r.strokeArea st).rect.size.w (by
      intro l hl
      obtain ⟨y, -, hok⟩ := RoundedRect.lines_ok hS hF l hl
      have ho := hok.ord
      have he := hok.emp
      have hr := hok.range
      unfold StyledPixelsIt.lenOf StyledScanline.strokeLeft StyledScanline.fill StyledScanline.strokeRight
      simp only
      by_cases hc : l.ss ≤ l.se
      · have := ho hc; omega
      · have := he (by omega); omega)
  have h3 : (RoundedRect.styledScanlines (r.strokeArea st) (r.fillArea st)).toList.length =
      (r.strokeArea st).rect.size.h := by
    rw [(rounded_rect_styled_scanlines_terminate (r.strokeArea st) (r.fillArea st)).2]
    have e1 : (RoundedRect.styledScanlines (r.strokeArea st) (r.fillArea st)).scanlines.rowsStart =
        (r.strokeArea st).rect.tl.y := (RoundedRect.new_rows _ hS).1
    have e2 : (RoundedRect.styledScanlines (r.strokeArea st) (r.fillArea st)).scanlines.rowsEnd =
        (r.strokeArea st).rect.tl.y + (r.strokeArea st).rect.size.h := (RoundedRect.new_rows _ hS).2
    rw [e1, e2]; omega
  rw [h3, Nat.mul_comm] at h2
  omega
example : let st : Style := ⟨some 1, some 2, 3, .center⟩
    let r : RoundedRect := ⟨⟨⟨-3, 2⟩, ⟨9, 7⟩⟩, ⟨⟨3, 2⟩, ⟨0, 0⟩, ⟨9, 9⟩, ⟨1, 4⟩⟩⟩
    (r.strokeArea st).InRange ∧ (r.fillArea st).InRange := by decide

/-- **`pixels()` of a stroked polyline (width > 1) against its bounding box**: under the decidable
box guard of C02 (`PolyBBoxGuard`, Props/C02/JoinsBBox.lean) every scanline is at most as long as
the box is wide, so `pixels()` yields at most `(rows * (n + 3) + n + 2) * width` points (`rows`,
`width` of the bounding box - the styled bounding box is the untranslated one moved by `translate`,
same size -, `n` vertices). -/
theorem polyline_pixels_le_box (pl : Polyline) (w : Nat) (hw : 2 ≤ w) (hg : PolyBBoxGuard pl w) :
    ∃ ubb ps, untranslatedBoundingBox pl w = some ubb ∧
      styledBoundingBox pl w = some (ubb.translate pl.translate) ∧ pixels pl w = some ps ∧
      ps.length ≤ (ubb.rows.length * (pl.vertices.length + 3) + pl.vertices.length + 2) * ubb.size.w := by
  obtain ⟨ubb, it, L, pit, hubb, hit, hrun, hL, hlen, hd, hpit, hprun, hp, hcount⟩ := polyline_terminates pl w hw
  have hbb : styledBoundingBox pl w = some (ubb.translate pl.translate) := by
    unfold styledBoundingBox
    simp only [hubb, Option.bind_eq_bind, Option.bind_some, pure]
  have hin := pixels_in_bbox pl w hw hg _ hbb _ hp
  refine ⟨ubb, _, hubb, hbb, hp, ?_⟩
  rw [hcount]
  have hline : ∀ s ∈ L, (s.xe - s.xs).toNat ≤ ubb.size.w := by
    intro s hs
    by_cases hemp : s.xs < s.xe
    · have m1 : (⟨s.xs, s.y⟩ : Pt) + pl.translate ∈ (L.flatMap Scanline.points).map (· + pl.translate) :=
        List.mem_map.mpr ⟨_, List.mem_flatMap.mpr ⟨s, hs,
          Scanline.mem_points.mpr ⟨rfl, by simp only; omega, by simp only; omega⟩⟩, rfl⟩
      have m2 : (⟨s.xe - 1, s.y⟩ : Pt) + pl.translate ∈ (L.flatMap Scanline.points).map (· + pl.translate) :=
        List.mem_map.mpr ⟨_, List.mem_flatMap.mpr ⟨s, hs,
          Scanline.mem_points.mpr ⟨rfl, by simp only; omega, by simp only; omega⟩⟩, rfl⟩
      have c1 := hin _ m1
      have c2 := hin _ m2
      rw [Rect.contains_iff] at c1 c2
      have hsz : (ubb.translate pl.translate).size.w = ubb.size.w := rfl
      rw [hsz] at c1 c2
      simp only [Pt.add_x] at c1 c2
      omega
    · omega
  have h2 := sum_map_le_length_mul L (fun s => (s.xe - s.xs).toNat) _ hline
  exact Nat.le_trans h2 (Nat.mul_le_mul_right _ hlen)
example : (2 : Nat) ≤ 5 ∧ PolyBBoxGuard ⟨⟨-7, -9⟩, [⟨0, 0⟩, ⟨9, 1⟩, ⟨0, 2⟩, ⟨0, 2⟩, ⟨4, -6⟩]⟩ 5 := by decide

/-- **`pixels()` of a styled triangle against its bounding box**: whenever every pixel lies in the
styled bounding box - which is what the triangle theorems of Props/C02/JoinsBBox.lean prove under
their decidable guards - every coloured scanline is at most as long as the box is wide, hence at most
`3 * (rows + 1) * width` pixels. -/
theorem triangle_pixels_le_box_of_in_box (t : Tri) (style : TriStyle) (hi : TriNeedsI32 t style → TriI32 t)
    (bb : Rect) (hbb : triStyledBoundingBox t style = some bb) (px : List (Pt × Nat))
    (hpx : triPixels t style = some px) (hin : ∀ pc ∈ px, bb.contains pc.1 = true) :
    px.length ≤ 3 * (bb.rows.length + 1) * bb.size.w := by
  obtain ⟨bb', li, L, hbb', hli, hrun, hL, hlen, hpix⟩ := triangle_terminates t style
  rw [hbb] at hbb'
  obtain rfl := Option.some.inj hbb'
  obtain ⟨pit, hpit, hprun, hpx', -⟩ := hpix hi
  rw [hpx] at hpx'
  obtain rfl := Option.some.inj hpx'
  have hline : ∀ x ∈ L, (typedPixels style.fillColor style.effectiveStrokeColor x).length ≤ bb.size.w := by
    intro x hx
    unfold typedPixels linePixels
    cases hc : kindColor style.fillColor style.effectiveStrokeColor x.2 with
    | none => exact Nat.zero_le _
    | some c =>
      simp only [List.length_map, Scanline.points_length]
      by_cases hemp : x.1.xs < x.1.xe
      · have mem : ∀ p ∈ x.1.points, (p, c) ∈ L.flatMap (typedPixels style.fillColor style.effectiveStrokeColor) := by
          intro p hp
          refine List.mem_flatMap.mpr ⟨x, hx, ?_⟩
          unfold typedPixels linePixels
          rw [hc]
          exact List.mem_map.mpr ⟨p, hp, rfl⟩
        have c1 := hin _ (mem ⟨x.1.xs, x.1.y⟩ (Scanline.mem_points.mpr ⟨rfl, by simp only; omega, by simp only; omega⟩))
        have c2 := hin _ (mem ⟨x.1.xe - 1, x.1.y⟩ (Scanline.mem_points.mpr ⟨rfl, by simp only; omega, by simp only; omega⟩))
        rw [Rect.contains_iff] at c1 c2
        simp only at c1 c2
        omega
      · omega
  have h1 := flatMap_length_le_sum L (typedPixels style.fillColor style.effectiveStrokeColor)
    (fun x => (typedPixels style.fillColor style.effectiveStrokeColor x).length) (fun _ => Nat.le_refl _)
  have h2 := sum_map_le_length_mul L
    (fun x => (typedPixels style.fillColor style.effectiveStrokeColor x).length) _ hline
  exact Nat.le_trans (Nat.le_trans h1 h2) (Nat.mul_le_mul_right _ hlen)

/-- The instance for Center / Outside strokes of width > 1 (with or without fill) under
`TriStrokeGuard` (Props/C02/JoinsBBox.lean: `triangle_stroke_pixels_in_bounding_box_partial`). -/
theorem triangle_stroke_pixels_le_box (t : Tri) (style : TriStyle) (hw : 2 ≤ style.strokeWidth)
    (hal : style.strokeAlignment ≠ .inside) (hg : TriStrokeGuard t style)
    (hi : TriNeedsI32 t style → TriI32 t) :
    ∃ bb px, triStyledBoundingBox t style = some bb ∧ triPixels t style = some px ∧
      px.length ≤ 3 * (bb.rows.length + 1) * bb.size.w := by
  obtain ⟨bb, hbb⟩ := triStyledBoundingBox_total t style
  obtain ⟨px, hpx⟩ := triPixels_total t style
  exact ⟨bb, px, hbb, hpx, triangle_pixels_le_box_of_in_box t style hi bb hbb px hpx
    (EG.C02.JoinsBBox.triangle_stroke_pixels_in_bounding_box_partial t style hw hal hg bb hbb px hpx)⟩
example : let t : Tri := ⟨⟨0, 0⟩, ⟨9, 1⟩, ⟨2, 7⟩⟩
    let style : TriStyle := ⟨some 1, some 2, 3, .center⟩
    2 ≤ style.strokeWidth ∧ style.strokeAlignment ≠ .inside ∧ TriStrokeGuard t style ∧
      ¬ TriNeedsI32 t style := by decide +kernel

end EG.C08.TerminationThick
