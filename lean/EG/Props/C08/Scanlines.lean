/-
  C08 (scanline part) — range theorems of scanline-based drawing:

    * `Scanline::{extend, bresenham_intersection, touches, try_extend, to_rectangle, draw}`
      (Model/CheckedScanline.lean) and `StyledScanline::{draw_stroke, draw_stroke_and_fill}`;
    * the scanline sources of styled circles and ellipses: `circle::Scanlines`,
      `circle::styled::StyledScanlines`, `ellipse::Scanlines`, `ellipse::styled::StyledScanlines`
      (Model/CheckedStyledScanline.lean; the rounded rectangle's are in C08/RRect.lean);
    * the thick polyline / triangle machinery above the joins: cap midpoints,
      `ThickSegment::{edges_bounding_box, intersection}`, the bounding-box fold
      (Model/CheckedSegment.lean), with the bound that puts display-scale joins into their
      domain: every corner of `LineJoin::from_points` of display-scale vertices (stroke width up
      to 128, any alignment) lies within 2^27 + 4096 of the origin.
  Plain models: `EG.Model.Scanline`, `StyledScanline`, `Circle`, `Ellipse`, `ThickSegment`.
-/
import EG.Lemmas.CheckedDSMore
import EG.Props.C08.Lines
namespace EG.C08
open EG EG.Chk

/-! ### `Scanline` -/

/-- `extend`: `x + 1` for every `x` below `i32::MAX`. -/
theorem scanline_extend_checked_eq_plain (s : Scanline) {x : Int}
    (h : -2147483648 ≤ x + 1 ∧ x + 1 ≤ 2147483647) : Chk.Scanline.extend s x = some (s.extend x) :=
  Chk.Scanline.extend_ok s h
example : (-2147483648 : Int) ≤ 2176 + 1 ∧ (2176 + 1 : Int) ≤ 2147483647 := by decide
theorem scanline_extend_overflows_at_i32_max :
    Chk.Scanline.extend (Scanline.newEmpty 0) 2147483647 = none := by decide

/-- **`bresenham_intersection`** of any scanline with a display-scale line: `Points::new`, the
lazily consumed walk up to the first point behind the row, `extend` for every point of the row. -/
theorem scanline_bresenham_intersection_checked_eq_plain (s : Scanline) {l : Line} (h : DS.line l) :
    Chk.Scanline.bresenhamIntersection s l = some (s.bresenhamIntersection l.start l.stop (Line.points l)) :=
  Chk.Scanline.bresenhamIntersection_ok s (ds_line_W h).1 (ds_line_W h).2
example : DS.line ⟨⟨-1024, -1024⟩, ⟨1024, 1023⟩⟩ := by decide

/-- `touches` / `try_extend` of two scanlines of the SAME row (their `debug_assert_eq!`) whose
ends are not `i32::MIN` (`start - 1`, `end - 1`). -/
theorem scanline_try_extend_checked_eq_plain {s o : Scanline} (hy : s.y = o.y)
    (h1 : -2147483647 ≤ s.xs ∧ s.xs ≤ 2147483647) (h2 : -2147483647 ≤ s.xe ∧ s.xe ≤ 2147483647)
    (h3 : -2147483647 ≤ o.xs ∧ o.xs ≤ 2147483647) (h4 : -2147483647 ≤ o.xe ∧ o.xe ≤ 2147483647) :
    Chk.Scanline.touches s o = some (s.touches o) ∧ Chk.Scanline.tryExtend s o = some (s.tryExtend o) :=
  ⟨Chk.Scanline.touches_ok hy h1 h2 h3 h4, Chk.Scanline.tryExtend_ok hy h1 h2 h3 h4⟩
example : (⟨5, 18, 20⟩ : Scanline).y = (⟨5, 11, 26⟩ : Scanline).y := by decide
/-- The assertion is real: scanlines of different rows panic in a build with debug assertions. -/
theorem scanline_try_extend_asserts_equal_rows : Chk.Scanline.tryExtend ⟨5, 0, 3⟩ ⟨6, 1, 4⟩ = none := by
  decide

/-- `to_rectangle` / `draw`: the length `(end - start) as u32` is an `i32` difference. -/
theorem scanline_to_rectangle_checked_eq_plain {s : Scanline}
    (h1 : -1073741823 ≤ s.xs ∧ s.xs ≤ 1073741823) (h2 : -1073741823 ≤ s.xe ∧ s.xe ≤ 1073741823) :
    Chk.Scanline.toRectangle s = some s.toRectangle ∧
    Chk.Scanline.drawRect s =
      some (if s.isEmpty then none else some ⟨⟨s.xs, s.y⟩, ⟨(s.xe - s.xs).toNat, 1⟩⟩) :=
  ⟨Chk.Scanline.toRectangle_ok h1 h2, Chk.Scanline.drawRect_ok h1 h2⟩
example : (-1073741823 : Int) ≤ -1152 ∧ (2177 : Int) ≤ 1073741823 := by decide
/-- ... and it ends there: a scanline from -2^30 to 2^30 is 2^31 long. -/
theorem scanline_to_rectangle_overflows :
    Chk.Scanline.toRectangle ⟨0, -1073741824, 1073741824⟩ = none := by decide

/-! ### `StyledScanline` -/

/-- `draw_stroke` / `draw_stroke_and_fill`: two / three `Scanline::draw`. -/
theorem styled_scanline_draw_checked_eq_plain {s : StyledScanline} (h : Chk.StyledScanline.Ends s)
    (sc fc : Color) :
    Chk.StyledScanline.drawStroke s sc = some (s.drawStroke sc) ∧
    Chk.StyledScanline.drawStrokeAndFill s sc fc = some (s.drawStrokeAndFill sc fc) :=
  ⟨Chk.StyledScanline.drawStroke_ok h sc, Chk.StyledScanline.drawStrokeAndFill_ok h sc fc⟩
example : Chk.StyledScanline.Ends ⟨7, -1152, 2177, 0, 1024⟩ := by decide

/-! ### Circles: `Scanlines`, `StyledScanlines` -/

/-- `circle::Scanlines::new` of a stroke-area circle, and the invariant of the iterator. -/
theorem circle_scanlines_new_checked_eq_plain {c : Circle} (h : DS.xcircle c) :
    Chk.Circle.scanlines c = some c.scanlines ∧ Chk.Circle.SLOk c.scanlines :=
  Chk.Circle.scanlines_ok (DS.xcircle_sec' h)
example : DS.xcircle ⟨⟨-1152, 2176⟩, 1280⟩ := by decide

/-- **`circle::Scanlines::next`**: the lazily evaluated `find` over the columns (per probe
`Point * 2 - center_2x` and its squared length in `i32`) and `columns.end - (x - columns.start)`;
the invariant is kept, so no step of `points()` or of a fill-only draw overflows. -/
theorem circle_scanlines_next_checked_eq_plain {it : Circle.ScanlinesIt} (hi : Chk.Circle.SLOk it) :
    Chk.Circle.next it = some it.next ∧ Chk.Circle.SLOk it.next.2 := Chk.Circle.next_ok hi
example : Chk.Circle.SLOk (⟨⟨3, 4⟩, 9⟩ : Circle).scanlines := (Chk.Circle.scanlines_ok (by decide)).2

/-- `circle::styled::StyledScanlines::new` for a stroke area of the derived domain and any fill
area below 65536. -/
theorem circle_styled_scanlines_new_checked_eq_plain {sa fa : Circle} (hs : DS.xcircle sa) (hf : fa.d ≤ 65535) :
    Chk.Circle.styledScanlines sa fa = some (Circle.styledScanlines sa fa) ∧
    Chk.Circle.StyledOk (Circle.styledScanlines sa fa) :=
  Chk.Circle.styledScanlines_ok (DS.xcircle_sec' hs) hf
example : DS.xcircle ⟨⟨-1152, -1152⟩, 1280⟩ ∧ (1024 : Nat) ≤ 65535 := by decide

/-- **`circle::styled::StyledScanlines::next`**: stroke scanline, fill-range search, and the ends
of the styled scanline are inside the domain of `styled_scanline_draw_checked_eq_plain`. -/
theorem circle_styled_scanlines_next_checked_eq_plain {it : Circle.StyledScanlinesIt}
    (hi : Chk.Circle.StyledOk it) :
    Chk.Circle.styledNext it = some it.next ∧ Chk.Circle.StyledOk it.next.2 ∧
    ∀ s, it.next.1 = some s → Chk.StyledScanline.Ends s := Chk.Circle.styledNext_ok hi
example : Chk.Circle.StyledOk (Circle.styledScanlines ⟨⟨1, 2⟩, 13⟩ ⟨⟨3, 4⟩, 9⟩) :=
  (Chk.Circle.styledScanlines_ok (by decide) (by decide)).2

/-! ### Ellipses: `Scanlines`, `StyledScanlines` -/

theorem ellipse_scanlines_new_checked_eq_plain {e : Ellipse} (h : DS.xellipse e) :
    Chk.Ellipse.scanlines e = some e.scanlines ∧ Chk.Ellipse.SLOk e.scanlines :=
  Chk.Ellipse.scanlines_ok (DS.xellipse_dom h)
example : DS.xellipse ⟨⟨-1152, 2176⟩, ⟨1280, 1⟩⟩ := by decide

/-- **`ellipse::Scanlines::next`** (`rows.find_map`: any number of skipped rows; per row
`y * 2 - center_2x.y`, per probe `x * 2 - center_2x.x` and `EllipseContains::contains`). -/
theorem ellipse_scanlines_next_checked_eq_plain {it : Ellipse.ScanlinesIt} (hi : Chk.Ellipse.SLOk it) :
    Chk.Ellipse.next it = some it.next ∧ Chk.Ellipse.SLOk it.next.2 := Chk.Ellipse.next_ok hi
example : Chk.Ellipse.SLOk (⟨⟨3, 4⟩, ⟨9, 2⟩⟩ : Ellipse).scanlines := (Chk.Ellipse.scanlines_ok (by decide)).2

theorem ellipse_styled_scanlines_new_checked_eq_plain {sa fa : Ellipse} (hs : DS.xellipse sa)
    (hw : fa.size.w ≤ 65535) (hh : fa.size.h ≤ 65535) :
    Chk.Ellipse.styledScanlines sa fa = some (Ellipse.styledScanlines sa fa) ∧
    Chk.Ellipse.StyledOk (Ellipse.styledScanlines sa fa) :=
  Chk.Ellipse.styledScanlines_ok (DS.xellipse_dom hs) hw hh
example : DS.xellipse ⟨⟨-1152, -1152⟩, ⟨1280, 7⟩⟩ := by decide

theorem ellipse_styled_scanlines_next_checked_eq_plain {it : Ellipse.StyledScanlinesIt}
    (hi : Chk.Ellipse.StyledOk it) :
    Chk.Ellipse.styledNext it = some it.next ∧ Chk.Ellipse.StyledOk it.next.2 ∧
    ∀ s, it.next.1 = some s → Chk.StyledScanline.Ends s := Chk.Ellipse.styledNext_ok hi
example : Chk.Ellipse.StyledOk (Ellipse.styledScanlines ⟨⟨1, 2⟩, ⟨13, 8⟩⟩ ⟨⟨3, 4⟩, ⟨9, 4⟩⟩) :=
  (Chk.Ellipse.styledScanlines_ok (by decide) (by decide) (by decide)).2

/-! ### Thick polylines and stroked triangles: the machinery above the joins -/

/-- **Every corner of a display-scale join is within 2^27 + 4096 of the origin**: three vertices
within +-1024, stroke width up to 128, any stroke offset. (A used intersection point is within
2^27 of an edge start by Lagrange's identity; `Joins.rawPoint_near_start`.) -/
theorem join_corners_in_range {start mid stop : Pt} (h1 : DS.pt start) (h2 : DS.pt mid) (h3 : DS.pt stop)
    {w : Nat} (hw : DS.width w) {off : Thick.StrokeOffset} {j : Joins.LineJoin}
    (h : Joins.LineJoin.fromPoints start mid stop w off = some j) : Chk.Joins.JoinNear j :=
  Chk.Joins.fromPoints_near (DS.pt_VDS h1) (DS.pt_VDS h2) (DS.pt_VDS h3) hw h
example : DS.pt ⟨-1024, -1024⟩ ∧ DS.width 128 ∧
    (Joins.LineJoin.fromPoints ⟨0, 0⟩ ⟨10, 0⟩ ⟨10, 10⟩ 3 .none).isSome = true := by decide

/-- The same for the open ends of a polyline (`LineJoin::start`, `LineJoin::end`). -/
theorem join_start_end_corners_in_range {a b : Pt} (h1 : DS.pt a) (h2 : DS.pt b) {w : Nat}
    (hw : DS.width w) {off : Thick.StrokeOffset} :
    (∀ j, Joins.LineJoin.start a b w off = some j → Chk.Joins.JoinNear j) ∧
    (∀ j, Joins.LineJoin.stop a b w off = some j → Chk.Joins.JoinNear j) :=
  ⟨fun _ h => Chk.Joins.start_near (DS.pt_VDS h1) (DS.pt_VDS h2) hw h,
   fun _ h => Chk.Joins.stop_near (DS.pt_VDS h1) (DS.pt_VDS h2) hw h⟩
example : DS.pt ⟨-1024, 1024⟩ ∧ DS.width 0 := by decide

/-- `Line::midpoint` of a filler line between two such corners. -/
theorem cap_midpoint_checked_eq_plain {l : Line} (hs : Chk.Joins.Near l.start) (he : Chk.Joins.Near l.stop) :
    Chk.Joins.midpoint l = some (Joins.midpoint l) := (Chk.Joins.midpoint_ok hs he).1
example : Chk.Joins.Near ⟨134221824, -134221824⟩ := by decide

/-- **`ThickSegment::intersection`** for EVERY row, and `edges_bounding_box`, of a segment whose
two joins have corners in that range (so: of every segment of a display-scale thick polyline or
stroked triangle): cap midpoints, up to six `bresenham_intersection`s, `with_corners`. -/
theorem thick_segment_checked_eq_plain {s : Joins.ThickSegment} (h : Chk.Joins.ThickSegment.SegNear s) :
    (∀ y, Chk.Joins.ThickSegment.intersection s y = some (s.intersection y)) ∧
    Chk.Joins.ThickSegment.edgesBoundingBox s = some s.edgesBoundingBox :=
  ⟨Chk.Joins.ThickSegment.intersection_ok h, Chk.Joins.ThickSegment.edgesBoundingBox_ok h⟩
example : Chk.Joins.ThickSegment.SegNear
    ⟨⟨.start, ⟨⟨0, 1⟩, ⟨0, -1⟩⟩, ⟨⟨0, 1⟩, ⟨0, -1⟩⟩⟩, ⟨.stop, ⟨⟨9, 1⟩, ⟨9, -1⟩⟩, ⟨⟨9, 1⟩, ⟨9, -1⟩⟩⟩⟩ := by
  unfold Chk.Joins.ThickSegment.SegNear Chk.Joins.JoinNear; decide

/-- **The bounding-box fold** of `polyline::styled::untranslated_bounding_box` and
`triangle::styled_bounding_box` (from `(i32::MAX, i32::MIN)`, `bottom_right()` per segment, the
final `with_corners`) over the non-empty segment list of such a shape. -/
theorem thick_bounding_box_fold_checked_eq_plain {segs : List Joins.ThickSegment} (hne : segs ≠ [])
    (hs : ∀ s ∈ segs, Chk.Joins.ThickSegment.SegNear s) :
    Chk.Joins.foldEdgeBoxes segs = some (Joins.foldEdgeBoxes segs) := Chk.Joins.foldEdgeBoxes_ok hne hs
example : ([⟨⟨.start, ⟨⟨0, 1⟩, ⟨0, -1⟩⟩, ⟨⟨0, 1⟩, ⟨0, -1⟩⟩⟩,
    ⟨.stop, ⟨⟨9, 1⟩, ⟨9, -1⟩⟩, ⟨⟨9, 1⟩, ⟨9, -1⟩⟩⟩⟩] : List Joins.ThickSegment) ≠ [] := by decide
/-- The fold over NO segment would overflow (`with_corners(i32::MAX, i32::MIN)`): the code only
folds for at least two vertices. -/
theorem thick_bounding_box_fold_needs_a_segment : Chk.Joins.foldEdgeBoxes [] = none := by decide

end EG.C08
