/-
  C08 (rounded-rectangle part) — range theorems of `CornerRadii::confine`, `EllipseQuadrant`,
  `RoundedRectangle::{contains, offset, translate}`, `RoundedRectangleContains`, the `Scanlines`
  iterator behind `points()` / fill-only drawing, and the `fill_range` search of the styled
  iterator. Checked model: `EG.Model.CheckedRRect` (`u64` / `u128` widths of `confine` after
  /repo b4800c7, `EllipseContains` after 848fbcc); plain: `EG.Model.RoundedRect`.

  `DS.xrrect r` = the rectangle is in the derived display-scale range (`DS.xrect`: stroke areas)
  and the eight radii are `u32` values — NO bound on the radii: `confine` brings every radius
  down to the side it lies along before any quadrant is built. The lemmas hold for corners
  within +-4096, sides up to 4096 (`RR.rect`) and probed points within +-8192 (`RR.probe`).
-/
import EG.Lemmas.CheckedDSMore
namespace EG.C08
open EG EG.Chk

/-! ### `CornerRadii::confine` -/

/-- **`confine` never panics**, whatever the radii and the size (all `u32`): the pair sums fit
`u64`, the cross products `u128`, `length * size` fits `u64`, the divisor `corner_size` is
positive and the `as u32` cast of the scaled length does not truncate. -/
theorem rrect_confine_total {c : CornerRadii} (hc : Chk.CornerRadii.InU32 c) {bb : Sz}
    (hw : bb.w ≤ 4294967295) (hh : bb.h ≤ 4294967295) :
    Chk.CornerRadii.confine c bb = some (c.confine bb) := Chk.CornerRadii.confine_ok hc hw hh
example : Chk.CornerRadii.InU32 ⟨⟨4294967295, 4294967295⟩, ⟨4294967295, 1⟩, ⟨0, 4294967295⟩, ⟨7, 7⟩⟩ := by
  decide

/-! ### `EllipseQuadrant`, `get_confined_corner_quadrant` -/

/-- The corner quadrant of a display-scale rounded rectangle: `confine`, `top_left + size -
radius`, `radius * 2`, `center_2x`, `EllipseContains::new`. -/
theorem rrect_corner_quadrant_checked_eq_plain {r : RoundedRect} (h : DS.xrrect r) (q : Quadrant) :
    Chk.RoundedRect.cornerQuadrant r q = some (r.cornerQuadrant q) :=
  (Chk.RoundedRect.cornerQuadrant_ok (DS.xrect_RR h.1) h.2 q).1
example : DS.xrrect ⟨⟨⟨-1152, 2176⟩, ⟨1280, 1279⟩⟩, CornerRadii.new ⟨4294967295, 640⟩⟩ := by decide

/-- `EllipseQuadrant::contains` of such a quadrant at a display-scale point: `point * 2 -
center_2x` in `i32`, the squares in `i32`, the weighted sum in `u64`. -/
theorem rrect_quadrant_contains_checked_eq_plain {r : RoundedRect} (h : DS.xrrect r) (q : Quadrant)
    {p : Pt} (hp : DS.xpt p) :
    Chk.EllipseQuadrant.contains (r.cornerQuadrant q) p = some ((r.cornerQuadrant q).contains p) :=
  Chk.EllipseQuadrant.contains_ok (Chk.RoundedRect.cornerQuadrant_ok (DS.xrect_RR h.1) h.2 q).2
    (DS.xpt_RR hp)
example : DS.xrrect ⟨⟨⟨0, 0⟩, ⟨1280, 1280⟩⟩, CornerRadii.new ⟨640, 640⟩⟩ ∧ DS.xpt ⟨2176, -1152⟩ := by
  decide

/-! ### `RoundedRectangle::contains`, `offset`, `translate` -/

/-- **`RoundedRectangle::contains`**: `RoundedRectangleContains::new` (four quadrants, the four
`rows.start + height as i32` / `rows.end - height as i32`) and the corner tests. -/
theorem rrect_contains_checked_eq_plain {r : RoundedRect} (h : DS.xrrect r) {p : Pt} (hp : DS.xpt p) :
    Chk.RoundedRect.contains r p = some (r.contains p) :=
  Chk.RoundedRect.contains_ok (DS.xrect_RR h.1) h.2 (DS.xpt_RR hp)
example : DS.xrrect ⟨⟨⟨-1152, -1152⟩, ⟨1280, 1280⟩⟩, ⟨⟨1, 2⟩, ⟨300, 4⟩, ⟨5, 6000⟩, ⟨7, 8⟩⟩⟩ ∧
    DS.xpt ⟨127, 127⟩ := by decide

/-- `offset` by a stroke offset: `Rectangle::offset` plus saturating radius arithmetic. -/
theorem rrect_offset_checked_eq_plain {r : RoundedRect} (h : DS.xrect r.rect) {o : Int} (ho : DS.offs o) :
    Chk.RoundedRect.offset r o = some (r.offset o) :=
  Chk.RoundedRect.offset_ok (DS.xrect_W h) (DS.offs_W ho)
example : DS.xrect (⟨⟨⟨3, 4⟩, ⟨5, 0⟩⟩, CornerRadii.new ⟨9, 9⟩⟩ : RoundedRect).rect ∧ DS.offs (-128) := by
  decide

theorem rrect_translate_checked_eq_plain {r : RoundedRect} (h : DS.xrect r.rect) {d : Pt} (hd : DS.xpt d) :
    Chk.RoundedRect.translate r d = some (r.translate d) :=
  Chk.RoundedRect.translate_ok (DS.xpt_W h.1) (DS.xpt_W hd)
example : DS.xrect (⟨⟨⟨3, 4⟩, ⟨5, 0⟩⟩, CornerRadii.new ⟨9, 9⟩⟩ : RoundedRect).rect ∧ DS.xpt ⟨-1, 1⟩ := by
  decide

/-! ### The iterators: `Scanlines` (behind `points()` and fill-only `draw`), `StyledScanlines` -/

/-- `Scanlines::new` = `RoundedRectangleContains::new`, and the invariant `RRCOk` every later step
preserves. -/
theorem rrect_scanlines_new_checked_eq_plain {r : RoundedRect} (h : DS.xrrect r) :
    Chk.RRContains.new r = some (RRContains.new r) ∧ RRCOk (RRContains.new r) :=
  Chk.RRContains.new_ok (DS.xrect_RR h.1) h.2
example : DS.xrrect ⟨⟨⟨0, 0⟩, ⟨1280, 1280⟩⟩, CornerRadii.new ⟨640, 640⟩⟩ := by decide

/-- **`Scanlines::next`**: every step from a state satisfying the invariant is the plain step —
the lazily evaluated `find` / `rfind` over the corner columns (each probe an
`EllipseQuadrant::contains`), `x + 1` — and leads to a state satisfying the invariant; by
induction no step of `points()` or of a fill-only `draw` of a display-scale rounded rectangle
overflows. -/
theorem rrect_scanlines_next_checked_eq_plain {c : RRContains} (hc : RRCOk c) :
    Chk.RRContains.next c = some c.next ∧ ∀ s c', c.next = some (s, c') → RRCOk c' :=
  Chk.RRContains.next_ok hc
example : RRCOk (RRContains.new ⟨⟨⟨0, 0⟩, ⟨8, 8⟩⟩, CornerRadii.new ⟨3, 3⟩⟩) :=
  (Chk.RRContains.new_ok (by decide) (by decide)).2

/-- The ends of every scanline the iterator yields stay within -4096 ..= 8192 (what
`to_rectangle`, `draw` and `fill_range` are handed). -/
theorem rrect_scanline_ends_in_range {c : RRContains} (hc : RRCOk c) (y : Int) :
    (-4096 ≤ (c.row y).xs ∧ (c.row y).xs ≤ 8192) ∧ (-4096 ≤ (c.row y).xe ∧ (c.row y).xe ≤ 8192) :=
  Chk.RRContains.row_bounds hc y
example : RRCOk (RRContains.new ⟨⟨⟨0, 0⟩, ⟨8, 8⟩⟩, CornerRadii.new ⟨3, 3⟩⟩) :=
  (Chk.RRContains.new_ok (by decide) (by decide)).2

/-- **`StyledScanlines::next`**, the `fill_range` closure: the fill area (invariant `RRCOk`) probed
with `find` / `rfind` along a stroke scanline of the stroke area (invariant `RRCOk`, row `y`). -/
theorem rrect_fill_range_checked_eq_plain {f c : RRContains} (hf : RRCOk f) (hc : RRCOk c) (y : Int) :
    Chk.RRContains.fillRange f (c.row y) = some (
      if f.rowsStart ≤ y ∧ y < f.rowsEnd then
        match EG.rangeFind (fun x => f.contains ⟨x, y⟩) (c.row y).xs (c.row y).xe,
              (EG.rangeRFind (fun x => f.contains ⟨x, y⟩) (c.row y).xs (c.row y).xe).map (· + 1) with
        | some a, some b => some (a, b)
        | _, _ => none
      else none) := by
  have hb := Chk.RRContains.row_bounds hc y
  exact Chk.RRContains.fillRange_ok hf (s := c.row y) (by omega) (by omega)
example : RRCOk (RRContains.new ⟨⟨⟨1, 1⟩, ⟨6, 6⟩⟩, CornerRadii.new ⟨2, 2⟩⟩) :=
  (Chk.RRContains.new_ok (by decide) (by decide)).2

/-! ### Where the range ends -/

/-- A 46342 x 46342 rounded rectangle with radius 23171: the doubled distance of the corner
pixel from the corner centre is 46341, whose square does not fit `i32`; one pixel smaller the
test succeeds. -/
theorem rrect_contains_overflows_at_46342 :
    Chk.RoundedRect.contains ⟨⟨⟨0, 0⟩, ⟨46342, 46342⟩⟩, CornerRadii.new ⟨23171, 23171⟩⟩ ⟨0, 0⟩ = none ∧
    Chk.RoundedRect.contains ⟨⟨⟨0, 0⟩, ⟨46340, 46340⟩⟩, CornerRadii.new ⟨23170, 23170⟩⟩ ⟨0, 0⟩ = some false := by
  constructor <;> decide

/-- From radius 32768 on `EllipseContains::new(radius * 2)` overflows `u32` (`65536^2`), whatever
point is probed. -/
theorem rrect_quadrant_new_overflows_at_32768 :
    Chk.EllipseQuadrant.new ⟨0, 0⟩ ⟨32768, 32768⟩ .topLeft = none := by decide

end EG.C08
