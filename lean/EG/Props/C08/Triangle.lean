/-
  C08 (triangle part) — range theorems of `Triangle::{bounding_box, area_doubled, contains,
  sorted_clockwise, scanline_intersection, translate}` (src/primitives/triangle/mod.rs: every
  product and sum in `i32`). Checked model: `EG.Model.CheckedTriangle` (on top of the lazy
  Bresenham walk of `EG.Model.CheckedScanline`); plain: `EG.Model.Triangle`.

  `DS.xtri t` = every vertex in the derived display-scale range (-1152 ..= 2176, which contains
  +-1024); the lemmas hold for vertices within +-8192 (`Triangle.SmallPt`, Lemmas/TriangleI32.lean,
  the range of Props/C19/Arithmetic.lean) and any probed point / scanline row.
-/
import EG.Lemmas.CheckedDSMore
namespace EG.C08
open EG EG.Chk EG.Triangle

/-- `bounding_box`: `Rectangle::with_corners` of the component-wise extremes. -/
theorem triangle_bounding_box_checked_eq_plain {t : Triangle} (h : DS.xtri t) :
    Chk.Triangle.boundingBox t = some t.boundingBox :=
  Chk.Triangle.boundingBox_ok (DS.xpt_W h.1) (DS.xpt_W h.2.1) (DS.xpt_W h.2.2)
example : DS.xtri ⟨⟨-1152, -1152⟩, ⟨2176, -1152⟩, ⟨0, 2176⟩⟩ := by decide

/-- `area_doubled`: the negation, the four products, both differences and the three partial sums
stay inside `i32`. -/
theorem triangle_area_doubled_checked_eq_plain {t : Triangle} (h : DS.xtri t) :
    Chk.Triangle.areaDoubled t = some t.areaDoubled :=
  Chk.Triangle.areaDoubled_ok (DS.xpt_small h.1) (DS.xpt_small h.2.1) (DS.xpt_small h.2.2)
example : DS.xtri ⟨⟨-1024, -1024⟩, ⟨1024, -1024⟩, ⟨0, 1024⟩⟩ := by decide

/-- **`Triangle::contains`** for EVERY probed point: the bounding-box test, `s`, `t`,
`area_doubled`, the guarded `s + t`, the three `Line::points()` of the sorted edges and every
step `any` takes along them. -/
theorem triangle_contains_checked_eq_plain {t : Triangle} (h : DS.xtri t) (p : Pt) :
    Chk.Triangle.contains t p = some (t.contains p) :=
  Chk.Triangle.contains_ok (DS.xpt_small h.1) (DS.xpt_small h.2.1) (DS.xpt_small h.2.2) p
example : DS.xtri ⟨⟨-1024, -1024⟩, ⟨1024, -1024⟩, ⟨0, 1024⟩⟩ := by decide

/-- `sorted_clockwise` (`sorted_yx` / `sort_two_yx` only compare). -/
theorem triangle_sorted_clockwise_checked_eq_plain {t : Triangle} (h : DS.xtri t) :
    Chk.Triangle.sortedClockwise t = some t.sortedClockwise :=
  Chk.Triangle.sortedClockwise_ok (DS.xpt_small h.1) (DS.xpt_small h.2.1) (DS.xpt_small h.2.2)
example : DS.xtri ⟨⟨0, 1024⟩, ⟨1024, -1024⟩, ⟨-1024, -1024⟩⟩ := by decide

/-- **`scanline_intersection`** for every row `y`: `area_doubled`, then one or three
`bresenham_intersection`s, each a lazily consumed `Line::points()` with `Scanline::extend`. -/
theorem triangle_scanline_intersection_checked_eq_plain {t : Triangle} (h : DS.xtri t) (y : Int) :
    Chk.Triangle.scanlineIntersection t y = some (t.scanlineIntersection y) :=
  Chk.Triangle.scanlineIntersection_ok (DS.xpt_small h.1) (DS.xpt_small h.2.1) (DS.xpt_small h.2.2) y
example : DS.xtri ⟨⟨-1024, -1024⟩, ⟨1024, -1024⟩, ⟨0, 1024⟩⟩ := by decide

theorem triangle_translate_checked_eq_plain {t : Triangle} (h : DS.xtri t) {d : Pt} (hd : DS.xpt d) :
    Chk.Triangle.translate t d = some (t.translate d) :=
  Chk.Triangle.translate_ok (DS.xpt_W h.1) (DS.xpt_W h.2.1) (DS.xpt_W h.2.2) (DS.xpt_W hd)
example : DS.xtri ⟨⟨-1024, -1024⟩, ⟨1024, -1024⟩, ⟨0, 1024⟩⟩ ∧ DS.xpt ⟨2176, -1152⟩ := by decide

/-- The largest uniform domain proved: vertices within +-8192, any probed point. -/
theorem triangle_contains_wide {t : Triangle} (h1 : SmallPt t.v1) (h2 : SmallPt t.v2) (h3 : SmallPt t.v3)
    (p : Pt) : Chk.Triangle.contains t p = some (t.contains p) := Chk.Triangle.contains_ok h1 h2 h3 p
example : SmallPt ⟨-8192, 8192⟩ := by decide

theorem triangle_scanline_intersection_wide {t : Triangle} (h1 : SmallPt t.v1) (h2 : SmallPt t.v2)
    (h3 : SmallPt t.v3) (y : Int) :
    Chk.Triangle.scanlineIntersection t y = some (t.scanlineIntersection y) :=
  Chk.Triangle.scanlineIntersection_ok h1 h2 h3 y
example : SmallPt ⟨8192, -8192⟩ := by decide

/-- The range does end one doubling further out: with vertices at +-16384 the guarded sum
`s + t` of `contains` leaves `i32` for a corner of the bounding box ... -/
theorem triangle_contains_overflows_at_16384 :
    Chk.Triangle.contains ⟨⟨-16384, -16384⟩, ⟨16384, -16384⟩, ⟨-16384, 16384⟩⟩ ⟨16384, 16384⟩ = none := by
  decide

/-- ... and from +-20725 on `area_doubled` itself overflows, so `sorted_clockwise`, `points()` and
every styled draw of that triangle panic in a checked build. -/
theorem triangle_area_doubled_overflows_at_20725 :
    Chk.Triangle.areaDoubled ⟨⟨-20725, -20725⟩, ⟨-20725, 20725⟩, ⟨20725, -20725⟩⟩ = none ∧
    Chk.Triangle.sortedClockwise ⟨⟨-20725, -20725⟩, ⟨-20725, 20725⟩, ⟨20725, -20725⟩⟩ = none ∧
    Chk.Triangle.scanlineIntersection ⟨⟨-20725, -20725⟩, ⟨-20725, 20725⟩, ⟨20725, -20725⟩⟩ 0 = none := by
  refine ⟨?_, ?_, ?_⟩ <;> decide

end EG.C08
