/-
  C20 — the `ColorMapping` impls REGENERATED FROM THE RUST TEXT (color_mapping.rs; the two macros expanded per
  invocation) equal the hand model's `charToColor` / `colorToChar`.

  `char_to_color`: for EVERY `char` (the panic of the source is `none`). `color_to_char`: for every VALID colour value of the
  type (`c < 2 ^ bits`: a colour is its raw value here, and `Nat` lacks the type bound; the hand model reduces modulo the
  width instead, which is the same on valid values). The colour constants are the regenerated ones of ColorSrc.lean
  (`Self::RED` = `impl_rgb_color_RED (type_named "Rgb565")`), so this also ties `RgbLayout.named` to the colour layer.
  The per-type theorems are one pattern instantiated eight times (written out: the names of the generated functions differ).
-/
import EG.Props.C20.Generated
set_option linter.unusedSimpArgs false
set_option linter.unusedVariables false
namespace EG.C20.GeneratedColors
open EG EG.Mock EG.RectSrcPrelude EG.MockSrcPrelude EG.MockSrcLemmas EG.Generated EG.Generated.MockSrc EG.C20.Generated
open EG.ColorSrcPrelude (type_named)

/-- a valid colour value of the type (`Nat` lacks the bound). -/
def ValidColor (ct : CT) (c : Color) : Prop := c < 2 ^ ct.bits
instance (ct : CT) (c : Color) : Decidable (ValidColor ct c) := by unfold ValidColor; exact inferInstance
example : ValidColor .rgb565 0xF800 := by decide

/-! ### digits -/

theorem char_to_digit_4 (ch : Char) : char_to_digit ch 4 = toDigit4 ch := by
  simp only [char_to_digit, toDigit4]
  generalize ch.toNat = n
  by_cases h1 : 48 ≤ n ∧ n ≤ 57
  · simp only [h1, and_self, ↓reduceIte]
    by_cases h2 : n ≤ 51
    · have : n - 48 < 4 := by omega
      simp only [this, ↓reduceIte, h1.1, h2, and_self]
    · have : ¬ n - 48 < 4 := by omega
      have h3 : ¬ (48 ≤ n ∧ n ≤ 51) := by omega
      simp [this, h2]
  · have h3 : ¬ (48 ≤ n ∧ n ≤ 51) := by omega
    simp only [h1, ↓reduceIte, h3]
    by_cases h4 : 97 ≤ n ∧ n ≤ 102
    · have : ¬ n - 87 < 4 := by omega
      simp only [h4, and_self, ↓reduceIte, this]
    · simp only [h4, ↓reduceIte]
      by_cases h5 : 65 ≤ n ∧ n ≤ 70
      · have : ¬ n - 55 < 4 := by omega
        simp only [h5, and_self, ↓reduceIte, this]
      · simp only [h5, ↓reduceIte]

theorem char_to_digit_16 (ch : Char) : char_to_digit ch 16 = toDigit16 ch := by
  simp only [char_to_digit, toDigit16]
  generalize ch.toNat = n
  by_cases h1 : 48 ≤ n ∧ n ≤ 57
  · have : n - 48 < 16 := by omega
    simp only [h1, and_self, ↓reduceIte, this]
  · simp only [h1, ↓reduceIte]
    by_cases h4 : 97 ≤ n ∧ n ≤ 102
    · have : n - 87 < 16 := by omega
      simp only [h4, and_self, ↓reduceIte, this]
    · simp only [h4, ↓reduceIte]
      by_cases h5 : 65 ≤ n ∧ n ≤ 70
      · have : n - 55 < 16 := by omega
        simp only [h5, and_self, ↓reduceIte, this]
      · simp only [h5, ↓reduceIte]

theorem toDigit4_lt (ch : Char) (d : Nat) (h : toDigit4 ch = some d) : d < 4 := by
  simp only [toDigit4] at h
  split at h
  · cases h; omega
  · cases h

theorem toDigit16_lt (ch : Char) (d : Nat) (h : toDigit16 ch = some d) : d < 16 := by
  simp only [toDigit16] at h
  split at h
  · cases h; omega
  · split at h
    · cases h; omega
    · split at h
      · cases h; omega
      · cases h

/-! ### `BinaryColor`, the gray types -/

theorem BinaryColor_char_to_color_src_eq_model (ch : Char) :
    toOpt (BinaryColor_char_to_color ch) = charToColor .binary ch := by
  unfold BinaryColor_char_to_color
  simp only [charToColor]
  split
  · rfl
  · rfl
  · rename_i h1 h2
    have e1 : ¬ ch = '.' := fun h => h1 h
    have e2 : ¬ ch = '#' := fun h => h2 h
    simp only [e1, e2, ↓reduceIte]; rfl

theorem BinaryColor_color_to_char_src_eq_model : ∀ c < 2, toOpt (BinaryColor_color_to_char c) = some (colorToChar .binary c) := by
  decide +kernel

theorem gray_new_small :
    (∀ d < 4, ColorSrc.gray_color_new (type_named "Gray2") (u32_as_u8 d) = d) ∧
    (∀ d < 16, ColorSrc.gray_color_new (type_named "Gray4") (u32_as_u8 d) = d) ∧
    (∀ d < 16, toOpt ((u8_mul (u32_as_u8 d) 17).bind
        (fun v => (MutRes.ok (ColorSrc.gray_color_new (type_named "Gray8") v) : Panics Nat))) = some (d * 17)) := by decide +kernel

theorem Gray2_char_to_color_src_eq_model (ch : Char) : toOpt (Gray2_char_to_color ch) = charToColor .gray2 ch := by
  unfold Gray2_char_to_color
  simp only [charToColor, char_to_digit_4, pure_def]
  cases h : toDigit4 ch with
  | none => rfl
  | some d => simp only [toOpt]; rw [gray_new_small.1 d (toDigit4_lt ch d h)]

theorem Gray4_char_to_color_src_eq_model (ch : Char) : toOpt (Gray4_char_to_color ch) = charToColor .gray4 ch := by
  unfold Gray4_char_to_color
  simp only [charToColor, char_to_digit_16, pure_def]
  cases h : toDigit16 ch with
  | none => rfl
  | some d => simp only [toOpt]; rw [gray_new_small.2.1 d (toDigit16_lt ch d h)]

theorem Gray8_char_to_color_src_eq_model (ch : Char) : toOpt (Gray8_char_to_color ch) = charToColor .gray8 ch := by
  unfold Gray8_char_to_color
  simp only [charToColor, char_to_digit_16, pure_def, bind_def]
  cases h : toDigit16 ch with
  | none => rfl
  | some d => exact gray_new_small.2.2 d (toDigit16_lt ch d h)

theorem Gray2_color_to_char_src_eq_model : ∀ c < 4, toOpt (Gray2_color_to_char c) = some (colorToChar .gray2 c) := by
  decide +kernel
theorem Gray4_color_to_char_src_eq_model : ∀ c < 16, toOpt (Gray4_color_to_char c) = some (colorToChar .gray4 c) := by
  decide +kernel
theorem Gray8_color_to_char_src_eq_model : ∀ c < 256, toOpt (Gray8_color_to_char c) = some (colorToChar .gray8 c) := by
  decide +kernel

/-! ### the eight RGB types (`impl_rgb_color_mapping!`, expanded per invocation) -/


theorem Rgb332_named_src : [('K', ColorSrc.impl_rgb_color_BLACK (type_named "Rgb332")), ('R', ColorSrc.impl_rgb_color_RED (type_named "Rgb332")), ('G', ColorSrc.impl_rgb_color_GREEN (type_named "Rgb332")), ('B', ColorSrc.impl_rgb_color_BLUE (type_named "Rgb332")), ('Y', ColorSrc.impl_rgb_color_YELLOW (type_named "Rgb332")), ('M', ColorSrc.impl_rgb_color_MAGENTA (type_named "Rgb332")), ('C', ColorSrc.impl_rgb_color_CYAN (type_named "Rgb332")), ('W', ColorSrc.impl_rgb_color_WHITE (type_named "Rgb332"))]
    = (⟨3, 3, 2, false⟩ : RgbLayout).named := by decide +kernel

theorem Rgb332_char_to_color_src_eq_model (ch : Char) : toOpt (Rgb332_char_to_color ch) = charToColor .rgb332 ch := by
  unfold Rgb332_char_to_color
  split
  all_goals first
    | decide +kernel
    | (rename_i h1 h2 h3 h4 h5 h6 h7 h8
       have e1 : ¬ ch = 'K' := fun h => h1 h
       have e2 : ¬ ch = 'R' := fun h => h2 h
       have e3 : ¬ ch = 'G' := fun h => h3 h
       have e4 : ¬ ch = 'B' := fun h => h4 h
       have e5 : ¬ ch = 'Y' := fun h => h5 h
       have e6 : ¬ ch = 'M' := fun h => h6 h
       have e7 : ¬ ch = 'C' := fun h => h7 h
       have e8 : ¬ ch = 'W' := fun h => h8 h
       simp only [charToColor, CT.rgb, RgbLayout.named, List.lookup, beq_false_of_ne e1, beq_false_of_ne e2, beq_false_of_ne e3, beq_false_of_ne e4, beq_false_of_ne e5, beq_false_of_ne e6, beq_false_of_ne e7, beq_false_of_ne e8, toOpt, rs_panic])

theorem Rgb332_color_to_char_src_eq_model (c : Color) (h : ValidColor .rgb332 c) :
    toOpt (Rgb332_color_to_char c) = some (colorToChar .rgb332 c) := by
  unfold ValidColor at h
  by_cases h1 : c = ColorSrc.impl_rgb_color_BLACK (type_named "Rgb332")
  · subst h1; decide +kernel
  by_cases h2 : c = ColorSrc.impl_rgb_color_RED (type_named "Rgb332")
  · subst h2; decide +kernel
  by_cases h3 : c = ColorSrc.impl_rgb_color_GREEN (type_named "Rgb332")
  · subst h3; decide +kernel
  by_cases h4 : c = ColorSrc.impl_rgb_color_BLUE (type_named "Rgb332")
  · subst h4; decide +kernel
  by_cases h5 : c = ColorSrc.impl_rgb_color_YELLOW (type_named "Rgb332")
  · subst h5; decide +kernel
  by_cases h6 : c = ColorSrc.impl_rgb_color_MAGENTA (type_named "Rgb332")
  · subst h6; decide +kernel
  by_cases h7 : c = ColorSrc.impl_rgb_color_CYAN (type_named "Rgb332")
  · subst h7; decide +kernel
  by_cases h8 : c = ColorSrc.impl_rgb_color_WHITE (type_named "Rgb332")
  · subst h8; decide +kernel
  unfold Rgb332_color_to_char
  simp only [colorToChar, CT.rgb, Nat.mod_eq_of_lt h, ← Rgb332_named_src, List.find?, rs_eq, pure_def, toOpt,
    beq_false_of_ne h1, beq_false_of_ne h2, beq_false_of_ne h3, beq_false_of_ne h4, beq_false_of_ne h5, beq_false_of_ne h6, beq_false_of_ne h7, beq_false_of_ne h8,
    beq_false_of_ne (Ne.symm h1), beq_false_of_ne (Ne.symm h2), beq_false_of_ne (Ne.symm h3), beq_false_of_ne (Ne.symm h4), beq_false_of_ne (Ne.symm h5), beq_false_of_ne (Ne.symm h6), beq_false_of_ne (Ne.symm h7), beq_false_of_ne (Ne.symm h8), Bool.false_eq_true, ↓reduceIte]


theorem Rgb444_named_src : [('K', ColorSrc.impl_rgb_color_BLACK (type_named "Rgb444")), ('R', ColorSrc.impl_rgb_color_RED (type_named "Rgb444")), ('G', ColorSrc.impl_rgb_color_GREEN (type_named "Rgb444")), ('B', ColorSrc.impl_rgb_color_BLUE (type_named "Rgb444")), ('Y', ColorSrc.impl_rgb_color_YELLOW (type_named "Rgb444")), ('M', ColorSrc.impl_rgb_color_MAGENTA (type_named "Rgb444")), ('C', ColorSrc.impl_rgb_color_CYAN (type_named "Rgb444")), ('W', ColorSrc.impl_rgb_color_WHITE (type_named "Rgb444"))]
    = (⟨4, 4, 4, false⟩ : RgbLayout).named := by decide +kernel

theorem Rgb444_char_to_color_src_eq_model (ch : Char) : toOpt (Rgb444_char_to_color ch) = charToColor .rgb444 ch := by
  unfold Rgb444_char_to_color
  split
  all_goals first
    | decide +kernel
    | (rename_i h1 h2 h3 h4 h5 h6 h7 h8
       have e1 : ¬ ch = 'K' := fun h => h1 h
       have e2 : ¬ ch = 'R' := fun h => h2 h
       have e3 : ¬ ch = 'G' := fun h => h3 h
       have e4 : ¬ ch = 'B' := fun h => h4 h
       have e5 : ¬ ch = 'Y' := fun h => h5 h
       have e6 : ¬ ch = 'M' := fun h => h6 h
       have e7 : ¬ ch = 'C' := fun h => h7 h
       have e8 : ¬ ch = 'W' := fun h => h8 h
       simp only [charToColor, CT.rgb, RgbLayout.named, List.lookup, beq_false_of_ne e1, beq_false_of_ne e2, beq_false_of_ne e3, beq_false_of_ne e4, beq_false_of_ne e5, beq_false_of_ne e6, beq_false_of_ne e7, beq_false_of_ne e8, toOpt, rs_panic])

theorem Rgb444_color_to_char_src_eq_model (c : Color) (h : ValidColor .rgb444 c) :
    toOpt (Rgb444_color_to_char c) = some (colorToChar .rgb444 c) := by
  unfold ValidColor at h
  by_cases h1 : c = ColorSrc.impl_rgb_color_BLACK (type_named "Rgb444")
  · subst h1; decide +kernel
  by_cases h2 : c = ColorSrc.impl_rgb_color_RED (type_named "Rgb444")
  · subst h2; decide +kernel
  by_cases h3 : c = ColorSrc.impl_rgb_color_GREEN (type_named "Rgb444")
  · subst h3; decide +kernel
  by_cases h4 : c = ColorSrc.impl_rgb_color_BLUE (type_named "Rgb444")
  · subst h4; decide +kernel
  by_cases h5 : c = ColorSrc.impl_rgb_color_YELLOW (type_named "Rgb444")
  · subst h5; decide +kernel
  by_cases h6 : c = ColorSrc.impl_rgb_color_MAGENTA (type_named "Rgb444")
  · subst h6; decide +kernel
  by_cases h7 : c = ColorSrc.impl_rgb_color_CYAN (type_named "Rgb444")
  · subst h7; decide +kernel
  by_cases h8 : c = ColorSrc.impl_rgb_color_WHITE (type_named "Rgb444")
  · subst h8; decide +kernel
  unfold Rgb444_color_to_char
  simp only [colorToChar, CT.rgb, Nat.mod_eq_of_lt h, ← Rgb444_named_src, List.find?, rs_eq, pure_def, toOpt,
    beq_false_of_ne h1, beq_false_of_ne h2, beq_false_of_ne h3, beq_false_of_ne h4, beq_false_of_ne h5, beq_false_of_ne h6, beq_false_of_ne h7, beq_false_of_ne h8,
    beq_false_of_ne (Ne.symm h1), beq_false_of_ne (Ne.symm h2), beq_false_of_ne (Ne.symm h3), beq_false_of_ne (Ne.symm h4), beq_false_of_ne (Ne.symm h5), beq_false_of_ne (Ne.symm h6), beq_false_of_ne (Ne.symm h7), beq_false_of_ne (Ne.symm h8), Bool.false_eq_true, ↓reduceIte]


theorem Rgb555_named_src : [('K', ColorSrc.impl_rgb_color_BLACK (type_named "Rgb555")), ('R', ColorSrc.impl_rgb_color_RED (type_named "Rgb555")), ('G', ColorSrc.impl_rgb_color_GREEN (type_named "Rgb555")), ('B', ColorSrc.impl_rgb_color_BLUE (type_named "Rgb555")), ('Y', ColorSrc.impl_rgb_color_YELLOW (type_named "Rgb555")), ('M', ColorSrc.impl_rgb_color_MAGENTA (type_named "Rgb555")), ('C', ColorSrc.impl_rgb_color_CYAN (type_named "Rgb555")), ('W', ColorSrc.impl_rgb_color_WHITE (type_named "Rgb555"))]
    = (⟨5, 5, 5, false⟩ : RgbLayout).named := by decide +kernel

theorem Rgb555_char_to_color_src_eq_model (ch : Char) : toOpt (Rgb555_char_to_color ch) = charToColor .rgb555 ch := by
  unfold Rgb555_char_to_color
  split
  all_goals first
    | decide +kernel
    | (rename_i h1 h2 h3 h4 h5 h6 h7 h8
       have e1 : ¬ ch = 'K' := fun h => h1 h
       have e2 : ¬ ch = 'R' := fun h => h2 h
       have e3 : ¬ ch = 'G' := fun h => h3 h
       have e4 : ¬ ch = 'B' := fun h => h4 h
       have e5 : ¬ ch = 'Y' := fun h => h5 h
       have e6 : ¬ ch = 'M' := fun h => h6 h
       have e7 : ¬ ch = 'C' := fun h => h7 h
       have e8 : ¬ ch = 'W' := fun h => h8 h
       simp only [charToColor, CT.rgb, RgbLayout.named, List.lookup, beq_false_of_ne e1, beq_false_of_ne e2, beq_false_of_ne e3, beq_false_of_ne e4, beq_false_of_ne e5, beq_false_of_ne e6, beq_false_of_ne e7, beq_false_of_ne e8, toOpt, rs_panic])

theorem Rgb555_color_to_char_src_eq_model (c : Color) (h : ValidColor .rgb555 c) :
    toOpt (Rgb555_color_to_char c) = some (colorToChar .rgb555 c) := by
  unfold ValidColor at h
  by_cases h1 : c = ColorSrc.impl_rgb_color_BLACK (type_named "Rgb555")
  · subst h1; decide +kernel
  by_cases h2 : c = ColorSrc.impl_rgb_color_RED (type_named "Rgb555")
  · subst h2; decide +kernel
  by_cases h3 : c = ColorSrc.impl_rgb_color_GREEN (type_named "Rgb555")
  · subst h3; decide +kernel
  by_cases h4 : c = ColorSrc.impl_rgb_color_BLUE (type_named "Rgb555")
  · subst h4; decide +kernel
  by_cases h5 : c = ColorSrc.impl_rgb_color_YELLOW (type_named "Rgb555")
  · subst h5; decide +kernel
  by_cases h6 : c = ColorSrc.impl_rgb_color_MAGENTA (type_named "Rgb555")
  · subst h6; decide +kernel
  by_cases h7 : c = ColorSrc.impl_rgb_color_CYAN (type_named "Rgb555")
  · subst h7; decide +kernel
  by_cases h8 : c = ColorSrc.impl_rgb_color_WHITE (type_named "Rgb555")
  · subst h8; decide +kernel
  unfold Rgb555_color_to_char
  simp only [colorToChar, CT.rgb, Nat.mod_eq_of_lt h, ← Rgb555_named_src, List.find?, rs_eq, pure_def, toOpt,
    beq_false_of_ne h1, beq_false_of_ne h2, beq_false_of_ne h3, beq_false_of_ne h4, beq_false_of_ne h5, beq_false_of_ne h6, beq_false_of_ne h7, beq_false_of_ne h8,
    beq_false_of_ne (Ne.symm h1), beq_false_of_ne (Ne.symm h2), beq_false_of_ne (Ne.symm h3), beq_false_of_ne (Ne.symm h4), beq_false_of_ne (Ne.symm h5), beq_false_of_ne (Ne.symm h6), beq_false_of_ne (Ne.symm h7), beq_false_of_ne (Ne.symm h8), Bool.false_eq_true, ↓reduceIte]


theorem Bgr555_named_src : [('K', ColorSrc.impl_rgb_color_BLACK (type_named "Bgr555")), ('R', ColorSrc.impl_rgb_color_RED (type_named "Bgr555")), ('G', ColorSrc.impl_rgb_color_GREEN (type_named "Bgr555")), ('B', ColorSrc.impl_rgb_color_BLUE (type_named "Bgr555")), ('Y', ColorSrc.impl_rgb_color_YELLOW (type_named "Bgr555")), ('M', ColorSrc.impl_rgb_color_MAGENTA (type_named "Bgr555")), ('C', ColorSrc.impl_rgb_color_CYAN (type_named "Bgr555")), ('W', ColorSrc.impl_rgb_color_WHITE (type_named "Bgr555"))]
    = (⟨5, 5, 5, true⟩ : RgbLayout).named := by decide +kernel

theorem Bgr555_char_to_color_src_eq_model (ch : Char) : toOpt (Bgr555_char_to_color ch) = charToColor .bgr555 ch := by
  unfold Bgr555_char_to_color
  split
  all_goals first
    | decide +kernel
    | (rename_i h1 h2 h3 h4 h5 h6 h7 h8
       have e1 : ¬ ch = 'K' := fun h => h1 h
       have e2 : ¬ ch = 'R' := fun h => h2 h
       have e3 : ¬ ch = 'G' := fun h => h3 h
       have e4 : ¬ ch = 'B' := fun h => h4 h
       have e5 : ¬ ch = 'Y' := fun h => h5 h
       have e6 : ¬ ch = 'M' := fun h => h6 h
       have e7 : ¬ ch = 'C' := fun h => h7 h
       have e8 : ¬ ch = 'W' := fun h => h8 h
       simp only [charToColor, CT.rgb, RgbLayout.named, List.lookup, beq_false_of_ne e1, beq_false_of_ne e2, beq_false_of_ne e3, beq_false_of_ne e4, beq_false_of_ne e5, beq_false_of_ne e6, beq_false_of_ne e7, beq_false_of_ne e8, toOpt, rs_panic])

theorem Bgr555_color_to_char_src_eq_model (c : Color) (h : ValidColor .bgr555 c) :
    toOpt (Bgr555_color_to_char c) = some (colorToChar .bgr555 c) := by
  unfold ValidColor at h
  by_cases h1 : c = ColorSrc.impl_rgb_color_BLACK (type_named "Bgr555")
  · subst h1; decide +kernel
  by_cases h2 : c = ColorSrc.impl_rgb_color_RED (type_named "Bgr555")
  · subst h2; decide +kernel
  by_cases h3 : c = ColorSrc.impl_rgb_color_GREEN (type_named "Bgr555")
  · subst h3; decide +kernel
  by_cases h4 : c = ColorSrc.impl_rgb_color_BLUE (type_named "Bgr555")
  · subst h4; decide +kernel
  by_cases h5 : c = ColorSrc.impl_rgb_color_YELLOW (type_named "Bgr555")
  · subst h5; decide +kernel
  by_cases h6 : c = ColorSrc.impl_rgb_color_MAGENTA (type_named "Bgr555")
  · subst h6; decide +kernel
  by_cases h7 : c = ColorSrc.impl_rgb_color_CYAN (type_named "Bgr555")
  · subst h7; decide +kernel
  by_cases h8 : c = ColorSrc.impl_rgb_color_WHITE (type_named "Bgr555")
  · subst h8; decide +kernel
  unfold Bgr555_color_to_char
  simp only [colorToChar, CT.rgb, Nat.mod_eq_of_lt h, ← Bgr555_named_src, List.find?, rs_eq, pure_def, toOpt,
    beq_false_of_ne h1, beq_false_of_ne h2, beq_false_of_ne h3, beq_false_of_ne h4, beq_false_of_ne h5, beq_false_of_ne h6, beq_false_of_ne h7, beq_false_of_ne h8,
    beq_false_of_ne (Ne.symm h1), beq_false_of_ne (Ne.symm h2), beq_false_of_ne (Ne.symm h3), beq_false_of_ne (Ne.symm h4), beq_false_of_ne (Ne.symm h5), beq_false_of_ne (Ne.symm h6), beq_false_of_ne (Ne.symm h7), beq_false_of_ne (Ne.symm h8), Bool.false_eq_true, ↓reduceIte]


theorem Rgb565_named_src : [('K', ColorSrc.impl_rgb_color_BLACK (type_named "Rgb565")), ('R', ColorSrc.impl_rgb_color_RED (type_named "Rgb565")), ('G', ColorSrc.impl_rgb_color_GREEN (type_named "Rgb565")), ('B', ColorSrc.impl_rgb_color_BLUE (type_named "Rgb565")), ('Y', ColorSrc.impl_rgb_color_YELLOW (type_named "Rgb565")), ('M', ColorSrc.impl_rgb_color_MAGENTA (type_named "Rgb565")), ('C', ColorSrc.impl_rgb_color_CYAN (type_named "Rgb565")), ('W', ColorSrc.impl_rgb_color_WHITE (type_named "Rgb565"))]
    = (⟨5, 6, 5, false⟩ : RgbLayout).named := by decide +kernel

theorem Rgb565_char_to_color_src_eq_model (ch : Char) : toOpt (Rgb565_char_to_color ch) = charToColor .rgb565 ch := by
  unfold Rgb565_char_to_color
  split
  all_goals first
    | decide +kernel
    | (rename_i h1 h2 h3 h4 h5 h6 h7 h8
       have e1 : ¬ ch = 'K' := fun h => h1 h
       have e2 : ¬ ch = 'R' := fun h => h2 h
       have e3 : ¬ ch = 'G' := fun h => h3 h
       have e4 : ¬ ch = 'B' := fun h => h4 h
       have e5 : ¬ ch = 'Y' := fun h => h5 h
       have e6 : ¬ ch = 'M' := fun h => h6 h
       have e7 : ¬ ch = 'C' := fun h => h7 h
       have e8 : ¬ ch = 'W' := fun h => h8 h
       simp only [charToColor, CT.rgb, RgbLayout.named, List.lookup, beq_false_of_ne e1, beq_false_of_ne e2, beq_false_of_ne e3, beq_false_of_ne e4, beq_false_of_ne e5, beq_false_of_ne e6, beq_false_of_ne e7, beq_false_of_ne e8, toOpt, rs_panic])

theorem Rgb565_color_to_char_src_eq_model (c : Color) (h : ValidColor .rgb565 c) :
    toOpt (Rgb565_color_to_char c) = some (colorToChar .rgb565 c) := by
  unfold ValidColor at h
  by_cases h1 : c = ColorSrc.impl_rgb_color_BLACK (type_named "Rgb565")
  · subst h1; decide +kernel
  by_cases h2 : c = ColorSrc.impl_rgb_color_RED (type_named "Rgb565")
  · subst h2; decide +kernel
  by_cases h3 : c = ColorSrc.impl_rgb_color_GREEN (type_named "Rgb565")
  · subst h3; decide +kernel
  by_cases h4 : c = ColorSrc.impl_rgb_color_BLUE (type_named "Rgb565")
  · subst h4; decide +kernel
  by_cases h5 : c = ColorSrc.impl_rgb_color_YELLOW (type_named "Rgb565")
  · subst h5; decide +kernel
  by_cases h6 : c = ColorSrc.impl_rgb_color_MAGENTA (type_named "Rgb565")
  · subst h6; decide +kernel
  by_cases h7 : c = ColorSrc.impl_rgb_color_CYAN (type_named "Rgb565")
  · subst h7; decide +kernel
  by_cases h8 : c = ColorSrc.impl_rgb_color_WHITE (type_named "Rgb565")
  · subst h8; decide +kernel
  unfold Rgb565_color_to_char
  simp only [colorToChar, CT.rgb, Nat.mod_eq_of_lt h, ← Rgb565_named_src, List.find?, rs_eq, pure_def, toOpt,
    beq_false_of_ne h1, beq_false_of_ne h2, beq_false_of_ne h3, beq_false_of_ne h4, beq_false_of_ne h5, beq_false_of_ne h6, beq_false_of_ne h7, beq_false_of_ne h8,
    beq_false_of_ne (Ne.symm h1), beq_false_of_ne (Ne.symm h2), beq_false_of_ne (Ne.symm h3), beq_false_of_ne (Ne.symm h4), beq_false_of_ne (Ne.symm h5), beq_false_of_ne (Ne.symm h6), beq_false_of_ne (Ne.symm h7), beq_false_of_ne (Ne.symm h8), Bool.false_eq_true, ↓reduceIte]


theorem Bgr565_named_src : [('K', ColorSrc.impl_rgb_color_BLACK (type_named "Bgr565")), ('R', ColorSrc.impl_rgb_color_RED (type_named "Bgr565")), ('G', ColorSrc.impl_rgb_color_GREEN (type_named "Bgr565")), ('B', ColorSrc.impl_rgb_color_BLUE (type_named "Bgr565")), ('Y', ColorSrc.impl_rgb_color_YELLOW (type_named "Bgr565")), ('M', ColorSrc.impl_rgb_color_MAGENTA (type_named "Bgr565")), ('C', ColorSrc.impl_rgb_color_CYAN (type_named "Bgr565")), ('W', ColorSrc.impl_rgb_color_WHITE (type_named "Bgr565"))]
    = (⟨5, 6, 5, true⟩ : RgbLayout).named := by decide +kernel

theorem Bgr565_char_to_color_src_eq_model (ch : Char) : toOpt (Bgr565_char_to_color ch) = charToColor .bgr565 ch := by
  unfold Bgr565_char_to_color
  split
  all_goals first
    | decide +kernel
    | (rename_i h1 h2 h3 h4 h5 h6 h7 h8
       have e1 : ¬ ch = 'K' := fun h => h1 h
       have e2 : ¬ ch = 'R' := fun h => h2 h
       have e3 : ¬ ch = 'G' := fun h => h3 h
       have e4 : ¬ ch = 'B' := fun h => h4 h
       have e5 : ¬ ch = 'Y' := fun h => h5 h
       have e6 : ¬ ch = 'M' := fun h => h6 h
       have e7 : ¬ ch = 'C' := fun h => h7 h
       have e8 : ¬ ch = 'W' := fun h => h8 h
       simp only [charToColor, CT.rgb, RgbLayout.named, List.lookup, beq_false_of_ne e1, beq_false_of_ne e2, beq_false_of_ne e3, beq_false_of_ne e4, beq_false_of_ne e5, beq_false_of_ne e6, beq_false_of_ne e7, beq_false_of_ne e8, toOpt, rs_panic])

theorem Bgr565_color_to_char_src_eq_model (c : Color) (h : ValidColor .bgr565 c) :
    toOpt (Bgr565_color_to_char c) = some (colorToChar .bgr565 c) := by
  unfold ValidColor at h
  by_cases h1 : c = ColorSrc.impl_rgb_color_BLACK (type_named "Bgr565")
  · subst h1; decide +kernel
  by_cases h2 : c = ColorSrc.impl_rgb_color_RED (type_named "Bgr565")
  · subst h2; decide +kernel
  by_cases h3 : c = ColorSrc.impl_rgb_color_GREEN (type_named "Bgr565")
  · subst h3; decide +kernel
  by_cases h4 : c = ColorSrc.impl_rgb_color_BLUE (type_named "Bgr565")
  · subst h4; decide +kernel
  by_cases h5 : c = ColorSrc.impl_rgb_color_YELLOW (type_named "Bgr565")
  · subst h5; decide +kernel
  by_cases h6 : c = ColorSrc.impl_rgb_color_MAGENTA (type_named "Bgr565")
  · subst h6; decide +kernel
  by_cases h7 : c = ColorSrc.impl_rgb_color_CYAN (type_named "Bgr565")
  · subst h7; decide +kernel
  by_cases h8 : c = ColorSrc.impl_rgb_color_WHITE (type_named "Bgr565")
  · subst h8; decide +kernel
  unfold Bgr565_color_to_char
  simp only [colorToChar, CT.rgb, Nat.mod_eq_of_lt h, ← Bgr565_named_src, List.find?, rs_eq, pure_def, toOpt,
    beq_false_of_ne h1, beq_false_of_ne h2, beq_false_of_ne h3, beq_false_of_ne h4, beq_false_of_ne h5, beq_false_of_ne h6, beq_false_of_ne h7, beq_false_of_ne h8,
    beq_false_of_ne (Ne.symm h1), beq_false_of_ne (Ne.symm h2), beq_false_of_ne (Ne.symm h3), beq_false_of_ne (Ne.symm h4), beq_false_of_ne (Ne.symm h5), beq_false_of_ne (Ne.symm h6), beq_false_of_ne (Ne.symm h7), beq_false_of_ne (Ne.symm h8), Bool.false_eq_true, ↓reduceIte]


theorem Rgb888_named_src : [('K', ColorSrc.impl_rgb_color_BLACK (type_named "Rgb888")), ('R', ColorSrc.impl_rgb_color_RED (type_named "Rgb888")), ('G', ColorSrc.impl_rgb_color_GREEN (type_named "Rgb888")), ('B', ColorSrc.impl_rgb_color_BLUE (type_named "Rgb888")), ('Y', ColorSrc.impl_rgb_color_YELLOW (type_named "Rgb888")), ('M', ColorSrc.impl_rgb_color_MAGENTA (type_named "Rgb888")), ('C', ColorSrc.impl_rgb_color_CYAN (type_named "Rgb888")), ('W', ColorSrc.impl_rgb_color_WHITE (type_named "Rgb888"))]
    = (⟨8, 8, 8, false⟩ : RgbLayout).named := by decide +kernel

theorem Rgb888_char_to_color_src_eq_model (ch : Char) : toOpt (Rgb888_char_to_color ch) = charToColor .rgb888 ch := by
  unfold Rgb888_char_to_color
  split
  all_goals first
    | decide +kernel
    | (rename_i h1 h2 h3 h4 h5 h6 h7 h8
       have e1 : ¬ ch = 'K' := fun h => h1 h
       have e2 : ¬ ch = 'R' := fun h => h2 h
       have e3 : ¬ ch = 'G' := fun h => h3 h
       have e4 : ¬ ch = 'B' := fun h => h4 h
       have e5 : ¬ ch = 'Y' := fun h => h5 h
       have e6 : ¬ ch = 'M' := fun h => h6 h
       have e7 : ¬ ch = 'C' := fun h => h7 h
       have e8 : ¬ ch = 'W' := fun h => h8 h
       simp only [charToColor, CT.rgb, RgbLayout.named, List.lookup, beq_false_of_ne e1, beq_false_of_ne e2, beq_false_of_ne e3, beq_false_of_ne e4, beq_false_of_ne e5, beq_false_of_ne e6, beq_false_of_ne e7, beq_false_of_ne e8, toOpt, rs_panic])

theorem Rgb888_color_to_char_src_eq_model (c : Color) (h : ValidColor .rgb888 c) :
    toOpt (Rgb888_color_to_char c) = some (colorToChar .rgb888 c) := by
  unfold ValidColor at h
  by_cases h1 : c = ColorSrc.impl_rgb_color_BLACK (type_named "Rgb888")
  · subst h1; decide +kernel
  by_cases h2 : c = ColorSrc.impl_rgb_color_RED (type_named "Rgb888")
  · subst h2; decide +kernel
  by_cases h3 : c = ColorSrc.impl_rgb_color_GREEN (type_named "Rgb888")
  · subst h3; decide +kernel
  by_cases h4 : c = ColorSrc.impl_rgb_color_BLUE (type_named "Rgb888")
  · subst h4; decide +kernel
  by_cases h5 : c = ColorSrc.impl_rgb_color_YELLOW (type_named "Rgb888")
  · subst h5; decide +kernel
  by_cases h6 : c = ColorSrc.impl_rgb_color_MAGENTA (type_named "Rgb888")
  · subst h6; decide +kernel
  by_cases h7 : c = ColorSrc.impl_rgb_color_CYAN (type_named "Rgb888")
  · subst h7; decide +kernel
  by_cases h8 : c = ColorSrc.impl_rgb_color_WHITE (type_named "Rgb888")
  · subst h8; decide +kernel
  unfold Rgb888_color_to_char
  simp only [colorToChar, CT.rgb, Nat.mod_eq_of_lt h, ← Rgb888_named_src, List.find?, rs_eq, pure_def, toOpt,
    beq_false_of_ne h1, beq_false_of_ne h2, beq_false_of_ne h3, beq_false_of_ne h4, beq_false_of_ne h5, beq_false_of_ne h6, beq_false_of_ne h7, beq_false_of_ne h8,
    beq_false_of_ne (Ne.symm h1), beq_false_of_ne (Ne.symm h2), beq_false_of_ne (Ne.symm h3), beq_false_of_ne (Ne.symm h4), beq_false_of_ne (Ne.symm h5), beq_false_of_ne (Ne.symm h6), beq_false_of_ne (Ne.symm h7), beq_false_of_ne (Ne.symm h8), Bool.false_eq_true, ↓reduceIte]


theorem Bgr888_named_src : [('K', ColorSrc.impl_rgb_color_BLACK (type_named "Bgr888")), ('R', ColorSrc.impl_rgb_color_RED (type_named "Bgr888")), ('G', ColorSrc.impl_rgb_color_GREEN (type_named "Bgr888")), ('B', ColorSrc.impl_rgb_color_BLUE (type_named "Bgr888")), ('Y', ColorSrc.impl_rgb_color_YELLOW (type_named "Bgr888")), ('M', ColorSrc.impl_rgb_color_MAGENTA (type_named "Bgr888")), ('C', ColorSrc.impl_rgb_color_CYAN (type_named "Bgr888")), ('W', ColorSrc.impl_rgb_color_WHITE (type_named "Bgr888"))]
    = (⟨8, 8, 8, true⟩ : RgbLayout).named := by decide +kernel

theorem Bgr888_char_to_color_src_eq_model (ch : Char) : toOpt (Bgr888_char_to_color ch) = charToColor .bgr888 ch := by
  unfold Bgr888_char_to_color
  split
  all_goals first
    | decide +kernel
    | (rename_i h1 h2 h3 h4 h5 h6 h7 h8
       have e1 : ¬ ch = 'K' := fun h => h1 h
       have e2 : ¬ ch = 'R' := fun h => h2 h
       have e3 : ¬ ch = 'G' := fun h => h3 h
       have e4 : ¬ ch = 'B' := fun h => h4 h
       have e5 : ¬ ch = 'Y' := fun h => h5 h
       have e6 : ¬ ch = 'M' := fun h => h6 h
       have e7 : ¬ ch = 'C' := fun h => h7 h
       have e8 : ¬ ch = 'W' := fun h => h8 h
       simp only [charToColor, CT.rgb, RgbLayout.named, List.lookup, beq_false_of_ne e1, beq_false_of_ne e2, beq_false_of_ne e3, beq_false_of_ne e4, beq_false_of_ne e5, beq_false_of_ne e6, beq_false_of_ne e7, beq_false_of_ne e8, toOpt, rs_panic])

theorem Bgr888_color_to_char_src_eq_model (c : Color) (h : ValidColor .bgr888 c) :
    toOpt (Bgr888_color_to_char c) = some (colorToChar .bgr888 c) := by
  unfold ValidColor at h
  by_cases h1 : c = ColorSrc.impl_rgb_color_BLACK (type_named "Bgr888")
  · subst h1; decide +kernel
  by_cases h2 : c = ColorSrc.impl_rgb_color_RED (type_named "Bgr888")
  · subst h2; decide +kernel
  by_cases h3 : c = ColorSrc.impl_rgb_color_GREEN (type_named "Bgr888")
  · subst h3; decide +kernel
  by_cases h4 : c = ColorSrc.impl_rgb_color_BLUE (type_named "Bgr888")
  · subst h4; decide +kernel
  by_cases h5 : c = ColorSrc.impl_rgb_color_YELLOW (type_named "Bgr888")
  · subst h5; decide +kernel
  by_cases h6 : c = ColorSrc.impl_rgb_color_MAGENTA (type_named "Bgr888")
  · subst h6; decide +kernel
  by_cases h7 : c = ColorSrc.impl_rgb_color_CYAN (type_named "Bgr888")
  · subst h7; decide +kernel
  by_cases h8 : c = ColorSrc.impl_rgb_color_WHITE (type_named "Bgr888")
  · subst h8; decide +kernel
  unfold Bgr888_color_to_char
  simp only [colorToChar, CT.rgb, Nat.mod_eq_of_lt h, ← Bgr888_named_src, List.find?, rs_eq, pure_def, toOpt,
    beq_false_of_ne h1, beq_false_of_ne h2, beq_false_of_ne h3, beq_false_of_ne h4, beq_false_of_ne h5, beq_false_of_ne h6, beq_false_of_ne h7, beq_false_of_ne h8,
    beq_false_of_ne (Ne.symm h1), beq_false_of_ne (Ne.symm h2), beq_false_of_ne (Ne.symm h3), beq_false_of_ne (Ne.symm h4), beq_false_of_ne (Ne.symm h5), beq_false_of_ne (Ne.symm h6), beq_false_of_ne (Ne.symm h7), beq_false_of_ne (Ne.symm h8), Bool.false_eq_true, ↓reduceIte]


/-! ### the dispatchers: `C::char_to_color` / `C::color_to_char` for a generic `C: ColorMapping` -/

/-- `C::char_to_color(c)`, every colour type, every char. -/
theorem ColorMapping_char_to_color_src_eq_model (C : CT) (ch : Char) :
    toOpt (ColorMapping_char_to_color C ch) = charToColor C ch := by
  cases C
  · exact BinaryColor_char_to_color_src_eq_model ch
  · exact Gray2_char_to_color_src_eq_model ch
  · exact Gray4_char_to_color_src_eq_model ch
  · exact Gray8_char_to_color_src_eq_model ch
  · exact Rgb332_char_to_color_src_eq_model ch
  · exact Rgb444_char_to_color_src_eq_model ch
  · exact Rgb555_char_to_color_src_eq_model ch
  · exact Bgr555_char_to_color_src_eq_model ch
  · exact Rgb565_char_to_color_src_eq_model ch
  · exact Bgr565_char_to_color_src_eq_model ch
  · exact Rgb888_char_to_color_src_eq_model ch
  · exact Bgr888_char_to_color_src_eq_model ch

/-- `C::color_to_char(c)`, every colour type, every valid colour value: never panics, same character. -/
theorem ColorMapping_color_to_char_src_eq_model (C : CT) (c : Color) (h : ValidColor C c) :
    toOpt (ColorMapping_color_to_char C c) = some (colorToChar C c) := by
  cases C
  · exact BinaryColor_color_to_char_src_eq_model c h
  · exact Gray2_color_to_char_src_eq_model c h
  · exact Gray4_color_to_char_src_eq_model c h
  · exact Gray8_color_to_char_src_eq_model c h
  · exact Rgb332_color_to_char_src_eq_model c h
  · exact Rgb444_color_to_char_src_eq_model c h
  · exact Rgb555_color_to_char_src_eq_model c h
  · exact Bgr555_color_to_char_src_eq_model c h
  · exact Rgb565_color_to_char_src_eq_model c h
  · exact Bgr565_color_to_char_src_eq_model c h
  · exact Rgb888_color_to_char_src_eq_model c h
  · exact Bgr888_color_to_char_src_eq_model c h

/-- outside the valid range the regenerated gray `color_to_char` PANICS (`from_digit(..).unwrap()`) where the hand model
reduces modulo the width: the guard is needed (no Rust value of the type is outside the range). -/
theorem color_to_char_differs_without_guard :
    toOpt (ColorMapping_color_to_char .gray2 4) = none ∧ colorToChar .gray2 4 = '0' := by decide +kernel

end EG.C20.GeneratedColors
