/-
  C20 (observation made precise) — colours outside a type's colour set.

  `ColorMapping::color_to_char` prints a colour that is not in the type's colour set as '?'
  (`Gray8`: a luma whose two hex digits differ; RGB types: a colour that is none of the eight named
  constants), and `char_to_color('?')` panics for every colour type. So the `{:?}` text of a
  display holding such a colour cannot be read back by `from_pattern`: this is outside the property's
  quantifier ("patterns over each colour type's character set"), the harness only counts it
  (`obs:debug-unrepresentable:rt-*`). Here the mechanism is proved on the model:
  `color_to_char_question_iff` (exactly the colours outside the colour set print as '?', for every
  colour type and every raw value), `question_mark_is_rejected`, `pattern_with_question_mark_panics`.
-/
import EG.Props.C20.PatternText
namespace EG.C20.Unrepresentable
open EG EG.Mock

/-- **`char_to_color('?')` panics for every colour type.** -/
theorem question_mark_is_rejected : ∀ ct ∈ allCT, charToColor ct '?' = none := by decide +kernel

/-- The RGB arm of `color_to_char`: the result is '?' iff the colour is none of the named ones. -/
theorem named_find_question (named : List (Char × Color)) (k : Color) (hq : ∀ e ∈ named, e.1 ≠ '?') :
    (match named.find? (fun e => e.2 == k) with
      | some e => e.1
      | none => '?') = '?' ↔ k ∉ named.map (·.2) := by
  cases h : named.find? (fun e => e.2 == k) with
  | none =>
    simp only [true_iff]
    intro hm
    obtain ⟨e, he, rfl⟩ := List.mem_map.mp hm
    have := List.find?_eq_none.mp h e he
    simp at this
  | some e =>
    have hmem := List.mem_of_find?_eq_some h
    have hk : e.2 = k := by simpa using List.find?_some h
    constructor
    · intro hq'; exact absurd hq' (hq e hmem)
    · intro hn; exact absurd (List.mem_map.mpr ⟨e, hmem, hk⟩) hn

/-- The grey arms, decided over the masked raw values. -/
theorem gray_question_table :
    (∀ k, k < 2 → (colorToChar .binary k = '?' ↔ k ∉ palette .binary)) ∧
    (∀ k, k < 4 → (colorToChar .gray2 k = '?' ↔ k ∉ palette .gray2)) ∧
    (∀ k, k < 16 → (colorToChar .gray4 k = '?' ↔ k ∉ palette .gray4)) ∧
    (∀ k, k < 256 → (colorToChar .gray8 k = '?' ↔ k ∉ palette .gray8)) := by decide +kernel

/-- `color_to_char` reads the raw value modulo the type's width (the constructors mask it). -/
theorem color_to_char_masked (ct : CT) (c : Color) :
    colorToChar ct c = colorToChar ct (c % 2 ^ ct.bits) := by
  cases ct <;> simp [colorToChar, CT.bits, CT.rgb, Nat.mod_mod]

/-- The named colours of the RGB types are their colour set, and none is printed as '?'. -/
theorem rgb_named_table : ∀ ct ∈ allCT, ∀ l, ct.rgb = some l →
    palette ct = l.named.map (·.2) ∧ ∀ e ∈ l.named, e.1 ≠ '?' := by decide +kernel

/-- **Exactly the colours outside the type's colour set print as '?'** - every colour type, every
raw value (`Gray8`: the values that are not multiples of 0x11; RGB types: everything but the eight
named colours; `BinaryColor`, `Gray2`, `Gray4`: never). -/
theorem color_to_char_question_iff (ct : CT) (c : Color) :
    colorToChar ct c = '?' ↔ c % 2 ^ ct.bits ∉ palette ct := by
  rw [color_to_char_masked]
  have hlt : c % 2 ^ ct.bits < 2 ^ ct.bits := Nat.mod_lt _ (Nat.pos_of_ne_zero (by simp))
  generalize c % 2 ^ ct.bits = k at hlt ⊢
  obtain ⟨h1, h2, h3, h4⟩ := gray_question_table
  have hrgb : ∀ l, ct.rgb = some l →
      (colorToChar ct k = match l.named.find? (fun e => e.2 == k % 2 ^ ct.bits) with
        | some e => e.1
        | none => '?') := by
    intro l hl
    cases ct <;> simp [CT.rgb] at hl <;> subst hl <;> rfl
  have hk : k % 2 ^ ct.bits = k := Nat.mod_eq_of_lt hlt
  cases hct : ct.rgb with
  | none =>
    cases ct <;> simp [CT.rgb] at hct
    · exact h1 k hlt
    · exact h2 k hlt
    · exact h3 k hlt
    · exact h4 k hlt
  | some l =>
    obtain ⟨hp, hq⟩ := rgb_named_table ct (mem_allCT ct) l hct
    rw [hrgb l hct, hk, hp]
    exact named_find_question l.named k hq

example : colorToChar .gray8 0x12 = '?' ∧ colorToChar .gray8 0x33 = '3' ∧
    colorToChar .rgb565 0x1234 = '?' ∧ colorToChar .rgb565 0xF800 = 'R' := by decide

/-- **A pattern containing '?' is rejected by `from_pattern`** (if it gets past the three shape
checks it panics in `char_to_color`; it is never accepted). -/
theorem pattern_with_question_mark_panics (ct : CT) (pattern : List (List Char))
    (h : ∃ r ∈ pattern, '?' ∈ r) : ∀ d, fromPattern ct pattern ≠ .ok d := by
  intro d hok
  obtain ⟨-, -, -, rows, hrows, -⟩ := ((PatternText.from_pattern_decision ct pattern).2.2.2.2 d).mp hok
  obtain ⟨r, hr, hq⟩ := h
  have : convRows ct pattern = none :=
    (convRows_none_iff ct pattern).mpr ⟨r, hr, '?', hq, by decide,
      question_mark_is_rejected ct (mem_allCT ct)⟩
  rw [this] at hrows
  cases hrows
example : ∃ r ∈ [['#', '?'], ['.', '.']], '?' ∈ r := ⟨_, List.mem_cons_self, by decide⟩

/-- With the right shape (at most 64 rows, all rows as wide as the first, at most 64 bytes) the
outcome is exactly the `char_to_color` panic. -/
theorem well_shaped_pattern_with_question_mark (ct : CT) (pattern : List (List Char))
    (hw : patWidth pattern ≤ 64) (hh : pattern.length ≤ 64)
    (hr : ∀ r ∈ pattern, rowLen r = patWidth pattern) (h : ∃ r ∈ pattern, '?' ∈ r) :
    fromPattern ct pattern = .panicChar := by
  obtain ⟨r, hrm, hq⟩ := h
  exact ((PatternText.from_pattern_decision ct pattern).2.2.2.1).mpr
    ⟨hw, hh, hr, r, hrm, '?', hq, by decide, question_mark_is_rejected ct (mem_allCT ct)⟩
example : patWidth [['#', '?'], ['.', '.']] ≤ 64 ∧ [['#', '?'], ['.', '.']].length ≤ 64 ∧
    (∀ r ∈ [['#', '?'], ['.', '.']], rowLen r = patWidth [['#', '?'], ['.', '.']]) := by decide

end EG.C20.Unrepresentable
