/-
  C20 / from_pattern's assertions and the framing of the `{:?}` text.

  * `from_pattern` makes four checks in a fixed order (first row at most 64 bytes wide; at most 64
    rows; every row as wide as the first, in bytes; every character a space or one `char_to_color`
    accepts). The model `fromPattern` transcribes them arm for arm; `from_pattern_decision` is the
    decision table: each of the five outcomes characterised by the input alone, so "which assertion
    fires first" is a theorem about the model (the tie model <-> code is the `err=` field of every
    `mock.pattern` op).
  * The `{:?}` text is modelled completely (`MD.debugText`: "MockDisplay[", the rows,
    "(n empty rows skipped)", "]") and compared with the real text through the hash `dh=` on every
    `mock.hist` op. `debug_text_is_frame_of_rows`: the whole text is a function of the printed rows
    (`frameText`): the header, one line per printed row of exactly 64 characters, the skipped-rows line
    with `n = 64 - number of printed rows` exactly when `n > 0`, the closing line. Hence the round-trip
    theorems of Props/C20.lean, which speak about the rows, carry over to the complete text.
-/
import EG.Lemmas.Glue2MockPattern
import EG.Props.C20
namespace EG.C20.PatternText
open EG EG.Mock

/-! ### `from_pattern`: the decision table -/

/-- **Which assertion of `from_pattern` fires**: `panicWidth` iff the first row is wider than 64
bytes (whatever else is wrong); else `panicHeight` iff there are more than 64 rows; else `panicRow` iff
some row's byte width differs from the first row's; else `panicChar` iff some character is neither a
space nor accepted by `char_to_color`; else the display built from the converted rows. -/
theorem from_pattern_decision (ct : CT) (pattern : List (List Char)) :
    (fromPattern ct pattern = .panicWidth ↔ 64 < patWidth pattern) ∧
    (fromPattern ct pattern = .panicHeight ↔ patWidth pattern ≤ 64 ∧ 64 < pattern.length) ∧
    (fromPattern ct pattern = .panicRow ↔ patWidth pattern ≤ 64 ∧ pattern.length ≤ 64 ∧
      ∃ r ∈ pattern, rowLen r ≠ patWidth pattern) ∧
    (fromPattern ct pattern = .panicChar ↔ patWidth pattern ≤ 64 ∧ pattern.length ≤ 64 ∧
      (∀ r ∈ pattern, rowLen r = patWidth pattern) ∧
      ∃ r ∈ pattern, ∃ c ∈ r, c ≠ ' ' ∧ charToColor ct c = none) ∧
    (∀ d, fromPattern ct pattern = .ok d ↔ patWidth pattern ≤ 64 ∧ pattern.length ≤ 64 ∧
      (∀ r ∈ pattern, rowLen r = patWidth pattern) ∧
      ∃ rows, convRows ct pattern = some rows ∧ d = ⟨cellsOfPattern rows, false, false⟩) :=
  fromPattern_decision ct pattern

/-- `pattern.first().map_or(0, |row| row.len())`: 0 for the empty pattern, else the BYTE length of the
first row. -/
theorem pat_width_eq (r : List Char) (rest : List (List Char)) :
    patWidth [] = 0 ∧ patWidth (r :: rest) = rowLen r := ⟨rfl, rfl⟩

/-- The order matters: an over-wide first row wins over everything else, an over-tall pattern over a
ragged one, a ragged one over an unknown character (kernel-evaluated instances). -/
theorem from_pattern_precedence :
    fromPattern .binary (List.replicate 65 (List.replicate 65 'x')) = .panicWidth ∧
    fromPattern .binary (['#'] :: List.replicate 64 ['x', 'x']) = .panicHeight ∧
    fromPattern .binary [['#'], ['x', 'x']] = .panicRow ∧
    fromPattern .binary [['#'], ['x']] = .panicChar :=
  ⟨((from_pattern_decision _ _).1).mpr (by decide), ((from_pattern_decision _ _).2.1).mpr (by decide),
    ((from_pattern_decision _ _).2.2.1).mpr (by decide), ((from_pattern_decision _ _).2.2.2.1).mpr (by decide)⟩

/-- The width check is on BYTES (`str::len`): a row of 33 two-byte characters is rejected as too wide
although it has fewer than 64 characters. -/
theorem from_pattern_width_in_bytes :
    (List.replicate 33 'é').length = 33 ∧ fromPattern .binary [List.replicate 33 'é'] = .panicWidth :=
  ⟨by decide, ((from_pattern_decision _ _).1).mpr (by decide)⟩

/-! ### the `{:?}` text -/

/-- The printed rows: `64 - empty_rows` of them, each of exactly 64 characters; `empty_rows <= 64`. -/
theorem debug_rows_shape (ct : CT) (d : MD) :
    (d.debugRows ct).length = 64 - d.emptyRows ∧ d.emptyRows ≤ 64 ∧ ∀ r ∈ d.debugRows ct, r.length = 64 :=
  ⟨debugRows_length ct d, emptyRows_le d, debugRows_row_length ct d⟩

/-- **The complete `{:?}` text is the frame around the printed rows**: "MockDisplay[\n", each printed
row followed by "\n", "(n empty rows skipped)\n" with `n = 64 - number of printed rows` iff `n > 0`,
"]\n" — a function of the printed rows alone. -/
theorem debug_text_is_frame_of_rows (ct : CT) (d : MD) : d.debugText ct = frameText (d.debugRows ct) :=
  debugText_eq_frame ct d

/-- The frame, spelled out. -/
theorem frame_text_eq (rows : List (List Char)) :
    frameText rows = "MockDisplay[\n" ++ String.join (rows.map (fun r => String.ofList r ++ "\n")) ++
      (if 64 - rows.length > 0 then "(" ++ toString (64 - rows.length) ++ " empty rows skipped)\n" else "") ++
      "]\n" := rfl

/-- Evaluated: the empty display, and a display with one pixel in row 2. -/
theorem debug_text_examples :
    MD.new.debugText .binary = "MockDisplay[\n(64 empty rows skipped)\n]\n" ∧
    (MD.new.upd (2 * 64 + 1) (some 1)).debugText .binary =
      "MockDisplay[\n" ++ String.ofList (List.replicate 64 ' ') ++ "\n" ++
      String.ofList (List.replicate 64 ' ') ++ "\n" ++
      String.ofList (' ' :: '#' :: List.replicate 62 ' ') ++ "\n(61 empty rows skipped)\n]\n" := by
  constructor <;> decide +kernel

/-- Two displays print the same rows iff — then they print the same text. -/
theorem debug_text_congr (ct : CT) (d d' : MD) (h : d.debugRows ct = d'.debugRows ct) :
    d.debugText ct = d'.debugText ct := by
  rw [debug_text_is_frame_of_rows, debug_text_is_frame_of_rows, h]
example : (MD.new.upd 5 (some 1)).debugRows .binary =
    (⟨(MD.new.upd 5 (some 1)).pixels, false, false⟩ : MD).debugRows .binary := rfl

/-- **display -> text -> display -> text, on the complete text**: for every display over its type's
colour set, `from_pattern` of the printed rows is a display that prints the very same `{:?}` text. -/
theorem debug_text_roundtrip (ct : CT) (d : MD)
    (hpal : ∀ p, Inside p → ∀ c, d.getPixel p = some (some c) → c ∈ palette ct) :
    ∃ d', fromPattern ct (d.debugRows ct) = .ok d' ∧ d'.debugText ct = d.debugText ct := by
  refine ⟨⟨d.pixels, false, false⟩, ?_, rfl⟩
  apply fromPattern_debugRows
  intro c hc col hcol
  obtain ⟨p, hp, hcell⟩ := mem_pixels_toList d c hc
  apply hpal p hp col
  rw [getPixel_inside d hp, hcell, hcol]
example : ∀ p, Inside p → ∀ c, (MD.new.upd 5 (some 1)).getPixel p = some (some c) → c ∈ palette .binary := by
  intro p hp c hc
  rw [getPixel_inside _ hp] at hc
  unfold MD.cell at hc
  rw [get_upd _ _ _ _ (by decide), get_new] at hc
  split at hc
  · simp only [Option.some.injEq] at hc; subst hc; decide
  · cases hc

/-- **text -> display -> text, on the complete text**: for every accepted pattern the `{:?}` text of
`from_pattern(pattern)` is the frame around the pattern's normal form (canonical characters, rows
padded to 64 columns, trailing blank rows dropped and counted in the skipped-rows line). -/
theorem pattern_debug_text (ct : CT) (pat : List (List Char)) (d : MD) (h : fromPattern ct pat = .ok d) :
    d.debugText ct = frameText (dropTrailing blankRow (pat.map (normRow ct))) := by
  rw [debug_text_is_frame_of_rows, C20.debug_pattern_roundtrip ct pat d h]
example : ∃ d, fromPattern .gray4 [['a', ' ', '3'], [' ', ' ', ' ']] = .ok d :=
  ⟨_, fromPattern_ok .gray4 _ [[some 10, none, some 3], [none, none, none]] 3 (by omega)
    (by decide) (by decide) (by decide)⟩

end EG.C20.PatternText
